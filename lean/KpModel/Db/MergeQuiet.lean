import KpModel.Db.MergeInv
/-!
# A merge that reports no event changed nothing

Every mutation of the destination goes with an event: the event log only grows, and when a part of the merge adds no event the
tree (and, in the deletion passes, the tombstone list) is what it was.
-/
namespace Kp.Merge
open Node

/-- the log grew by `extra`; nothing logged ⇒ the tree is unchanged -/
def Quiet (s s' : St) : Prop := ∃ extra, s'.events = s.events ++ extra ∧ (extra = [] → s'.root = s.root)

theorem Quiet.refl (s : St) : Quiet s s := ⟨[], by simp, fun _ => rfl⟩

theorem Quiet.trans {a b c : St} (h1 : Quiet a b) (h2 : Quiet b c) : Quiet a c := by
  obtain ⟨e1, he1, hr1⟩ := h1
  obtain ⟨e2, he2, hr2⟩ := h2
  refine ⟨e1 ++ e2, by rw [he2, he1, List.append_assoc], fun h => ?_⟩
  have h1' : e1 = [] := (List.append_eq_nil_iff.mp h).1
  have h2' : e2 = [] := (List.append_eq_nil_iff.mp h).2
  rw [hr2 h2', hr1 h1']

/-- a step that logs an event -/
theorem Quiet.logged (s : St) (r : Node) (t : EvType) (u : Nat) : Quiet s ({ s with root := r }.ev t u) :=
  ⟨[(t, u)], rfl, fun h => by cases h⟩

theorem Quiet.ev (s : St) (t : EvType) (u : Nat) : Quiet s (s.ev t u) :=
  ⟨[(t, u)], rfl, fun h => by cases h⟩

theorem relocate_events_same (s s' : St) (u : Nat) (a b : List Nat) (ts : Int) (h : relocate s u a b ts = .ok s') :
    s'.events = s.events := by
  unfold relocate at h
  split at h
  · cases h
  · split at h
    · cases h
    · dsimp only at h
      split at h
      · cases h
      · injection h with h; subst h; rfl

theorem mergeEntryStep_quiet (now : Int) (tombs : List Tomb) (s s' : St) (path : List Nat) (inDeleted : Bool) (oe : Entry)
    (h : mergeEntryStep now tombs s path inDeleted oe = .ok s') : Quiet s s' := by
  unfold mergeEntryStep at h
  split at h
  · split at h
    · cases h
    · rename_i existing0 _
      have jp : ∀ (s1 : St) (eloc : List Nat) (existing : Entry) (s' : St),
          (do
            let upd ← entryUpdate now existing oe
            match upd with
              | none => pure s1
              | some merged =>
                match findEntry s1.root eloc with
                | none => Except.error MErr.findEntry
                | some _ =>
                  pure ({ s1 with root := updatePath s1.root eloc (fun _ => Node.entry merged) }.ev .entryUpdated merged.d.uuid)) = .ok s' →
          Quiet s1 s' := by
        intro s1 eloc existing s'' hk
        obtain ⟨upd, _, hk⟩ := except_bind_ok hk
        cases upd with
        | none => simp only at hk; injection hk with hk; subst hk; exact Quiet.refl _
        | some merged =>
          simp only at hk
          split at hk
          · cases hk
          · injection hk with hk; subst hk
            exact Quiet.logged s1 _ _ _
      dsimp only at h
      split at h
      · split at h
        · obtain ⟨s2, hs2, h⟩ := except_bind_ok h
          obtain ⟨x, hx, h⟩ := except_bind_ok h
          cases hx
          -- relocated: the event was logged before
          have hq := jp s2 _ _ s' h
          obtain ⟨e2, he2, _⟩ := hq
          have hev := relocate_events_same _ s2 _ _ _ _ hs2
          refine ⟨(EvType.entryLocationUpdated, oe.d.uuid) :: e2, ?_, fun hc => by cases hc⟩
          rw [he2, hev]
          simp [St.ev]
        · obtain ⟨x, hx, h⟩ := except_bind_ok h
          cases hx
          exact jp s _ _ s' h
      · obtain ⟨x, hx, h⟩ := except_bind_ok h
        cases hx
        exact jp s _ _ s' h
  · split at h
    · injection h with h; subst h; exact Quiet.refl _
    · split at h
      · injection h with h; subst h; exact Quiet.refl _
      · split at h
        · cases h
        · injection h with h; subst h
          exact Quiet.logged s _ _ _

/-- the group's own data: an update is logged, and without one the node is rewritten with what it held -/
theorem groupMergeData_noUpdate (now : Int) (du dc : Nat) (dt : Times) (su sc : Nat) (st : Times) (c' : Nat) (t' : Times)
    (h : groupMergeData now du dc dt su sc st = .ok (c', t', false)) : c' = dc ∧ t' = dt := by
  unfold groupMergeData at h
  dsimp only at h
  split at h
  · split at h
    · cases h
    · injection h with h; injection h with a b; injection b with b _; exact ⟨a.symm, b.symm⟩
  · split at h
    · injection h with h; injection h with a b; injection b with b _; exact ⟨a.symm, b.symm⟩
    · injection h with h; injection h with a b; injection b with b c; cases c

mutual
  theorem mergeGroup_quiet (now : Int) (tombs : List Tomb) :
      ∀ (g : Node) (s s' : St) (path : List Nat) (inDel : Bool), Inv s.root →
        mergeGroup now tombs s path g inDel = .ok s' → Quiet s s'
    | .entry _, s, s', _, _, _, h => by
      simp only [mergeGroup] at h
      injection h with h; subst h; exact Quiet.refl _
    | .group gu gc gt cs, s, s', path, inDel, hI, h => by
      unfold mergeGroup at h
      dsimp only at h
      have jp : ∀ (s1 : St) (p1 : List Nat), Inv s1.root →
          (do
            let s ← mergeEntries now tombs s1 p1 inDel cs
            mergeSubgroups now tombs s p1 inDel cs) = .ok s' → Quiet s1 s' := by
        intro s1 p1 hI1 hk
        obtain ⟨s2, hs2, hk⟩ := except_bind_ok hk
        exact (mergeEntries_quiet now tombs cs s1 s2 p1 inDel hI1 hs2).trans
          (mergeSubgroups_quiet now tombs cs s2 s' p1 inDel (mergeEntries_inv now tombs cs s1 s2 p1 inDel hI1 hs2) hk)
      split at h
      · obtain ⟨x, hx, h⟩ := except_bind_ok h
        cases hx
        exact jp s path hI h
      · rename_i dloc hloc
        split at h
        · obtain ⟨x, hx, h⟩ := except_bind_ok h
          cases hx
        · rename_i du dc dt dch hfg
          obtain ⟨x, hx, h⟩ := except_bind_ok h
          obtain ⟨c', t', upd⟩ := x
          dsimp only at h
          obtain ⟨y, hy, h⟩ := except_bind_ok h
          cases hy
          have hgp := (findGroup_some hfg).1
          have hI' : Inv (updatePath s.root (dloc ++ [gu]) (fun n => match n with
              | .group u _ _ ch => .group u c' t' ch
              | e => e)) :=
            inv_update_same s.root (.group du dc dt dch) _ _ hI (by simp) hgp (by simp [uuidsN])
          have hq : Quiet s (if upd = true then (St.mk (updatePath s.root (dloc ++ [gu]) (fun n => match n with
              | .group u _ _ ch => .group u c' t' ch
              | e => e)) s.events).ev .groupUpdated du else St.mk (updatePath s.root (dloc ++ [gu]) (fun n => match n with
              | .group u _ _ ch => .group u c' t' ch
              | e => e)) s.events) := by
            cases upd with
            | true => simp only [↓reduceIte]; exact Quiet.logged s _ _ _
            | false =>
              simp only [Bool.false_eq_true, ↓reduceIte]
              obtain ⟨hc, ht⟩ := groupMergeData_noUpdate now du dc dt gu gc gt c' t' hx
              subst hc; subst ht
              refine ⟨[], by simp, fun _ => ?_⟩
              exact updatePath_id _ s.root _ _ hI.1 hgp rfl
          refine hq.trans (jp _ _ ?_ h)
          split
          · rw [ev_root]; exact hI'
          · exact hI'
        · obtain ⟨x, hx, h⟩ := except_bind_ok h
          cases hx

  theorem mergeEntries_quiet (now : Int) (tombs : List Tomb) :
      ∀ (cs : List Node) (s s' : St) (path : List Nat) (inDel : Bool), Inv s.root →
        mergeEntries now tombs s path inDel cs = .ok s' → Quiet s s'
    | [], s, s', _, _, _, h => by
      simp only [mergeEntries] at h
      injection h with h; subst h; exact Quiet.refl _
    | .entry e :: rest, s, s', path, inDel, hI, h => by
      unfold mergeEntries at h
      obtain ⟨s1, hs1, h⟩ := except_bind_ok h
      exact (mergeEntryStep_quiet now tombs s s1 path inDel e hs1).trans
        (mergeEntries_quiet now tombs rest s1 s' path inDel (mergeEntryStep_inv now tombs s s1 path inDel e hI hs1) h)
    | .group _ _ _ _ :: rest, s, s', path, inDel, hI, h => by
      unfold mergeEntries at h
      exact mergeEntries_quiet now tombs rest s s' path inDel hI h

  theorem mergeSubgroups_quiet (now : Int) (tombs : List Tomb) :
      ∀ (cs : List Node) (s s' : St) (path : List Nat) (inDel : Bool), Inv s.root →
        mergeSubgroups now tombs s path inDel cs = .ok s' → Quiet s s'
    | [], s, s', _, _, _, h => by
      simp only [mergeSubgroups] at h
      injection h with h; subst h; exact Quiet.refl _
    | .entry _ :: rest, s, s', path, inDel, hI, h => by
      unfold mergeSubgroups at h
      exact mergeSubgroups_quiet now tombs rest s s' path inDel hI h
    | .group ou oc ot ocs :: rest, s, s', path, inDel, hI, h => by
      unfold mergeSubgroups at h
      dsimp only at h
      have viaGroup : ∀ (s0 : St) (b : Bool), Inv s0.root →
          (do
            let s ← mergeGroup now tombs s0 (path ++ [ou]) (.group ou oc ot ocs) b
            mergeSubgroups now tombs s (refreshPath s.root path) inDel rest) = .ok s' → Quiet s0 s' := by
        intro s0 b hI0 hk
        obtain ⟨s1, hs1, hk⟩ := except_bind_ok hk
        exact (mergeGroup_quiet now tombs (.group ou oc ot ocs) s0 s1 _ b hI0 hs1).trans
          (mergeSubgroups_quiet now tombs rest s1 s' _ inDel (mergeGroup_inv now tombs _ s0 s1 _ b hI0 hs1) hk)
      split at h
      · exact viaGroup s true hI h
      · split at h
        · split at h
          · split at h
            · obtain ⟨x, hx, h⟩ := except_bind_ok h
              cases hx
            · split at h
              · obtain ⟨s2, hs2, h⟩ := except_bind_ok h
                have hev := relocate_events_same s s2 _ _ _ _ hs2
                have hI2 := relocate_inv s s2 _ _ _ _ hI hs2
                obtain ⟨e2, he2, _⟩ := viaGroup (s2.ev .groupLocationUpdated ou) inDel (by rw [ev_root]; exact hI2) h
                refine ⟨(EvType.groupLocationUpdated, ou) :: e2, ?_, fun hc => by cases hc⟩
                rw [he2]
                simp [St.ev, hev]
              · exact viaGroup s inDel hI h
          · exact viaGroup s inDel hI h
        · rename_i hloc
          split at h
          · obtain ⟨x, hx, h⟩ := except_bind_ok h
            cases hx
          · rename_i pg hfg
            rw [ev_root] at hfg
            have hI' : Inv (updatePath s.root path (fun p => p.setChildren (p.children ++ [Node.group ou oc ot []]))) := by
              refine inv_add_child s.root pg (.group ou oc ot []) path hI hfg (by simp [uuidsN, uuidsL]) ?_
              intro x hx
              simp only [uuidsN, uuidsL, List.mem_cons, List.not_mem_nil, or_false] at hx
              subst hx
              exact findLoc_none_notMem s.root _ hloc
            obtain ⟨e2, he2, _⟩ := viaGroup (St.mk (updatePath (s.ev .groupCreated ou).root path (fun p => p.setChildren (p.children ++ [Node.group ou oc ot []]))) (s.ev .groupCreated ou).events)
              inDel hI' h
            refine ⟨(EvType.groupCreated, ou) :: e2, ?_, fun hc => by cases hc⟩
            rw [he2]
            simp [St.ev]
end

/-! ### root, passes, deletions, the whole merge -/

theorem mergeRoot_quiet (now : Int) (s s' : St) (srcRoot : Node) (h : mergeRoot now s srcRoot = .ok s') : Quiet s s' := by
  obtain ⟨root, ev⟩ := s
  cases root with
  | entry e => simp only [mergeRoot] at h; injection h with h; subst h; exact Quiet.refl _
  | group du dc dt ch =>
    cases srcRoot with
    | entry e => simp only [mergeRoot] at h; injection h with h; subst h; exact Quiet.refl _
    | group su sc st sch =>
      simp only [mergeRoot] at h
      split at h
      · obtain ⟨x, hx, h⟩ := except_bind_ok h
        obtain ⟨c', t', upd⟩ := x
        dsimp only at h
        injection h with h; subst h
        cases upd with
        | true => simp only [↓reduceIte]; exact Quiet.logged _ _ _ _
        | false =>
          simp only [Bool.false_eq_true, ↓reduceIte]
          obtain ⟨hc, ht⟩ := groupMergeData_noUpdate now du dc dt su sc st c' t' hx
          subst hc; subst ht
          exact Quiet.refl _
      · injection h with h; subst h; exact Quiet.refl _

theorem mergePasses_quiet (now : Int) (tombs : List Tomb) (srcRoot : Node) : ∀ (k : Nat) (s s' : St), Inv s.root →
    mergePasses now tombs srcRoot k s = .ok s' → Quiet s s' := by
  intro k
  induction k with
  | zero => intro s s' _ h; simp only [mergePasses] at h; injection h with h; subst h; exact Quiet.refl _
  | succ k ih =>
    intro s s' hI h
    unfold mergePasses at h
    split at h
    · cases h
    · rename_i s1 hs1
      have hI1 : Inv s1.root := mergeGroup_inv now tombs srcRoot { s with events := [] } s1 [] false hI hs1
      obtain ⟨e1, he1, hr1⟩ := mergeGroup_quiet now tombs srcRoot { s with events := [] } s1 [] false hI hs1
      have q1 : Quiet s ({ s1 with events := s.events ++ s1.events } : St) := by
        refine ⟨e1, ?_, fun hc => hr1 hc⟩
        show s.events ++ s1.events = s.events ++ e1
        rw [he1]; rfl
      dsimp only at h
      split at h
      · injection h with h; subst h; exact q1
      · exact q1.trans (ih _ s' (show Inv ({ s1 with events := s.events ++ s1.events } : St).root from hI1) h)

/-- the deletion passes: an event per removal; nothing logged ⇒ tree and tombstone list unchanged -/
def QuietD (s : St) (nt : List Tomb) (s' : St) (nt' : List Tomb) : Prop :=
  ∃ extra, s'.events = s.events ++ extra ∧ (extra = [] → s'.root = s.root ∧ nt' = nt)

theorem QuietD.refl (s : St) (nt : List Tomb) : QuietD s nt s nt := ⟨[], by simp, fun _ => ⟨rfl, rfl⟩⟩

theorem QuietD.after_log (s : St) (r : Node) (t : EvType) (u : Nat) (nt nt1 : List Tomb) (s' : St) (nt' : List Tomb)
    (h : QuietD ({ s with root := r }.ev t u) nt1 s' nt') : QuietD s nt s' nt' := by
  obtain ⟨e, he, _⟩ := h
  refine ⟨(t, u) :: e, ?_, fun hc => by cases hc⟩
  rw [he]; simp [St.ev]

theorem deleteEntries_quiet (now : Int) : ∀ (ts : List Tomb) (s : St) (nt : List Tomb) (s' : St) (nt' : List Tomb),
    deleteEntries now s nt ts = .ok (s', nt') → QuietD s nt s' nt' := by
  intro ts
  induction ts with
  | nil =>
    intro s nt s' nt' h
    simp only [deleteEntries, Except.ok.injEq, Prod.mk.injEq] at h
    obtain ⟨rfl, rfl⟩ := h
    exact QuietD.refl _ _
  | cons d rest ih =>
    intro s nt s' nt' h
    unfold deleteEntries at h
    split at h
    · exact ih s nt s' nt' h
    · split at h
      · exact ih s nt s' nt' h
      · split at h
        · cases h
        · split at h
          · exact ih s nt s' nt' h
          · split at h
            · split at h
              · cases h
              · exact QuietD.after_log s _ _ _ nt _ s' nt' (ih _ _ s' nt' h)
            · exact ih s nt s' nt' h

theorem gdecide_delete_logs (now : Int) (s : St) (nt : List Tomb) (d : Tomb) (q : List Tomb) (s' : St) (nt' : List Tomb)
    (h : gdecide now s nt d q = .delete s' nt') : ∃ r, s' = ({ s with root := r } : St).ev .groupDeleted d.uuid := by
  unfold gdecide at h
  split at h
  · cases h
  · split at h
    · cases h
    · split at h
      · cases h
      · split at h
        · cases h
        · dsimp only at h
          split at h
          · cases h
          · split at h
            · cases h
            · split at h
              · cases h
              · split at h
                · split at h
                  · cases h
                  · injection h with h1 h2
                    exact ⟨_, h1.symm⟩
                · cases h

theorem deleteGroups_quiet (now : Int) : ∀ (fuel : Nat) (s : St) (nt q : List Tomb) (s' : St) (nt' : List Tomb),
    deleteGroups now fuel s nt q = .ok (s', nt') → QuietD s nt s' nt' := by
  intro fuel
  induction fuel with
  | zero =>
    intro s nt q s' nt' h
    unfold deleteGroups at h
    split at h
    · injection h with h; injection h with h1 h2; subst h1; subst h2; exact QuietD.refl _ _
    · cases h
  | succ n ih =>
    intro s nt q s' nt' h
    cases q with
    | nil =>
      unfold deleteGroups at h
      injection h with h; injection h with h1 h2; subst h1; subst h2; exact QuietD.refl _ _
    | cons d q =>
      rw [deleteGroups_step] at h
      split at h
      · exact ih s nt q s' nt' h
      · exact ih s nt _ s' nt' h
      · rename_i s1 nt1 hdec
        obtain ⟨r, hr⟩ := gdecide_delete_logs now s nt d q s1 nt1 hdec
        subst hr
        exact QuietD.after_log s r _ _ nt nt1 s' nt' (ih _ nt1 q s' nt' h)
      · cases h

/-- **a merge that reports no event changed nothing**: the tree and the tombstone list of the result are the destination's -/
theorem merge_quiet (now : Int) (dst src d' : Db) (hI : Inv dst.root) (h : merge now dst src = .ok (d', [])) :
    d'.root = dst.root ∧ d'.tombs = dst.tombs := by
  unfold merge at h
  dsimp only at h
  obtain ⟨s1, hs1, h⟩ := except_bind_ok h
  have q1 := mergeRoot_quiet now _ s1 src.root hs1
  have hI1 := mergeRoot_inv now _ s1 src.root hI hs1
  obtain ⟨s2, hs2, h⟩ := except_bind_ok h
  have q2 := mergePasses_quiet now dst.tombs src.root _ s1 s2 hI1 hs2
  obtain ⟨x, hx, h⟩ := except_bind_ok h
  obtain ⟨s3, tombs⟩ := x
  dsimp only at h
  injection h with h; injection h with h1 h2
  subst h1
  simp only
  unfold mergeDeletions at hx
  obtain ⟨r, hr4, hx⟩ := except_bind_ok hx
  obtain ⟨s4, nt4⟩ := r
  dsimp only at hx
  obtain ⟨e12, he12, hr12⟩ := q1.trans q2
  obtain ⟨e3, he3, hr3⟩ := deleteEntries_quiet now src.tombs s2 dst.tombs s4 nt4 hr4
  obtain ⟨e4, he4, hr4'⟩ := deleteGroups_quiet now _ s4 nt4 _ s3 tombs hx
  -- all the pieces of the log are empty
  have hall : s3.events = [] ++ e12 ++ e3 ++ e4 := by rw [he4, he3, he12]
  rw [h2] at hall
  have h4e : e4 = [] := by
    cases e4 with
    | nil => rfl
    | cons a b => simp at hall
  subst h4e
  have h3e : e3 = [] := by
    cases e3 with
    | nil => rfl
    | cons a b => simp at hall
  subst h3e
  have h12e : e12 = [] := by
    cases e12 with
    | nil => rfl
    | cons a b => simp at hall
  subst h12e
  obtain ⟨r4, t4⟩ := hr4' rfl
  obtain ⟨r3, t3⟩ := hr3 rfl
  have r12 := hr12 rfl
  exact ⟨by rw [r4, r3, r12], by rw [t4, t3]⟩
