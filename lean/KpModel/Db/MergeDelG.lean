import KpModel.Db.MergeDel
/-!
# A group is not deleted by an older tombstone

A group that the destination holds and the source's tree no longer holds stays, untombstoned, when none of the source's
tombstones for it is later than the group's last modification in the destination.
-/
namespace Kp.Merge
open Node

/-- the destination holds a group (not an entry) with UUID `u` whose modification time is `m` -/
structure LiveG (u : Nat) (m : Option Int) (r : Node) : Prop where
  holds : HoldsG u r
  mt : allG (fun x _ t => x = u → t.mtime = m) r
  noEntry : allE (fun e => e.d.uuid ≠ u) r

theorem LiveG.remove {u : Nat} {m : Option Int} {r : Node} (h : LiveG u m r) (parent parent' last : Node) (loc : List Nat) (x : Nat)
    (h3 : findGroup r loc = some parent) (h9 : removeNode parent x = some (parent', last)) (hlast : uuidsN last = [x])
    (hx : x ≠ u) : LiveG u m (updatePath r loc (fun _ => parent')) := by
  have hI := h.holds.1.1
  obtain ⟨gp, gpg⟩ := findGroup_some h3
  obtain ⟨_, _, hp'⟩ := removeNode_facts parent parent' last x h9
  have hsub := remove_step_sublist r parent parent' last loc x hI.1 h3 h9
  have hpg : parent'.isGroup = true := by
    rw [hp']; cases parent <;> simp [Node.setChildren, Node.isGroup] at gpg ⊢
  have hg' := updatePath_isGroup loc r (fun _ => parent') hI.1 (fun _ => hpg)
  obtain ⟨_, hperm⟩ := remove_perm r parent parent' last x loc hI h3 h9
  refine ⟨⟨⟨⟨hg', List.Nodup.sublist hsub hI.2⟩, ?_⟩, ?_⟩, remove_step_allG _ r parent parent' last loc x h.mt h3 h9,
    remove_step_allE _ r parent parent' last loc x h.noEntry h3 h9⟩
  · have := hperm.mem_iff.mp h.holds.1.2
    simp only [List.mem_append, hlast, List.mem_singleton] at this
    rcases this with h1 | h1
    · exact h1
    · exact absurd h1.symm hx
  · rw [updatePath_root_uuid r loc _ hI.1 (fun e => by
      subst e
      simp only [getPath, Option.some.injEq] at gp
      rw [hp', setChildren_uuid, gp])]
    exact h.holds.2

/-- the entry pass removes entries only -/
theorem deleteEntries_liveG (now : Int) (u : Nat) (m : Option Int) : ∀ (ts : List Tomb) (s : St) (nt : List Tomb) (s' : St) (nt' : List Tomb),
    LiveG u m s.root → tombsContain nt u = false → deleteEntries now s nt ts = .ok (s', nt') →
    LiveG u m s'.root ∧ tombsContain nt' u = false := by
  intro ts
  induction ts with
  | nil =>
    intro s nt s' nt' hL hnt h
    simp only [deleteEntries, Except.ok.injEq, Prod.mk.injEq] at h
    obtain ⟨rfl, rfl⟩ := h
    exact ⟨hL, hnt⟩
  | cons d rest ih =>
    intro s nt s' nt' hL hnt h
    unfold deleteEntries at h
    split at h
    · exact ih s nt s' nt' hL hnt h
    · split at h
      · exact ih s nt s' nt' hL hnt h
      · rename_i loc hloc
        split at h
        · cases h
        · rename_i parent h3
          split at h
          · exact ih s nt s' nt' hL hnt h
          · rename_i e hfe
            split at h
            · split at h
              · cases h
              · rename_i parent' last h9
                have hI := hL.holds.1.1
                obtain ⟨gp, gpg⟩ := findGroup_some h3
                obtain ⟨hlu, hlm, hp'⟩ := removeNode_facts parent parent' last d.uuid h9
                have hpn : (uuidsL parent.children).Nodup := by
                  cases loc with
                  | nil => simp only [getPath, Option.some.injEq] at gp; subst gp; exact hI.2
                  | cons u0 rest0 =>
                    have := (getPath_sublist_children u0 rest0 s.root parent hI.1 gp).nodup hI.2
                    rw [uuidsN_group parent gpg] at this
                    exact (List.nodup_cons.mp this).2
                have hge := findEntry_some hfe
                have hem : Node.entry e ∈ parent.children ∧ (Node.entry e).uuid = d.uuid := by
                  have := hge
                  simp only [getPath] at this
                  exact ⟨(find_first this).1, by simpa using (find_first this).2⟩
                have hlast : last = Node.entry e := uuid_unique_child _ _ _ hpn hlm hem.1 (by rw [hlu, hem.2])
                -- the node removed is an entry, so it is not the group followed
                have hne : d.uuid ≠ u := by
                  have hpa := allE_getPath _ loc s.root parent hL.noEntry gp
                  have hea := allE_getPath _ [d.uuid] parent _ hpa hge
                  simp only [allE] at hea
                  have : e.d.uuid = d.uuid := hem.2
                  rw [← this]; exact hea
                have hL' := hL.remove parent parent' last loc d.uuid h3 h9
                  (by rw [hlast]; simp only [uuidsN]; rw [← hem.2]; rfl) hne
                have hnt' : tombsContain (nt ++ [d]) u = false := by
                  rw [tombsContain_append, hnt]
                  simp [tombsContain, hne]
                exact ih _ _ s' nt' (by rw [ev_root]; exact hL') hnt' h
            · exact ih s nt s' nt' hL hnt h

/-- the group pass: the group followed is removed only by a tombstone for it that is later than its modification time -/
theorem gdecide_delete_liveG (now : Int) (u : Nat) (m : Option Int) (s : St) (nt : List Tomb) (d : Tomb) (q : List Tomb) (s' : St)
    (nt' : List Tomb) (hL : LiveG u m s.root) (hnt : tombsContain nt u = false) (hd : d.uuid = u → ¬ (m.getD now < d.time))
    (h : gdecide now s nt d q = .delete s' nt') : LiveG u m s'.root ∧ tombsContain nt' u = false := by
  have hI := hL.holds.1.1
  unfold gdecide at h
  split at h
  · cases h
  · split at h
    · cases h
    · rename_i loc hloc
      split at h
      · cases h
      · rename_i parent h3
        split at h
        · cases h
        · rename_i grp hfg
          dsimp only at h
          split at h
          · cases h
          · rename_i hent
            split at h
            · cases h
            · split at h
              · cases h
              · rename_i hgrp
                split at h
                · rename_i hnewer
                  split at h
                  · cases h
                  · rename_i parent' last h9
                    injection h with h1 h2
                    subst h1; subst h2
                    obtain ⟨gp, gpg⟩ := findGroup_some h3
                    obtain ⟨hlu, hlm, _⟩ := removeNode_facts parent parent' last d.uuid h9
                    have hpn : (uuidsL parent.children).Nodup := by
                      cases loc with
                      | nil => simp only [getPath, Option.some.injEq] at gp; subst gp; exact hI.2
                      | cons u0 rest0 =>
                        have := (getPath_sublist_children u0 rest0 s.root parent hI.1 gp).nodup hI.2
                        rw [uuidsN_group parent gpg] at this
                        exact (List.nodup_cons.mp this).2
                    obtain ⟨hgg, hggg⟩ := findGroup_some hfg
                    have hgm : grp ∈ parent.children ∧ grp.uuid = d.uuid := by
                      simp only [getPath] at hgg
                      exact ⟨(find_first hgg).1, by simpa using (find_first hgg).2⟩
                    have hlast : last = grp := uuid_unique_child _ _ _ hpn hlm hgm.1 (by rw [hlu, hgm.2])
                    have hempty : grp.children = [] := by
                      have he : (grp.children.filter (fun c => !c.isGroup)) = [] := by
                        simpa using hent
                      have hg : (grp.children.filter (·.isGroup)) = [] := by
                        simpa using hgrp
                      cases hc : grp.children with
                      | nil => rfl
                      | cons c cs =>
                        rw [hc] at he hg
                        by_cases hcg : c.isGroup = true
                        · simp [hcg] at hg
                        · simp [hcg] at he
                    -- the group removed has a newer tombstone, so it is not the group followed
                    have hne : d.uuid ≠ u := by
                      intro e
                      have hpa := allG_getPath _ loc s.root parent hL.mt gp
                      have hga := allG_getPath _ [d.uuid] parent grp hpa hgg
                      cases grp with
                      | entry _ => cases hggg
                      | group x c t cs =>
                        simp only [allG] at hga
                        have hx : x = u := by have := hgm.2; simp only [Node.uuid] at this; rw [this, e]
                        have hm := hga.1 hx
                        simp only [Node.times] at hnewer
                        rw [hm] at hnewer
                        exact hd e hnewer
                    refine ⟨?_, ?_⟩
                    · rw [ev_root]
                      exact hL.remove parent parent' last loc d.uuid h3 h9
                        (by rw [hlast, uuidsN_group grp hggg, hempty, hgm.2]; rfl) hne
                    · rw [tombsContain_append, hnt]
                      simp [tombsContain, hne]
                · cases h

theorem deleteGroups_liveG (now : Int) (u : Nat) (m : Option Int) : ∀ (fuel : Nat) (s : St) (nt q : List Tomb) (s' : St) (nt' : List Tomb),
    LiveG u m s.root → tombsContain nt u = false → (∀ d ∈ q, d.uuid = u → ¬ (m.getD now < d.time)) →
    deleteGroups now fuel s nt q = .ok (s', nt') → LiveG u m s'.root ∧ tombsContain nt' u = false := by
  intro fuel
  induction fuel with
  | zero =>
    intro s nt q s' nt' hL hnt _ h
    unfold deleteGroups at h
    split at h
    · injection h with h; injection h with h1 h2; subst h1; subst h2; exact ⟨hL, hnt⟩
    · cases h
  | succ n ih =>
    intro s nt q s' nt' hL hnt hq h
    cases q with
    | nil =>
      unfold deleteGroups at h
      injection h with h; injection h with h1 h2; subst h1; subst h2; exact ⟨hL, hnt⟩
    | cons d q =>
      have hq' : ∀ d' ∈ q, d'.uuid = u → ¬ (m.getD now < d'.time) := fun d' hd' => hq d' (List.mem_cons_of_mem _ hd')
      rw [deleteGroups_step] at h
      split at h
      · exact ih s nt q s' nt' hL hnt hq' h
      · refine ih s nt _ s' nt' hL hnt (fun d' hd' => ?_) h
        rcases List.mem_append.mp hd' with hd' | hd'
        · exact hq' d' hd'
        · simp only [List.mem_singleton] at hd'; subst hd'; exact hq d' List.mem_cons_self
      · rename_i s1 nt1 hdec
        obtain ⟨hL1, hnt1⟩ := gdecide_delete_liveG now u m s nt d q s1 nt1 hL hnt (hq d List.mem_cons_self) hdec
        exact ih s1 nt1 q s' nt' hL1 hnt1 hq' h
      · cases h

/-- **a group is kept unless a tombstone for it is newer**: the destination holds the group below its root, has no tombstone
    for it, and the source's tree does not hold it; when none of the source's tombstones for it is later than the group's last
    modification in the destination, the group is in the result and no tombstone for it is recorded. -/
theorem merge_group_kept (now : Int) (dst src d' : Db) (evs : List Event) (hI : Inv dst.root)
    (hfd : dst.root.uuid ∉ uuidsL dst.root.children) (hsg : src.root.isGroup = true)
    (h : merge now dst src = .ok (d', evs)) (pd : List Nat) (hpd : pd ≠ []) (u c : Nat) (t : Times) (ch : List Node)
    (hd : getPath dst.root pd = some (.group u c t ch))
    (hsrc : u ∉ uuidsL src.root.children) (hsr : src.root.uuid ≠ u) (hnt : tombsContain dst.tombs u = false)
    (hall : ∀ d ∈ src.tombs, d.uuid = u → ¬ (t.mtime.getD now < d.time)) :
    u ∈ uuidsL d'.root.children ∧ tombsContain d'.tombs u = false := by
  let G : GP := fun x _ z => x = u → z.mtime = t.mtime
  let P : Entry → Prop := fun e => e.d.uuid ≠ u
  have hmem : u ∈ uuidsL dst.root.children := getPath_uuids pd dst.root _ hpd hd u (by simp [uuidsN])
  have hH0 : HoldsG u dst.root := ⟨⟨hI, hmem⟩, fun e => hfd (e ▸ hmem)⟩
  have hG0 : allG G dst.root := allG_only (fun _ _ z => z.mtime = t.mtime) dst.root pd u c t ch hI hfd hpd hd rfl
  -- the only node with this UUID is the group: no entry has it
  have hP0 : allE P dst.root := by
    have hsub : (uuidsN (Node.group u c t ch)).Sublist (uuidsL dst.root.children) := by
      cases pd with
      | nil => exact absurd rfl hpd
      | cons a b => exact getPath_sublist_children a b dst.root _ hI.1 hd
    have hnd : (uuidsN (Node.group u c t ch)).Nodup := List.Nodup.sublist hsub hI.2
    simp only [uuidsN, List.nodup_cons] at hnd
    have key := allE_updatePath_at (fun _ => True) P (fun x => x) [u] (fun e _ hne hx => hne (by simp [hx])) pd dst.root _ hI.1 hI.2 hd
      (by intro y hy; simp only [List.mem_singleton] at hy; subst hy; simp [uuidsN]) (allE_true _) (by
        simp only [allE]
        exact allEL_disjoint (fun _ => True) P [u] (fun e _ hne hx => hne (by simp [hx])) ch (allEL_true ch) (fun x hx hxl => by
          simp only [List.mem_singleton] at hxl; subst hxl; exact hnd.1 hx))
    rwa [updatePath_id pd dst.root _ (fun x => x) hI.1 hd rfl] at key
  have hSg : allG (SrcOkG G u now) src.root := by
    have hab : allG (fun x _ _ => x ≠ u) src.root :=
      allG_absent (fun _ _ _ => True) _ u (fun _ _ _ _ hne => hne) src.root hsr hsrc (allG_true _)
    exact allG_mono _ _ (fun x _ _ hx => ⟨fun _ he => absurd he hx, fun _ _ _ _ _ _ _ he => absurd he hx⟩) _ hab
  have hSe : allE (SrcOk P u now) src.root := by
    have hab : allE (fun e => e.d.uuid ≠ u) src.root :=
      allE_absent (fun _ => True) _ u (fun _ _ hne => hne) src.root hsg hsrc (allE_true _)
    refine allE_mono _ _ (fun oe hoe => ⟨fun _ => hoe, fun ex m hue hex hupd => ?_⟩) _ hab
    rcases entryUpdate_some now ex oe m hupd with ⟨_, hu, _⟩ | ⟨_, hu, _⟩
    · show m.d.uuid ≠ u
      rw [hu]; exact hex
    · show m.d.uuid ≠ u
      rw [hu]; exact hoe
  unfold merge at h
  dsimp only at h
  obtain ⟨s1, hs1, h⟩ := except_bind_ok h
  have hH1 := holdsG_mergeRoot u now _ s1 src.root hH0 hs1
  have hP1 := mergeRoot_allE P now _ s1 src.root hI.1 hP0 hs1
  have hG1 := mergeRoot_allG G now _ s1 src.root (fun _ _ hx => absurd hx hH0.2) hG0 hs1
  obtain ⟨s2, hs2, h⟩ := except_bind_ok h
  obtain ⟨hP2, _⟩ := mergePasses_allE P (fun _ _ hx => hx) u now dst.tombs src.root hSe _ s1 s2 hH1.1 hP1 hs2
  obtain ⟨hG2, hH2⟩ := mergePasses_allG G (fun _ _ _ _ hx => hx) u now dst.tombs src.root hSg _ s1 s2 hH1 hG1 hs2
  have hL2 : LiveG u t.mtime s2.root := ⟨hH2, hG2, hP2⟩
  obtain ⟨x, hx, h⟩ := except_bind_ok h
  obtain ⟨s3, tombs⟩ := x
  dsimp only at h
  injection h with h; injection h with h1 h2
  subst h1
  simp only
  unfold mergeDeletions at hx
  obtain ⟨r, hr4, hx⟩ := except_bind_ok hx
  obtain ⟨s4, nt4⟩ := r
  dsimp only at hx
  obtain ⟨hL4, ht4⟩ := deleteEntries_liveG now u t.mtime src.tombs s2 dst.tombs s4 nt4 hL2 hnt hr4
  obtain ⟨hL3, ht3⟩ := deleteGroups_liveG now u t.mtime _ s4 nt4 _ s3 tombs hL4 ht4
    (fun d hd => hall d (List.mem_filter.mp hd).1) hx
  exact ⟨hL3.holds.1.2, ht3⟩
