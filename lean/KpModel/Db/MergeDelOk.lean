import KpModel.Db.MergeNoPanic
/-!
# The deletion phase of `merge` always succeeds

`merge_deletions` looks every tombstoned node up with `find_node_location`, fetches the parent with `find_group` and removes the
child with `remove_node`.  On a sound tree (a group with pairwise distinct UUIDs below it) neither of the two can fail:
`find_node_location` is sound (`findLoc_sound`), so the parent is there and holds a child with that UUID.  Together with
`mergeDeletions_terminates` (the work queue drains) the phase returns `Ok` on every input.
-/
namespace Kp.Merge
open Node

theorem removeNode_isSome (g n : Node) (u : Nat) (h : g.children.find? (·.uuid == u) = some n) :
    ∃ r, removeNode g u = some r := by
  unfold removeNode
  have hm : n ∈ g.children.filter (·.uuid == u) := by
    rw [List.mem_filter]
    exact ⟨List.mem_of_find?_eq_some h, List.find?_some (p := fun (x : Node) => x.uuid == u) h⟩
  cases hl : (g.children.filter (·.uuid == u)).getLast? with
  | none =>
    rw [List.getLast?_eq_none_iff] at hl
    rw [hl] at hm; cases hm
  | some last => exact ⟨_, rfl⟩

/-- on a sound tree the parent that `find_node_location` names is there and `remove_node` finds the child -/
theorem findLoc_parent (root : Node) (id : Nat) (loc : List Nat) (hI : Inv root) (h : findLoc root id = some loc) :
    ∃ g, findGroup root loc = some g ∧ ∃ r, removeNode g id = some r := by
  obtain ⟨loc', g, n, hl, hg, hn, _, _⟩ := findLoc_sound root id hI (findLoc_some_mem root id loc h)
  rw [h] at hl
  injection hl with hl
  subst hl
  refine ⟨g, hg, ?_⟩
  simp only [getPath] at hn
  exact removeNode_isSome g n id hn

/-- removing a child keeps the tree sound -/
theorem inv_removeChild (root parent parent' last : Node) (loc : List Nat) (u : Nat) (hI : Inv root)
    (h3 : findGroup root loc = some parent) (h9 : removeNode parent u = some (parent', last)) :
    Inv (updatePath root loc (fun _ => parent')) := by
  obtain ⟨hr, hn⟩ := hI
  obtain ⟨gp, gpg⟩ := findGroup_some h3
  have hp' : parent' = parent.setChildren (parent.children.filter (fun c => !(c.uuid == u))) := by
    unfold removeNode at h9
    split at h9
    · cases h9
    · simp only [Option.some.injEq, Prod.mk.injEq] at h9
      exact h9.1.symm
  have hsub : (uuidsN parent').Sublist (uuidsN parent) := by
    rw [hp', uuidsN_setChildren _ _ gpg, uuidsN_group parent gpg]
    exact List.Sublist.cons_cons _ (uuidsL_filter_sublist _ _)
  have hpg : parent'.isGroup = true := by
    rw [hp']; cases parent <;> simp [Node.setChildren, Node.isGroup] at gpg ⊢
  have hg' := updatePath_isGroup loc root (fun _ => parent') hr (fun _ => hpg)
  have hs1 := uuidsN_updatePath_sublist loc root parent (fun _ => parent') hr gp hsub
  rw [uuidsN_group _ hg', uuidsN_group _ hr] at hs1
  have hs2 : (uuidsL (updatePath root loc fun _ => parent').children).Sublist (uuidsL root.children) := by
    have := List.Sublist.tail hs1
    simpa using this
  exact ⟨hg', List.Nodup.sublist hs2 hn⟩

/-- pass 1 of `merge_deletions` returns `Ok` on every sound tree -/
theorem deleteEntries_ok (now : Int) : ∀ (ts : List Tomb) (s : St) (nt : List Tomb), Inv s.root →
    ∃ r, deleteEntries now s nt ts = .ok r := by
  intro ts
  induction ts with
  | nil => intro s nt _; exact ⟨(s, nt), by simp only [deleteEntries]⟩
  | cons d rest ih =>
    intro s nt hI
    unfold deleteEntries
    split
    · exact ih s nt hI
    · split
      · exact ih s nt hI
      · rename_i loc hloc
        obtain ⟨g, hg, r, hrm⟩ := findLoc_parent s.root d.uuid loc hI hloc
        rw [hg]
        dsimp only
        split
        · exact ih s nt hI
        · split
          · obtain ⟨parent', last⟩ := r
            rw [hrm]
            dsimp only
            refine ih _ _ ?_
            rw [ev_root]
            exact inv_removeChild s.root g parent' last loc d.uuid hI hg hrm
          · exact ih s nt hI

/-- a decision of pass 2 is never an error on a sound tree -/
theorem gdecide_noErr (now : Int) (s : St) (nt : List Tomb) (d : Tomb) (q : List Tomb) (e : MErr) (hI : Inv s.root) :
    gdecide now s nt d q ≠ .err e := by
  intro h
  unfold gdecide at h
  split at h
  · cases h
  · split at h
    · cases h
    · rename_i loc hloc
      obtain ⟨g, hg, r, hrm⟩ := findLoc_parent s.root d.uuid loc hI hloc
      rw [hg] at h
      dsimp only at h
      split at h
      · cases h
      · split at h
        · cases h
        · split at h
          · cases h
          · split at h
            · cases h
            · split at h
              · rw [hrm] at h
                cases h
              · cases h

/-- pass 2 fails only by running out of fuel -/
theorem deleteGroups_errors (now : Int) : ∀ (fuel : Nat) (s : St) (nt q : List Tomb) (e : MErr), Inv s.root →
    deleteGroups now fuel s nt q = .error e → e = .outOfFuel := by
  intro fuel
  induction fuel with
  | zero =>
    intro s nt q e _ h
    unfold deleteGroups at h
    split at h
    · cases h
    · injection h with h; exact h.symm
  | succ n ih =>
    intro s nt q e hI h
    cases q with
    | nil => unfold deleteGroups at h; cases h
    | cons d q =>
      rw [deleteGroups_step] at h
      split at h
      · exact ih s nt q e hI h
      · exact ih s nt _ e hI h
      · rename_i s1 nt1 hd
        obtain ⟨h1, h2⟩ := gdecide_delete_inv now s nt d q s1 nt1 hI.1 hI.2 hd
        exact ih s1 nt1 q e ⟨h1, h2⟩ h
      · rename_i e' he
        exact absurd he (gdecide_noErr now s nt d q e' hI)

/-- **the deletion phase returns `Ok`** on every sound destination tree, for every source and every pair of tombstone lists -/
theorem mergeDeletions_ok (now : Int) (dstTombs : List Tomb) (s : St) (src : Db) (hI : Inv s.root) :
    ∃ r, mergeDeletions now dstTombs s src = .ok r := by
  unfold mergeDeletions
  obtain ⟨r1, hr1⟩ := deleteEntries_ok now src.tombs s dstTombs hI
  obtain ⟨s1, nt1⟩ := r1
  have hI1 := (deleteEntries_inv now src.tombs s dstTombs hI.1 hI.2).2 s1 nt1 hr1
  rw [hr1]
  simp only [bind, Except.bind]
  cases hm : deleteGroups now (deletionFuel (src.tombs.filter (fun d => !tombsContain nt1 d.uuid))) s1 nt1
      (src.tombs.filter (fun d => !tombsContain nt1 d.uuid)) with
  | ok r => exact ⟨r, rfl⟩
  | error e =>
    exfalso
    have := deleteGroups_errors now _ s1 nt1 _ e ⟨hI1.1, hI1.2⟩ hm
    subst this
    exact deleteGroups_enough now _ _ s1 nt1 _ rfl hI1.1 hI1.2 (fuelFor_le _) hm

end Kp.Merge
