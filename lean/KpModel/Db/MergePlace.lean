import KpModel.Db.MergeNoPanic
/-!
# Last mover wins: where an entry lives after the merge

`allC P` says that every group of a subtree satisfies `P uuid (UUIDs of its children)`.  With it the parent of one entry is
followed through the merge without positional reasoning: "every group that has a child with UUID `u` is the group `X`".
-/
namespace Kp.Merge
open Node

def childIds (cs : List Node) : List Nat := cs.map (·.uuid)

abbrev CP := Nat → List Nat → Prop

mutual
  def allC (P : CP) : Node → Prop
    | .group u _ _ cs => P u (childIds cs) ∧ allCL P cs
    | .entry _ => True
  def allCL (P : CP) : List Node → Prop
    | [] => True
    | c :: cs => allC P c ∧ allCL P cs
end

theorem allCL_mem (P : CP) : ∀ (cs : List Node) (c : Node), allCL P cs → c ∈ cs → allC P c := by
  intro cs
  induction cs with
  | nil => intro c _ h; cases h
  | cons c0 cs ih =>
    intro c ht hc
    simp only [allCL] at ht
    rcases List.mem_cons.mp hc with rfl | h
    · exact ht.1
    · exact ih c ht.2 h

theorem allCL_append (P : CP) (a b : List Node) : allCL P (a ++ b) ↔ allCL P a ∧ allCL P b := by
  induction a with
  | nil => simp [allCL]
  | cons c cs ih => simp [allCL, ih, and_assoc]

theorem allCL_filter (P : CP) (p : Node → Bool) : ∀ (cs : List Node), allCL P cs → allCL P (cs.filter p) := by
  intro cs
  induction cs with
  | nil => intro h; exact h
  | cons c cs ih =>
    intro h
    simp only [allCL] at h
    simp only [List.filter_cons]
    split
    · exact ⟨h.1, ih h.2⟩
    · exact ih h.2

theorem allC_children (P : CP) (g : Node) (h : allC P g) : allCL P g.children := by
  cases g with
  | group u c t cs => simp only [allC] at h; exact h.2
  | entry e => simp [Node.children, allCL]

theorem allC_own (P : CP) (g : Node) (hg : g.isGroup = true) (h : allC P g) : P g.uuid (childIds g.children) := by
  cases g with
  | group u c t cs => simp only [allC] at h; exact h.1
  | entry e => cases hg

theorem allC_mk (P : CP) (g : Node) (cs : List Node) (hown : g.isGroup = true → P g.uuid (childIds cs)) (hcs : allCL P cs) :
    allC P (g.setChildren cs) := by
  cases g with
  | group u c t ch => exact ⟨hown rfl, hcs⟩
  | entry e => trivial

theorem childIds_updFirst (p : Node → Bool) (f : Node → Node) : ∀ (cs : List Node) (c : Node), cs.find? p = some c →
    (f c).uuid = c.uuid → childIds (updFirst p f cs) = childIds cs := by
  intro cs
  induction cs with
  | nil => intro c h; cases h
  | cons c0 cs ih =>
    intro c hf hu
    simp only [updFirst]
    by_cases hp : p c0 = true
    · simp only [List.find?_cons, hp] at hf
      injection hf with hf; subst hf
      simp only [hp, ↓reduceIte, childIds, List.map_cons, hu]
    · have hp' : p c0 = false := by simpa using hp
      simp only [List.find?_cons, hp'] at hf
      simp only [hp', Bool.false_eq_true, ↓reduceIte, childIds, List.map_cons]
      have := ih c hf hu
      simp only [childIds] at this
      rw [this]

theorem allCL_updFirst_node (P : CP) (p : Node → Bool) (f : Node → Node) : ∀ (cs : List Node) (c : Node), cs.find? p = some c →
    allCL P cs → allC P (f c) → allCL P (updFirst p f cs) := by
  intro cs
  induction cs with
  | nil => intro c h; cases h
  | cons c0 cs ih =>
    intro c hf hP hQ
    simp only [allCL] at hP
    simp only [updFirst]
    by_cases hp : p c0 = true
    · simp only [List.find?_cons, hp] at hf
      injection hf with hf; subst hf
      simp only [hp, ↓reduceIte, allCL]
      exact ⟨hQ, hP.2⟩
    · have hp' : p c0 = false := by simpa using hp
      simp only [List.find?_cons, hp'] at hf
      simp only [hp', Bool.false_eq_true, ↓reduceIte, allCL]
      exact ⟨hP.1, ih c hf hP.2 hQ⟩

/-- only the designated node is replaced, by a node with the same UUID -/
theorem allC_updatePath_node (P : CP) (f : Node → Node) : ∀ (path : List Nat) (root n : Node), getPath root path = some n →
    allC P root → allC P (f n) → (f n).uuid = n.uuid → allC P (updatePath root path f) := by
  intro path
  induction path with
  | nil =>
    intro root n hg _ hQ _
    simp only [getPath, Option.some.injEq] at hg; subst hg
    simp only [updatePath]; exact hQ
  | cons u rest ih =>
    intro root n hg hP hQ hu
    cases rest with
    | nil =>
      simp only [getPath] at hg
      simp only [updatePath]
      refine allC_mk P root _ (fun hr => ?_) (allCL_updFirst_node P _ f _ n hg (allC_children P root hP) hQ)
      rw [childIds_updFirst _ f _ n hg hu]
      exact allC_own P root hr hP
    | cons v rest' =>
      simp only [getPath] at hg
      simp only [updatePath]
      cases hc : root.children.find? (fun n => n.isGroup && n.uuid == u) with
      | none => rw [hc] at hg; cases hg
      | some c =>
        rw [hc] at hg
        simp only at hg
        have ⟨hcm, hcp⟩ := find_first hc
        have hcg : c.isGroup = true := by
          simp only [Bool.and_eq_true] at hcp; exact hcp.1
        refine allC_mk P root _ (fun hr => ?_) (allCL_updFirst_node P _ _ _ c hc (allC_children P root hP)
          (ih c n hg (allCL_mem P _ c (allC_children P root hP) hcm) hQ hu))
        rw [childIds_updFirst _ _ _ c hc (updatePath_uuid c v rest' f hcg)]
        exact allC_own P root hr hP

theorem allC_getPath (P : CP) : ∀ (path : List Nat) (root n : Node), allC P root → getPath root path = some n → allC P n := by
  intro path
  induction path with
  | nil => intro root n h hg; simp only [getPath, Option.some.injEq] at hg; subst hg; exact h
  | cons u rest ih =>
    intro root n h hg
    cases rest with
    | nil =>
      simp only [getPath] at hg
      exact allCL_mem P _ n (allC_children P root h) (find_first hg).1
    | cons v rest' =>
      simp only [getPath] at hg
      cases hc : root.children.find? (fun n => n.isGroup && n.uuid == u) with
      | none => rw [hc] at hg; cases hg
      | some c =>
        rw [hc] at hg
        simp only at hg
        exact ih c n (allCL_mem P _ c (allC_children P root h) (find_first hc).1) hg

theorem allC_setLoc (P : CP) (n : Node) (ts : Int) (h : allC P n) : allC P (n.setLoc ts) := by
  cases n with
  | group u c t cs => simp only [Node.setLoc, allC] at h ⊢; exact h
  | entry e => trivial

theorem setLoc_uuid' (n : Node) (ts : Int) : (n.setLoc ts).uuid = n.uuid := by
  cases n <;> rfl

mutual
  theorem allC_mono (P Q : CP) (hPQ : ∀ x ids, P x ids → Q x ids) : ∀ (n : Node), allC P n → allC Q n
    | .group u c t cs, h => by simp only [allC] at h ⊢; exact ⟨hPQ _ _ h.1, allCL_mono P Q hPQ cs h.2⟩
    | .entry e, _ => trivial
  theorem allCL_mono (P Q : CP) (hPQ : ∀ x ids, P x ids → Q x ids) : ∀ (cs : List Node), allCL P cs → allCL Q cs
    | [], _ => trivial
    | c :: cs, h => by simp only [allCL] at h ⊢; exact ⟨allC_mono P Q hPQ c h.1, allCL_mono P Q hPQ cs h.2⟩
end

theorem childIds_subset_uuidsL : ∀ (cs : List Node), ∀ i ∈ childIds cs, i ∈ uuidsL cs := by
  intro cs
  induction cs with
  | nil => intro i h; simp [childIds] at h
  | cons c cs ih =>
    intro i h
    simp only [childIds, List.map_cons, List.mem_cons] at h
    simp only [uuidsL, List.mem_append]
    rcases h with h | h
    · exact Or.inl (h ▸ uuid_mem_uuidsN c)
    · exact Or.inr (ih i (by simpa [childIds] using h))

mutual
  /-- a UUID that is nowhere below a node is no group's child -/
  theorem allC_absentN (u : Nat) : ∀ (n : Node), u ∉ uuidsL n.children → allC (fun _ ids => u ∉ ids) n
    | .group x c t cs, h => by
      simp only [Node.children] at h
      simp only [allC]
      exact ⟨fun hc => h (childIds_subset_uuidsL cs u hc), allC_absentL u cs h⟩
    | .entry _, _ => trivial
  theorem allC_absentL (u : Nat) : ∀ (cs : List Node), u ∉ uuidsL cs → allCL (fun _ ids => u ∉ ids) cs
    | [], _ => trivial
    | c :: cs, h => by
      simp only [uuidsL, List.mem_append, not_or] at h
      simp only [allCL]
      refine ⟨allC_absentN u c (fun hc => h.1 ?_), allC_absentL u cs h.2⟩
      cases c with
      | group x cc t ccs => simp only [uuidsN, Node.children] at hc ⊢; exact List.mem_cons_of_mem _ hc
      | entry e => simp [Node.children, uuidsL] at hc
end

/-! ### the parent of one node -/

/-- the tag of a group as a parent: `none` for the root, its UUID otherwise — what the last element of a location path is -/
def tagOf (rootU x : Nat) : Option Nat := if x = rootU then none else some x

/-- every group that has a child with UUID `u` has the tag `X` -/
def ParO (u : Nat) (X : Option Nat) (rootU : Nat) : CP := fun x ids => u ∈ ids → tagOf rootU x = X

theorem ParO.sub {u : Nat} {X : Option Nat} {rootU x : Nat} {ids ids' : List Nat} (h : ParO u X rootU x ids)
    (hs : ∀ i ∈ ids', i ∈ ids) : ParO u X rootU x ids' := fun hu => h (hs u hu)

theorem childIds_append (a b : List Node) : childIds (a ++ b) = childIds a ++ childIds b := by
  simp [childIds]

theorem childIds_filter_sub (p : Node → Bool) (cs : List Node) : ∀ i ∈ childIds (cs.filter p), i ∈ childIds cs := by
  intro i hi
  simp only [childIds, List.mem_map, List.mem_filter] at hi ⊢
  obtain ⟨c, ⟨hc, _⟩, hci⟩ := hi
  exact ⟨c, hc, hci⟩

/-- removing children of a group -/
theorem remove_step_allC (P : CP) (hsub : ∀ x ids ids', P x ids → (∀ i ∈ ids', i ∈ ids) → P x ids')
    (root parent parent' last : Node) (loc : List Nat) (y : Nat)
    (hT : allC P root) (h3 : findGroup root loc = some parent) (h9 : removeNode parent y = some (parent', last)) :
    allC P (updatePath root loc (fun _ => parent')) := by
  obtain ⟨gp, gpg⟩ := findGroup_some h3
  obtain ⟨_, _, hp'⟩ := removeNode_facts parent parent' last y h9
  have hpt := allC_getPath P loc root parent hT gp
  have hp't : allC P parent' := by
    rw [hp']
    refine allC_mk P parent _ (fun _ => ?_) (allCL_filter P _ _ (allC_children P parent hpt))
    exact hsub _ _ _ (allC_own P parent gpg hpt) (childIds_filter_sub _ _)
  exact allC_updatePath_node P _ loc root parent gp hT hp't (by rw [hp', setChildren_uuid])

/-- appending a child to the group a path designates -/
theorem append_step_allC (P : CP) (root t node : Node) (path : List Nat) (hT : allC P root)
    (hfg : findGroup root path = some t) (hnode : allC P node) (hown : P t.uuid (childIds t.children ++ [node.uuid])) :
    allC P (updatePath root path (fun t => t.setChildren (t.children ++ [node]))) := by
  obtain ⟨gp, gpg⟩ := findGroup_some hfg
  have hpt := allC_getPath P path root t hT gp
  refine allC_updatePath_node P _ path root t gp hT ?_ (setChildren_uuid _ _)
  refine allC_mk P t _ (fun _ => ?_) ((allCL_append P _ _).mpr ⟨allC_children P t hpt, ⟨hnode, trivial⟩⟩)
  rw [childIds_append]
  simpa [childIds] using hown

/-- the UUID of the group a path designates is the path's last element; the empty path designates the root -/
theorem findGroup_last (root t : Node) (path : List Nat) (hfg : findGroup root path = some t) :
    (path = [] ∧ t = root) ∨ path.getLast? = some t.uuid := by
  obtain ⟨gp, _⟩ := findGroup_some hfg
  cases hl : path.getLast? with
  | none =>
    left
    have : path = [] := List.getLast?_eq_none_iff.mp hl
    subst this
    simp only [getPath, Option.some.injEq] at gp
    exact ⟨rfl, gp.symm⟩
  | some x =>
    right
    have hne : path ≠ [] := by intro e; subst e; simp at hl
    have hpx : path.dropLast ++ [x] = path := by
      have h1 := List.dropLast_concat_getLast hne
      have h2 : path.getLast hne = x := by
        have := List.getLast?_eq_some_getLast hne
        rw [hl] at this
        injection this with this; exact this.symm
      rw [h2] at h1; exact h1
    rw [← hpx] at gp
    rw [getPath_last_uuid path.dropLast root t x gp]

/-- what is below the root is not the root: the tag of a group below the root is its UUID -/
def Fresh (rootU : Nat) (r : Node) : Prop := r.uuid = rootU ∧ AllQ (· ≠ rootU) r

theorem findGroup_tag (rootU : Nat) (root t : Node) (path : List Nat) (hF : Fresh rootU root)
    (hfg : findGroup root path = some t) : tagOf rootU t.uuid = path.getLast? := by
  rcases findGroup_last root t path hfg with ⟨rfl, rfl⟩ | hl
  · simp [tagOf, hF.1]
  · rw [hl]
    obtain ⟨gp, _⟩ := findGroup_some hfg
    have hne : path ≠ [] := by intro e; subst e; simp at hl
    have hmem := getPath_uuids path root t hne gp t.uuid (uuid_mem_uuidsN t)
    have := hF.2 t.uuid hmem
    simp [tagOf, this]

/-! ### relocation -/

/-- a node with another UUID is moved -/
theorem relocate_par_other (u : Nat) (X : Option Nat) (rootU : Nat) (s s' : St) (y : Nat) (fromP toP : List Nat) (ts : Int)
    (hy : y ≠ u) (hT : allC (ParO u X rootU) s.root) (h : relocate s y fromP toP ts = .ok s') : allC (ParO u X rootU) s'.root := by
  unfold relocate at h
  cases hfg : findGroup s.root fromP with
  | none => rw [hfg] at h; cases h
  | some g =>
    rw [hfg] at h
    simp only at h
    cases hrm : removeNode g y with
    | none => rw [hrm] at h; cases h
    | some pr =>
      obtain ⟨g', node⟩ := pr
      rw [hrm] at h
      simp only at h
      cases hft : findGroup (updatePath s.root fromP (fun _ => g')) toP with
      | none => rw [hft] at h; cases h
      | some t =>
        rw [hft] at h
        simp only at h
        injection h with h
        subst h
        simp only
        have ⟨hgp, hgg⟩ := findGroup_some hfg
        obtain ⟨hnu, hnm, _⟩ := removeNode_facts g g' node y hrm
        have h1 := remove_step_allC (ParO u X rootU) (fun _ _ _ hp hs => ParO.sub hp hs) s.root g g' node fromP y hT hfg hrm
        have hnode : allC (ParO u X rootU) node :=
          allCL_mem _ _ node (allC_children _ g (allC_getPath _ fromP s.root g hT hgp)) hnm
        refine append_step_allC _ _ t (node.setLoc ts) toP h1 hft (allC_setLoc _ node ts hnode) ?_
        have ht := allC_own _ t (findGroup_some hft).2 (allC_getPath _ toP _ t h1 (findGroup_some hft).1)
        intro hu
        simp only [List.mem_append, List.mem_singleton, setLoc_uuid'] at hu
        rcases hu with hu | hu
        · exact ht hu
        · exact absurd (hu.trans hnu) (Ne.symm hy)

/-- the entry followed is moved: afterwards its parent is the group the target path designates -/
theorem relocate_par_self (u : Nat) (rootU : Nat) (s s' : St) (fromP toP : List Nat) (ts : Int) (e0 : Entry)
    (hI : Inv s.root) (hF : Fresh rootU s.root) (hent : getPath s.root (fromP ++ [u]) = some (.entry e0))
    (h : relocate s u fromP toP ts = .ok s') : allC (ParO u toP.getLast? rootU) s'.root := by
  unfold relocate at h
  cases hfg : findGroup s.root fromP with
  | none => rw [hfg] at h; cases h
  | some g =>
    rw [hfg] at h
    simp only at h
    cases hrm : removeNode g u with
    | none => rw [hrm] at h; cases h
    | some pr =>
      obtain ⟨g', node⟩ := pr
      rw [hrm] at h
      simp only at h
      cases hft : findGroup (updatePath s.root fromP (fun _ => g')) toP with
      | none => rw [hft] at h; cases h
      | some t =>
        rw [hft] at h
        simp only at h
        injection h with h
        subst h
        simp only
        have ⟨hgp, hgg⟩ := findGroup_some hfg
        obtain ⟨hnu, hnm, hg'⟩ := removeNode_facts g g' node u hrm
        obtain ⟨hg1, hperm⟩ := remove_perm s.root g g' node u fromP hI hfg hrm
        have hnd := hperm.nodup_iff.mp hI.2
        have hparts := List.nodup_append.mp hnd
        have hu : u ∉ uuidsL (updatePath s.root fromP (fun _ => g')).children := by
          intro hc
          exact hparts.2.2 u hc u (by rw [← hnu]; exact uuid_mem_uuidsN node) rfl
        have h1 : allC (ParO u toP.getLast? rootU) (updatePath s.root fromP (fun _ => g')) :=
          allC_mono _ _ (fun _ _ hn hin => absurd hin hn) _ (allC_absentN u _ hu)
        have hgn : getPath s.root (fromP ++ [u]) = some node := by
          have := getPath_child fromP s.root g node hI.2 hgp hgg hnm
          rwa [hnu] at this
        rw [hent] at hgn
        injection hgn with hgn
        -- the root keeps its UUID and what is below it stays below it
        have hF1 : Fresh rootU (updatePath s.root fromP (fun _ => g')) := by
          refine ⟨?_, fun x hx => hF.2 x ((hperm.mem_iff.mpr (List.mem_append_left _ hx)))⟩
          rw [updatePath_root_uuid s.root fromP _ hI.1 (fun e => by
            subst e
            simp only [getPath, Option.some.injEq] at hgp
            rw [hg', setChildren_uuid, hgp])]
          exact hF.1
        refine append_step_allC _ _ t (node.setLoc ts) toP h1 hft (by rw [← hgn]; trivial) ?_
        intro _
        exact findGroup_tag rootU _ t toP hF1 hft

/-! ### predicates over entries that may look at the location time of other entries -/

/-- `P` does not look at the location-changed time of entries with the UUID `y` -/
def LocFreeAt (P : Entry → Prop) (y : Nat) : Prop := ∀ (e : Entry) (ts : Int), e.d.uuid = y → P e → P (e.setLoc ts)

theorem allE_setLoc_at (P : Entry → Prop) (y : Nat) (hP : LocFreeAt P y) (n : Node) (ts : Int) (hn : n.uuid = y) (h : allE P n) :
    allE P (n.setLoc ts) := by
  cases n with
  | group u c t cs => simp only [Node.setLoc, allE] at h ⊢; exact h
  | entry e => simp only [Node.setLoc, allE] at h ⊢; exact hP e ts hn h

theorem relocate_allE_at (P : Entry → Prop) (s s' : St) (y : Nat) (hP : LocFreeAt P y) (fromP toP : List Nat) (ts : Int)
    (hT : allE P s.root) (h : relocate s y fromP toP ts = .ok s') : allE P s'.root := by
  unfold relocate at h
  cases hfg : findGroup s.root fromP with
  | none => rw [hfg] at h; cases h
  | some g =>
    rw [hfg] at h
    simp only at h
    cases hrm : removeNode g y with
    | none => rw [hrm] at h; cases h
    | some pr =>
      obtain ⟨g', node⟩ := pr
      rw [hrm] at h
      simp only at h
      cases hft : findGroup (updatePath s.root fromP (fun _ => g')) toP with
      | none => rw [hft] at h; cases h
      | some t =>
        rw [hft] at h
        simp only at h
        injection h with h
        subst h
        simp only
        have ⟨hgp, hgg⟩ := findGroup_some hfg
        have hgt := allE_getPath P fromP s.root g hT hgp
        obtain ⟨hnu, hnm, hg'⟩ := removeNode_facts g g' node y hrm
        have hg't : allE P g' := by
          rw [hg']; exact allE_setChildren P g _ hgg (allEL_filter P _ _ (allE_children P g hgg hgt))
        have hnode : allE P node := allEL_mem P _ node (allE_children P g hgg hgt) hnm
        have h1 : allE P (updatePath s.root fromP (fun _ => g')) := allE_updatePath P _ (fun _ _ => hg't) fromP s.root hT
        refine allE_updatePath P _ (fun n hn => ?_) toP _ h1
        exact allE_setChildren' P n _ hn ((allEL_append P _ _).mpr ⟨allE_children' P n hn, ⟨allE_setLoc_at P y hP node ts hnu hnode, trivial⟩⟩)

theorem mergeEntryStep_allE_at (P : Entry → Prop) (now : Int) (tombs : List Tomb) (s s' : St) (path : List Nat)
    (inDeleted : Bool) (oe : Entry) (hP : LocFreeAt P oe.d.uuid) (hT : allE P s.root)
    (hnew : findLoc s.root oe.d.uuid = none → P oe)
    (hupd : ∀ ex m, ex.d.uuid = oe.d.uuid → P ex → entryUpdate now ex oe = .ok (some m) → P m)
    (h : mergeEntryStep now tombs s path inDeleted oe = .ok s') : allE P s'.root := by
  unfold mergeEntryStep at h
  split at h
  · rename_i dloc hloc
    split at h
    · cases h
    · rename_i existing0 hfe
      have hex0 : P existing0 ∧ existing0.d.uuid = oe.d.uuid := by
        have hgp := findEntry_some hfe
        have := allE_getPath P _ s.root _ hT hgp
        simp only [allE] at this
        have hu := getPath_last_uuid dloc s.root _ oe.d.uuid hgp
        exact ⟨this, hu⟩
      have jp : ∀ (s1 : St) (eloc : List Nat) (existing : Entry) (s' : St), allE P s1.root → P existing →
          existing.d.uuid = oe.d.uuid →
          (do
            let upd ← entryUpdate now existing oe
            match upd with
              | none => pure s1
              | some merged =>
                match findEntry s1.root eloc with
                | none => Except.error MErr.findEntry
                | some _ =>
                  pure ({ s1 with root := updatePath s1.root eloc (fun _ => Node.entry merged) }.ev .entryUpdated merged.d.uuid)) = .ok s' →
          allE P s'.root := by
        intro s1 eloc existing s'' hT1 hPe hue hk
        obtain ⟨upd, hupd', hk⟩ := except_bind_ok hk
        cases upd with
        | none => simp only at hk; injection hk with hk; subst hk; exact hT1
        | some merged =>
          simp only at hk
          split at hk
          · cases hk
          · injection hk with hk; subst hk
            rw [ev_root]
            exact allE_updatePath P (fun _ => Node.entry merged) (fun _ _ => hupd existing merged hue hPe hupd') eloc s1.root hT1
      dsimp only at h
      split at h
      · split at h
        · obtain ⟨s2, hs2, h⟩ := except_bind_ok h
          obtain ⟨x, hx, h⟩ := except_bind_ok h
          cases hx
          exact jp s2 _ _ s' (relocate_allE_at P _ s2 _ hP _ _ _ (by rw [ev_root]; exact hT) hs2) (hP _ _ hex0.2 hex0.1) hex0.2 h
        · obtain ⟨x, hx, h⟩ := except_bind_ok h
          cases hx
          exact jp s _ _ s' hT hex0.1 hex0.2 h
      · obtain ⟨x, hx, h⟩ := except_bind_ok h
        cases hx
        exact jp s _ _ s' hT hex0.1 hex0.2 h
  · rename_i hloc
    split at h
    · injection h with h; subst h; exact hT
    · split at h
      · injection h with h; subst h; exact hT
      · split at h
        · cases h
        · injection h with h; subst h
          rw [ev_root]
          refine allE_updatePath P _ (fun n hn => ?_) path s.root hT
          exact allE_setChildren' P n _ hn ((allEL_append P _ _).mpr ⟨allE_children' P n hn, ⟨hnew hloc, trivial⟩⟩)

/-- the entry step and the parent of a node with another UUID -/
theorem mergeEntryStep_par_other (u : Nat) (X : Option Nat) (rootU : Nat) (now : Int) (tombs : List Tomb) (s s' : St)
    (path : List Nat) (inDeleted : Bool) (oe : Entry) (hne : oe.d.uuid ≠ u) (hT : allC (ParO u X rootU) s.root)
    (h : mergeEntryStep now tombs s path inDeleted oe = .ok s') : allC (ParO u X rootU) s'.root := by
  unfold mergeEntryStep at h
  split at h
  · rename_i dloc hloc
    split at h
    · cases h
    · rename_i existing0 hfe
      have hu0 : existing0.d.uuid = oe.d.uuid := getPath_last_uuid dloc s.root _ oe.d.uuid (findEntry_some hfe)
      have jp : ∀ (s1 : St) (eloc : List Nat) (existing : Entry) (s' : St), allC (ParO u X rootU) s1.root →
          existing.d.uuid = oe.d.uuid →
          (do
            let upd ← entryUpdate now existing oe
            match upd with
              | none => pure s1
              | some merged =>
                match findEntry s1.root (eloc ++ [oe.d.uuid]) with
                | none => Except.error MErr.findEntry
                | some _ =>
                  pure ({ s1 with root := updatePath s1.root (eloc ++ [oe.d.uuid]) (fun _ => Node.entry merged) }.ev .entryUpdated merged.d.uuid)) = .ok s' →
          allC (ParO u X rootU) s'.root := by
        intro s1 eloc existing s'' hT1 hue hk
        obtain ⟨upd, hupd', hk⟩ := except_bind_ok hk
        cases upd with
        | none => simp only at hk; injection hk with hk; subst hk; exact hT1
        | some merged =>
          simp only at hk
          split at hk
          · cases hk
          · rename_i x hfx
            injection hk with hk; subst hk
            rw [ev_root]
            have hgx := findEntry_some hfx
            refine allC_updatePath_node _ _ _ s1.root _ hgx hT1 trivial ?_
            have hxu : x.d.uuid = oe.d.uuid := getPath_last_uuid eloc s1.root _ oe.d.uuid hgx
            show merged.d.uuid = x.d.uuid
            rcases entryUpdate_uuid now existing oe merged hupd' with hm | hm
            · rw [hm, hue, hxu]
            · rw [hm, hxu]
      dsimp only at h
      split at h
      · split at h
        · obtain ⟨s2, hs2, h⟩ := except_bind_ok h
          obtain ⟨x, hx, h⟩ := except_bind_ok h
          cases hx
          exact jp s2 _ (existing0.setLoc _) s' (relocate_par_other u X rootU _ s2 _ _ _ _ hne (by rw [ev_root]; exact hT) hs2) hu0 h
        · obtain ⟨x, hx, h⟩ := except_bind_ok h
          cases hx
          exact jp s _ _ s' hT hu0 h
      · obtain ⟨x, hx, h⟩ := except_bind_ok h
        cases hx
        exact jp s _ _ s' hT hu0 h
  · rename_i hloc
    split at h
    · injection h with h; subst h; exact hT
    · split at h
      · injection h with h; subst h; exact hT
      · split at h
        · cases h
        · rename_i t hft
          injection h with h; subst h
          rw [ev_root]
          refine append_step_allC _ s.root t (.entry oe) path hT hft trivial ?_
          have ht := allC_own _ t (findGroup_some hft).2 (allC_getPath _ path _ t hT (findGroup_some hft).1)
          intro hu
          simp only [List.mem_append, List.mem_singleton] at hu
          rcases hu with hu | hu
          · exact ht hu
          · exact absurd hu.symm hne

/-! ### one entry followed: where it lives -/

structure Plc where
  u : Nat
  now : Int
  rootU : Nat
  /-- the tag of the group that holds the entry in the destination, and in the source -/
  Xd : Option Nat
  Xs : Option Nat
  /-- the location-changed times on the two sides; the source moved it later -/
  dl : Int
  sl : Int
  hgt : sl > dl

def Plc.LocIs (c : Plc) (e : Entry) : Prop := e.d.uuid = c.u → e.d.times.loc = some c.dl
/-- moved: the entry's parent is the source's -/
def Plc.S1 (c : Plc) (r : Node) : Prop := allC (ParO c.u c.Xs c.rootU) r
/-- not yet visited (the destination's parent, the destination's location time), or moved -/
def Plc.S0 (c : Plc) (r : Node) : Prop := (allC (ParO c.u c.Xd c.rootU) r ∧ allE c.LocIs r) ∨ c.S1 r

structure Plc.Stand (c : Plc) (r : Node) : Prop where
  holds : Holds c.u r
  fresh : Fresh c.rootU r

/-- the parent a sound tree records for `u` is the last element of the location `find_node_location` returns -/
theorem par_tag (u : Nat) (X : Option Nat) (rootU : Nat) (r : Node) (hI : Inv r) (hF : Fresh rootU r)
    (hT : allC (ParO u X rootU) r) (dloc : List Nat) (hloc : findLoc r u = some dloc) : X = dloc.getLast? := by
  obtain ⟨loc, g, n, h1, h2, h3, h4, _⟩ := findLoc_sound r u hI (findLoc_some_mem r u dloc hloc)
  rw [hloc] at h1; injection h1 with h1; subst h1
  have hg := allC_getPath _ dloc r g hT (findGroup_some h2).1
  have hown := allC_own _ g (findGroup_some h2).2 hg
  have hmem : u ∈ childIds g.children := by
    simp only [getPath] at h3
    have := (find_first h3).1
    simp only [childIds, List.mem_map]
    exact ⟨n, this, h4⟩
  rw [← hown hmem]
  exact findGroup_tag rootU r g dloc hF h2

theorem entryUpdate_loc (now : Int) (ex oe m : Entry) (l : Int) (hl : ex.d.times.loc = some l)
    (h : entryUpdate now ex oe = .ok (some m)) : m.d.times.loc = some l := by
  obtain ⟨hm, _⟩ := entryUpdate_some_merge now ex oe m h
  unfold entryMerge at hm
  simp only at hm
  split at hm
  · first | cases hm | (split at hm <;> cases hm)
  · split at hm
    · cases hm
    · injection hm with hm; injection hm with hm; subst hm
      unfold keepLoc
      simp [hl, Entry.setLoc]

/-- the visit of the entry followed, from a path whose last element is the source's parent -/
theorem mergeEntryStep_place (c : Plc) (tombs : List Tomb) (s s' : St) (path : List Nat) (inDeleted : Bool) (oe : Entry)
    (hoe : oe.d.uuid = c.u) (hsl : oe.d.times.loc = some c.sl) (htag : path.getLast? = c.Xs)
    (hSt : c.Stand s.root) (h0 : c.S0 s.root)
    (h : mergeEntryStep c.now tombs s path inDeleted oe = .ok s') :
    c.S0 s'.root ∧ (c.S1 s.root → c.S1 s'.root) ∧ (inDeleted = false → c.S1 s'.root) := by
  have hI := hSt.holds.1
  unfold mergeEntryStep at h
  split at h
  · rename_i dloc hloc
    split at h
    · cases h
    · rename_i existing0 hfe
      have hgp0 := findEntry_some hfe
      rw [hoe] at h hfe hgp0 hloc
      have hu0 : existing0.d.uuid = c.u := getPath_last_uuid dloc s.root _ c.u hgp0
      -- the update in place keeps parents; it keeps the location time of the destination's version
      have jp : ∀ (X : Option Nat) (s1 : St) (eloc : List Nat) (existing : Entry) (s' : St), allC (ParO c.u X c.rootU) s1.root →
          existing.d.uuid = c.u →
          (do
            let upd ← entryUpdate c.now existing oe
            match upd with
              | none => pure s1
              | some merged =>
                match findEntry s1.root (eloc ++ [c.u]) with
                | none => Except.error MErr.findEntry
                | some _ =>
                  pure ({ s1 with root := updatePath s1.root (eloc ++ [c.u]) (fun _ => Node.entry merged) }.ev .entryUpdated merged.d.uuid)) = .ok s' →
          allC (ParO c.u X c.rootU) s'.root
          ∧ (existing.d.times.loc = some c.dl → allE c.LocIs s1.root → allE c.LocIs s'.root) := by
        intro X s1 eloc existing s'' hT1 hue hk
        obtain ⟨upd, hupd', hk⟩ := except_bind_ok hk
        cases upd with
        | none => simp only at hk; injection hk with hk; subst hk; exact ⟨hT1, fun _ hl => hl⟩
        | some merged =>
          simp only at hk
          split at hk
          · cases hk
          · rename_i x hfx
            injection hk with hk; subst hk
            rw [ev_root]
            have hgx := findEntry_some hfx
            have hxu : x.d.uuid = c.u := getPath_last_uuid eloc s1.root _ c.u hgx
            refine ⟨allC_updatePath_node _ _ _ s1.root _ hgx hT1 trivial ?_, fun hl hE => ?_⟩
            · show merged.d.uuid = x.d.uuid
              rcases entryUpdate_uuid c.now existing oe merged hupd' with hm | hm
              · rw [hm, hue, hxu]
              · rw [hm, hoe, hxu]
            · refine allE_updatePath c.LocIs (fun _ => Node.entry merged) (fun _ _ => ?_) _ s1.root hE
              simp only [allE]
              exact fun _ => entryUpdate_loc c.now existing oe merged c.dl hl hupd'
      dsimp only at h
      -- no relocation: every part of the state is kept
      have keep : (do
            let __x ← (pure (s, dloc ++ [c.u], existing0) : Except MErr (St × List Nat × Entry))
            match __x with
            | (s, eloc, existing) => do
              let upd ← entryUpdate c.now existing oe
              match upd with
                | none => pure s
                | some merged =>
                  match findEntry s.root eloc with
                  | none => Except.error MErr.findEntry
                  | some _ =>
                    pure ({ s with root := updatePath s.root eloc (fun _ => Node.entry merged) }.ev .entryUpdated merged.d.uuid)) = .ok s' →
          c.S0 s'.root ∧ (c.S1 s.root → c.S1 s'.root) := by
        intro hk
        obtain ⟨x, hx, hk⟩ := except_bind_ok hk
        cases hx
        refine ⟨?_, fun h1 => (jp c.Xs s dloc existing0 s' h1 hu0 hk).1⟩
        rcases h0 with ⟨hp, hl⟩ | h1
        · have hl0 : existing0.d.times.loc = some c.dl := by
            have := allE_getPath c.LocIs _ s.root _ hl hgp0
            simp only [allE] at this
            exact this hu0
          obtain ⟨a, b⟩ := jp c.Xd s dloc existing0 s' hp hu0 hk
          exact Or.inl ⟨a, b hl0 hl⟩
        · exact Or.inr (jp c.Xs s dloc existing0 s' h1 hu0 hk).1
      split at h
      · rename_i hcond
        simp only [Bool.and_eq_true, bne_iff_ne, ne_eq, Bool.not_eq_true'] at hcond
        split at h
        · -- relocated
          obtain ⟨s2, hs2, h⟩ := except_bind_ok h
          obtain ⟨x, hx, h⟩ := except_bind_ok h
          cases hx
          have hp2 : allC (ParO c.u c.Xs c.rootU) s2.root := by
            have := relocate_par_self c.u c.rootU _ s2 dloc path _ existing0 (by rw [ev_root]; exact hI)
              (by rw [ev_root]; exact hSt.fresh) (by rw [ev_root]; exact hgp0) hs2
            rwa [htag] at this
          have hS1 : c.S1 s'.root := (jp c.Xs s2 path (existing0.setLoc _) s' hp2 hu0 h).1
          exact ⟨Or.inr hS1, fun _ => hS1, fun _ => hS1⟩
        · rename_i hnotgt
          obtain ⟨a, b⟩ := keep h
          refine ⟨a, b, fun _ => ?_⟩
          -- the paths differ, the source's time is not later: the state cannot be the original one
          rcases h0 with ⟨hp, hl⟩ | h1
          · exfalso
            have hl0 : existing0.d.times.loc = some c.dl := by
              have := allE_getPath c.LocIs _ s.root _ hl hgp0
              simp only [allE] at this
              exact this hu0
            apply hnotgt
            rw [hsl, hl0]
            exact c.hgt
          · exact b h1
      · rename_i hcond
        obtain ⟨a, b⟩ := keep h
        refine ⟨a, b, fun hdel => ?_⟩
        -- same parent already
        have heq : path.getLast? = dloc.getLast? := by
          cases hpl : (path.getLast? != dloc.getLast?) with
          | false => simpa using hpl
          | true => rw [hpl, hdel] at hcond; simp at hcond
        rcases h0 with ⟨hp, _⟩ | h1
        · have hx := par_tag c.u c.Xd c.rootU s.root hI hSt.fresh hp dloc hloc
          have : c.Xd = c.Xs := by rw [hx, ← heq, htag]
          rcases a with ⟨hp', _⟩ | h1'
          · unfold Plc.S1; rw [← this]; exact hp'
          · exact h1'
        · exact b h1
  · rename_i hloc
    exact absurd hSt.holds.2 (findLoc_none_notMem s.root _ (hoe ▸ hloc))

/-! ### the standing facts are kept -/

theorem qT (rootU : Nat) (tombs : List Tomb) : ∀ u, tombsContain tombs u = false → u ≠ rootU → u ≠ rootU := fun _ _ h => h

theorem stand_entryStep (c : Plc) (tombs : List Tomb) (s s' : St) (path : List Nat) (inDel : Bool) (oe : Entry)
    (hS : c.Stand s.root) (hoe : oe.d.uuid ≠ c.rootU) (h : mergeEntryStep c.now tombs s path inDel oe = .ok s') : c.Stand s'.root :=
  ⟨holds_entryStep c.u c.now tombs s s' path inDel oe hS.holds h,
   by rw [mergeEntryStep_uuid c.now tombs s s' path inDel oe hS.holds.1 h]; exact hS.fresh.1,
   mergeEntryStep_allQ _ _ c.now tombs (qT c.rootU tombs) s s' path inDel oe hoe hS.holds.1 hS.fresh.2 h⟩

theorem stand_entries (c : Plc) (tombs : List Tomb) (cs : List Node) (s s' : St) (path : List Nat) (inDel : Bool)
    (hS : c.Stand s.root) (hne : ∀ x ∈ uuidsL cs, x ≠ c.rootU) (h : mergeEntries c.now tombs s path inDel cs = .ok s') : c.Stand s'.root :=
  ⟨holds_entries c.u c.now tombs cs s s' path inDel hS.holds h,
   by rw [mergeEntries_uuid c.now tombs cs s s' path inDel hS.holds.1 h]; exact hS.fresh.1,
   mergeEntries_allQ _ _ c.now tombs (qT c.rootU tombs) cs s s' path inDel hne hS.holds.1 hS.fresh.2 h⟩

theorem stand_subgroups (c : Plc) (tombs : List Tomb) (cs : List Node) (s s' : St) (path : List Nat) (inDel : Bool)
    (hS : c.Stand s.root) (hne : ∀ x ∈ uuidsL cs, x ≠ c.rootU) (h : mergeSubgroups c.now tombs s path inDel cs = .ok s') : c.Stand s'.root :=
  ⟨holds_subgroups c.u c.now tombs cs s s' path inDel hS.holds h,
   by rw [mergeSubgroups_uuid c.now tombs cs s s' path inDel hS.holds.1 h]; exact hS.fresh.1,
   mergeSubgroups_allQ _ _ c.now tombs (qT c.rootU tombs) cs s s' path inDel hne hS.holds.1 hS.fresh.2 h⟩

theorem stand_group (c : Plc) (tombs : List Tomb) (g : Node) (s s' : St) (path : List Nat) (inDel : Bool)
    (hS : c.Stand s.root) (hne : ∀ x ∈ uuidsL g.children, x ≠ c.rootU) (h : mergeGroup c.now tombs s path g inDel = .ok s') : c.Stand s'.root :=
  ⟨holds_group c.u c.now tombs g s s' path inDel hS.holds h,
   by rw [mergeGroup_uuid c.now tombs g s s' path inDel hS.holds.1 h]; exact hS.fresh.1,
   mergeGroup_allQ _ _ c.now tombs (qT c.rootU tombs) g s s' path inDel hne hS.holds.1 hS.fresh.2 h⟩

theorem stand_relocate (c : Plc) (s s' : St) (x : Nat) (a b : List Nat) (ts : Int) (hS : c.Stand s.root)
    (h : relocate s x a b ts = .ok s') : c.Stand s'.root :=
  ⟨holds_relocate c.u s s' x a b ts hS.holds h, by rw [relocate_uuid s s' x a b ts hS.holds.1 h]; exact hS.fresh.1,
   relocate_allQ _ s s' x a b ts hS.holds.1 hS.fresh.2 h⟩

theorem stand_groupData (c : Plc) (root : Node) (p : List Nat) (du dc : Nat) (dt : Times) (dch : List Node) (c' : Nat) (t' : Times)
    (hS : c.Stand root) (hp : p ≠ []) (hfg : findGroup root p = some (.group du dc dt dch)) :
    c.Stand (updatePath root p (fun n => match n with
      | .group u _ _ ch => .group u c' t' ch
      | e => e)) :=
  ⟨holds_groupData c.u root p du dc dt dch c' t' hS.holds hp hfg,
   by rw [updatePath_root_uuid root p _ hS.holds.1.1 (fun e => absurd e hp)]; exact hS.fresh.1,
   allQ_update_same _ root (.group du dc dt dch) p _ hS.holds.1 hS.fresh.2 hp (findGroup_some hfg).1 (by simp [uuidsN])⟩

theorem stand_addGroup (c : Plc) (root pg : Node) (path : List Nat) (ou oc : Nat) (ot : Times) (hS : c.Stand root)
    (hfg : findGroup root path = some pg) (hloc : findLoc root ou = none) (hou : ou ≠ c.rootU) :
    c.Stand (updatePath root path (fun p => p.setChildren (p.children ++ [Node.group ou oc ot []]))) :=
  ⟨holds_addGroup c.u root pg path ou oc ot hS.holds hfg hloc,
   by rw [updatePath_root_uuid root path (fun p => p.setChildren (p.children ++ [Node.group ou oc ot []])) hS.holds.1.1
        (fun _ => setChildren_uuid _ _)]; exact hS.fresh.1,
   allQ_add_child _ root pg (.group ou oc ot []) path hS.holds.1 hS.fresh.2 hfg (by
     intro x hx; simp only [uuidsN, uuidsL, List.mem_cons, List.not_mem_nil, or_false] at hx; subst hx; exact hou)⟩

/-! ### steps that concern other nodes keep the state -/

theorem locIs_free (c : Plc) (y : Nat) (hy : y ≠ c.u) : LocFreeAt c.LocIs y :=
  fun _ _ he _ hu => absurd (he.symm.trans hu) hy

theorem par_groupData (P : CP) (root : Node) (p : List Nat) (du dc : Nat) (dt : Times) (dch : List Node) (c' : Nat) (t' : Times)
    (hT : allC P root) (hfg : findGroup root p = some (.group du dc dt dch)) :
    allC P (updatePath root p (fun n => match n with
      | .group u _ _ ch => .group u c' t' ch
      | e => e)) := by
  have hgp := (findGroup_some hfg).1
  have hn := allC_getPath P p root _ hT hgp
  exact allC_updatePath_node P _ p root _ hgp hT (by simp only [allC] at hn ⊢; exact hn) rfl

theorem par_addGroup (u : Nat) (X : Option Nat) (rootU : Nat) (root pg : Node) (path : List Nat) (ou oc : Nat) (ot : Times)
    (hou : ou ≠ u) (hT : allC (ParO u X rootU) root) (hfg : findGroup root path = some pg) :
    allC (ParO u X rootU) (updatePath root path (fun p => p.setChildren (p.children ++ [Node.group ou oc ot []]))) := by
  refine append_step_allC _ root pg (.group ou oc ot []) path hT hfg ?_ ?_
  · simp only [allC, allCL, childIds, List.map_nil, and_true]
    intro h; cases h
  · have ht := allC_own _ pg (findGroup_some hfg).2 (allC_getPath _ path _ pg hT (findGroup_some hfg).1)
    intro hu
    simp only [List.mem_append, List.mem_singleton, Node.uuid] at hu
    rcases hu with hu | hu
    · exact ht hu
    · exact absurd hu.symm hou

/-- not moved: the destination's parent, the destination's location time -/
def Plc.T (c : Plc) (r : Node) : Prop := allC (ParO c.u c.Xd c.rootU) r ∧ allE c.LocIs r

/-- the state after a step that moves, creates or updates a node other than the entry followed -/
structure Plc.Keeps (c : Plc) (r r' : Node) : Prop where
  s0 : c.S0 r → c.S0 r'
  s1 : c.S1 r → c.S1 r'
  t : c.T r → c.T r'

theorem Plc.Keeps.refl (c : Plc) (r : Node) : c.Keeps r r := ⟨id, id, id⟩
theorem Plc.Keeps.trans {c : Plc} {a b d : Node} (h1 : c.Keeps a b) (h2 : c.Keeps b d) : c.Keeps a d :=
  ⟨fun h => h2.s0 (h1.s0 h), fun h => h2.s1 (h1.s1 h), fun h => h2.t (h1.t h)⟩

/-- from a pair of transformers, one for parents (any `X`) and one for the location time -/
theorem Plc.keeps_of (c : Plc) (r r' : Node) (hp : ∀ X, allC (ParO c.u X c.rootU) r → allC (ParO c.u X c.rootU) r')
    (hl : allE c.LocIs r → allE c.LocIs r') : c.Keeps r r' :=
  ⟨fun h => h.elim (fun ⟨a, b⟩ => Or.inl ⟨hp _ a, hl b⟩) (fun a => Or.inr (hp _ a)), fun h => hp _ h, fun ⟨a, b⟩ => ⟨hp _ a, hl b⟩⟩

theorem keeps_entryStep_other (c : Plc) (tombs : List Tomb) (s s' : St) (path : List Nat) (inDel : Bool) (oe : Entry)
    (hne : oe.d.uuid ≠ c.u) (h : mergeEntryStep c.now tombs s path inDel oe = .ok s') : c.Keeps s.root s'.root := by
  refine c.keeps_of _ _ (fun X hp => mergeEntryStep_par_other c.u X c.rootU c.now tombs s s' path inDel oe hne hp h) (fun hl => ?_)
  refine mergeEntryStep_allE_at c.LocIs c.now tombs s s' path inDel oe (locIs_free c _ hne) hl (fun _ hu => absurd hu hne)
    (fun ex m hue _ hupd hmu => ?_) h
  rcases entryUpdate_uuid c.now ex oe m hupd with hm | hm
  · exact absurd (hm.symm.trans hmu |> fun e => hue.symm.trans e) hne
  · exact absurd (hm.symm.trans hmu) hne

theorem keeps_relocate_other (c : Plc) (s s' : St) (y : Nat) (a b : List Nat) (ts : Int) (hy : y ≠ c.u)
    (h : relocate s y a b ts = .ok s') : c.Keeps s.root s'.root :=
  c.keeps_of _ _ (fun X hp => relocate_par_other c.u X c.rootU s s' y a b ts hy hp h)
    (fun hl => relocate_allE_at c.LocIs s s' y (locIs_free c y hy) a b ts hl h)

theorem keeps_groupData (c : Plc) (root : Node) (p : List Nat) (du dc : Nat) (dt : Times) (dch : List Node) (c' : Nat) (t' : Times)
    (hfg : findGroup root p = some (.group du dc dt dch)) :
    c.Keeps root (updatePath root p (fun n => match n with
      | .group u _ _ ch => .group u c' t' ch
      | e => e)) :=
  c.keeps_of _ _ (fun _ hp => par_groupData _ root p du dc dt dch c' t' hp hfg) (fun hl => allE_groupData _ root p c' t' hl)

theorem keeps_addGroup (c : Plc) (root pg : Node) (path : List Nat) (ou oc : Nat) (ot : Times) (hou : ou ≠ c.u)
    (hfg : findGroup root path = some pg) :
    c.Keeps root (updatePath root path (fun p => p.setChildren (p.children ++ [Node.group ou oc ot []]))) :=
  c.keeps_of _ _ (fun X hp => par_addGroup c.u X c.rootU root pg path ou oc ot hou hp hfg) (fun hl => allE_addGroup _ root path ou oc ot hl)

/-! ### what a part of the merge does to the state -/

/-- from a state that holds `S0`: `S0` again, `S1` is kept, and `S1` is reached when `flag` holds -/
def Plc.Res (c : Plc) (r r' : Node) (flag : Prop) : Prop :=
  c.S0 r → (c.S0 r' ∧ (c.S1 r → c.S1 r') ∧ (flag → c.S1 r'))

theorem Plc.Res.comp {c : Plc} {a b d : Node} {fa fb : Prop} (h1 : c.Res a b fa) (h2 : c.Res b d fb) : c.Res a d (fa ∨ fb) := by
  intro h0
  obtain ⟨a0, a1, a2⟩ := h1 h0
  obtain ⟨b0, b1, b2⟩ := h2 a0
  exact ⟨b0, fun h => b1 (a1 h), fun h => h.elim (fun h => b1 (a2 h)) b2⟩

theorem Plc.Res.weaken {c : Plc} {a b : Node} {f g : Prop} (h : c.Res a b f) (hg : g → f) : c.Res a b g :=
  fun h0 => ⟨(h h0).1, (h h0).2.1, fun x => (h h0).2.2 (hg x)⟩

theorem Plc.Keeps.res {c : Plc} {a b : Node} (h : c.Keeps a b) : c.Res a b False :=
  fun h0 => ⟨h.s0 h0, h.s1, fun x => x.elim⟩

theorem Plc.Res.refl (c : Plc) (a : Node) : c.Res a a False := (Plc.Keeps.refl c a).res

/-! ### the source -/

structure Plc.SrcL (c : Plc) (cs : List Node) : Prop where
  neR : ∀ x ∈ uuidsL cs, x ≠ c.rootU
  grpNe : allGL (fun x _ _ => x ≠ c.u) cs
  loc : allEL (fun e => e.d.uuid = c.u → e.d.times.loc = some c.sl) cs
  par : allCL (ParO c.u c.Xs c.rootU) cs

theorem Plc.SrcL.tail {c : Plc} {n : Node} {cs : List Node} (h : c.SrcL (n :: cs)) : c.SrcL cs :=
  ⟨fun x hx => h.neR x (by simp only [uuidsL]; exact List.mem_append_right _ hx),
   by have := h.grpNe; simp only [allGL] at this; exact this.2,
   by have := h.loc; simp only [allEL] at this; exact this.2,
   by have := h.par; simp only [allCL] at this; exact this.2⟩

/-- the children of a child group, with what is known of the group itself -/
theorem Plc.SrcL.headGroup {c : Plc} {ou oc : Nat} {ot : Times} {ocs : List Node} {cs : List Node}
    (h : c.SrcL (.group ou oc ot ocs :: cs)) :
    c.SrcL ocs ∧ ou ≠ c.rootU ∧ ou ≠ c.u ∧ ParO c.u c.Xs c.rootU ou (childIds ocs) := by
  have hg := h.grpNe; simp only [allGL, allG] at hg
  have hl := h.loc; simp only [allEL, allE] at hl
  have hp := h.par; simp only [allCL, allC] at hp
  refine ⟨⟨fun x hx => h.neR x (by simp only [uuidsL, uuidsN]; exact List.mem_append_left _ (List.mem_cons_of_mem _ hx)),
    hg.1.2, hl.1, hp.1.2⟩, h.neR ou (by simp [uuidsL, uuidsN]), hg.1.1, hp.1.1⟩

theorem Plc.SrcL.headEntry {c : Plc} {e : Entry} {cs : List Node} (h : c.SrcL (.entry e :: cs)) :
    e.d.uuid ≠ c.rootU ∧ (e.d.uuid = c.u → e.d.times.loc = some c.sl) := by
  have hl := h.loc; simp only [allEL, allE] at hl
  exact ⟨h.neR e.d.uuid (by simp [uuidsL, uuidsN]), hl.1⟩

/-- what is reached, with the flag "below a deleted group" off, through the child groups -/
def liveDeep (tombs : List Tomb) : List Node → List Nat
  | [] => []
  | .entry _ :: cs => liveDeep tombs cs
  | .group u _ _ ccs :: cs => (if tombsContain tombs u then [] else liveL tombs ccs) ++ liveDeep tombs cs

theorem liveL_split (tombs : List Tomb) (x : Nat) : ∀ (cs : List Node), allGL (fun y _ _ => y ≠ x) cs → x ∈ liveL tombs cs →
    x ∈ directIds cs ∨ x ∈ liveDeep tombs cs := by
  intro cs
  induction cs with
  | nil => intro _ h; simp [liveL] at h
  | cons n cs ih =>
    intro hg h
    simp only [allGL] at hg
    simp only [liveL, List.mem_append] at h
    cases n with
    | entry e =>
      simp only [directIds, liveDeep, List.mem_cons]
      rcases h with h | h
      · simp only [liveN] at h
        split at h
        · simp at h
        · simp only [List.mem_singleton] at h; exact Or.inl (Or.inl h)
      · rcases ih hg.2 h with h | h
        · exact Or.inl (Or.inr h)
        · exact Or.inr h
    | group u c t ccs =>
      simp only [directIds, liveDeep, List.mem_append]
      simp only [allG] at hg
      rcases h with h | h
      · simp only [liveN] at h
        split at h
        · simp at h
        · rename_i ht
          simp only [List.mem_cons] at h
          rcases h with h | h
          · exact absurd h.symm hg.1.1
          · right; left; simp only [ht, Bool.false_eq_true, ↓reduceIte]; exact h
      · rcases ih hg.2 h with h | h
        · exact Or.inl h
        · exact Or.inr (Or.inr h)

theorem refreshPath_last (r : Node) (path : List Nat) : (refreshPath r path).getLast? = path.getLast? := by
  unfold refreshPath
  cases hl : path.getLast? with
  | none => simp [hl]
  | some cur =>
    simp only
    cases findLoc r cur with
    | none => simp [hl]
    | some d => simp

theorem directIds_sub_childIds : ∀ (cs : List Node), ∀ x ∈ directIds cs, x ∈ childIds cs := by
  intro cs
  induction cs with
  | nil => intro x h; simp [directIds] at h
  | cons n cs ih =>
    intro x h
    have hc : childIds (n :: cs) = n.uuid :: childIds cs := rfl
    rw [hc]
    cases n with
    | entry e =>
      simp only [directIds, List.mem_cons] at h
      rcases h with h | h
      · exact List.mem_cons.mpr (Or.inl h)
      · exact List.mem_cons_of_mem _ (ih x h)
    | group u c t ccs =>
      simp only [directIds] at h
      exact List.mem_cons_of_mem _ (ih x h)

/-! ### the passes -/

mutual
  theorem mergeGroup_place (c : Plc) (tombs : List Tomb) :
      ∀ (g : Node) (s s' : St) (path : List Nat) (inDel : Bool), c.SrcL g.children →
        ParO c.u c.Xs c.rootU g.uuid (childIds g.children) → path.getLast? = tagOf c.rootU g.uuid → c.Stand s.root →
        mergeGroup c.now tombs s path g inDel = .ok s' →
        c.Res s.root s'.root (inDel = false ∧ c.u ∈ liveL tombs g.children)
    | .entry _, s, s', _, _, _, _, _, _, h => by
      simp only [mergeGroup] at h
      injection h with h; subst h
      exact (Plc.Res.refl c _).weaken (fun ⟨_, hx⟩ => by simp [Node.children, liveL] at hx)
    | .group gu gc gt cs, s, s', path, inDel, hS, hpar, htag, hSt, h => by
      simp only [Node.children] at hS hpar
      simp only [Node.uuid] at hpar htag
      unfold mergeGroup at h
      dsimp only at h
      have jp : ∀ (s1 : St) (p1 : List Nat), p1.getLast? = tagOf c.rootU gu → c.Stand s1.root →
          (do
            let s ← mergeEntries c.now tombs s1 p1 inDel cs
            mergeSubgroups c.now tombs s p1 inDel cs) = .ok s' →
          c.Res s1.root s'.root (inDel = false ∧ c.u ∈ liveL tombs cs) := by
        intro s1 p1 ht1 hSt1 hk
        obtain ⟨s2, hs2, hk⟩ := except_bind_ok hk
        have hSt2 := stand_entries c tombs cs s1 s2 p1 inDel hSt1 hS.neR hs2
        have hown : c.u ∈ directIds cs → p1.getLast? = c.Xs := fun hd => by
          rw [ht1]; exact hpar (directIds_sub_childIds cs _ hd)
        have r1 := mergeEntries_place c tombs cs s1 s2 p1 inDel hS hown hSt1 hs2
        have r2 := mergeSubgroups_place c tombs cs s2 s' p1 inDel hS hSt2 hk
        refine (r1.comp r2).weaken (fun ⟨hd, hl⟩ => ?_)
        rcases liveL_split tombs c.u cs hS.grpNe hl with h1 | h1
        · exact Or.inl ⟨hd, h1⟩
        · exact Or.inr ⟨hd, h1⟩
      split at h
      · obtain ⟨x, hx, h⟩ := except_bind_ok h
        cases hx
        exact jp s path htag hSt h
      · rename_i dloc hloc
        split at h
        · obtain ⟨x, hx, h⟩ := except_bind_ok h
          cases hx
        · rename_i du dc dt dch hfg
          obtain ⟨x, hx, h⟩ := except_bind_ok h
          obtain ⟨c', t', upd⟩ := x
          dsimp only at h
          obtain ⟨y, hy, h⟩ := except_bind_ok h
          cases hy
          have hguR : gu ≠ c.rootU := hSt.fresh.2 gu (findLoc_some_mem s.root gu dloc hloc)
          have ht' : (dloc ++ [gu]).getLast? = tagOf c.rootU gu := by simp [tagOf, hguR]
          have hSt' := stand_groupData c s.root (dloc ++ [gu]) du dc dt dch c' t' hSt (by simp) hfg
          have hk := keeps_groupData c s.root (dloc ++ [gu]) du dc dt dch c' t' hfg
          have := jp (if upd = true then (St.mk (updatePath s.root (dloc ++ [gu]) (fun n => match n with
              | .group u _ _ ch => .group u c' t' ch
              | e => e)) s.events).ev .groupUpdated du else St.mk (updatePath s.root (dloc ++ [gu]) (fun n => match n with
              | .group u _ _ ch => .group u c' t' ch
              | e => e)) s.events) (dloc ++ [gu]) ht' (by split <;> (try rw [ev_root]) <;> exact hSt') h
          have hroot : (if upd = true then (St.mk (updatePath s.root (dloc ++ [gu]) (fun n => match n with
              | .group u _ _ ch => .group u c' t' ch
              | e => e)) s.events).ev .groupUpdated du else St.mk (updatePath s.root (dloc ++ [gu]) (fun n => match n with
              | .group u _ _ ch => .group u c' t' ch
              | e => e)) s.events).root = updatePath s.root (dloc ++ [gu]) (fun n => match n with
              | .group u _ _ ch => .group u c' t' ch
              | e => e) := by split <;> rfl
          rw [hroot] at this
          exact (hk.res.comp this).weaken Or.inr
        · obtain ⟨x, hx, h⟩ := except_bind_ok h
          cases hx

  theorem mergeEntries_place (c : Plc) (tombs : List Tomb) :
      ∀ (cs : List Node) (s s' : St) (path : List Nat) (inDel : Bool), c.SrcL cs →
        (c.u ∈ directIds cs → path.getLast? = c.Xs) → c.Stand s.root →
        mergeEntries c.now tombs s path inDel cs = .ok s' →
        c.Res s.root s'.root (inDel = false ∧ c.u ∈ directIds cs)
    | [], s, s', _, _, _, _, _, h => by
      simp only [mergeEntries] at h
      injection h with h; subst h
      exact (Plc.Res.refl c _).weaken (fun ⟨_, hx⟩ => by simp [directIds] at hx)
    | .entry e :: rest, s, s', path, inDel, hS, hown, hSt, h => by
      obtain ⟨heR, heL⟩ := hS.headEntry
      unfold mergeEntries at h
      obtain ⟨s1, hs1, h⟩ := except_bind_ok h
      have hSt1 := stand_entryStep c tombs s s1 path inDel e hSt heR hs1
      have r2 := mergeEntries_place c tombs rest s1 s' path inDel hS.tail
        (fun hd => hown (by simp only [directIds]; exact List.mem_cons_of_mem _ hd)) hSt1 h
      by_cases he : e.d.uuid = c.u
      · have r1 : c.Res s.root s1.root (inDel = false) := fun h0 =>
          mergeEntryStep_place c tombs s s1 path inDel e he (heL he) (hown (by simp [directIds, he])) hSt h0 hs1
        exact (r1.comp r2).weaken (fun ⟨hd, _⟩ => Or.inl hd)
      · have r1 := (keeps_entryStep_other c tombs s s1 path inDel e he hs1).res
        refine (r1.comp r2).weaken (fun ⟨hd, hm⟩ => Or.inr ⟨hd, ?_⟩)
        simp only [directIds, List.mem_cons] at hm
        rcases hm with hm | hm
        · exact absurd hm.symm he
        · exact hm
    | .group _ _ _ _ :: rest, s, s', path, inDel, hS, hown, hSt, h => by
      unfold mergeEntries at h
      exact (mergeEntries_place c tombs rest s s' path inDel hS.tail (fun hd => hown (by simpa only [directIds] using hd)) hSt h).weaken
        (fun ⟨hd, hm⟩ => ⟨hd, by simpa only [directIds] using hm⟩)

  theorem mergeSubgroups_place (c : Plc) (tombs : List Tomb) :
      ∀ (cs : List Node) (s s' : St) (path : List Nat) (inDel : Bool), c.SrcL cs → c.Stand s.root →
        mergeSubgroups c.now tombs s path inDel cs = .ok s' →
        c.Res s.root s'.root (inDel = false ∧ c.u ∈ liveDeep tombs cs)
    | [], s, s', _, _, _, _, h => by
      simp only [mergeSubgroups] at h
      injection h with h; subst h
      exact (Plc.Res.refl c _).weaken (fun ⟨_, hx⟩ => by simp [liveDeep] at hx)
    | .entry _ :: rest, s, s', path, inDel, hS, hSt, h => by
      unfold mergeSubgroups at h
      exact (mergeSubgroups_place c tombs rest s s' path inDel hS.tail hSt h).weaken
        (fun ⟨hd, hm⟩ => ⟨hd, by simpa only [liveDeep] using hm⟩)
    | .group ou oc ot ocs :: rest, s, s', path, inDel, hS, hSt, h => by
      obtain ⟨hSo, houR, houU, hparo⟩ := hS.headGroup
      have hneo : ∀ x ∈ uuidsL (Node.group ou oc ot ocs).children, x ≠ c.rootU := by
        simpa [Node.children] using hSo.neR
      have htago : (path ++ [ou]).getLast? = tagOf c.rootU ou := by simp [tagOf, houR]
      unfold mergeSubgroups at h
      dsimp only at h
      have viaGroup : ∀ (s0 : St) (b : Bool), c.Stand s0.root → (inDel = false → tombsContain tombs ou = false → b = false) →
          (do
            let s ← mergeGroup c.now tombs s0 (path ++ [ou]) (.group ou oc ot ocs) b
            mergeSubgroups c.now tombs s (refreshPath s.root path) inDel rest) = .ok s' →
          c.Res s0.root s'.root (inDel = false ∧ c.u ∈ liveDeep tombs (Node.group ou oc ot ocs :: rest)) := by
        intro s0 b hSt0 hb hk
        obtain ⟨s1, hs1, hk⟩ := except_bind_ok hk
        have hSt1 := stand_group c tombs _ s0 s1 _ b hSt0 hneo hs1
        have r1 := mergeGroup_place c tombs (.group ou oc ot ocs) s0 s1 _ b hSo hparo htago hSt0 hs1
        have r2 := mergeSubgroups_place c tombs rest s1 s' _ inDel hS.tail hSt1 hk
        refine (r1.comp r2).weaken (fun ⟨hd, hm⟩ => ?_)
        simp only [liveDeep, List.mem_append] at hm
        rcases hm with hm | hm
        · by_cases ht : tombsContain tombs ou = true
          · simp [ht] at hm
          · have ht' : tombsContain tombs ou = false := by simpa using ht
            simp only [ht', Bool.false_eq_true, ↓reduceIte] at hm
            exact Or.inl ⟨hb hd ht', by simpa [Node.children] using hm⟩
        · exact Or.inr ⟨hd, hm⟩
      split at h
      · rename_i hguard
        refine viaGroup s true hSt (fun hd ht => ?_) h
        simp only [Bool.or_eq_true] at hguard
        rcases hguard with h1 | h1
        · rw [ht] at h1; cases h1
        · rw [hd] at h1; cases h1
      · rename_i hguard
        have hdel : inDel = false := by
          have : ¬ ((tombsContain tombs ou || inDel) = true) := hguard
          simp only [Bool.or_eq_true, not_or] at this
          simpa using this.2
        split at h
        · split at h
          · split at h
            · obtain ⟨x, hx, h⟩ := except_bind_ok h
              cases hx
            · split at h
              · obtain ⟨s2, hs2, h⟩ := except_bind_ok h
                have hk := keeps_relocate_other c s s2 ou _ _ _ houU hs2
                have := viaGroup ((s2.ev .groupLocationUpdated ou)) inDel (by rw [ev_root]; exact stand_relocate c s s2 _ _ _ _ hSt hs2)
                  (fun _ _ => hdel) h
                rw [ev_root] at this
                exact (hk.res.comp this).weaken Or.inr
              · exact viaGroup s inDel hSt (fun _ _ => hdel) h
          · exact viaGroup s inDel hSt (fun _ _ => hdel) h
        · rename_i hloc
          split at h
          · obtain ⟨x, hx, h⟩ := except_bind_ok h
            cases hx
          · rename_i pg hfg
            rw [ev_root] at hfg
            have hk := keeps_addGroup c s.root pg path ou oc ot houU hfg
            have := viaGroup (St.mk (updatePath (s.ev .groupCreated ou).root path (fun p => p.setChildren (p.children ++ [Node.group ou oc ot []]))) (s.ev .groupCreated ou).events)
              inDel (stand_addGroup c s.root pg path ou oc ot hSt hfg hloc houR) (fun _ _ => hdel) h
            exact (hk.res.comp this).weaken Or.inr
end

/-! ### root, passes, deletions -/

theorem mergeRoot_allC (P : CP) (now : Int) (s s' : St) (srcRoot : Node) (hT : allC P s.root)
    (h : mergeRoot now s srcRoot = .ok s') : allC P s'.root := by
  obtain ⟨root, ev⟩ := s
  cases root with
  | entry e => simp only [mergeRoot] at h; injection h with h; subst h; exact hT
  | group du dc dt ch =>
    cases srcRoot with
    | entry e => simp only [mergeRoot] at h; injection h with h; subst h; exact hT
    | group su sc st sch =>
      simp only [mergeRoot] at h
      split at h
      · obtain ⟨x, hx, h⟩ := except_bind_ok h
        obtain ⟨c', t', upd⟩ := x
        dsimp only at h
        injection h with h; subst h
        have : allC P (Node.group du c' t' ch) := by simp only [allC] at hT ⊢; exact hT
        split
        · rw [ev_root]; exact this
        · exact this
      · injection h with h; subst h; exact hT

theorem stand_mergeRoot (c : Plc) (s s' : St) (srcRoot : Node) (hS : c.Stand s.root)
    (h : mergeRoot c.now s srcRoot = .ok s') : c.Stand s'.root :=
  ⟨holds_mergeRoot c.u c.now s s' srcRoot hS.holds h, by rw [mergeRoot_uuid c.now s s' srcRoot h]; exact hS.fresh.1,
   fun x hx => hS.fresh.2 x (by rw [← mergeRoot_children c.now s s' srcRoot h]; exact hx)⟩

theorem keeps_mergeRoot (c : Plc) (s s' : St) (srcRoot : Node) (hr : s.root.isGroup = true)
    (h : mergeRoot c.now s srcRoot = .ok s') : c.Keeps s.root s'.root :=
  c.keeps_of _ _ (fun _ hp => mergeRoot_allC _ c.now s s' srcRoot hp h) (fun hl => mergeRoot_allE _ c.now s s' srcRoot hr hl h)

/-- the first pass moves the entry; the later passes leave it there -/
theorem mergePasses_place (c : Plc) (tombs : List Tomb) (su sc : Nat) (st : Times) (scs : List Node) (hS : c.SrcL scs)
    (hpar : ParO c.u c.Xs c.rootU su (childIds scs)) (hsu : su = c.rootU) (hlive : c.u ∈ liveL tombs scs) :
    ∀ (k : Nat) (s s' : St), c.Stand s.root → c.S0 s.root → (k ≠ 0 ∨ c.S1 s.root) →
      mergePasses c.now tombs (.group su sc st scs) k s = .ok s' → c.S1 s'.root := by
  intro k
  induction k with
  | zero =>
    intro s s' _ _ hk h
    simp only [mergePasses] at h; injection h with h; subst h
    rcases hk with hk | hk
    · exact absurd rfl hk
    · exact hk
  | succ k ih =>
    intro s s' hSt h0 _ h
    unfold mergePasses at h
    split at h
    · cases h
    · rename_i s1 hs1
      have htag : ([] : List Nat).getLast? = tagOf c.rootU (Node.group su sc st scs).uuid := by simp [tagOf, Node.uuid, hsu]
      have r := mergeGroup_place c tombs (.group su sc st scs) { s with events := [] } s1 [] false hS hpar htag hSt hs1 h0
      have hSt1 := stand_group c tombs _ { s with events := [] } s1 [] false hSt (by simpa [Node.children] using hS.neR) hs1
      have h1 : c.S1 s1.root := r.2.2 ⟨rfl, by simpa [Node.children] using hlive⟩
      dsimp only at h
      split at h
      · injection h with h; subst h; exact h1
      · exact ih _ s' (show c.Stand ({ s1 with events := s.events ++ s1.events } : St).root from hSt1)
          (show c.S0 ({ s1 with events := s.events ++ s1.events } : St).root from Or.inr h1) (Or.inr h1) h

theorem deleteEntries_allC (P : CP) (hsub : ∀ x ids ids', P x ids → (∀ i ∈ ids', i ∈ ids) → P x ids') (now : Int) :
    ∀ (ts : List Tomb) (s : St) (nt : List Tomb) (s' : St) (nt' : List Tomb),
    allC P s.root → deleteEntries now s nt ts = .ok (s', nt') → allC P s'.root := by
  intro ts
  induction ts with
  | nil =>
    intro s nt s' nt' hT h
    simp only [deleteEntries, Except.ok.injEq, Prod.mk.injEq] at h
    obtain ⟨rfl, _⟩ := h
    exact hT
  | cons d rest ih =>
    intro s nt s' nt' hT h
    unfold deleteEntries at h
    split at h
    · exact ih s nt s' nt' hT h
    · split at h
      · exact ih s nt s' nt' hT h
      · rename_i loc hloc
        split at h
        · cases h
        · rename_i parent h3
          split at h
          · exact ih s nt s' nt' hT h
          · split at h
            · split at h
              · cases h
              · rename_i parent' last h9
                exact ih _ _ s' nt' (by rw [ev_root]; exact remove_step_allC P hsub s.root parent parent' last loc d.uuid hT h3 h9) h
            · exact ih s nt s' nt' hT h

theorem gdecide_delete_allC (P : CP) (hsub : ∀ x ids ids', P x ids → (∀ i ∈ ids', i ∈ ids) → P x ids') (now : Int) (s : St)
    (nt : List Tomb) (d : Tomb) (q : List Tomb) (s' : St) (nt' : List Tomb)
    (hT : allC P s.root) (h : gdecide now s nt d q = .delete s' nt') : allC P s'.root := by
  unfold gdecide at h
  split at h
  · cases h
  · split at h
    · cases h
    · rename_i loc hloc
      split at h
      · cases h
      · rename_i parent h3
        split at h
        · cases h
        · dsimp only at h
          split at h
          · cases h
          · split at h
            · cases h
            · split at h
              · cases h
              · split at h
                · split at h
                  · cases h
                  · rename_i parent' last h9
                    injection h with h1 h2
                    subst h1
                    rw [ev_root]
                    exact remove_step_allC P hsub s.root parent parent' last loc d.uuid hT h3 h9
                · cases h

theorem deleteGroups_allC (P : CP) (hsub : ∀ x ids ids', P x ids → (∀ i ∈ ids', i ∈ ids) → P x ids') (now : Int) :
    ∀ (fuel : Nat) (s : St) (nt q : List Tomb) (s' : St) (nt' : List Tomb),
    allC P s.root → deleteGroups now fuel s nt q = .ok (s', nt') → allC P s'.root := by
  intro fuel
  induction fuel with
  | zero =>
    intro s nt q s' nt' hT h
    unfold deleteGroups at h
    split at h
    · injection h with h; injection h with h1 h2; subst h1; exact hT
    · cases h
  | succ n ih =>
    intro s nt q s' nt' hT h
    cases q with
    | nil =>
      unfold deleteGroups at h
      injection h with h; injection h with h1 h2; subst h1; exact hT
    | cons d q =>
      rw [deleteGroups_step] at h
      split at h
      · exact ih s nt q s' nt' hT h
      · exact ih s nt _ s' nt' hT h
      · rename_i s1 nt1 hdec
        exact ih s1 nt1 q s' nt' (gdecide_delete_allC P hsub now s nt d q s1 nt1 hT hdec) h
      · cases h

/-- removing nodes keeps the root's UUID -/
theorem remove_step_rootUuid (root parent parent' last : Node) (loc : List Nat) (u : Nat) (hr : root.isGroup = true)
    (h3 : findGroup root loc = some parent) (h9 : removeNode parent u = some (parent', last)) :
    (updatePath root loc (fun _ => parent')).uuid = root.uuid := by
  obtain ⟨gp, _⟩ := findGroup_some h3
  obtain ⟨_, _, hp'⟩ := removeNode_facts parent parent' last u h9
  refine updatePath_root_uuid root loc _ hr (fun e => ?_)
  subst e
  simp only [getPath, Option.some.injEq] at gp
  rw [hp', setChildren_uuid, gp]

theorem deleteEntries_rootUuid (now : Int) : ∀ (ts : List Tomb) (s : St) (nt : List Tomb) (s' : St) (nt' : List Tomb),
    Inv s.root → deleteEntries now s nt ts = .ok (s', nt') → s'.root.uuid = s.root.uuid := by
  intro ts
  induction ts with
  | nil =>
    intro s nt s' nt' _ h
    simp only [deleteEntries, Except.ok.injEq, Prod.mk.injEq] at h
    obtain ⟨rfl, _⟩ := h
    rfl
  | cons d rest ih =>
    intro s nt s' nt' hI h
    unfold deleteEntries at h
    split at h
    · exact ih s nt s' nt' hI h
    · split at h
      · exact ih s nt s' nt' hI h
      · rename_i loc hloc
        split at h
        · cases h
        · rename_i parent h3
          split at h
          · exact ih s nt s' nt' hI h
          · split at h
            · split at h
              · cases h
              · rename_i parent' last h9
                have hsub := remove_step_sublist s.root parent parent' last loc d.uuid hI.1 h3 h9
                obtain ⟨_, gpg⟩ := findGroup_some h3
                obtain ⟨_, _, hp'⟩ := removeNode_facts parent parent' last d.uuid h9
                have hpg : parent'.isGroup = true := by
                  rw [hp']; cases parent <;> simp [Node.setChildren, Node.isGroup] at gpg ⊢
                have hg' := updatePath_isGroup loc s.root (fun _ => parent') hI.1 (fun _ => hpg)
                have := ih _ _ s' nt' (by rw [ev_root]; exact ⟨hg', List.Nodup.sublist hsub hI.2⟩) h
                rw [this, ev_root]
                exact remove_step_rootUuid s.root parent parent' last loc d.uuid hI.1 h3 h9
            · exact ih s nt s' nt' hI h

theorem gdecide_delete_rootUuid (now : Int) (s : St) (nt : List Tomb) (d : Tomb) (q : List Tomb) (s' : St) (nt' : List Tomb)
    (hI : Inv s.root) (h : gdecide now s nt d q = .delete s' nt') : s'.root.uuid = s.root.uuid := by
  unfold gdecide at h
  split at h
  · cases h
  · split at h
    · cases h
    · rename_i loc hloc
      split at h
      · cases h
      · rename_i parent h3
        split at h
        · cases h
        · dsimp only at h
          split at h
          · cases h
          · split at h
            · cases h
            · split at h
              · cases h
              · split at h
                · split at h
                  · cases h
                  · rename_i parent' last h9
                    injection h with h1 h2
                    subst h1
                    rw [ev_root]
                    exact remove_step_rootUuid s.root parent parent' last loc d.uuid hI.1 h3 h9
                · cases h

theorem deleteGroups_rootUuid (now : Int) : ∀ (fuel : Nat) (s : St) (nt q : List Tomb) (s' : St) (nt' : List Tomb), Inv s.root →
    deleteGroups now fuel s nt q = .ok (s', nt') → s'.root.uuid = s.root.uuid := by
  intro fuel
  induction fuel with
  | zero =>
    intro s nt q s' nt' _ h
    unfold deleteGroups at h
    split at h
    · injection h with h; injection h with h1 h2; subst h1; rfl
    · cases h
  | succ n ih =>
    intro s nt q s' nt' hI h
    cases q with
    | nil =>
      unfold deleteGroups at h
      injection h with h; injection h with h1 h2; subst h1; rfl
    | cons d q =>
      rw [deleteGroups_step] at h
      split at h
      · exact ih s nt q s' nt' hI h
      · exact ih s nt _ s' nt' hI h
      · rename_i s1 nt1 hdec
        have hinv := gdecide_delete_inv now s nt d q s1 nt1 hI.1 hI.2 hdec
        rw [ih s1 nt1 q s' nt' ⟨hinv.1, hinv.2⟩ h]
        exact gdecide_delete_rootUuid now s nt d q s1 nt1 hI hdec
      · cases h

/-! ### in a sound tree a node has one parent -/

theorem uuidsN_disjoint_of_mem : ∀ (cs : List Node) (a b : Node), (uuidsL cs).Nodup → a ∈ cs → b ∈ cs → a ≠ b →
    ∀ x ∈ uuidsN a, x ∉ uuidsN b := by
  intro cs
  induction cs with
  | nil => intro a b _ ha; cases ha
  | cons c0 cs ih =>
    intro a b hn ha hb hab x hxa hxb
    obtain ⟨_, hn2, hdis⟩ := nodup_uuidsL_tail hn
    rcases List.mem_cons.mp ha with rfl | ha'
    · rcases List.mem_cons.mp hb with rfl | hb'
      · exact hab rfl
      · exact hdis x hxa (uuidsL_mem_of_mem cs b hb' x hxb)
    · rcases List.mem_cons.mp hb with rfl | hb'
      · exact hdis x hxb (uuidsL_mem_of_mem cs a ha' x hxa)
      · exact ih a b hn2 ha' hb' hab x hxa hxb

theorem allCL_of_forall (P : CP) : ∀ (cs : List Node), (∀ c ∈ cs, allC P c) → allCL P cs := by
  intro cs
  induction cs with
  | nil => intro _; trivial
  | cons c cs ih => intro h; exact ⟨h c List.mem_cons_self, ih (fun c' hc' => h c' (List.mem_cons_of_mem _ hc'))⟩

theorem children_sub_uuidsN (n : Node) : ∀ x ∈ uuidsL n.children, x ∈ uuidsN n := by
  intro x hx
  cases n with
  | group u c t cs => simp only [uuidsN, Node.children] at hx ⊢; exact List.mem_cons_of_mem _ hx
  | entry e => simp [Node.children, uuidsL] at hx

/-- the group a path designates, holding a child with UUID `u`, is the only group that holds one -/
theorem allC_parent_at (u : Nat) : ∀ (q : List Nat) (root g : Node), root.isGroup = true → (uuidsL root.children).Nodup →
    getPath root q = some g → g.isGroup = true → u ∈ childIds g.children →
    allC (fun x ids => u ∈ ids → x = g.uuid) root := by
  intro q
  induction q with
  | nil =>
    intro root g hr hn hg _ hu
    simp only [getPath, Option.some.injEq] at hg; subst hg
    obtain ⟨c0, hc0, hc0u⟩ : ∃ c0 ∈ root.children, c0.uuid = u := by
      simpa [childIds] using hu
    have hcs : allCL (fun x ids => u ∈ ids → x = root.uuid) root.children := by
      refine allCL_of_forall _ _ (fun c' hc' => ?_)
      refine allC_mono _ _ (fun _ _ hn' hin => absurd hin hn') _ (allC_absentN u c' (fun hin => ?_))
      by_cases hcc : c' = c0
      · subst hcc
        have hnd : (uuidsN c').Nodup := List.Nodup.sublist (uuidsN_sublist_of_mem _ c' hc') hn
        cases c' with
        | entry e => simp [Node.children, uuidsL] at hin
        | group x cc t ccs =>
          simp only [uuidsN, List.nodup_cons, Node.children, Node.uuid] at hnd hin hc0u
          exact hnd.1 (hc0u ▸ hin)
      · exact uuidsN_disjoint_of_mem _ c0 c' hn hc0 hc' (Ne.symm hcc) u (hc0u ▸ uuid_mem_uuidsN c0) (children_sub_uuidsN c' u hin)
    cases root with
    | entry e => cases hr
    | group x cc t ccs => exact ⟨fun _ => rfl, hcs⟩
  | cons v rest ih =>
    intro root g hr hn hg hgg hu
    -- the child the path goes through
    obtain ⟨c, hcm, hcg, hgc⟩ : ∃ c ∈ root.children, c.isGroup = true ∧ getPath c rest = some g := by
      cases rest with
      | nil =>
        simp only [getPath] at hg
        exact ⟨g, (find_first hg).1, hgg, by simp [getPath]⟩
      | cons w rest' =>
        simp only [getPath] at hg
        cases hc : root.children.find? (fun n => n.isGroup && n.uuid == v) with
        | none => rw [hc] at hg; cases hg
        | some c =>
          rw [hc] at hg
          have ⟨hcm, hcp⟩ := find_first hc
          simp only [Bool.and_eq_true] at hcp
          exact ⟨c, hcm, hcp.1, hg⟩
    have hcn : (uuidsL c.children).Nodup := by
      cases c with
      | entry e => cases hcg
      | group cu cc ct ccs => exact (nodup_children_of_mem _ cu cc ct ccs hn hcm).1
    have huc : u ∈ uuidsL c.children := by
      have h1 : u ∈ uuidsL g.children := childIds_subset_uuidsL _ u hu
      cases rest with
      | nil => simp only [getPath, Option.some.injEq] at hgc; subst hgc; exact h1
      | cons w rest' => exact getPath_uuids (w :: rest') c g (by simp) hgc u (children_sub_uuidsN g u h1)
    have hucN : u ∈ uuidsN c := children_sub_uuidsN c u huc
    have hne : u ≠ c.uuid := by
      have hnd : (uuidsN c).Nodup := List.Nodup.sublist (uuidsN_sublist_of_mem _ c hcm) hn
      cases c with
      | entry e => cases hcg
      | group x cc t ccs =>
        simp only [uuidsN, List.nodup_cons, Node.children, Node.uuid] at hnd huc ⊢
        intro e; exact hnd.1 (e ▸ huc)
    have hcs : allCL (fun x ids => u ∈ ids → x = g.uuid) root.children := by
      refine allCL_of_forall _ _ (fun c' hc' => ?_)
      by_cases hcc : c' = c
      · subst hcc; exact ih c' g hcg hcn hgc hgg hu
      · refine allC_mono _ _ (fun _ _ hn' hin => absurd hin hn') _ (allC_absentN u c' (fun hin => ?_))
        exact uuidsN_disjoint_of_mem _ c c' hn hcm hc' (Ne.symm hcc) u hucN (children_sub_uuidsN c' u hin)
    cases root with
    | entry e => cases hr
    | group x cc t ccs =>
      refine ⟨fun hin => ?_, hcs⟩
      exfalso
      obtain ⟨c0, hc0, hc0u⟩ : ∃ c0 ∈ ccs, c0.uuid = u := by simpa [childIds] using hin
      by_cases hcc : c0 = c
      · exact hne (hcc ▸ hc0u.symm)
      · exact uuidsN_disjoint_of_mem _ c c0 hn hcm hc0 (Ne.symm hcc) u hucN (hc0u ▸ uuid_mem_uuidsN c0)

/-! ### the whole merge -/

theorem mergePasses_rootUuid (now : Int) (tombs : List Tomb) (srcRoot : Node) : ∀ (k : Nat) (s s' : St), Inv s.root →
    mergePasses now tombs srcRoot k s = .ok s' → s'.root.uuid = s.root.uuid := by
  intro k
  induction k with
  | zero => intro s s' _ h; simp only [mergePasses] at h; injection h with h; subst h; rfl
  | succ k ih =>
    intro s s' hI h
    unfold mergePasses at h
    split at h
    · cases h
    · rename_i s1 hs1
      have hI1 : Inv s1.root := mergeGroup_inv now tombs srcRoot { s with events := [] } s1 [] false hI hs1
      have hU1 : s1.root.uuid = s.root.uuid := mergeGroup_uuid now tombs srcRoot { s with events := [] } s1 [] false hI hs1
      dsimp only at h
      split at h
      · injection h with h; subst h; exact hU1
      · rw [ih _ s' (show Inv ({ s1 with events := s.events ++ s1.events } : St).root from hI1) h]; exact hU1

/-- in a sound tree whose root has a UUID of its own, no group has the UUID of an entry -/
theorem noGroup_of_entry (r : Node) (p : List Nat) (e : Entry) (hI : Inv r) (hru : r.uuid ≠ e.d.uuid) (hp : p ≠ [])
    (hg : getPath r p = some (.entry e)) : allG (fun x _ _ => x ≠ e.d.uuid) r := by
  cases hroot : r with
  | entry e' => trivial
  | group ru rc rt rcs =>
    have hru' : ru ≠ e.d.uuid := by rw [hroot] at hru; exact hru
    simp only [allG]
    refine ⟨hru', ?_⟩
    have key := allG_updatePath_at (fun _ _ _ => True) (fun x _ _ => x ≠ e.d.uuid) (fun x => x) [e.d.uuid]
      (fun x _ _ _ hne hx => hne (by simp [hx])) p r _ hp hI.1 hI.2
      (by rw [hroot]; simpa [Node.uuid] using hru') hg (by intro y hy; simpa [uuidsN] using hy) (allG_true _) trivial
    rw [updatePath_id p r _ (fun x => x) hI.1 hg rfl, hroot] at key
    simp only [allG] at key
    exact key.2

/-- the parent recorded for `u` in a sound tree is where `find_node_location` finds it -/
theorem par_of_findLoc (u rootU : Nat) (r : Node) (q : List Nat) (hI : Inv r) (hF : Fresh rootU r) (hloc : findLoc r u = some q) :
    allC (ParO u q.getLast? rootU) r := by
  obtain ⟨loc, g, n, h1, h2, h3, h4, _⟩ := findLoc_sound r u hI (findLoc_some_mem r u q hloc)
  rw [hloc] at h1; injection h1 with h1; subst h1
  have hmem : u ∈ childIds g.children := by
    simp only [getPath] at h3
    have := (find_first h3).1
    simp only [childIds, List.mem_map]
    exact ⟨n, this, h4⟩
  have := allC_parent_at u q r g hI.1 hI.2 (findGroup_some h2).1 (findGroup_some h2).2 hmem
  refine allC_mono _ _ (fun x ids hx hin => ?_) r this
  show tagOf rootU x = q.getLast?
  rw [hx hin]
  exact findGroup_tag rootU r g q hF h2

/-- **last mover wins, for the whole merge**: both replicas hold the entry `u`; the source changed its location later than the
    destination did (both carry a location-changed time), and the source's entry is reached by the merge outside every group the
    destination has deleted (`liveL`).  Then, wherever `find_node_location` finds the entry in the result, its parent is the group
    that holds it in the source (the last element of the location path; none = directly below the root). -/
theorem merge_entry_moved (now : Int) (dst src d' : Db) (evs : List Event) (hI : Inv dst.root) (hIs : Inv src.root)
    (hru : src.root.uuid = dst.root.uuid)
    (hfd : dst.root.uuid ∉ uuidsL dst.root.children) (hfs : src.root.uuid ∉ uuidsL src.root.children)
    (h : merge now dst src = .ok (d', evs))
    (u : Nat) (qd qs qr : List Nat) (de se : Entry)
    (hld : findLoc dst.root u = some qd) (hd : findEntry dst.root (qd ++ [u]) = some de)
    (hls : findLoc src.root u = some qs) (hs : findEntry src.root (qs ++ [u]) = some se)
    (dl sl : Int) (hdl : de.d.times.loc = some dl) (hsl : se.d.times.loc = some sl) (hgt : sl > dl)
    (hlive : u ∈ liveL dst.tombs src.root.children)
    (hlr : findLoc d'.root u = some qr) : qr.getLast? = qs.getLast? := by
  let c : Plc := ⟨u, now, dst.root.uuid, qd.getLast?, qs.getLast?, dl, sl, hgt⟩
  have hgd := findEntry_some hd
  have hgs := findEntry_some hs
  have hdu : de.d.uuid = u := getPath_last_uuid qd dst.root _ u hgd
  have hsu : se.d.uuid = u := getPath_last_uuid qs src.root _ u hgs
  have hmem : u ∈ uuidsL dst.root.children := findLoc_some_mem dst.root u qd hld
  have hmems : u ∈ uuidsL src.root.children := findLoc_some_mem src.root u qs hls
  have hFd : Fresh dst.root.uuid dst.root := ⟨rfl, fun x hx e => hfd (e ▸ hx)⟩
  have hFs : Fresh dst.root.uuid src.root := ⟨hru, fun x hx e => hfs (by rw [hru, ← e]; exact hx)⟩
  have hSt0 : c.Stand dst.root := ⟨⟨hI, hmem⟩, hFd⟩
  have h00 : c.S0 dst.root := by
    refine Or.inl ⟨par_of_findLoc u dst.root.uuid dst.root qd hI hFd hld, ?_⟩
    have := allE_only (fun x => x.d.times.loc = some dl) dst.root (qd ++ [u]) de hI hgd hdl
    exact allE_mono _ _ (fun x hx hxu => hx (hxu.trans hdu.symm)) _ this
  -- the source
  have hparS := par_of_findLoc u dst.root.uuid src.root qs hIs hFs hls
  have hlocS : allE (fun e => e.d.uuid = u → e.d.times.loc = some sl) src.root := by
    have := allE_only (fun x => x.d.times.loc = some sl) src.root (qs ++ [u]) se hIs hgs hsl
    exact allE_mono _ _ (fun x hx hxu => hx (hxu.trans hsu.symm)) _ this
  have hgrpS : allG (fun x _ _ => x ≠ u) src.root := by
    have := noGroup_of_entry src.root (qs ++ [u]) se hIs (by rw [hsu]; intro e; exact hfs (e ▸ hmems)) (by simp) hgs
    rwa [hsu] at this
  cases hsr : src.root with
  | entry e => have := hIs.1; rw [hsr] at this; cases this
  | group su sc st scs =>
    rw [hsr] at hparS hlocS hgrpS hru hlive hfs
    simp only [allC] at hparS
    simp only [allE] at hlocS
    simp only [allG] at hgrpS
    simp only [Node.children] at hlive
    have hru' : su = dst.root.uuid := hru
    have hfs' : su ∉ uuidsL scs := hfs
    have hneR : ∀ x ∈ uuidsL scs, x ≠ dst.root.uuid := fun x hx e => hfs' (by rw [hru', ← e]; exact hx)
    have hSrc : c.SrcL scs := ⟨hneR, hgrpS.2, hlocS, hparS.2⟩
    unfold merge at h
    dsimp only at h
    rw [hsr] at h
    obtain ⟨s1, hs1, h⟩ := except_bind_ok h
    have hSt1 := stand_mergeRoot c _ s1 _ hSt0 hs1
    have h01 := (keeps_mergeRoot c _ s1 _ hI.1 hs1).s0 h00
    obtain ⟨s2, hs2, h⟩ := except_bind_ok h
    have hS2 : c.S1 s2.root := mergePasses_place c dst.tombs su sc st scs hSrc hparS.1 hru' hlive _ s1 s2 hSt1 h01
      (Or.inl (Nat.succ_ne_zero _)) hs2
    have hI1 := mergeRoot_inv now _ s1 _ hI hs1
    have hI2 := mergePasses_inv now _ _ _ _ s2 hI1 hs2
    have hU2 : s2.root.uuid = dst.root.uuid := by
      rw [mergePasses_rootUuid now _ _ _ s1 s2 hI1 hs2, mergeRoot_uuid now _ s1 _ hs1]
    obtain ⟨x, hx, h⟩ := except_bind_ok h
    obtain ⟨s3, tombs⟩ := x
    dsimp only at h
    injection h with h; injection h with h1 h2
    subst h1
    simp only at hlr
    unfold mergeDeletions at hx
    obtain ⟨r, hr4, hx⟩ := except_bind_ok hx
    obtain ⟨s4, nt4⟩ := r
    dsimp only at hx
    have hsubP : ∀ x ids ids', ParO u qs.getLast? dst.root.uuid x ids → (∀ i ∈ ids', i ∈ ids) → ParO u qs.getLast? dst.root.uuid x ids' :=
      fun _ _ _ hp hs' => ParO.sub hp hs'
    have hS4 := deleteEntries_allC _ hsubP now src.tombs s2 dst.tombs s4 nt4 hS2 hr4
    obtain ⟨_, hinv⟩ := deleteEntries_inv now src.tombs s2 dst.tombs hI2.1 hI2.2
    have hI4 := hinv s4 nt4 hr4
    have hS3 := deleteGroups_allC _ hsubP now _ s4 nt4 _ s3 tombs hS4 hx
    have hI3 := deleteGroups_inv now _ s4 nt4 _ s3 tombs ⟨hI4.1, hI4.2⟩ hx
    have hU3 : s3.root.uuid = dst.root.uuid := by
      rw [deleteGroups_rootUuid now _ s4 nt4 _ s3 tombs ⟨hI4.1, hI4.2⟩ hx, deleteEntries_rootUuid now _ s2 dst.tombs s4 nt4 hI2 hr4, hU2]
    -- what is below the root of the result comes from below one of the two roots
    have hsub4 := deleteEntries_subset now src.tombs s2 dst.tombs s4 nt4 hI2.1 hr4
    have hsub3 := deleteGroups_subset now _ s4 nt4 _ s3 tombs ⟨hI4.1, hI4.2⟩ hx
    have hQ2 : AllQ (· ≠ dst.root.uuid) s2.root := by
      have hQ1 : AllQ (· ≠ dst.root.uuid) s1.root := hSt1.fresh.2
      exact mergePasses_allQ _ _ now dst.tombs (qT dst.root.uuid dst.tombs) _
        (by intro x hx; exact hneR x (by simpa [Node.children] using hx)) _ s1 s2 hI1 hQ1 hs2
    have hF3 : Fresh dst.root.uuid s3.root := ⟨hU3, fun x hx => hQ2 x (hsub4.2 x (hsub3 x hx))⟩
    exact (par_tag u qs.getLast? dst.root.uuid s3.root hI3 hF3 hS3 qr hlr).symm

/-! ### the other direction: the destination moved it last (or at the same time) — it stays -/

/-- the visit when the source's location time is not later: nothing is moved -/
theorem mergeEntryStep_stay (c : Plc) (sl0 : Int) (hle : ¬ sl0 > c.dl) (tombs : List Tomb) (s s' : St) (path : List Nat)
    (inDeleted : Bool) (oe : Entry) (hoe : oe.d.uuid = c.u) (hsl : oe.d.times.loc = some sl0)
    (hSt : c.Stand s.root) (h0 : c.T s.root)
    (h : mergeEntryStep c.now tombs s path inDeleted oe = .ok s') : c.T s'.root := by
  obtain ⟨hp, hl⟩ := h0
  unfold mergeEntryStep at h
  split at h
  · rename_i dloc hloc
    split at h
    · cases h
    · rename_i existing0 hfe
      have hgp0 := findEntry_some hfe
      rw [hoe] at h hfe hgp0 hloc
      have hu0 : existing0.d.uuid = c.u := getPath_last_uuid dloc s.root _ c.u hgp0
      have hl0 : existing0.d.times.loc = some c.dl := by
        have := allE_getPath c.LocIs _ s.root _ hl hgp0
        simp only [allE] at this
        exact this hu0
      have keep : (do
            let __x ← (pure (s, dloc ++ [c.u], existing0) : Except MErr (St × List Nat × Entry))
            match __x with
            | (s, eloc, existing) => do
              let upd ← entryUpdate c.now existing oe
              match upd with
                | none => pure s
                | some merged =>
                  match findEntry s.root eloc with
                  | none => Except.error MErr.findEntry
                  | some _ =>
                    pure ({ s with root := updatePath s.root eloc (fun _ => Node.entry merged) }.ev .entryUpdated merged.d.uuid)) = .ok s' →
          c.T s'.root := by
        intro hk
        obtain ⟨x, hx, hk⟩ := except_bind_ok hk
        cases hx
        obtain ⟨upd, hupd', hk⟩ := except_bind_ok hk
        cases upd with
        | none => simp only at hk; injection hk with hk; subst hk; exact ⟨hp, hl⟩
        | some merged =>
          simp only at hk
          split at hk
          · cases hk
          · rename_i x hfx
            injection hk with hk; subst hk
            rw [ev_root]
            have hgx := findEntry_some hfx
            have hxu : x.d.uuid = c.u := getPath_last_uuid dloc s.root _ c.u hgx
            refine ⟨allC_updatePath_node _ _ _ s.root _ hgx hp trivial ?_, ?_⟩
            · show merged.d.uuid = x.d.uuid
              rcases entryUpdate_uuid c.now existing0 oe merged hupd' with hm | hm
              · rw [hm, hu0, hxu]
              · rw [hm, hoe, hxu]
            · refine allE_updatePath c.LocIs (fun _ => Node.entry merged) (fun _ _ => ?_) _ s.root hl
              simp only [allE]
              exact fun _ => entryUpdate_loc c.now existing0 oe merged c.dl hl0 hupd'
      dsimp only at h
      split at h
      · split at h
        · rename_i hgt
          exfalso
          apply hle
          rw [hsl, hl0] at hgt
          exact hgt
        · exact keep h
      · exact keep h
  · rename_i hloc
    exact absurd hSt.holds.2 (findLoc_none_notMem s.root _ (hoe ▸ hloc))

/-- what the not-moved direction needs of the source -/
structure Plc.SrcStay (c : Plc) (sl0 : Int) (cs : List Node) : Prop where
  neR : ∀ x ∈ uuidsL cs, x ≠ c.rootU
  grpNe : allGL (fun x _ _ => x ≠ c.u) cs
  loc : allEL (fun e => e.d.uuid = c.u → e.d.times.loc = some sl0) cs

theorem Plc.SrcStay.tail {c : Plc} {sl0 : Int} {n : Node} {cs : List Node} (h : c.SrcStay sl0 (n :: cs)) : c.SrcStay sl0 cs :=
  ⟨fun x hx => h.neR x (by simp only [uuidsL]; exact List.mem_append_right _ hx),
   by have := h.grpNe; simp only [allGL] at this; exact this.2,
   by have := h.loc; simp only [allEL] at this; exact this.2⟩

theorem Plc.SrcStay.headGroup {c : Plc} {sl0 : Int} {ou oc : Nat} {ot : Times} {ocs : List Node} {cs : List Node}
    (h : c.SrcStay sl0 (.group ou oc ot ocs :: cs)) : c.SrcStay sl0 ocs ∧ ou ≠ c.rootU ∧ ou ≠ c.u := by
  have hg := h.grpNe; simp only [allGL, allG] at hg
  have hl := h.loc; simp only [allEL, allE] at hl
  exact ⟨⟨fun x hx => h.neR x (by simp only [uuidsL, uuidsN]; exact List.mem_append_left _ (List.mem_cons_of_mem _ hx)),
    hg.1.2, hl.1⟩, h.neR ou (by simp [uuidsL, uuidsN]), hg.1.1⟩

theorem Plc.SrcStay.headEntry {c : Plc} {sl0 : Int} {e : Entry} {cs : List Node} (h : c.SrcStay sl0 (.entry e :: cs)) :
    e.d.uuid ≠ c.rootU ∧ (e.d.uuid = c.u → e.d.times.loc = some sl0) := by
  have hl := h.loc; simp only [allEL, allE] at hl
  exact ⟨h.neR e.d.uuid (by simp [uuidsL, uuidsN]), hl.1⟩

mutual
  theorem mergeGroup_stay (c : Plc) (sl0 : Int) (hle : ¬ sl0 > c.dl) (tombs : List Tomb) :
      ∀ (g : Node) (s s' : St) (path : List Nat) (inDel : Bool), c.SrcStay sl0 g.children → c.Stand s.root → c.T s.root →
        mergeGroup c.now tombs s path g inDel = .ok s' → c.T s'.root
    | .entry _, s, s', _, _, _, _, hT, h => by
      simp only [mergeGroup] at h
      injection h with h; subst h; exact hT
    | .group gu gc gt cs, s, s', path, inDel, hS, hSt, hT, h => by
      simp only [Node.children] at hS
      unfold mergeGroup at h
      dsimp only at h
      have jp : ∀ (s1 : St) (p1 : List Nat), c.Stand s1.root → c.T s1.root →
          (do
            let s ← mergeEntries c.now tombs s1 p1 inDel cs
            mergeSubgroups c.now tombs s p1 inDel cs) = .ok s' → c.T s'.root := by
        intro s1 p1 hSt1 hT1 hk
        obtain ⟨s2, hs2, hk⟩ := except_bind_ok hk
        exact mergeSubgroups_stay c sl0 hle tombs cs s2 s' p1 inDel hS (stand_entries c tombs cs s1 s2 p1 inDel hSt1 hS.neR hs2)
          (mergeEntries_stay c sl0 hle tombs cs s1 s2 p1 inDel hS hSt1 hT1 hs2) hk
      split at h
      · obtain ⟨x, hx, h⟩ := except_bind_ok h
        cases hx
        exact jp s path hSt hT h
      · rename_i dloc hloc
        split at h
        · obtain ⟨x, hx, h⟩ := except_bind_ok h
          cases hx
        · rename_i du dc dt dch hfg
          obtain ⟨x, hx, h⟩ := except_bind_ok h
          obtain ⟨c', t', upd⟩ := x
          dsimp only at h
          obtain ⟨y, hy, h⟩ := except_bind_ok h
          cases hy
          have hSt' := stand_groupData c s.root (dloc ++ [gu]) du dc dt dch c' t' hSt (by simp) hfg
          have hT' := (keeps_groupData c s.root (dloc ++ [gu]) du dc dt dch c' t' hfg).t hT
          refine jp _ _ ?_ ?_ h
          · split
            · rw [ev_root]; exact hSt'
            · exact hSt'
          · split
            · rw [ev_root]; exact hT'
            · exact hT'
        · obtain ⟨x, hx, h⟩ := except_bind_ok h
          cases hx

  theorem mergeEntries_stay (c : Plc) (sl0 : Int) (hle : ¬ sl0 > c.dl) (tombs : List Tomb) :
      ∀ (cs : List Node) (s s' : St) (path : List Nat) (inDel : Bool), c.SrcStay sl0 cs → c.Stand s.root → c.T s.root →
        mergeEntries c.now tombs s path inDel cs = .ok s' → c.T s'.root
    | [], s, s', _, _, _, _, hT, h => by
      simp only [mergeEntries] at h
      injection h with h; subst h; exact hT
    | .entry e :: rest, s, s', path, inDel, hS, hSt, hT, h => by
      obtain ⟨heR, heL⟩ := hS.headEntry
      unfold mergeEntries at h
      obtain ⟨s1, hs1, h⟩ := except_bind_ok h
      have hSt1 := stand_entryStep c tombs s s1 path inDel e hSt heR hs1
      refine mergeEntries_stay c sl0 hle tombs rest s1 s' path inDel hS.tail hSt1 ?_ h
      by_cases he : e.d.uuid = c.u
      · exact mergeEntryStep_stay c sl0 hle tombs s s1 path inDel e he (heL he) hSt hT hs1
      · exact (keeps_entryStep_other c tombs s s1 path inDel e he hs1).t hT
    | .group _ _ _ _ :: rest, s, s', path, inDel, hS, hSt, hT, h => by
      unfold mergeEntries at h
      exact mergeEntries_stay c sl0 hle tombs rest s s' path inDel hS.tail hSt hT h

  theorem mergeSubgroups_stay (c : Plc) (sl0 : Int) (hle : ¬ sl0 > c.dl) (tombs : List Tomb) :
      ∀ (cs : List Node) (s s' : St) (path : List Nat) (inDel : Bool), c.SrcStay sl0 cs → c.Stand s.root → c.T s.root →
        mergeSubgroups c.now tombs s path inDel cs = .ok s' → c.T s'.root
    | [], s, s', _, _, _, _, hT, h => by
      simp only [mergeSubgroups] at h
      injection h with h; subst h; exact hT
    | .entry _ :: rest, s, s', path, inDel, hS, hSt, hT, h => by
      unfold mergeSubgroups at h
      exact mergeSubgroups_stay c sl0 hle tombs rest s s' path inDel hS.tail hSt hT h
    | .group ou oc ot ocs :: rest, s, s', path, inDel, hS, hSt, hT, h => by
      obtain ⟨hSo, houR, houU⟩ := hS.headGroup
      have hneo : ∀ x ∈ uuidsL (Node.group ou oc ot ocs).children, x ≠ c.rootU := by
        simpa [Node.children] using hSo.neR
      unfold mergeSubgroups at h
      dsimp only at h
      have viaGroup : ∀ (s0 : St) (b : Bool), c.Stand s0.root → c.T s0.root →
          (do
            let s ← mergeGroup c.now tombs s0 (path ++ [ou]) (.group ou oc ot ocs) b
            mergeSubgroups c.now tombs s (refreshPath s.root path) inDel rest) = .ok s' → c.T s'.root := by
        intro s0 b hSt0 hT0 hk
        obtain ⟨s1, hs1, hk⟩ := except_bind_ok hk
        exact mergeSubgroups_stay c sl0 hle tombs rest s1 s' _ inDel hS.tail (stand_group c tombs _ s0 s1 _ b hSt0 hneo hs1)
          (mergeGroup_stay c sl0 hle tombs (.group ou oc ot ocs) s0 s1 _ b hSo hSt0 hT0 hs1) hk
      split at h
      · exact viaGroup s true hSt hT h
      · split at h
        · split at h
          · split at h
            · obtain ⟨x, hx, h⟩ := except_bind_ok h
              cases hx
            · split at h
              · obtain ⟨s2, hs2, h⟩ := except_bind_ok h
                refine viaGroup _ inDel ?_ ?_ h
                · rw [ev_root]; exact stand_relocate c s s2 _ _ _ _ hSt hs2
                · rw [ev_root]; exact (keeps_relocate_other c s s2 ou _ _ _ houU hs2).t hT
              · exact viaGroup s inDel hSt hT h
          · exact viaGroup s inDel hSt hT h
        · rename_i hloc
          split at h
          · obtain ⟨x, hx, h⟩ := except_bind_ok h
            cases hx
          · rename_i pg hfg
            rw [ev_root] at hfg
            refine viaGroup _ inDel ?_ ?_ h
            · exact stand_addGroup c s.root pg path ou oc ot hSt hfg hloc houR
            · exact (keeps_addGroup c s.root pg path ou oc ot houU hfg).t hT
end

theorem mergePasses_stay (c : Plc) (sl0 : Int) (hle : ¬ sl0 > c.dl) (tombs : List Tomb) (srcRoot : Node)
    (hS : c.SrcStay sl0 srcRoot.children) : ∀ (k : Nat) (s s' : St), c.Stand s.root → c.T s.root →
      mergePasses c.now tombs srcRoot k s = .ok s' → c.T s'.root := by
  intro k
  induction k with
  | zero => intro s s' _ hT h; simp only [mergePasses] at h; injection h with h; subst h; exact hT
  | succ k ih =>
    intro s s' hSt hT h
    unfold mergePasses at h
    split at h
    · cases h
    · rename_i s1 hs1
      have hT1 := mergeGroup_stay c sl0 hle tombs srcRoot { s with events := [] } s1 [] false hS hSt hT hs1
      have hSt1 := stand_group c tombs _ { s with events := [] } s1 [] false hSt hS.neR hs1
      dsimp only at h
      split at h
      · injection h with h; subst h; exact hT1
      · exact ih _ s' (show c.Stand ({ s1 with events := s.events ++ s1.events } : St).root from hSt1)
          (show c.T ({ s1 with events := s.events ++ s1.events } : St).root from hT1) h

/-- **the destination's move stands when the source's is not later**: both replicas hold the entry, both carry a
    location-changed time for it, and the source's is not later than the destination's.  Then, wherever `find_node_location` finds
    the entry in the result, its parent is the group that holds it in the destination. -/
theorem merge_entry_stays (now : Int) (dst src d' : Db) (evs : List Event) (hI : Inv dst.root) (hIs : Inv src.root)
    (hru : src.root.uuid = dst.root.uuid)
    (hfd : dst.root.uuid ∉ uuidsL dst.root.children) (hfs : src.root.uuid ∉ uuidsL src.root.children)
    (h : merge now dst src = .ok (d', evs))
    (u : Nat) (qd qs qr : List Nat) (de se : Entry)
    (hld : findLoc dst.root u = some qd) (hd : findEntry dst.root (qd ++ [u]) = some de)
    (hls : findLoc src.root u = some qs) (hs : findEntry src.root (qs ++ [u]) = some se)
    (dl sl : Int) (hdl : de.d.times.loc = some dl) (hsl : se.d.times.loc = some sl) (hle : ¬ sl > dl)
    (hlr : findLoc d'.root u = some qr) : qr.getLast? = qd.getLast? := by
  let c : Plc := ⟨u, now, dst.root.uuid, qd.getLast?, qd.getLast?, dl, dl + 1, by omega⟩
  have hgd := findEntry_some hd
  have hgs := findEntry_some hs
  have hdu : de.d.uuid = u := getPath_last_uuid qd dst.root _ u hgd
  have hsu : se.d.uuid = u := getPath_last_uuid qs src.root _ u hgs
  have hmem : u ∈ uuidsL dst.root.children := findLoc_some_mem dst.root u qd hld
  have hmems : u ∈ uuidsL src.root.children := findLoc_some_mem src.root u qs hls
  have hFd : Fresh dst.root.uuid dst.root := ⟨rfl, fun x hx e => hfd (e ▸ hx)⟩
  have hSt0 : c.Stand dst.root := ⟨⟨hI, hmem⟩, hFd⟩
  have hT0 : c.T dst.root := by
    refine ⟨par_of_findLoc u dst.root.uuid dst.root qd hI hFd hld, ?_⟩
    have := allE_only (fun x => x.d.times.loc = some dl) dst.root (qd ++ [u]) de hI hgd hdl
    exact allE_mono _ _ (fun x hx hxu => hx (hxu.trans hdu.symm)) _ this
  have hlocS : allE (fun e => e.d.uuid = u → e.d.times.loc = some sl) src.root := by
    have := allE_only (fun x => x.d.times.loc = some sl) src.root (qs ++ [u]) se hIs hgs hsl
    exact allE_mono _ _ (fun x hx hxu => hx (hxu.trans hsu.symm)) _ this
  have hgrpS : allG (fun x _ _ => x ≠ u) src.root := by
    have := noGroup_of_entry src.root (qs ++ [u]) se hIs (by rw [hsu]; intro e; exact hfs (e ▸ hmems)) (by simp) hgs
    rwa [hsu] at this
  have hneR : ∀ x ∈ uuidsL src.root.children, x ≠ dst.root.uuid := fun x hx e => hfs (by rw [hru, ← e]; exact hx)
  have hSrc : c.SrcStay sl src.root.children := by
    refine ⟨hneR, ?_, ?_⟩
    · cases hsr : src.root with
      | entry e => simp [Node.children, allGL]
      | group su sc st scs => rw [hsr] at hgrpS; simp only [allG] at hgrpS; exact hgrpS.2
    · cases hsr : src.root with
      | entry e => simp [Node.children, allEL]
      | group su sc st scs => rw [hsr] at hlocS; simp only [allE] at hlocS; exact hlocS
  unfold merge at h
  dsimp only at h
  obtain ⟨s1, hs1, h⟩ := except_bind_ok h
  have hSt1 := stand_mergeRoot c _ s1 _ hSt0 hs1
  have hT1 := (keeps_mergeRoot c _ s1 _ hI.1 hs1).t hT0
  obtain ⟨s2, hs2, h⟩ := except_bind_ok h
  have hT2 : c.T s2.root := mergePasses_stay c sl hle dst.tombs src.root hSrc _ s1 s2 hSt1 hT1 hs2
  have hI1 := mergeRoot_inv now _ s1 _ hI hs1
  have hI2 := mergePasses_inv now _ _ _ _ s2 hI1 hs2
  have hU2 : s2.root.uuid = dst.root.uuid := by
    rw [mergePasses_rootUuid now _ _ _ s1 s2 hI1 hs2, mergeRoot_uuid now _ s1 _ hs1]
  obtain ⟨x, hx, h⟩ := except_bind_ok h
  obtain ⟨s3, tombs⟩ := x
  dsimp only at h
  injection h with h; injection h with h1 h2
  subst h1
  simp only at hlr
  unfold mergeDeletions at hx
  obtain ⟨r, hr4, hx⟩ := except_bind_ok hx
  obtain ⟨s4, nt4⟩ := r
  dsimp only at hx
  have hsubP : ∀ x ids ids', ParO u qd.getLast? dst.root.uuid x ids → (∀ i ∈ ids', i ∈ ids) → ParO u qd.getLast? dst.root.uuid x ids' :=
    fun _ _ _ hp hs' => ParO.sub hp hs'
  have hS4 := deleteEntries_allC _ hsubP now src.tombs s2 dst.tombs s4 nt4 hT2.1 hr4
  obtain ⟨_, hinv⟩ := deleteEntries_inv now src.tombs s2 dst.tombs hI2.1 hI2.2
  have hI4 := hinv s4 nt4 hr4
  have hS3 := deleteGroups_allC _ hsubP now _ s4 nt4 _ s3 tombs hS4 hx
  have hI3 := deleteGroups_inv now _ s4 nt4 _ s3 tombs ⟨hI4.1, hI4.2⟩ hx
  have hU3 : s3.root.uuid = dst.root.uuid := by
    rw [deleteGroups_rootUuid now _ s4 nt4 _ s3 tombs ⟨hI4.1, hI4.2⟩ hx, deleteEntries_rootUuid now _ s2 dst.tombs s4 nt4 hI2 hr4, hU2]
  have hsub4 := deleteEntries_subset now src.tombs s2 dst.tombs s4 nt4 hI2.1 hr4
  have hsub3 := deleteGroups_subset now _ s4 nt4 _ s3 tombs ⟨hI4.1, hI4.2⟩ hx
  have hQ2 : AllQ (· ≠ dst.root.uuid) s2.root :=
    mergePasses_allQ _ _ now dst.tombs (qT dst.root.uuid dst.tombs) _ hneR _ s1 s2 hI1 hSt1.fresh.2 hs2
  have hF3 : Fresh dst.root.uuid s3.root := ⟨hU3, fun x hx => hQ2 x (hsub4.2 x (hsub3 x hx))⟩
  exact (par_tag u qd.getLast? dst.root.uuid s3.root hI3 hF3 hS3 qr hlr).symm

/-! ### a node that only the source holds is created under the same parent -/

structure Crt where
  u : Nat
  now : Int
  rootU : Nat
  Xs : Option Nat

def Crt.S (c : Crt) (r : Node) : Prop := allC (ParO c.u c.Xs c.rootU) r

structure Crt.Stand (c : Crt) (r : Node) : Prop where
  inv : Inv r
  fresh : Fresh c.rootU r

theorem crt_stand_entryStep (c : Crt) (tombs : List Tomb) (s s' : St) (path : List Nat) (inDel : Bool) (oe : Entry)
    (hS : c.Stand s.root) (hoe : oe.d.uuid ≠ c.rootU) (h : mergeEntryStep c.now tombs s path inDel oe = .ok s') : c.Stand s'.root :=
  ⟨mergeEntryStep_inv c.now tombs s s' path inDel oe hS.inv h,
   by rw [mergeEntryStep_uuid c.now tombs s s' path inDel oe hS.inv h]; exact hS.fresh.1,
   mergeEntryStep_allQ _ _ c.now tombs (qT c.rootU tombs) s s' path inDel oe hoe hS.inv hS.fresh.2 h⟩

theorem crt_stand_entries (c : Crt) (tombs : List Tomb) (cs : List Node) (s s' : St) (path : List Nat) (inDel : Bool)
    (hS : c.Stand s.root) (hne : ∀ x ∈ uuidsL cs, x ≠ c.rootU) (h : mergeEntries c.now tombs s path inDel cs = .ok s') : c.Stand s'.root :=
  ⟨mergeEntries_inv c.now tombs cs s s' path inDel hS.inv h,
   by rw [mergeEntries_uuid c.now tombs cs s s' path inDel hS.inv h]; exact hS.fresh.1,
   mergeEntries_allQ _ _ c.now tombs (qT c.rootU tombs) cs s s' path inDel hne hS.inv hS.fresh.2 h⟩

theorem crt_stand_group (c : Crt) (tombs : List Tomb) (g : Node) (s s' : St) (path : List Nat) (inDel : Bool)
    (hS : c.Stand s.root) (hne : ∀ x ∈ uuidsL g.children, x ≠ c.rootU) (h : mergeGroup c.now tombs s path g inDel = .ok s') : c.Stand s'.root :=
  ⟨mergeGroup_inv c.now tombs g s s' path inDel hS.inv h,
   by rw [mergeGroup_uuid c.now tombs g s s' path inDel hS.inv h]; exact hS.fresh.1,
   mergeGroup_allQ _ _ c.now tombs (qT c.rootU tombs) g s s' path inDel hne hS.inv hS.fresh.2 h⟩

theorem crt_stand_relocate (c : Crt) (s s' : St) (x : Nat) (a b : List Nat) (ts : Int) (hS : c.Stand s.root)
    (h : relocate s x a b ts = .ok s') : c.Stand s'.root :=
  ⟨relocate_inv s s' x a b ts hS.inv h, by rw [relocate_uuid s s' x a b ts hS.inv h]; exact hS.fresh.1,
   relocate_allQ _ s s' x a b ts hS.inv hS.fresh.2 h⟩

theorem crt_stand_groupData (c : Crt) (root : Node) (p : List Nat) (du dc : Nat) (dt : Times) (dch : List Node) (c' : Nat) (t' : Times)
    (hS : c.Stand root) (hp : p ≠ []) (hfg : findGroup root p = some (.group du dc dt dch)) :
    c.Stand (updatePath root p (fun n => match n with
      | .group u _ _ ch => .group u c' t' ch
      | e => e)) :=
  ⟨inv_update_same root (.group du dc dt dch) p _ hS.inv hp (findGroup_some hfg).1 (by simp [uuidsN]),
   by rw [updatePath_root_uuid root p _ hS.inv.1 (fun e => absurd e hp)]; exact hS.fresh.1,
   allQ_update_same _ root (.group du dc dt dch) p _ hS.inv hS.fresh.2 hp (findGroup_some hfg).1 (by simp [uuidsN])⟩

theorem crt_stand_addGroup (c : Crt) (root pg : Node) (path : List Nat) (ou oc : Nat) (ot : Times) (hS : c.Stand root)
    (hfg : findGroup root path = some pg) (hloc : findLoc root ou = none) (hou : ou ≠ c.rootU) :
    c.Stand (updatePath root path (fun p => p.setChildren (p.children ++ [Node.group ou oc ot []]))) :=
  ⟨inv_addGroup root pg path ou oc ot hS.inv hfg hloc,
   by rw [updatePath_root_uuid root path (fun p => p.setChildren (p.children ++ [Node.group ou oc ot []])) hS.inv.1
        (fun _ => setChildren_uuid _ _)]; exact hS.fresh.1,
   allQ_add_child _ root pg (.group ou oc ot []) path hS.inv hS.fresh.2 hfg (by
     intro x hx; simp only [uuidsN, uuidsL, List.mem_cons, List.not_mem_nil, or_false] at hx; subst hx; exact hou)⟩

/-- a node of any kind with the UUID followed is moved: afterwards its parent is the group the target path designates -/
theorem relocate_par_self' (u : Nat) (rootU : Nat) (s s' : St) (fromP toP : List Nat) (ts : Int)
    (hI : Inv s.root) (hF : Fresh rootU s.root)
    (h : relocate s u fromP toP ts = .ok s') : allC (ParO u toP.getLast? rootU) s'.root := by
  unfold relocate at h
  cases hfg : findGroup s.root fromP with
  | none => rw [hfg] at h; cases h
  | some g =>
    rw [hfg] at h
    simp only at h
    cases hrm : removeNode g u with
    | none => rw [hrm] at h; cases h
    | some pr =>
      obtain ⟨g', node⟩ := pr
      rw [hrm] at h
      simp only at h
      cases hft : findGroup (updatePath s.root fromP (fun _ => g')) toP with
      | none => rw [hft] at h; cases h
      | some t =>
        rw [hft] at h
        simp only at h
        injection h with h
        subst h
        simp only
        have ⟨hgp, hgg⟩ := findGroup_some hfg
        obtain ⟨hnu, hnm, hg'⟩ := removeNode_facts g g' node u hrm
        obtain ⟨hg1, hperm⟩ := remove_perm s.root g g' node u fromP hI hfg hrm
        have hnd := hperm.nodup_iff.mp hI.2
        have hparts := List.nodup_append.mp hnd
        have hu : u ∉ uuidsL (updatePath s.root fromP (fun _ => g')).children := by
          intro hc
          exact hparts.2.2 u hc u (by rw [← hnu]; exact uuid_mem_uuidsN node) rfl
        have h1 : allC (ParO u toP.getLast? rootU) (updatePath s.root fromP (fun _ => g')) :=
          allC_mono _ _ (fun _ _ hn hin => absurd hin hn) _ (allC_absentN u _ hu)
        -- inside the moved node there is no second node with its UUID
        have hnode : allC (ParO u toP.getLast? rootU) node := by
          refine allC_mono _ _ (fun _ _ hn hin => absurd hin hn) _ (allC_absentN u node (fun hin => ?_))
          have hnn : (uuidsN node).Nodup := hparts.2.1
          cases node with
          | entry e => simp [Node.children, uuidsL] at hin
          | group x cc t ccs =>
            simp only [uuidsN, List.nodup_cons, Node.children, Node.uuid] at hnn hin hnu
            exact hnn.1 (hnu ▸ hin)
        have hF1 : Fresh rootU (updatePath s.root fromP (fun _ => g')) := by
          refine ⟨?_, fun x hx => hF.2 x ((hperm.mem_iff.mpr (List.mem_append_left _ hx)))⟩
          rw [updatePath_root_uuid s.root fromP _ hI.1 (fun e => by
            subst e
            simp only [getPath, Option.some.injEq] at hgp
            rw [hg', setChildren_uuid, hgp])]
          exact hF.1
        refine append_step_allC _ _ t (node.setLoc ts) toP h1 hft (allC_setLoc _ node ts hnode) ?_
        intro _
        exact findGroup_tag rootU _ t toP hF1 hft

/-- the entry step for the UUID followed: created under the path's group, or found where it already is -/
theorem mergeEntryStep_crt (c : Crt) (tombs : List Tomb) (s s' : St) (path : List Nat) (inDeleted : Bool) (oe : Entry)
    (hoe : oe.d.uuid = c.u) (htag : path.getLast? = c.Xs) (hSt : c.Stand s.root) (h0 : c.S s.root)
    (h : mergeEntryStep c.now tombs s path inDeleted oe = .ok s') : c.S s'.root := by
  unfold mergeEntryStep at h
  split at h
  · rename_i dloc hloc
    split at h
    · cases h
    · rename_i existing0 hfe
      have hgp0 := findEntry_some hfe
      rw [hoe] at h hfe hgp0 hloc
      have hu0 : existing0.d.uuid = c.u := getPath_last_uuid dloc s.root _ c.u hgp0
      have hx := par_tag c.u c.Xs c.rootU s.root hSt.inv hSt.fresh h0 dloc hloc
      dsimp only at h
      split at h
      · rename_i hcond
        simp only [Bool.and_eq_true, bne_iff_ne, ne_eq] at hcond
        exact absurd (by rw [htag, hx]) hcond.1
      · obtain ⟨x, hx', h⟩ := except_bind_ok h
        cases hx'
        obtain ⟨upd, hupd', h⟩ := except_bind_ok h
        cases upd with
        | none => simp only at h; injection h with h; subst h; exact h0
        | some merged =>
          simp only at h
          split at h
          · cases h
          · rename_i x hfx
            injection h with h; subst h
            rw [ev_root]
            have hgx := findEntry_some hfx
            have hxu : x.d.uuid = c.u := getPath_last_uuid dloc s.root _ c.u hgx
            refine allC_updatePath_node _ _ _ s.root _ hgx h0 trivial ?_
            show merged.d.uuid = x.d.uuid
            rcases entryUpdate_uuid c.now existing0 oe merged hupd' with hm | hm
            · rw [hm, hu0, hxu]
            · rw [hm, hoe, hxu]
  · rename_i hloc
    split at h
    · injection h with h; subst h; exact h0
    · split at h
      · injection h with h; subst h; exact h0
      · split at h
        · cases h
        · rename_i t hft
          injection h with h; subst h
          rw [ev_root]
          refine append_step_allC _ s.root t (.entry oe) path h0 hft trivial (fun _ => ?_)
          rw [findGroup_tag c.rootU s.root t path hSt.fresh hft, htag]

structure Crt.SrcL (c : Crt) (cs : List Node) : Prop where
  neR : ∀ x ∈ uuidsL cs, x ≠ c.rootU
  par : allCL (ParO c.u c.Xs c.rootU) cs

theorem Crt.SrcL.tail {c : Crt} {n : Node} {cs : List Node} (h : c.SrcL (n :: cs)) : c.SrcL cs :=
  ⟨fun x hx => h.neR x (by simp only [uuidsL]; exact List.mem_append_right _ hx),
   by have := h.par; simp only [allCL] at this; exact this.2⟩

theorem Crt.SrcL.headGroup {c : Crt} {ou oc : Nat} {ot : Times} {ocs : List Node} {cs : List Node}
    (h : c.SrcL (.group ou oc ot ocs :: cs)) : c.SrcL ocs ∧ ou ≠ c.rootU ∧ ParO c.u c.Xs c.rootU ou (childIds ocs) := by
  have hp := h.par; simp only [allCL, allC] at hp
  exact ⟨⟨fun x hx => h.neR x (by simp only [uuidsL, uuidsN]; exact List.mem_append_left _ (List.mem_cons_of_mem _ hx)), hp.1.2⟩,
    h.neR ou (by simp [uuidsL, uuidsN]), hp.1.1⟩

theorem childIds_cons (n : Node) (cs : List Node) : childIds (n :: cs) = n.uuid :: childIds cs := rfl

mutual
  theorem mergeGroup_crt (c : Crt) (tombs : List Tomb) :
      ∀ (g : Node) (s s' : St) (path : List Nat) (inDel : Bool), c.SrcL g.children →
        ParO c.u c.Xs c.rootU g.uuid (childIds g.children) → path.getLast? = tagOf c.rootU g.uuid → c.Stand s.root → c.S s.root →
        mergeGroup c.now tombs s path g inDel = .ok s' → c.S s'.root
    | .entry _, s, s', _, _, _, _, _, _, hT, h => by
      simp only [mergeGroup] at h
      injection h with h; subst h; exact hT
    | .group gu gc gt cs, s, s', path, inDel, hS, hpar, htag, hSt, hT, h => by
      simp only [Node.children] at hS hpar
      simp only [Node.uuid] at hpar htag
      unfold mergeGroup at h
      dsimp only at h
      have jp : ∀ (s1 : St) (p1 : List Nat), p1.getLast? = tagOf c.rootU gu → c.Stand s1.root → c.S s1.root →
          (do
            let s ← mergeEntries c.now tombs s1 p1 inDel cs
            mergeSubgroups c.now tombs s p1 inDel cs) = .ok s' → c.S s'.root := by
        intro s1 p1 ht1 hSt1 hT1 hk
        obtain ⟨s2, hs2, hk⟩ := except_bind_ok hk
        have hown : c.u ∈ childIds cs → p1.getLast? = c.Xs := fun hd => by rw [ht1]; exact hpar hd
        exact mergeSubgroups_crt c tombs cs s2 s' p1 inDel hS hown (crt_stand_entries c tombs cs s1 s2 p1 inDel hSt1 hS.neR hs2)
          (mergeEntries_crt c tombs cs s1 s2 p1 inDel hS hown hSt1 hT1 hs2) hk
      split at h
      · obtain ⟨x, hx, h⟩ := except_bind_ok h
        cases hx
        exact jp s path htag hSt hT h
      · rename_i dloc hloc
        split at h
        · obtain ⟨x, hx, h⟩ := except_bind_ok h
          cases hx
        · rename_i du dc dt dch hfg
          obtain ⟨x, hx, h⟩ := except_bind_ok h
          obtain ⟨c', t', upd⟩ := x
          dsimp only at h
          obtain ⟨y, hy, h⟩ := except_bind_ok h
          cases hy
          have hguR : gu ≠ c.rootU := hSt.fresh.2 gu (findLoc_some_mem s.root gu dloc hloc)
          have ht' : (dloc ++ [gu]).getLast? = tagOf c.rootU gu := by simp [tagOf, hguR]
          have hSt' := crt_stand_groupData c s.root (dloc ++ [gu]) du dc dt dch c' t' hSt (by simp) hfg
          have hT' := par_groupData _ s.root (dloc ++ [gu]) du dc dt dch c' t' hT hfg
          refine jp _ _ ht' ?_ ?_ h
          · split
            · rw [ev_root]; exact hSt'
            · exact hSt'
          · split
            · rw [ev_root]; exact hT'
            · exact hT'
        · obtain ⟨x, hx, h⟩ := except_bind_ok h
          cases hx

  theorem mergeEntries_crt (c : Crt) (tombs : List Tomb) :
      ∀ (cs : List Node) (s s' : St) (path : List Nat) (inDel : Bool), c.SrcL cs →
        (c.u ∈ childIds cs → path.getLast? = c.Xs) → c.Stand s.root → c.S s.root →
        mergeEntries c.now tombs s path inDel cs = .ok s' → c.S s'.root
    | [], s, s', _, _, _, _, _, hT, h => by
      simp only [mergeEntries] at h
      injection h with h; subst h; exact hT
    | .entry e :: rest, s, s', path, inDel, hS, hown, hSt, hT, h => by
      have heR : e.d.uuid ≠ c.rootU := hS.neR e.d.uuid (by simp [uuidsL, uuidsN])
      unfold mergeEntries at h
      obtain ⟨s1, hs1, h⟩ := except_bind_ok h
      have hSt1 := crt_stand_entryStep c tombs s s1 path inDel e hSt heR hs1
      refine mergeEntries_crt c tombs rest s1 s' path inDel hS.tail
        (fun hd => hown (by rw [childIds_cons]; exact List.mem_cons_of_mem _ hd)) hSt1 ?_ h
      by_cases he : e.d.uuid = c.u
      · exact mergeEntryStep_crt c tombs s s1 path inDel e he (hown (by rw [childIds_cons]; exact List.mem_cons.mpr (Or.inl he.symm))) hSt hT hs1
      · exact mergeEntryStep_par_other c.u c.Xs c.rootU c.now tombs s s1 path inDel e he hT hs1
    | .group gu' gc' gt' gcs' :: rest, s, s', path, inDel, hS, hown, hSt, hT, h => by
      unfold mergeEntries at h
      exact mergeEntries_crt c tombs rest s s' path inDel hS.tail
        (fun hd => hown (by rw [childIds_cons]; exact List.mem_cons_of_mem _ hd)) hSt hT h

  theorem mergeSubgroups_crt (c : Crt) (tombs : List Tomb) :
      ∀ (cs : List Node) (s s' : St) (path : List Nat) (inDel : Bool), c.SrcL cs →
        (c.u ∈ childIds cs → path.getLast? = c.Xs) → c.Stand s.root → c.S s.root →
        mergeSubgroups c.now tombs s path inDel cs = .ok s' → c.S s'.root
    | [], s, s', _, _, _, _, _, hT, h => by
      simp only [mergeSubgroups] at h
      injection h with h; subst h; exact hT
    | .entry e :: rest, s, s', path, inDel, hS, hown, hSt, hT, h => by
      unfold mergeSubgroups at h
      exact mergeSubgroups_crt c tombs rest s s' path inDel hS.tail
        (fun hd => hown (by rw [childIds_cons]; exact List.mem_cons_of_mem _ hd)) hSt hT h
    | .group ou oc ot ocs :: rest, s, s', path, inDel, hS, hown, hSt, hT, h => by
      obtain ⟨hSo, houR, hparo⟩ := hS.headGroup
      have hneo : ∀ x ∈ uuidsL (Node.group ou oc ot ocs).children, x ≠ c.rootU := by
        simpa [Node.children] using hSo.neR
      have htago : (path ++ [ou]).getLast? = tagOf c.rootU ou := by simp [tagOf, houR]
      have hownR : ∀ (r : Node), c.u ∈ childIds rest → (refreshPath r path).getLast? = c.Xs := fun r hd => by
        rw [refreshPath_last]; exact hown (by rw [childIds_cons]; exact List.mem_cons_of_mem _ hd)
      unfold mergeSubgroups at h
      dsimp only at h
      have viaGroup : ∀ (s0 : St) (b : Bool), c.Stand s0.root → c.S s0.root →
          (do
            let s ← mergeGroup c.now tombs s0 (path ++ [ou]) (.group ou oc ot ocs) b
            mergeSubgroups c.now tombs s (refreshPath s.root path) inDel rest) = .ok s' → c.S s'.root := by
        intro s0 b hSt0 hT0 hk
        obtain ⟨s1, hs1, hk⟩ := except_bind_ok hk
        exact mergeSubgroups_crt c tombs rest s1 s' _ inDel hS.tail (hownR s1.root) (crt_stand_group c tombs _ s0 s1 _ b hSt0 hneo hs1)
          (mergeGroup_crt c tombs (.group ou oc ot ocs) s0 s1 _ b hSo hparo htago hSt0 hT0 hs1) hk
      split at h
      · exact viaGroup s true hSt hT h
      · split at h
        · split at h
          · split at h
            · obtain ⟨x, hx, h⟩ := except_bind_ok h
              cases hx
            · split at h
              · obtain ⟨s2, hs2, h⟩ := except_bind_ok h
                refine viaGroup _ inDel ?_ ?_ h
                · rw [ev_root]; exact crt_stand_relocate c s s2 _ _ _ _ hSt hs2
                · rw [ev_root]
                  by_cases hou : ou = c.u
                  · have := relocate_par_self' ou c.rootU s s2 _ path _ hSt.inv hSt.fresh hs2
                    rw [hou] at this
                    rw [hown (by rw [childIds_cons]; exact List.mem_cons.mpr (Or.inl hou.symm))] at this
                    exact this
                  · exact relocate_par_other c.u c.Xs c.rootU s s2 ou _ _ _ hou hT hs2
              · exact viaGroup s inDel hSt hT h
          · exact viaGroup s inDel hSt hT h
        · rename_i hloc
          split at h
          · obtain ⟨x, hx, h⟩ := except_bind_ok h
            cases hx
          · rename_i pg hfg
            rw [ev_root] at hfg
            refine viaGroup _ inDel ?_ ?_ h
            · exact crt_stand_addGroup c s.root pg path ou oc ot hSt hfg hloc houR
            · by_cases hou : ou = c.u
              · refine append_step_allC _ s.root pg (.group ou oc ot []) path hT hfg ?_ (fun _ => ?_)
                · simp only [allC, allCL, childIds, List.map_nil, and_true]
                  intro hx; cases hx
                · rw [findGroup_tag c.rootU s.root pg path hSt.fresh hfg]
                  exact hown (by rw [childIds_cons]; exact List.mem_cons.mpr (Or.inl hou.symm))
              · exact par_addGroup c.u c.Xs c.rootU s.root pg path ou oc ot hou hT hfg
end

theorem mergePasses_crt (c : Crt) (tombs : List Tomb) (su sc : Nat) (st : Times) (scs : List Node) (hS : c.SrcL scs)
    (hpar : ParO c.u c.Xs c.rootU su (childIds scs)) (hsu : su = c.rootU) :
    ∀ (k : Nat) (s s' : St), c.Stand s.root → c.S s.root →
      mergePasses c.now tombs (.group su sc st scs) k s = .ok s' → c.S s'.root := by
  intro k
  induction k with
  | zero => intro s s' _ hT h; simp only [mergePasses] at h; injection h with h; subst h; exact hT
  | succ k ih =>
    intro s s' hSt hT h
    unfold mergePasses at h
    split at h
    · cases h
    · rename_i s1 hs1
      have htag : ([] : List Nat).getLast? = tagOf c.rootU (Node.group su sc st scs).uuid := by simp [tagOf, Node.uuid, hsu]
      have hT1 := mergeGroup_crt c tombs (.group su sc st scs) { s with events := [] } s1 [] false hS hpar htag hSt hT hs1
      have hSt1 := crt_stand_group c tombs _ { s with events := [] } s1 [] false hSt (by simpa [Node.children] using hS.neR) hs1
      dsimp only at h
      split at h
      · injection h with h; subst h; exact hT1
      · exact ih _ s' (show c.Stand ({ s1 with events := s.events ++ s1.events } : St).root from hSt1)
          (show c.S ({ s1 with events := s.events ++ s1.events } : St).root from hT1) h

/-- **a node that only the source holds is created under the same parent**: the destination does not hold the UUID `u` (entry or
    group); the source holds it.  Wherever `find_node_location` finds it in the result, its parent is the group that holds it in
    the source (the last element of the location path; none = directly below the root). -/
theorem merge_created_under_parent (now : Int) (dst src d' : Db) (evs : List Event) (hI : Inv dst.root) (hIs : Inv src.root)
    (hru : src.root.uuid = dst.root.uuid)
    (hfd : dst.root.uuid ∉ uuidsL dst.root.children) (hfs : src.root.uuid ∉ uuidsL src.root.children)
    (h : merge now dst src = .ok (d', evs))
    (u : Nat) (qs qr : List Nat) (hnd : u ∉ uuidsL dst.root.children)
    (hls : findLoc src.root u = some qs) (hlr : findLoc d'.root u = some qr) : qr.getLast? = qs.getLast? := by
  let c : Crt := ⟨u, now, dst.root.uuid, qs.getLast?⟩
  have hFd : Fresh dst.root.uuid dst.root := ⟨rfl, fun x hx e => hfd (e ▸ hx)⟩
  have hFs : Fresh dst.root.uuid src.root := ⟨hru, fun x hx e => hfs (by rw [hru, ← e]; exact hx)⟩
  have hSt0 : c.Stand dst.root := ⟨hI, hFd⟩
  have h00 : c.S dst.root := allC_mono _ _ (fun _ _ hn hin => absurd hin hn) _ (allC_absentN u dst.root hnd)
  have hparS := par_of_findLoc u dst.root.uuid src.root qs hIs hFs hls
  cases hsr : src.root with
  | entry e => have := hIs.1; rw [hsr] at this; cases this
  | group su sc st scs =>
    rw [hsr] at hparS hru hfs
    simp only [allC] at hparS
    have hru' : su = dst.root.uuid := hru
    have hfs' : su ∉ uuidsL scs := hfs
    have hneR : ∀ x ∈ uuidsL scs, x ≠ dst.root.uuid := fun x hx e => hfs' (by rw [hru', ← e]; exact hx)
    have hSrc : c.SrcL scs := ⟨hneR, hparS.2⟩
    unfold merge at h
    dsimp only at h
    rw [hsr] at h
    obtain ⟨s1, hs1, h⟩ := except_bind_ok h
    have hI1 := mergeRoot_inv now _ s1 _ hI hs1
    have hSt1 : c.Stand s1.root := ⟨hI1, by rw [mergeRoot_uuid now _ s1 _ hs1],
      fun x hx => hFd.2 x (by rw [← mergeRoot_children now _ s1 _ hs1]; exact hx)⟩
    have h01 : c.S s1.root := mergeRoot_allC _ now ⟨dst.root, []⟩ s1 _ h00 hs1
    obtain ⟨s2, hs2, h⟩ := except_bind_ok h
    have hS2 : c.S s2.root := mergePasses_crt c dst.tombs su sc st scs hSrc hparS.1 hru' _ s1 s2 hSt1 h01 hs2
    have hI2 := mergePasses_inv now _ _ _ _ s2 hI1 hs2
    have hU2 : s2.root.uuid = dst.root.uuid := by
      rw [mergePasses_rootUuid now _ _ _ s1 s2 hI1 hs2, mergeRoot_uuid now _ s1 _ hs1]
    obtain ⟨x, hx, h⟩ := except_bind_ok h
    obtain ⟨s3, tombs⟩ := x
    dsimp only at h
    injection h with h; injection h with h1 h2
    subst h1
    simp only at hlr
    unfold mergeDeletions at hx
    obtain ⟨r, hr4, hx⟩ := except_bind_ok hx
    obtain ⟨s4, nt4⟩ := r
    dsimp only at hx
    have hsubP : ∀ x ids ids', ParO u qs.getLast? dst.root.uuid x ids → (∀ i ∈ ids', i ∈ ids) → ParO u qs.getLast? dst.root.uuid x ids' :=
      fun _ _ _ hp hs' => ParO.sub hp hs'
    have hS4 := deleteEntries_allC _ hsubP now src.tombs s2 dst.tombs s4 nt4 hS2 hr4
    obtain ⟨_, hinv⟩ := deleteEntries_inv now src.tombs s2 dst.tombs hI2.1 hI2.2
    have hI4 := hinv s4 nt4 hr4
    have hS3 := deleteGroups_allC _ hsubP now _ s4 nt4 _ s3 tombs hS4 hx
    have hI3 := deleteGroups_inv now _ s4 nt4 _ s3 tombs ⟨hI4.1, hI4.2⟩ hx
    have hU3 : s3.root.uuid = dst.root.uuid := by
      rw [deleteGroups_rootUuid now _ s4 nt4 _ s3 tombs ⟨hI4.1, hI4.2⟩ hx, deleteEntries_rootUuid now _ s2 dst.tombs s4 nt4 hI2 hr4, hU2]
    have hsub4 := deleteEntries_subset now src.tombs s2 dst.tombs s4 nt4 hI2.1 hr4
    have hsub3 := deleteGroups_subset now _ s4 nt4 _ s3 tombs ⟨hI4.1, hI4.2⟩ hx
    have hQ2 : AllQ (· ≠ dst.root.uuid) s2.root :=
      mergePasses_allQ _ _ now dst.tombs (qT dst.root.uuid dst.tombs) _
        (by intro x hx; exact hneR x (by simpa [Node.children] using hx)) _ s1 s2 hI1 hSt1.fresh.2 hs2
    have hF3 : Fresh dst.root.uuid s3.root := ⟨hU3, fun x hx => hQ2 x (hsub4.2 x (hsub3 x hx))⟩
    exact (par_tag u qs.getLast? dst.root.uuid s3.root hI3 hF3 hS3 qr hlr).symm
