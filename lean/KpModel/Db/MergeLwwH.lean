import KpModel.Db.MergeLww
import KpModel.Db.MergeLemmas
/-!
# The history union, for the whole merge

An entry that both replicas hold, with different modification times, ends with a history that represents (by modification
time, the key of `History::merge_with`) every history item of both sides, and the losing side's current version when that
had not been committed to its history — unless the two versions have the same content and history, in which case nothing is
merged.  An instance of `Track` (`MergeLww`).
-/
namespace Kp.Merge
open Node

/-- history union: strictly descending by modification time, every destination item is kept as it is, every source item's
    time is represented, every result time comes from a side -/
theorem historyMerge_spec (dst src r : List EData) (h : historyMerge dst src = .ok r) :
    SortedDesc (r.filterMap (·.times.mtime))
    ∧ (∀ x ∈ dst, x ∈ r)
    ∧ (∀ x ∈ src, ∃ y ∈ r, y.times.mtime = x.times.mtime)
    ∧ (∀ y ∈ r, ∃ x, (x ∈ dst ∨ x ∈ src) ∧ x.times.mtime = y.times.mtime) := by
  unfold historyMerge at h
  cases h1 : phase1 dst [] with
  | error e => simp [h1] at h
  | ok m =>
    simp only [h1] at h
    cases h2 : phase2 src m with
    | error e => simp [h2] at h
    | ok m' =>
      simp only [h2] at h
      injection h with h; subst h
      have s1 := phase1_sorted dst [] m (by simp [keys, SortedDesc]) h1
      have k1 := phase1_keyInv dst [] m (by intro p hp; cases hp) h1
      have s2 := phase2_sorted src m m' s1.1 h2
      have k2 := phase2_keyInv src m m' k1 h2
      have m1 := phase1_mem dst [] m h1
      have hkeys : (m'.map (·.2)).filterMap (·.times.mtime) = keys m' := by
        have : ∀ (l : AL), KeyInv l → (l.map (·.2)).filterMap (·.times.mtime) = keys l := by
          intro l hl
          induction l with
          | nil => rfl
          | cons p rest ih =>
            have hp := hl p (List.mem_cons_self ..)
            simp only [List.map_cons, List.filterMap_cons, hp, keys]
            congr 1
            exact ih (fun q hq => hl q (List.mem_cons_of_mem _ hq))
        exact this m' k2.1
      refine ⟨by rw [hkeys]; exact s2.1, ?_, ?_, ?_⟩
      · intro x hx
        obtain ⟨t, _, hmem⟩ := m1.2 x hx
        exact List.mem_map.mpr ⟨(t, x), s2.2.2 _ hmem, rfl⟩
      · intro x hx
        obtain ⟨t, ht⟩ := k2.2 x hx
        have : t ∈ keys m' := by
          rw [s2.2.1 t]; right; exact List.mem_map.mpr ⟨x, hx, ht⟩
        obtain ⟨p, hp, hpk⟩ := List.mem_map.mp this
        refine ⟨p.2, List.mem_map.mpr ⟨p, hp, rfl⟩, ?_⟩
        rw [k2.1 p hp, hpk, ht]
      · intro y hy
        obtain ⟨p, hp, hpy⟩ := List.mem_map.mp hy
        have hk : p.1 ∈ keys m' := List.mem_map.mpr ⟨p, hp, rfl⟩
        rw [s2.2.1, s1.2] at hk
        have hym : y.times.mtime = some p.1 := by rw [← hpy]; exact k2.1 p hp
        rcases hk with (hk | hk) | hk
        · simp [keys] at hk
        · obtain ⟨x, hx, hxt⟩ := List.mem_map.mp hk
          exact ⟨x, Or.inl hx, by rw [hxt, hym]⟩
        · obtain ⟨x, hx, hxt⟩ := List.mem_map.mp hk
          exact ⟨x, Or.inr hx, by rw [hxt, hym]⟩

/-- the modification times a history represents -/
def histTimes (e : Entry) : List Int := (e.history.getD []).filterMap (·.times.mtime)

theorem histTimes_setLoc (e : Entry) (ts : Int) : histTimes (e.setLoc ts) = histTimes e := rfl

theorem keepLoc_history (d m : Entry) : (keepLoc d m).history = m.history := by
  unfold keepLoc; split <;> rfl

/-- what `Entry::merge` does to the history: the winner's history united with the loser's items -/
theorem entryMerge_hist (now : Int) (ex oe m : Entry) (hm : entryMerge now ex oe = .ok (some m)) :
    (ex.d.times.mtime.getD now > oe.d.times.mtime.getD 0
      ∧ ∃ h, historyMerge (ex.history.getD []) (srcItems oe) = .ok h ∧ m.history = some h)
    ∨ (ex.d.times.mtime.getD now < oe.d.times.mtime.getD 0
      ∧ ∃ h, historyMerge (oe.history.getD []) (srcItems ex) = .ok h ∧ m.history = some h) := by
  unfold entryMerge at hm
  simp only at hm
  split at hm
  · first | cases hm | (split at hm <;> cases hm)
  · rename_i hne
    split at hm
    · cases hm
    · rename_i w hw
      injection hm with hm; injection hm with hm; subst hm
      rw [keepLoc_history]
      split at hw
      · rename_i hgt
        unfold mergeHistory at hw
        split at hw
        · cases hw
        · rename_i h hh
          injection hw with hw; subst hw; exact Or.inl ⟨hgt, h, hh, rfl⟩
      · rename_i hgt
        unfold mergeHistory at hw
        split at hw
        · cases hw
        · rename_i h hh
          injection hw with hw; subst hw
          refine Or.inr ⟨?_, h, hh, rfl⟩
          have : ex.d.times.mtime.getD now ≠ oe.d.times.mtime.getD 0 := by
            intro hc; apply hne; simp [hc]
          omega

/-- the times of the winner's history and of the loser's items are all represented in the union -/
theorem historyMerge_times (w : List EData) (l r : List EData) (h : historyMerge w l = .ok r) :
    (∀ x ∈ w, ∀ t, x.times.mtime = some t → t ∈ r.filterMap (·.times.mtime))
    ∧ (∀ x ∈ l, ∀ t, x.times.mtime = some t → t ∈ r.filterMap (·.times.mtime)) := by
  obtain ⟨_, h1, h2, _⟩ := historyMerge_spec w l r h
  refine ⟨fun x hx t ht => ?_, fun x hx t ht => ?_⟩
  · exact List.mem_filterMap.mpr ⟨x, h1 x hx, ht⟩
  · obtain ⟨y, hy, hyt⟩ := h2 x hx
    exact List.mem_filterMap.mpr ⟨y, hy, by rw [hyt, ht]⟩

theorem mem_histTimes (e : Entry) (t : Int) : t ∈ histTimes e ↔ ∃ x ∈ e.history.getD [], x.times.mtime = some t := by
  unfold histTimes
  simp only [List.mem_filterMap]

theorem srcItems_hist (l : Entry) : ∀ x ∈ l.history.getD [], x ∈ srcItems l := by
  intro x hx
  unfold srcItems
  split
  · exact List.mem_cons_of_mem _ hx
  · exact hx

theorem srcItems_current (l : Entry) (h : hasUncommitted l = true) : l.d ∈ srcItems l := by
  unfold srcItems
  rw [if_pos h]
  exact List.mem_cons_self

/-- an update only adds to the times a history represents: the entry's own, the source's, and the loser's current version
    when it was not committed -/
theorem entryMerge_times (now : Int) (ex oe m : Entry) (hm : entryMerge now ex oe = .ok (some m)) :
    (∀ t ∈ histTimes ex, t ∈ histTimes m) ∧ (∀ t ∈ histTimes oe, t ∈ histTimes m)
    ∧ (ex.d.times.mtime.getD now < oe.d.times.mtime.getD 0 → hasUncommitted ex = true → ∀ t, ex.d.times.mtime = some t → t ∈ histTimes m)
    ∧ (ex.d.times.mtime.getD now > oe.d.times.mtime.getD 0 → hasUncommitted oe = true → ∀ t, oe.d.times.mtime = some t → t ∈ histTimes m) := by
  rcases entryMerge_hist now ex oe m hm with ⟨hgt, h, hh, hmh⟩ | ⟨hlt, h, hh, hmh⟩
  · obtain ⟨k1, k2⟩ := historyMerge_times _ _ _ hh
    have hT : histTimes m = h.filterMap (·.times.mtime) := by unfold histTimes; rw [hmh]; rfl
    refine ⟨fun t ht => ?_, fun t ht => ?_, fun hlt => by omega, fun _ hu t ht => ?_⟩
    · obtain ⟨x, hx, hxt⟩ := (mem_histTimes ex t).mp ht
      rw [hT]; exact k1 x hx t hxt
    · obtain ⟨x, hx, hxt⟩ := (mem_histTimes oe t).mp ht
      rw [hT]; exact k2 x (srcItems_hist oe x hx) t hxt
    · rw [hT]; exact k2 oe.d (srcItems_current oe hu) t ht
  · obtain ⟨k1, k2⟩ := historyMerge_times _ _ _ hh
    have hT : histTimes m = h.filterMap (·.times.mtime) := by unfold histTimes; rw [hmh]; rfl
    refine ⟨fun t ht => ?_, fun t ht => ?_, fun _ hu t ht => ?_, fun hgt => by omega⟩
    · obtain ⟨x, hx, hxt⟩ := (mem_histTimes ex t).mp ht
      rw [hT]; exact k2 x (srcItems_hist ex x hx) t hxt
    · obtain ⟨x, hx, hxt⟩ := (mem_histTimes oe t).mp ht
      rw [hT]; exact k1 x hx t hxt
    · rw [hT]; exact k2 ex.d (srcItems_current ex hu) t ht

/-- the three ways `entryUpdate` has nothing to do -/
theorem entryUpdate_none_cases (now : Int) (ex oe : Entry) (h : entryUpdate now ex oe = .ok none) :
    entryDiverged ex oe = false
    ∨ ex.d.times.mtime.getD now = oe.d.times.mtime.getD 0
    ∨ entryMerge now ex oe = .ok (some ex) := by
  unfold entryUpdate at h
  split at h
  · rename_i hnd
    left; simpa using hnd
  · split at h
    · cases h
    · rename_i hm
      right; left
      unfold entryMerge at hm
      simp only at hm
      split at hm
      · rename_i heq
        simpa using heq
      · split at hm <;> cases hm
    · rename_i mg hm
      split at h
      · rename_i heqm
        have hem : ex = mg := by simpa using heqm
        right; right
        rw [hem] at hm ⊢
        exact hem ▸ hm
      · cases h

theorem entryUpdate_some_merge (now : Int) (ex oe m : Entry) (h : entryUpdate now ex oe = .ok (some m)) :
    entryMerge now ex oe = .ok (some m) ∧ entryDiverged ex oe = true := by
  unfold entryUpdate at h
  split at h
  · cases h
  · rename_i hd
    split at h
    · cases h
    · cases h
    · rename_i mg hm
      split at h
      · cases h
      · injection h with h; injection h with h; subst h
        exact ⟨hm, by simpa using hd⟩

/-! ### the track -/

structure LwwH where
  now : Int
  de : Entry
  se : Entry
  huuid : de.d.uuid = se.d.uuid
  hne : de.d.times.mtime.getD now ≠ se.d.times.mtime.getD 0

/-- same version as far as the merge looks: content, modification time, history -/
def SameAs (a e : Entry) : Prop :=
  e.d.uuid = a.d.uuid ∧ e.d.content = a.d.content ∧ e.d.times.mtime = a.d.times.mtime ∧ e.history = a.history

theorem SameAs.hasUncommitted {a e : Entry} (h : SameAs a e) : hasUncommitted e = hasUncommitted a := by
  obtain ⟨h1, h2, _, h4⟩ := h
  unfold Kp.Merge.hasUncommitted
  rw [h4, h1, h2]

theorem SameAs.histTimes {a e : Entry} (h : SameAs a e) : histTimes e = histTimes a := by
  unfold Kp.Merge.histTimes; rw [h.2.2.2]

theorem SameAs.diverged {a b e f : Entry} (h : SameAs a e) (g : SameAs b f) : entryDiverged e f = entryDiverged a b := by
  obtain ⟨h1, h2, _, h4⟩ := h
  obtain ⟨g1, g2, _, g4⟩ := g
  unfold entryDiverged
  rw [h1, h2, h4, g1, g2, g4]

/-- the goal: both histories are represented, and the loser's uncommitted current version (when the two versions differ) -/
def LwwH.Goal (c : LwwH) (e : Entry) : Prop :=
  (∀ t ∈ histTimes c.de, t ∈ histTimes e) ∧ (∀ t ∈ histTimes c.se, t ∈ histTimes e)
  ∧ (entryDiverged c.de c.se = true → c.de.d.times.mtime.getD c.now < c.se.d.times.mtime.getD 0 → hasUncommitted c.de = true →
      ∀ t, c.de.d.times.mtime = some t → t ∈ histTimes e)
  ∧ (entryDiverged c.de c.se = true → c.de.d.times.mtime.getD c.now > c.se.d.times.mtime.getD 0 → hasUncommitted c.se = true →
      ∀ t, c.se.d.times.mtime = some t → t ∈ histTimes e)

def LwwH.P0 (c : LwwH) (e : Entry) : Prop := e.d.uuid = c.se.d.uuid → SameAs c.de e ∨ c.Goal e
def LwwH.P1 (c : LwwH) (e : Entry) : Prop := e.d.uuid = c.se.d.uuid → c.Goal e
def LwwH.Src (c : LwwH) (e : Entry) : Prop := e.d.uuid = c.se.d.uuid → SameAs c.se e

theorem LwwH.goal_mono (c : LwwH) (ex m : Entry) (h : ∀ t ∈ histTimes ex, t ∈ histTimes m) (g : c.Goal ex) : c.Goal m :=
  ⟨fun t ht => h t (g.1 t ht), fun t ht => h t (g.2.1 t ht), fun a b d t ht => h t (g.2.2.1 a b d t ht),
    fun a b d t ht => h t (g.2.2.2 a b d t ht)⟩

/-- merging the source's version into the destination's original version reaches the goal -/
theorem LwwH.fromOrig (c : LwwH) (ex oe m : Entry) (hex : SameAs c.de ex) (hoe : SameAs c.se oe)
    (hm : entryMerge c.now ex oe = .ok (some m)) : c.Goal m := by
  obtain ⟨k1, k2, k3, k4⟩ := entryMerge_times c.now ex oe m hm
  rw [hex.histTimes] at k1
  rw [hoe.histTimes] at k2
  rw [hex.hasUncommitted, hex.2.2.1, hoe.2.2.1] at k3
  rw [hoe.hasUncommitted, hex.2.2.1, hoe.2.2.1] at k4
  exact ⟨k1, k2, fun _ hlt hu t ht => k3 hlt hu t ht, fun _ hgt hu t ht => k4 hgt hu t ht⟩

theorem LwwH.update (c : LwwH) (ex oe m : Entry) (_ : ex.d.uuid = c.se.d.uuid) (hoe : oe.d.uuid = c.se.d.uuid) (hs : c.Src oe)
    (h0 : c.P0 ex) (h : entryUpdate c.now ex oe = .ok (some m)) : c.P1 m := by
  intro _
  obtain ⟨hm, _⟩ := entryUpdate_some_merge c.now ex oe m h
  rcases h0 ‹_› with ho | hg
  · exact c.fromOrig ex oe m ho (hs hoe) hm
  · exact c.goal_mono ex m (entryMerge_times c.now ex oe m hm).1 hg

theorem LwwH.noUpdate (c : LwwH) (ex oe : Entry) (hex : ex.d.uuid = c.se.d.uuid) (hoe : oe.d.uuid = c.se.d.uuid) (hs : c.Src oe)
    (h0 : c.P0 ex) (h : entryUpdate c.now ex oe = .ok none) : c.P1 ex := by
  intro _
  rcases h0 hex with ho | hg
  · have hso := hs hoe
    rcases entryUpdate_none_cases c.now ex oe h with hnd | heq | hm
    · -- the two versions are the same: nothing to merge, nothing claimed about the current versions
      have hdd : entryDiverged c.de c.se = false := by rw [← SameAs.diverged ho hso]; exact hnd
      have hhist : histTimes c.se = histTimes c.de := by
        unfold entryDiverged at hdd
        simp only [Bool.not_eq_false', Bool.and_eq_true] at hdd
        unfold Kp.Merge.histTimes
        cases hd : c.de.history <;> cases hsx : c.se.history <;> simp only [hd, hsx] at hdd ⊢
        · exact absurd hdd.2 (by simp)
        · exact absurd hdd.2 (by simp)
        · rename_i l1 l2
          have : l1 = l2 := by simpa using hdd.2
          rw [this]
      refine ⟨fun t ht => by rw [ho.histTimes]; exact ht, fun t ht => by rw [ho.histTimes, ← hhist]; exact ht, ?_, ?_⟩
      · intro hd; rw [hdd] at hd; cases hd
      · intro hd; rw [hdd] at hd; cases hd
    · exact absurd (by rw [← ho.2.2.1, ← hso.2.2.1]; exact heq) c.hne
    · exact c.fromOrig ex oe ex ho hso hm
  · exact hg

theorem LwwH.srcOk (c : LwwH) (P : Entry → Prop) (hP : ∀ ex oe m, ex.d.uuid = c.se.d.uuid → oe.d.uuid = c.se.d.uuid → c.Src oe → P ex →
      entryUpdate c.now ex oe = .ok (some m) → m.d.uuid = c.se.d.uuid → c.Goal m)
    (hdef : ∀ e, (e.d.uuid = c.se.d.uuid → c.Goal e) → P e) (hvac : ∀ e, e.d.uuid ≠ c.se.d.uuid → P e)
    (oe : Entry) (hs : c.Src oe) : SrcOk P c.se.d.uuid c.now oe := by
  refine ⟨fun hne => hvac oe hne, fun ex m hue h0 hupd => ?_⟩
  by_cases hoe : oe.d.uuid = c.se.d.uuid
  · exact hdef m (fun hmu => hP ex oe m (hue.trans hoe) hoe hs h0 hupd hmu)
  · apply hvac
    intro hmu
    rcases entryUpdate_some c.now ex oe m hupd with ⟨_, hu, _⟩ | ⟨_, hu, _⟩
    · exact absurd (hue ▸ hu ▸ hmu) hoe
    · exact absurd (hu ▸ hmu) hoe

def LwwH.track (c : LwwH) : Track where
  u := c.se.d.uuid
  now := c.now
  P0 := c.P0
  P1 := c.P1
  Src := c.Src
  p0_locFree := fun _ _ h => h
  p1_locFree := fun _ _ h => h
  p1_p0 := fun _ h hu => Or.inr (h hu)
  update := c.update
  noUpdate := c.noUpdate
  other := fun e _ hne hu => absurd (by simp [hu]) hne
  srcOk0 := c.srcOk c.P0 (fun ex oe m a b s p h hmu => c.update ex oe m a b s p h hmu) (fun _ h hu => Or.inr (h hu))
    (fun _ hne hu => absurd hu hne)
  srcOk1 := c.srcOk c.P1 (fun ex oe m a b s p h hmu => c.update ex oe m a b s (fun hu => Or.inr (p hu)) h hmu) (fun _ h => h)
    (fun _ hne hu => absurd hu hne)

/-- **the history union, for the whole merge**: an entry that both replicas hold, with different modification times, has in
    the result of the merge a history that represents (by modification time) every history item of the destination's and of
    the source's version, and — when the two versions differ in content or history — the losing side's current version if
    that was not yet in its history. -/
theorem merge_entry_history (now : Int) (dst src d' : Db) (evs : List Event) (hI : Inv dst.root) (hIs : Inv src.root)
    (h : merge now dst src = .ok (d', evs))
    (pd ps pr : List Nat) (de se e' : Entry)
    (hd : findEntry dst.root pd = some de) (hs : findEntry src.root ps = some se) (hu : de.d.uuid = se.d.uuid)
    (hne : de.d.times.mtime.getD now ≠ se.d.times.mtime.getD 0)
    (hr : findEntry d'.root pr = some e') (hu' : e'.d.uuid = se.d.uuid) :
    (∀ t ∈ histTimes de, t ∈ histTimes e') ∧ (∀ t ∈ histTimes se, t ∈ histTimes e')
    ∧ (entryDiverged de se = true → de.d.times.mtime.getD now < se.d.times.mtime.getD 0 → hasUncommitted de = true →
        ∀ t, de.d.times.mtime = some t → t ∈ histTimes e')
    ∧ (entryDiverged de se = true → de.d.times.mtime.getD now > se.d.times.mtime.getD 0 → hasUncommitted se = true →
        ∀ t, se.d.times.mtime = some t → t ∈ histTimes e') := by
  let c : LwwH := ⟨now, de, se, hu, hne⟩
  have hgd := findEntry_some hd
  have hgs := findEntry_some hs
  have hpd : pd ≠ [] := by
    intro e; subst e
    simp only [getPath, Option.some.injEq] at hgd
    have := hI.1; rw [hgd] at this; cases this
  have hps : ps ≠ [] := by
    intro e; subst e
    simp only [getPath, Option.some.injEq] at hgs
    have := hIs.1; rw [hgs] at this; cases this
  have hT0 : allE c.P0 dst.root := by
    have := allE_only (fun x => SameAs de x) dst.root pd de hI hgd ⟨rfl, rfl, rfl, rfl⟩
    exact allE_mono _ _ (fun x hx hxu => Or.inl (hx (hxu.trans hu.symm))) _ this
  have hS : allE c.Src src.root := allE_only (fun x => SameAs se x) src.root ps se hIs hgs ⟨rfl, rfl, rfl, rfl⟩
  have hH0 : Holds se.d.uuid dst.root := by
    refine ⟨hI, ?_⟩
    have := getPath_uuids pd dst.root _ hpd hgd de.d.uuid (by simp [uuidsN])
    rw [← hu]; exact this
  have hv : se.d.uuid ∈ entryIdsL src.root.children := getPath_entryIds ps src.root se hps hgs
  have hT3 := merge_track c.track dst src d' evs hH0 hT0 hS hv h
  have := allE_getPath c.P1 pr d'.root _ hT3 (findEntry_some hr)
  simp only [allE] at this
  exact this hu'
