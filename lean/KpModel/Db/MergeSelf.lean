import KpModel.Db.Merge
/-!
Tree lemmas for the merge model under pairwise distinct UUIDs (`find_node_location` finds a node where it is, a path
extended by a child's UUID designates that child, replacing a node by itself changes nothing) and the traversal
of a self-merge.  Helper lemmas for `Props/C13`.
-/
namespace Kp.Merge
open Node

mutual
  /-- every UUID in a subtree, in depth-first order -/
  def uuidsN : Node → List Nat
    | .group u _ _ cs => u :: uuidsL cs
    | .entry e => [e.d.uuid]
  def uuidsL : List Node → List Nat
    | [] => []
    | c :: cs => uuidsN c ++ uuidsL cs
end

theorem uuid_mem_uuidsN (n : Node) : n.uuid ∈ uuidsN n := by
  cases n <;> simp [uuidsN, Node.uuid]

mutual
  theorem findLocG_none : ∀ (n : Node) (id : Nat), id ∉ uuidsN n → findLocG n id = none
    | .group u c t cs, id, h => by
      simp only [uuidsN, List.mem_cons, not_or] at h
      simp [findLocG, findLocL_none cs id h.2]
    | .entry e, id, _ => by simp [findLocG]
  theorem findLocL_none : ∀ (cs : List Node) (id : Nat), id ∉ uuidsL cs → findLocL cs id = none
    | [], _, _ => by simp [findLocL]
    | c :: cs, id, h => by
      simp only [uuidsL, List.mem_append, not_or] at h
      have hc : (c.uuid == id) = false := by
        have := uuid_mem_uuidsN c
        cases hcu : c.uuid == id with
        | false => rfl
        | true =>
          have e : c.uuid = id := by simpa using hcu
          exact absurd (e ▸ this) h.1
      cases c with
      | group u cc t ccs =>
        unfold findLocL
        simp only [hc, Bool.false_eq_true, ↓reduceIte, findLocG_none (.group u cc t ccs) id h.1]
        exact findLocL_none cs id h.2
      | entry e =>
        unfold findLocL
        simp only [hc, Bool.false_eq_true, ↓reduceIte]
        exact findLocL_none cs id h.2
end


theorem findLocL_cons (c : Node) (cs : List Node) (id : Nat) :
    findLocL (c :: cs) id =
      if c.uuid == id then some []
      else match c with
        | .group .. => (match findLocG c id with | some l => some l | none => findLocL cs id)
        | .entry _ => findLocL cs id := by
  conv => lhs; unfold findLocL
  cases c <;> rfl

theorem uuidsL_mem_of_mem (cs : List Node) (c : Node) (h : c ∈ cs) : ∀ x ∈ uuidsN c, x ∈ uuidsL cs := by
  induction cs with
  | nil => cases h
  | cons c0 cs ih =>
    intro x hx
    simp only [uuidsL, List.mem_append]
    rcases List.mem_cons.mp h with rfl | h
    · exact Or.inl hx
    · exact Or.inr (ih h x hx)

theorem nodup_uuidsL_tail {c0 : Node} {cs : List Node} (h : (uuidsL (c0 :: cs)).Nodup) :
    (uuidsN c0).Nodup ∧ (uuidsL cs).Nodup ∧ ∀ x ∈ uuidsN c0, x ∉ uuidsL cs := by
  simp only [uuidsL] at h
  have := List.nodup_append.mp h
  exact ⟨this.1, this.2.1, fun x hx hx' => this.2.2 x hx x hx' rfl⟩

/-- a direct child is located at the empty path -/
theorem findLocL_direct : ∀ (cs : List Node) (c : Node), (uuidsL cs).Nodup → c ∈ cs → findLocL cs c.uuid = some [] := by
  intro cs
  induction cs with
  | nil => intro c _ h; cases h
  | cons c0 cs ih =>
    intro c hn hc
    obtain ⟨_, hn2, hdis⟩ := nodup_uuidsL_tail hn
    by_cases he : (c0.uuid == c.uuid) = true
    · unfold findLocL; simp [he]
    · have he' : (c0.uuid == c.uuid) = false := by simpa using he
      have hc' : c ∈ cs := by
        rcases List.mem_cons.mp hc with rfl | h
        · simp at he
        · exact h
      have hnot : c.uuid ∉ uuidsN c0 := fun hx => hdis _ hx (uuidsL_mem_of_mem cs c hc' _ (uuid_mem_uuidsN c))
      cases c0 with
      | group u cc t ccs =>
        unfold findLocL
        simp only [he', Bool.false_eq_true, ↓reduceIte, findLocG_none _ _ hnot]
        exact ih c hn2 hc'
      | entry e =>
        unfold findLocL
        simp only [he', Bool.false_eq_true, ↓reduceIte]
        exact ih c hn2 hc'

/-- a UUID inside the subtree of child group `c0` is located through `c0` -/
theorem findLocL_through : ∀ (cs : List Node) (u cc : Nat) (t : Times) (ccs : List Node) (id : Nat),
    (uuidsL cs).Nodup → Node.group u cc t ccs ∈ cs → id ∈ uuidsL ccs →
    findLocL cs id = (findLocL ccs id).map (u :: ·) := by
  intro cs
  induction cs with
  | nil => intro u cc t ccs id _ h; cases h
  | cons c0 cs ih =>
    intro u cc t ccs id hn hc hid
    obtain ⟨hn1, hn2, hdis⟩ := nodup_uuidsL_tail hn
    rcases List.mem_cons.mp hc with rfl | hc'
    · -- the head is the group
      have hne : (u == id) = false := by
        simp only [uuidsN, List.nodup_cons] at hn1
        cases hh : u == id with
        | false => rfl
        | true =>
          have : u = id := by simpa using hh
          exact absurd (this ▸ hid) hn1.1
      rw [findLocL_cons]
      simp only [Node.uuid, hne, Bool.false_eq_true, ↓reduceIte, findLocG]
      cases hl : findLocL ccs id with
      | none =>
        -- impossible: `id` occurs in `ccs`, but we do not need that: the tail cannot contain it either
        simp only [Option.map_none]
        have : id ∉ uuidsL cs := fun hx => hdis id (by simp [uuidsN, hid]) hx
        exact findLocL_none cs id this
      | some l => simp
    · have hin : id ∈ uuidsL cs := uuidsL_mem_of_mem cs _ hc' id (by simp [uuidsN, hid])
      have hnot : id ∉ uuidsN c0 := fun hx => hdis id hx hin
      have he' : (c0.uuid == id) = false := by
        cases hh : c0.uuid == id with
        | false => rfl
        | true =>
          have : c0.uuid = id := by simpa using hh
          exact absurd (this ▸ uuid_mem_uuidsN c0) hnot
      cases c0 with
      | group u0 cc0 t0 ccs0 =>
        rw [findLocL_cons]
        simp only [he', Bool.false_eq_true, ↓reduceIte, findLocG_none _ _ hnot]
        exact ih u cc t ccs id hn2 hc' hid
      | entry e =>
        rw [findLocL_cons]
        simp only [he', Bool.false_eq_true, ↓reduceIte]
        exact ih u cc t ccs id hn2 hc' hid


theorem find_first {cs : List Node} {p : Node → Bool} {g : Node} (h : cs.find? p = some g) : g ∈ cs ∧ p g = true :=
  ⟨List.mem_of_find?_eq_some h, List.find?_some h⟩

/-- the subtree UUIDs of a node reached by a path lie inside the subtree UUIDs of the start's children -/
theorem getPath_uuids : ∀ (path : List Nat) (root g : Node), path ≠ [] → getPath root path = some g →
    ∀ x ∈ uuidsN g, x ∈ uuidsL root.children := by
  intro path
  induction path with
  | nil => intro root g h; exact absurd rfl h
  | cons u rest ih =>
    intro root g _ hg x hx
    cases rest with
    | nil =>
      simp only [getPath] at hg
      exact uuidsL_mem_of_mem _ g (find_first hg).1 x hx
    | cons v rest' =>
      simp only [getPath] at hg
      cases hf : root.children.find? (fun n => n.isGroup && n.uuid == u) with
      | none => simp [hf] at hg
      | some c0 =>
        simp only [hf] at hg
        have hin := ih c0 g (by simp) hg x hx
        have hc0 := (find_first hf).1
        apply uuidsL_mem_of_mem _ c0 hc0
        cases c0 with
        | group cu cc ct ccs => simp [uuidsN, Node.children] at hin ⊢; exact Or.inr hin
        | entry e => simp [Node.children, uuidsL] at hin

theorem nodup_children_of_mem : ∀ (cs : List Node) (u cc : Nat) (t : Times) (ccs : List Node),
    (uuidsL cs).Nodup → Node.group u cc t ccs ∈ cs → (uuidsL ccs).Nodup ∧ u ∉ uuidsL ccs := by
  intro cs
  induction cs with
  | nil => intro u cc t ccs _ h; cases h
  | cons c0 cs ih =>
    intro u cc t ccs hn hc
    obtain ⟨hn1, hn2, _⟩ := nodup_uuidsL_tail hn
    rcases List.mem_cons.mp hc with rfl | hc'
    · simp only [uuidsN, List.nodup_cons] at hn1
      exact ⟨hn1.2, hn1.1⟩
    · exact ih u cc t ccs hn2 hc'

/-- **location lemma**: in a tree whose UUIDs are pairwise distinct, a child of the group that a path designates is
    located (by `find_node_location`) at exactly that path -/
theorem findLoc_child : ∀ (path : List Nat) (root g c : Node), (uuidsL root.children).Nodup →
    getPath root path = some g → g.isGroup = true → c ∈ g.children →
    findLocL root.children c.uuid = some path := by
  intro path
  induction path with
  | nil =>
    intro root g c hn hg _ hc
    simp only [getPath, Option.some.injEq] at hg
    subst hg
    exact findLocL_direct _ c hn hc
  | cons u rest ih =>
    intro root g c hn hg hgg hc
    -- the first step of the path is a child group `c0` of the root
    have step : ∃ cc t ccs, Node.group u cc t ccs ∈ root.children ∧ getPath (Node.group u cc t ccs) rest = some g := by
      cases rest with
      | nil =>
        simp only [getPath] at hg
        obtain ⟨hm, hp⟩ := find_first hg
        cases g with
        | group gu gc gt gcs =>
          have : gu = u := by simpa [Node.uuid] using hp
          subst this
          exact ⟨gc, gt, gcs, hm, by simp [getPath]⟩
        | entry e => simp [Node.isGroup] at hgg
      | cons v rest' =>
        simp only [getPath] at hg
        cases hf : root.children.find? (fun n => n.isGroup && n.uuid == u) with
        | none => simp [hf] at hg
        | some c0 =>
          simp only [hf] at hg
          obtain ⟨hm, hp⟩ := find_first hf
          cases c0 with
          | group cu cc ct ccs =>
            have : cu = u := by simpa [Node.uuid, Node.isGroup] using hp
            subst this
            exact ⟨cc, ct, ccs, hm, hg⟩
          | entry e => simp [Node.isGroup] at hp
    obtain ⟨cc, t, ccs, hm, hg'⟩ := step
    obtain ⟨hnc, _⟩ := nodup_children_of_mem _ u cc t ccs hn hm
    have hin : c.uuid ∈ uuidsL ccs := by
      cases rest with
      | nil =>
        simp only [getPath, Option.some.injEq] at hg'
        subst hg'
        exact uuidsL_mem_of_mem _ c hc _ (uuid_mem_uuidsN c)
      | cons v rest' =>
        have := getPath_uuids (v :: rest') (Node.group u cc t ccs) g (by simp) hg'
        apply this
        cases g with
        | group gu gc gt gcs =>
          simp only [uuidsN, List.mem_cons]
          exact Or.inr (uuidsL_mem_of_mem _ c hc _ (uuid_mem_uuidsN c))
        | entry e => simp [Node.isGroup] at hgg
    rw [findLocL_through _ u cc t ccs c.uuid hn hm hin]
    have := ih (Node.group u cc t ccs) g c hnc hg' hgg hc
    simp only [Node.children] at this
    rw [this]
    rfl


/-- among children with pairwise distinct UUIDs, the first child with `c`'s UUID is `c` -/
theorem find_self : ∀ (cs : List Node) (c : Node) (q : Node → Bool), (uuidsL cs).Nodup → c ∈ cs → q c = true →
    cs.find? (fun n => q n && n.uuid == c.uuid) = some c := by
  intro cs
  induction cs with
  | nil => intro c q _ h; cases h
  | cons c0 cs ih =>
    intro c q hn hc hq
    obtain ⟨_, hn2, hdis⟩ := nodup_uuidsL_tail hn
    rcases List.mem_cons.mp hc with rfl | hc'
    · simp [List.find?, hq]
    · have hne : (c0.uuid == c.uuid) = false := by
        cases hh : c0.uuid == c.uuid with
        | false => rfl
        | true =>
          have e : c0.uuid = c.uuid := by simpa using hh
          exact absurd (uuidsL_mem_of_mem cs c hc' _ (uuid_mem_uuidsN c)) (hdis _ (e ▸ uuid_mem_uuidsN c0))
      simp only [List.find?, hne, Bool.and_false]
      exact ih c q hn2 hc' hq

theorem find_self' (cs : List Node) (c : Node) (hn : (uuidsL cs).Nodup) (hc : c ∈ cs) :
    cs.find? (·.uuid == c.uuid) = some c := by
  have := find_self cs c (fun _ => true) hn hc rfl
  simpa using this

/-- the path of a group extended by a child's UUID designates that child -/
theorem getPath_child : ∀ (path : List Nat) (root g c : Node), (uuidsL root.children).Nodup →
    getPath root path = some g → g.isGroup = true → c ∈ g.children → getPath root (path ++ [c.uuid]) = some c := by
  intro path
  induction path with
  | nil =>
    intro root g c hn hg _ hc
    simp only [getPath, Option.some.injEq] at hg
    subst hg
    simp only [List.nil_append, getPath]
    exact find_self' _ c hn hc
  | cons u rest ih =>
    intro root g c hn hg hgg hc
    have step : ∃ cc t ccs, Node.group u cc t ccs ∈ root.children ∧ getPath (Node.group u cc t ccs) rest = some g := by
      cases rest with
      | nil =>
        simp only [getPath] at hg
        obtain ⟨hm, hp⟩ := find_first hg
        cases g with
        | group gu gc gt gcs =>
          have : gu = u := by simpa [Node.uuid] using hp
          subst this
          exact ⟨gc, gt, gcs, hm, by simp [getPath]⟩
        | entry e => simp [Node.isGroup] at hgg
      | cons v rest' =>
        simp only [getPath] at hg
        cases hf : root.children.find? (fun n => n.isGroup && n.uuid == u) with
        | none => simp [hf] at hg
        | some c0 =>
          simp only [hf] at hg
          obtain ⟨hm, hp⟩ := find_first hf
          cases c0 with
          | group cu cc ct ccs =>
            have : cu = u := by simpa [Node.uuid, Node.isGroup] using hp
            subst this
            exact ⟨cc, ct, ccs, hm, hg⟩
          | entry e => simp [Node.isGroup] at hp
    obtain ⟨cc, t, ccs, hm, hg'⟩ := step
    obtain ⟨hnc, _⟩ := nodup_children_of_mem _ u cc t ccs hn hm
    have hfind : root.children.find? (fun n => n.isGroup && n.uuid == u) = some (Node.group u cc t ccs) := by
      have := find_self root.children (Node.group u cc t ccs) (fun n => n.isGroup) hn hm rfl
      simpa [Node.uuid] using this
    have ih' := ih (Node.group u cc t ccs) g c hnc hg' hgg hc
    have hne : rest ++ [c.uuid] ≠ [] := by simp
    obtain ⟨v, w, hvw⟩ : ∃ v w, rest ++ [c.uuid] = v :: w := by
      cases hr : rest ++ [c.uuid] with
      | nil => exact absurd hr hne
      | cons v w => exact ⟨v, w, rfl⟩
    simp only [List.cons_append, hvw, getPath, hfind]
    rw [← hvw]
    exact ih'

theorem updFirst_id (p : Node → Bool) (f : Node → Node) : ∀ (cs : List Node),
    (∀ c, cs.find? p = some c → f c = c) → updFirst p f cs = cs := by
  intro cs
  induction cs with
  | nil => intro _; rfl
  | cons c0 cs ih =>
    intro h
    simp only [updFirst]
    by_cases hp : p c0 = true
    · simp only [hp, ↓reduceIte]
      rw [h c0 (by simp [List.find?, hp])]
    · have hp' : p c0 = false := by simpa using hp
      simp only [hp', Bool.false_eq_true, ↓reduceIte]
      rw [ih (fun c hc => h c (by simp [List.find?, hp', hc]))]

theorem setChildren_children (g : Node) (h : g.isGroup = true) : g.setChildren g.children = g := by
  cases g <;> simp [Node.setChildren, Node.children, Node.isGroup] at *

/-- replacing the node a path designates by itself changes nothing -/
theorem updatePath_id : ∀ (path : List Nat) (root n : Node) (f : Node → Node), root.isGroup = true →
    getPath root path = some n → f n = n → updatePath root path f = root := by
  intro path
  induction path with
  | nil =>
    intro root n f _ hg hf
    simp only [getPath, Option.some.injEq] at hg
    subst hg
    simp [updatePath, hf]
  | cons u rest ih =>
    intro root n f hr hg hf
    cases rest with
    | nil =>
      simp only [getPath] at hg
      simp only [updatePath]
      rw [updFirst_id _ f _ (fun c hc => by rw [hg] at hc; cases hc; exact hf)]
      exact setChildren_children root hr
    | cons v rest' =>
      simp only [getPath] at hg
      simp only [updatePath]
      cases hfnd : root.children.find? (fun n => n.isGroup && n.uuid == u) with
      | none => simp [hfnd] at hg
      | some c0 =>
        simp only [hfnd] at hg
        rw [updFirst_id _ _ _ (fun c hc => by
          rw [hfnd] at hc; cases hc
          have hc0g : c0.isGroup = true := by
            have := (find_first hfnd).2
            simp only [Bool.and_eq_true] at this
            exact this.1
          exact ih c0 n f hc0g hg hf)]
        exact setChildren_children root hr


/-! ### merging a database with itself -/

theorem entryDiverged_self (e : Entry) : entryDiverged e e = false := by
  unfold entryDiverged
  cases e.history <;> simp

theorem entryUpdate_self (now : Int) (e : Entry) : entryUpdate now e e = .ok none := by
  simp [entryUpdate, entryDiverged_self]

theorem groupMergeData_self (now : Int) (u c : Nat) (t : Times) (ht : t.mtime.isSome) :
    groupMergeData now u c t u c t = .ok (c, t, false) := by
  obtain ⟨m, hm⟩ := Option.isSome_iff_exists.mp ht
  simp [groupMergeData, hm]

mutual
  /-- every group of the subtree carries a modification time -/
  def timedN : Node → Prop
    | .group _ _ t cs => t.mtime.isSome ∧ timedL cs
    | .entry _ => True
  def timedL : List Node → Prop
    | [] => True
    | c :: cs => timedN c ∧ timedL cs
end

theorem timedL_mem : ∀ (cs : List Node) (c : Node), timedL cs → c ∈ cs → timedN c := by
  intro cs
  induction cs with
  | nil => intro c _ h; cases h
  | cons c0 cs ih =>
    intro c ht hc
    simp only [timedL] at ht
    rcases List.mem_cons.mp hc with rfl | h
    · exact ht.1
    · exact ih c ht.2 h

/-- the standing facts about the destination tree during a self-merge -/
structure SelfCtx (root : Node) (tombs : List Tomb) : Prop where
  isGroup : root.isGroup = true
  nodup : (uuidsL root.children).Nodup
  rootFresh : root.uuid ∉ uuidsL root.children
  noTomb : ∀ u ∈ uuidsL root.children, tombsContain tombs u = false

theorem mergeEntryStep_self (now : Int) (tombs : List Tomb) (root : Node) (ev : List Event) (C : SelfCtx root tombs)
    (path : List Nat) (g : Node) (hg : getPath root path = some g) (hgg : g.isGroup = true) (e : Entry)
    (he : Node.entry e ∈ g.children) :
    mergeEntryStep now tombs ⟨root, ev⟩ path false e = .ok ⟨root, ev⟩ := by
  have hloc : findLoc root e.d.uuid = some path := by
    have := findLoc_child path root g (.entry e) C.nodup hg hgg he
    simpa [findLoc, Node.uuid] using this
  have hent : findEntry root (path ++ [e.d.uuid]) = some e := by
    have := getPath_child path root g (.entry e) C.nodup hg hgg he
    simp only [Node.uuid] at this
    simp [findEntry, this]
  unfold mergeEntryStep
  simp only [hloc, hent]
  simp [bind, Except.bind, pure, Except.pure, entryUpdate_self]

mutual
  theorem mergeGroup_self (now : Int) (tombs : List Tomb) (root : Node) (ev : List Event) (C : SelfCtx root tombs) :
      ∀ (g : Node) (path : List Nat), timedN g →
        ((path = [] ∧ g = root) ∨ ∃ ppath parent, path = ppath ++ [g.uuid] ∧ getPath root ppath = some parent
            ∧ parent.isGroup = true ∧ g ∈ parent.children) →
        mergeGroup now tombs ⟨root, ev⟩ path g false = .ok ⟨root, ev⟩
    | .entry _, _, _, _ => by simp [mergeGroup]
    | .group gu gc gt cs, path, ht, hpos => by
      simp only [timedN] at ht
      have hgp : getPath root path = some (.group gu gc gt cs) := by
        rcases hpos with ⟨rfl, hr⟩ | ⟨ppath, parent, rfl, hp, hpg, hmem⟩
        · rw [hr]; simp [getPath]
        · have := getPath_child ppath root parent _ C.nodup hp hpg hmem
          simpa [Node.uuid] using this
      try simp only [Node.uuid] at hgp
      have hE := mergeEntries_self now tombs root ev C cs path (.group gu gc gt cs) hgp rfl (fun c hc => hc)
      have hrp : refreshPath root path = path := by
        rcases hpos with ⟨rfl, _⟩ | ⟨ppath, parent, rfl, hp, hpg, hmem⟩
        · rfl
        · have hloc : findLoc root gu = some ppath := by
            have := findLoc_child ppath root parent _ C.nodup hp hpg hmem
            simpa [findLoc, Node.uuid] using this
          unfold refreshPath
          simp [Node.uuid, hloc]
      have hS := mergeSubgroups_self now tombs root ev C cs path (.group gu gc gt cs) hgp rfl (fun c hc => hc) ht.2 hrp
      unfold mergeGroup
      rcases hpos with ⟨rfl, hr⟩ | ⟨ppath, parent, rfl, hp, hpg, hmem⟩
      · have hnone : findLoc root gu = none := by
          have hf := C.rootFresh
          rw [← hr] at hf
          simp only [Node.uuid, Node.children] at hf
          simp only [findLoc, ← hr, Node.children]
          exact findLocL_none _ _ hf
        simp only [hnone, bind, Except.bind, pure, Except.pure, hE, hS]
      · have hgp' : getPath root (ppath ++ [gu]) = some (.group gu gc gt cs) := hgp
        simp only [Node.uuid] at hE hS ⊢
        have hloc : findLoc root gu = some ppath := by
          have := findLoc_child ppath root parent _ C.nodup hp hpg hmem
          simpa [findLoc, Node.uuid] using this
        have hfg : findGroup root (ppath ++ [gu]) = some (.group gu gc gt cs) := by
          simp only [findGroup, hgp', Node.isGroup]
          rfl
        have key : ∀ f : Node → Node, f (.group gu gc gt cs) = .group gu gc gt cs →
            updatePath root (ppath ++ [gu]) f = root :=
          fun f hf => updatePath_id _ root _ f C.isGroup hgp' hf
        simp only [hloc, hfg, bind, Except.bind, groupMergeData_self now gu gc gt ht.1, pure, Except.pure,
          Bool.false_eq_true, ↓reduceIte]
        rw [key]
        · simp only [hE, hS]
        · rfl

  theorem mergeEntries_self (now : Int) (tombs : List Tomb) (root : Node) (ev : List Event) (C : SelfCtx root tombs) :
      ∀ (cs : List Node) (path : List Nat) (g : Node), getPath root path = some g → g.isGroup = true →
        (∀ c ∈ cs, c ∈ g.children) →
        mergeEntries now tombs ⟨root, ev⟩ path false cs = .ok ⟨root, ev⟩
    | [], _, _, _, _, _ => by simp [mergeEntries]
    | .entry e :: rest, path, g, hg, hgg, hsub => by
      unfold mergeEntries
      simp only [bind, Except.bind, mergeEntryStep_self now tombs root ev C path g hg hgg e (hsub _ (List.mem_cons_self ..))]
      exact mergeEntries_self now tombs root ev C rest path g hg hgg (fun c hc => hsub c (List.mem_cons_of_mem _ hc))
    | .group u c t ccs :: rest, path, g, hg, hgg, hsub => by
      unfold mergeEntries
      exact mergeEntries_self now tombs root ev C rest path g hg hgg (fun c hc => hsub c (List.mem_cons_of_mem _ hc))

  theorem mergeSubgroups_self (now : Int) (tombs : List Tomb) (root : Node) (ev : List Event) (C : SelfCtx root tombs) :
      ∀ (cs : List Node) (path : List Nat) (g : Node), getPath root path = some g → g.isGroup = true →
        (∀ c ∈ cs, c ∈ g.children) → timedL cs → refreshPath root path = path →
        mergeSubgroups now tombs ⟨root, ev⟩ path false cs = .ok ⟨root, ev⟩
    | [], _, _, _, _, _, _, _ => by simp [mergeSubgroups]
    | .entry _ :: rest, path, g, hg, hgg, hsub, ht, hrp => by
      unfold mergeSubgroups
      simp only [timedL] at ht
      exact mergeSubgroups_self now tombs root ev C rest path g hg hgg (fun c hc => hsub c (List.mem_cons_of_mem _ hc)) ht.2 hrp
    | .group ou oc ot ocs :: rest, path, g, hg, hgg, hsub, ht, hrp => by
      simp only [timedL] at ht
      have hmem : Node.group ou oc ot ocs ∈ g.children := hsub _ (List.mem_cons_self ..)
      have hin : ou ∈ uuidsL root.children := by
        have h1 : ou ∈ uuidsL g.children := uuidsL_mem_of_mem _ _ hmem ou (by simp [uuidsN])
        by_cases hp : path = []
        · subst hp
          simp only [getPath, Option.some.injEq] at hg
          rw [hg]; exact h1
        · have := getPath_uuids path root g hp hg
          apply this
          cases g with
          | group a b c d => simp only [uuidsN, List.mem_cons, Node.children] at h1 ⊢; exact Or.inr h1
          | entry e => simp [Node.isGroup] at hgg
      have hnt : tombsContain tombs ou = false := C.noTomb ou hin
      have hloc : findLoc root ou = some path := by
        have := findLoc_child path root g _ C.nodup hg hgg hmem
        simpa [findLoc, Node.uuid] using this
      unfold mergeSubgroups
      simp only [hnt, Bool.false_or, Bool.false_eq_true, ↓reduceIte, hloc, bne_self_eq_false, bind, Except.bind]
      rw [mergeGroup_self now tombs root ev C (.group ou oc ot ocs) (path ++ [ou]) ht.1
        (Or.inr ⟨path, g, by simp [Node.uuid], hg, hgg, hmem⟩)]
      simp only
      rw [hrp]
      exact mergeSubgroups_self now tombs root ev C rest path g hg hgg (fun c hc => hsub c (List.mem_cons_of_mem _ hc)) ht.2 hrp
end


theorem deleteEntries_allKnown (now : Int) (s : St) (newTombs : List Tomb) : ∀ (ts : List Tomb),
    (∀ d ∈ ts, tombsContain newTombs d.uuid = true) → deleteEntries now s newTombs ts = .ok (s, newTombs) := by
  intro ts
  induction ts with
  | nil => intro _; simp [deleteEntries]
  | cons d rest ih =>
    intro h
    unfold deleteEntries
    simp only [h d (List.mem_cons_self ..), ↓reduceIte]
    exact ih (fun x hx => h x (List.mem_cons_of_mem _ hx))

theorem tombsContain_self (ts : List Tomb) : ∀ d ∈ ts, tombsContain ts d.uuid = true := by
  intro d hd
  simp only [tombsContain, List.any_eq_true]
  exact ⟨d, hd, by simp⟩

end Kp.Merge
