import KpModel.Db.MergePath
/-!
# `merge` fails only on conflicting time stamps

Every look-up of the group passes (`find_group`, `find_entry`, `remove_node`) succeeds when the two replicas agree on which UUIDs
are entries and which are groups: the model's errors `findGroup`, `findEntry` and `generic` are never returned.  With
`merge_noPanic`, `merge_noFuel` and `mergeDeletions_ok` the only errors left are the three that report conflicting time stamps
(`entryMtimeNotUpdated`, `groupMtimeNotUpdated`, `duplicateHistory`).
-/
namespace Kp.Merge
open Node

/-! ### the updates of the passes keep paths of groups -/

/-- replacing an entry by an entry with the same UUID -/
theorem fok_entry (X : List Nat) (e m : Entry) (h : m.d.uuid = e.d.uuid) : FOk X (fun _ => Node.entry m) (.entry e) :=
  ⟨by simp only [Node.uuid, h], rfl, fun _ _ c hc _ => by simp [Node.children] at hc,
    fun _ _ c hc => by simp [Node.children] at hc⟩

/-- appending a child -/
theorem fok_append (X : List Nat) (new n : Node) : FOk X (fun t => t.setChildren (t.children ++ [new])) n := by
  cases n with
  | entry e => exact ⟨rfl, rfl, fun _ _ c hc _ => by simp [Node.children] at hc, fun _ _ c hc => by simp [Node.children] at hc⟩
  | group a b c d =>
    refine ⟨rfl, rfl, fun x _ c hc _ => ?_, fun x _ c hc => ?_⟩
    · simp only [Node.setChildren, Node.children] at hc ⊢
      rw [List.find?_append, hc]; rfl
    · simp only [Node.setChildren, Node.children] at hc ⊢
      rw [List.find?_append, hc]; rfl

/-- replacing a group's own data -/
theorem fok_groupData (X : List Nat) (c' : Nat) (t' : Times) (n : Node) :
    FOk X (fun n => match n with
      | .group u _ _ ch => .group u c' t' ch
      | e => e) n := by
  cases n with
  | entry e => exact ⟨rfl, rfl, fun _ _ c hc _ => hc, fun _ _ c hc => hc⟩
  | group a b c d => exact ⟨rfl, rfl, fun _ _ c hc _ => hc, fun _ _ c hc => hc⟩

theorem find_filter_same (Q R : Node → Bool) : ∀ (cs : List Node), (∀ m ∈ cs, Q m = true → R m = true) →
    (cs.filter R).find? Q = cs.find? Q := by
  intro cs
  induction cs with
  | nil => intro _; rfl
  | cons d ds ih =>
    intro hQR
    have ih' := ih (fun m hm => hQR m (List.mem_cons_of_mem _ hm))
    by_cases hr : R d = true
    · simp only [List.filter_cons, hr, ↓reduceIte, List.find?_cons, ih']
    · have hr' : R d = false := by simpa using hr
      have hq : Q d = false := by
        cases hq : Q d with
        | false => rfl
        | true => rw [hQR d (List.mem_cons_self ..) hq] at hr'; cases hr'
      simp only [List.filter_cons, hr', Bool.false_eq_true, ↓reduceIte, List.find?_cons, hq, ih']

/-- removing the children with UUID `u`, for paths that do not name `u` or when every such child is an entry -/
theorem fok_remove (X : List Nat) (g g' node : Node) (u : Nat) (hg : g.isGroup = true) (hrm : removeNode g u = some (g', node))
    (hX : (∀ x ∈ X, x ≠ u) ∨ (∀ m ∈ g.children, m.uuid = u → m.isGroup = false)) : FOk X (fun _ => g') g := by
  obtain ⟨_, _, hg'⟩ := removeNode_facts g g' node u hrm
  subst hg'
  have hch : (g.setChildren (g.children.filter (fun c => !(c.uuid == u)))).children = g.children.filter (fun c => !(c.uuid == u)) :=
    children_setChildren _ _ hg
  refine ⟨setChildren_uuid _ _, isGroup_setChildren _ _, fun x hx c hc hcg => ?_, fun x hx c hc => ?_⟩
  · rw [hch]
    have hxu : x ≠ u := by
      rcases hX with h | h
      · exact h x hx
      · intro hxu
        have ⟨hcm, hcp⟩ := find_first hc
        have := h c hcm (by simpa [hxu] using hcp)
        rw [hcg] at this; cases this
    rw [find_filter_same _ _ g.children (fun m _ hm => ?_)]
    · exact hc
    · simp only [beq_iff_eq] at hm
      simp only [Bool.not_eq_eq_eq_not, Bool.not_true, beq_eq_false_iff_ne, ne_eq, hm]
      exact hxu
  · rw [hch]
    rw [find_filter_same _ _ g.children (fun m hmem hm => ?_)]
    · exact hc
    · simp only [Bool.and_eq_true, beq_iff_eq] at hm
      simp only [Bool.not_eq_eq_eq_not, Bool.not_true, beq_eq_false_iff_ne, ne_eq]
      intro hmu
      rcases hX with h | h
      · exact h x hx (hm.2 ▸ hmu)
      · have := h m hmem hmu
        rw [hm.1] at this; cases this

/-! ### `relocate_node` succeeds -/

/-- the path designates a group -/
def VG (r : Node) (p : List Nat) : Prop := ∃ t, findGroup r p = some t

theorem setLoc_uuid_ok (n : Node) (ts : Int) : (n.setLoc ts).uuid = n.uuid := by
  cases n <;> rfl

theorem children_nodup (root g : Node) (path : List Nat) (hI : Inv root) (hp : getPath root path = some g)
    (hg : g.isGroup = true) : (uuidsL g.children).Nodup := by
  cases path with
  | nil => simp only [getPath, Option.some.injEq] at hp; subst hp; exact hI.2
  | cons a b =>
    have hsub := getPath_sublist_children a b root g hI.1 hp
    have hnd : (uuidsN g).Nodup := List.Nodup.sublist hsub hI.2
    rw [uuidsN_group g hg] at hnd
    exact (List.nodup_cons.mp hnd).2

/-- `relocate_node(u, from, to)` returns `Ok` on a sound tree when `from` is where `find_node_location` finds `u`, `to` designates
    a group, and `to` does not name `u` or `u` is an entry; the node then lives at `to ++ [u]`, with its kind -/
theorem relocate_ok (s : St) (u : Nat) (dloc toP : List Nat) (ts : Int) (t n0 : Node) (hI : Inv s.root)
    (hloc : findLoc s.root u = some dloc) (ht : findGroup s.root toP = some t) (hn0 : getPath s.root (dloc ++ [u]) = some n0)
    (hX : u ∉ toP ∨ n0.isGroup = false) :
    ∃ s' n', relocate s u dloc toP ts = .ok s' ∧ getPath s'.root (toP ++ [u]) = some n' ∧ n'.isGroup = n0.isGroup
      ∧ ∀ q, (u ∉ q ∨ n0.isGroup = false) → VG s.root q → VG s'.root q := by
  obtain ⟨loc', g, n, h1, hfg, hgn, hnu, hfull⟩ := findLoc_sound s.root u hI (findLoc_some_mem s.root u dloc hloc)
  rw [hloc] at h1; injection h1 with h1; subst h1
  rw [hn0] at hfull; injection hfull with hfull; subst hfull
  obtain ⟨hgp, hgg⟩ := findGroup_some hfg
  have hcn := children_nodup s.root g dloc hI hgp hgg
  simp only [getPath] at hgn
  obtain ⟨pr, hrm⟩ := removeNode_isSome g n0 u hgn
  obtain ⟨g', node⟩ := pr
  obtain ⟨hnodeu, hnodem, _⟩ := removeNode_facts g g' node u hrm
  have hsame : ∀ m ∈ g.children, m.uuid = u → m = n0 := by
    intro m hm hmu
    have := find_self' g.children m hcn hm
    rw [hmu, hgn] at this
    injection this with this; exact this.symm
  have hnode : node = n0 := hsame node hnodem hnodeu
  have hfokq : ∀ q, (u ∉ q ∨ n0.isGroup = false) → FOk q (fun _ => g') g := by
    intro q hq
    refine fok_remove q g g' node u hgg hrm ?_
    rcases hq with h | h
    · exact Or.inl (fun x hx hxu => h (hxu ▸ hx))
    · exact Or.inr (fun m hm hmu => by rw [hsame m hm hmu]; exact h)
  have hfok := hfokq toP hX
  obtain ⟨t1, ht1, _⟩ := findGroup_updatePath toP (fun _ => g') dloc toP s.root t hI.1 (fun _ h => h)
    (fun n hn => by rw [hgp] at hn; injection hn with hn; subst hn; exact hfok) ht
  have hrel : relocate s u dloc toP ts
      = .ok { s with root := (updatePath (updatePath s.root dloc (fun _ => g')) toP
          (fun t => t.setChildren (t.children ++ [node.setLoc ts]))) } := by
    unfold relocate
    rw [hfg]; dsimp only
    rw [hrm]; dsimp only
    rw [ht1]
  refine ⟨_, node.setLoc ts, hrel, ?_, ?_, ?_⟩
  · have hI' := relocate_inv s _ u dloc toP ts hI hrel
    dsimp only at hI' ⊢
    obtain ⟨ht1p, ht1g⟩ := findGroup_some ht1
    obtain ⟨hg1, _⟩ := remove_perm s.root g g' node u dloc hI hfg hrm
    have hself := getPath_updatePath_self (fun t => t.setChildren (t.children ++ [node.setLoc ts])) toP _ t1 hg1 ht1p
      (setChildren_uuid _ _)
    have := getPath_child toP _ _ (node.setLoc ts) hI'.2 hself (by rw [isGroup_setChildren]; exact ht1g)
      (by rw [children_setChildren _ _ ht1g]; simp)
    rw [setLoc_uuid_ok, hnodeu] at this
    exact this
  · rw [hnode]; cases n0 <;> rfl
  · intro q hq ⟨tq, htq⟩
    obtain ⟨tq1, htq1, _⟩ := findGroup_updatePath q (fun _ => g') dloc q s.root tq hI.1 (fun _ h => h)
      (fun n hn => by rw [hgp] at hn; injection hn with hn; subst hn; exact hfokq q hq) htq
    obtain ⟨hg1, _⟩ := remove_perm s.root g g' node u dloc hI hfg hrm
    obtain ⟨tq2, htq2, _⟩ := findGroup_updatePath q (fun t => t.setChildren (t.children ++ [node.setLoc ts])) toP q _ tq1 hg1
      (fun _ h => h) (fun n _ => fok_append q _ n) htq1
    exact ⟨tq2, htq2⟩

/-! ### no look-up error -/

/-- the errors the group passes cannot return: those of the look-ups, and `entryMtimeNotUpdated` (`Entry::merge` reports it for two
    versions that are equal up to time stamps under one modification time; `merge_group` asks it only about versions that differ) -/
def IsLookup (e : MErr) : Prop := e = .findGroup ∨ e = .findEntry ∨ e = .generic ∨ e = .entryMtimeNotUpdated

/-- a result that is not one of the look-up errors -/
def NoLk {α : Type} (x : Except MErr α) : Prop := ∀ e, x = .error e → ¬ IsLookup e

theorem NoLk.ok {α : Type} (a : α) : NoLk (Except.ok a : Except MErr α) := by intro e h; cases h
theorem NoLk.pure {α : Type} (a : α) : NoLk (Pure.pure a : Except MErr α) := by intro e h; cases h
theorem NoLk.err {α : Type} (e : MErr) (h : ¬ IsLookup e) : NoLk (Except.error e : Except MErr α) := by
  intro e' h'; injection h' with h'; subst h'; exact h
theorem NoLk.bind {α β : Type} {x : Except MErr α} {f : α → Except MErr β} (hx : NoLk x)
    (hf : ∀ a, x = .ok a → NoLk (f a)) : NoLk (x >>= f) := by
  cases x with
  | error e =>
    intro e' h
    have h' : (Except.error e : Except MErr β) = .error e' := h
    injection h' with he
    subst he
    exact hx e rfl
  | ok a => exact hf a rfl

theorem notLk_dup : ¬ IsLookup .duplicateHistory := by intro h; rcases h with h | h | h | h <;> cases h
theorem notLk_noMtime : ¬ IsLookup .panicHistoryNoMtime := by intro h; rcases h with h | h | h | h <;> cases h
theorem notLk_groupMtime : ¬ IsLookup .groupMtimeNotUpdated := by intro h; rcases h with h | h | h | h <;> cases h
theorem notLk_kind : ¬ IsLookup .panicKindMismatch := by intro h; rcases h with h | h | h | h <;> cases h

theorem phase1_noLk : ∀ (dst : List EData) (acc : AL), NoLk (phase1 dst acc) := by
  intro dst
  induction dst with
  | nil => intro acc; simp only [phase1, List.foldlM_nil]; exact NoLk.pure _
  | cons x rest ih =>
    intro acc
    unfold phase1
    simp only [List.foldlM_cons]
    refine NoLk.bind ?_ (fun a _ => ih a)
    split
    · exact NoLk.err _ notLk_noMtime
    · split
      · exact NoLk.err _ notLk_dup
      · exact NoLk.ok _

theorem phase2_noLk : ∀ (src : List EData) (acc : AL), NoLk (phase2 src acc) := by
  intro src
  induction src with
  | nil => intro acc; simp only [phase2, List.foldlM_nil]; exact NoLk.pure _
  | cons x rest ih =>
    intro acc
    unfold phase2
    simp only [List.foldlM_cons]
    refine NoLk.bind ?_ (fun a _ => ih a)
    split
    · exact NoLk.err _ notLk_noMtime
    · split
      · exact NoLk.ok _
      · exact NoLk.ok _

theorem historyMerge_noLk (a b : List EData) : NoLk (historyMerge a b) := by
  intro e h
  unfold historyMerge at h
  split at h
  · rename_i e1 h1
    injection h with h; subst h
    exact phase1_noLk a [] e1 h1
  · split at h
    · rename_i e2 h2
      injection h with h; subst h
      exact phase2_noLk b _ e2 h2
    · cases h

theorem mergeHistory_noLk (w l : Entry) : NoLk (mergeHistory w l) := by
  intro e h
  unfold mergeHistory at h
  split at h
  · rename_i e1 h1
    injection h with h; subst h
    exact historyMerge_noLk _ _ e1 h1
  · cases h

theorem entryMerge_noLk (now : Int) (ex oe : Entry) (hdiv : entryDiverged ex oe = true) : NoLk (entryMerge now ex oe) := by
  unfold entryMerge
  dsimp only
  split
  · simp only [hdiv, Bool.not_true, Bool.false_eq_true, ↓reduceIte]
    exact NoLk.ok _
  · intro e h
    split at h
    · rename_i e1 h1
      injection h with h; subst h
      split at h1
      · exact mergeHistory_noLk ex oe e1 h1
      · exact mergeHistory_noLk oe ex e1 h1
    · cases h

theorem entryUpdate_noLk (now : Int) (ex oe : Entry) : NoLk (entryUpdate now ex oe) := by
  intro e h
  unfold entryUpdate at h
  split at h
  · cases h
  · rename_i hnd
    have hdiv : entryDiverged ex oe = true := by
      cases hd : entryDiverged ex oe with
      | true => rfl
      | false => simp [hd] at hnd
    split at h
    · rename_i e1 h1
      injection h with h; subst h
      exact entryMerge_noLk now ex oe hdiv e1 h1
    · cases h
    · split at h <;> cases h

theorem groupMergeData_noLk (now : Int) (du dc : Nat) (dt : Times) (su sc : Nat) (st : Times) :
    NoLk (groupMergeData now du dc dt su sc st) := by
  unfold groupMergeData
  dsimp only
  split
  · split
    · exact NoLk.err _ notLk_groupMtime
    · exact NoLk.ok _
  · split <;> exact NoLk.ok _

/-! ### the entry step -/

theorem findEntry_of_getPath (r : Node) (p : List Nat) (n : Node) (h : getPath r p = some n) (hk : n.isGroup = false) :
    ∃ e, findEntry r p = some e := by
  cases n with
  | group a b c d => simp [Node.isGroup] at hk
  | entry e => exact ⟨e, by unfold findEntry; rw [h]⟩

theorem cond_inDel (a b : Option Nat) (inDel : Bool) (h : (a != b && !inDel) = true) : inDel = false := by
  cases inDel with
  | false => rfl
  | true => simp at h

theorem mergeEntryStep_noLk {EI GI : List Nat} (now : Int) (tombs : List Tomb) (s : St) (path : List Nat) (inDel : Bool) (oe : Entry)
    (hS : Safe EI GI s.root) (hoe : oe.d.uuid ∈ EI) (hp : inDel = false → VG s.root path) :
    NoLk (mergeEntryStep now tombs s path inDel oe) := by
  unfold mergeEntryStep
  split
  · rename_i dloc hloc
    obtain ⟨e0, he0, _⟩ := hS.findEntry _ hoe dloc hloc
    split
    · exact NoLk.err _ notLk_kind
    · rename_i existing0 hfe
      rw [he0] at hfe; injection hfe with hfe; subst hfe
      dsimp only
      have jp : ∀ (x : St × List Nat × Entry), (∃ e', findEntry x.1.root x.2.1 = some e') → NoLk (match x with
          | (s, eloc, existing) => do
            let upd ← entryUpdate now existing oe
            match upd with
              | none => Pure.pure s
              | some merged =>
                match findEntry s.root eloc with
                | none => Except.error MErr.findEntry
                | some _ =>
                  Pure.pure ({ s with root := updatePath s.root eloc (fun _ => Node.entry merged) }.ev .entryUpdated merged.d.uuid)) := by
        intro x hx
        obtain ⟨s1, eloc, existing⟩ := x
        obtain ⟨e', he'⟩ := hx
        dsimp only at he'
        refine NoLk.bind (entryUpdate_noLk now existing oe) (fun a _ => ?_)
        cases a with
        | none => exact NoLk.pure _
        | some m =>
          dsimp only
          rw [he']
          exact NoLk.pure _
      split
      · rename_i hc
        have hid := cond_inDel _ _ inDel hc
        split
        · have hgp := findEntry_some he0
          obtain ⟨s', n', hrel, hn', hk, _⟩ := relocate_ok (s.ev .entryLocationUpdated oe.d.uuid) oe.d.uuid dloc path
            (oe.d.times.loc.getD 0) _ (.entry e0) (by rw [ev_root]; exact hS.inv) (by rw [ev_root]; exact hloc)
            (by rw [ev_root]; exact (hp hid).choose_spec) (by rw [ev_root]; exact hgp) (Or.inr rfl)
          rw [hrel]
          refine NoLk.bind (NoLk.ok _) (fun a ha => ?_)
          injection ha with ha; subst ha
          exact jp (s', path ++ [oe.d.uuid], e0.setLoc (oe.d.times.loc.getD 0)) (findEntry_of_getPath _ _ n' hn' hk)
        · exact jp (s, dloc ++ [oe.d.uuid], e0) ⟨e0, he0⟩
      · exact jp (s, dloc ++ [oe.d.uuid], e0) ⟨e0, he0⟩
  · split
    · exact NoLk.pure _
    · split
      · exact NoLk.pure _
      · rename_i hid
        have hid' : inDel = false := by simpa using hid
        obtain ⟨t, ht⟩ := hp hid'
        rw [ht]
        exact NoLk.pure _

theorem entryUpdate_uuid_eq (now : Int) (ex oe m : Entry) (hu : ex.d.uuid = oe.d.uuid)
    (h : entryUpdate now ex oe = .ok (some m)) : m.d.uuid = oe.d.uuid := by
  rcases entryUpdate_uuid now ex oe m h with h1 | h1
  · rw [h1, hu]
  · exact h1

/-- the entry step keeps every path of groups -/
theorem mergeEntryStep_vg {EI GI : List Nat} (now : Int) (tombs : List Tomb) (s s' : St) (path : List Nat) (inDel : Bool) (oe : Entry)
    (hS : Safe EI GI s.root) (hoe : oe.d.uuid ∈ EI) (hp : inDel = false → VG s.root path) (q : List Nat) (hq : VG s.root q)
    (h : mergeEntryStep now tombs s path inDel oe = .ok s') : VG s'.root q := by
  unfold mergeEntryStep at h
  split at h
  · rename_i dloc hloc
    obtain ⟨e0, he0, _⟩ := hS.findEntry _ hoe dloc hloc
    split at h
    · cases h
    · rename_i existing0 hfe
      rw [he0] at hfe; injection hfe with hfe; subst hfe
      have hu0 : e0.d.uuid = oe.d.uuid := getPath_last_uuid dloc s.root _ oe.d.uuid (findEntry_some he0)
      have jp : ∀ (s1 : St) (p : List Nat) (existing : Entry) (s' : St), Inv s1.root → VG s1.root q →
          existing.d.uuid = oe.d.uuid →
          (do
            let upd ← entryUpdate now existing oe
            match upd with
              | none => pure s1
              | some merged =>
                match findEntry s1.root (p ++ [oe.d.uuid]) with
                | none => Except.error MErr.findEntry
                | some _ =>
                  pure ({ s1 with root := updatePath s1.root (p ++ [oe.d.uuid]) (fun _ => Node.entry merged) }.ev .entryUpdated merged.d.uuid)) = .ok s' →
          VG s'.root q := by
        intro s1 p existing s'' hI1 hq1 hue hk
        obtain ⟨upd, hupd', hk⟩ := except_bind_ok hk
        cases upd with
        | none => simp only at hk; injection hk with hk; subst hk; exact hq1
        | some merged =>
          simp only at hk
          split at hk
          · cases hk
          · rename_i ex' hex'
            injection hk with hk; subst hk
            rw [ev_root]
            obtain ⟨tq, htq⟩ := hq1
            have hgp := findEntry_some hex'
            have hux : ex'.d.uuid = oe.d.uuid := getPath_last_uuid p s1.root _ oe.d.uuid hgp
            obtain ⟨t', ht', _⟩ := findGroup_updatePath q (fun _ => Node.entry merged) (p ++ [oe.d.uuid]) q s1.root tq hI1.1
              (fun _ h => h) (fun n hn => by
                rw [hgp] at hn; injection hn with hn; subst hn
                exact fok_entry q ex' merged (by rw [entryUpdate_uuid_eq now existing oe merged hue hupd', hux])) htq
            exact ⟨t', ht'⟩
      dsimp only at h
      split at h
      · rename_i hc
        have hid := cond_inDel _ _ inDel hc
        split at h
        · obtain ⟨s2, hs2, h⟩ := except_bind_ok h
          obtain ⟨x, hx, h⟩ := except_bind_ok h
          cases hx
          have hgp := findEntry_some he0
          obtain ⟨s2', n', hrel, _, _, hvg⟩ := relocate_ok (s.ev .entryLocationUpdated oe.d.uuid) oe.d.uuid dloc path
            (oe.d.times.loc.getD 0) _ (.entry e0) (by rw [ev_root]; exact hS.inv) (by rw [ev_root]; exact hloc)
            (by rw [ev_root]; exact (hp hid).choose_spec) (by rw [ev_root]; exact hgp) (Or.inr rfl)
          rw [hrel] at hs2
          injection hs2 with hs2; subst hs2
          dsimp only at h
          exact jp s2' path (e0.setLoc (oe.d.times.loc.getD 0)) s' (relocate_inv _ _ _ _ _ _ (by rw [ev_root]; exact hS.inv) hrel)
            (hvg q (Or.inr rfl) (by rw [ev_root]; exact hq)) hu0 h
        · obtain ⟨x, hx, h⟩ := except_bind_ok h
          cases hx
          dsimp only at h
          exact jp s dloc _ s' hS.inv hq hu0 h
      · obtain ⟨x, hx, h⟩ := except_bind_ok h
        cases hx
        dsimp only at h
        exact jp s dloc _ s' hS.inv hq hu0 h
  · split at h
    · injection h with h; subst h; exact hq
    · split at h
      · injection h with h; subst h; exact hq
      · split at h
        · cases h
        · injection h with h; subst h
          rw [ev_root]
          obtain ⟨tq, htq⟩ := hq
          obtain ⟨t', ht', _⟩ := findGroup_updatePath q (fun g => g.setChildren (g.children ++ [Node.entry oe])) path q s.root tq
            hS.inv.1 (fun _ h => h) (fun n _ => fok_append q _ n) htq
          exact ⟨t', ht'⟩

/-! ### the frame's path -/

/-- the last element of the frame's path is a source group the destination holds (or the frame is the root's) -/
def TailOk (GI : List Nat) (r : Node) (path : List Nat) : Prop :=
  path = [] ∨ ∃ cur, path.getLast? = some cur ∧ cur ∈ GI ∧ cur ∈ uuidsL r.children

theorem TailOk.le {GI : List Nat} {r r' : Node} {path : List Nat} (h : TailOk GI r path) (hle : UuidsLe r r') : TailOk GI r' path := by
  rcases h with h | ⟨cur, h1, h2, h3⟩
  · exact Or.inl h
  · exact Or.inr ⟨cur, h1, h2, hle cur h3⟩

theorem vg_nil (r : Node) (h : r.isGroup = true) : VG r [] := ⟨r, findGroup_nil r h⟩

/-- the refreshed path designates a group, and its last element is the same -/
theorem tailOk_refresh {EI GI : List Nat} (r : Node) (path : List Nat) (hS : Safe EI GI r) (hT : TailOk GI r path) :
    VG r (refreshPath r path) ∧ TailOk GI r (refreshPath r path) := by
  rcases hT with h | ⟨cur, h1, h2, h3⟩
  · subst h
    have : refreshPath r [] = [] := by simp [refreshPath]
    rw [this]
    exact ⟨vg_nil r hS.inv.1, Or.inl rfl⟩
  · obtain ⟨loc, _, _, hl, _⟩ := findLoc_sound r cur hS.inv h3
    have hp : refreshPath r path = loc ++ [cur] := by
      unfold refreshPath
      rw [h1]
      simp only [hl]
    rw [hp]
    obtain ⟨g, hg⟩ := hS.findGroup cur h2 loc hl
    exact ⟨⟨g, hg⟩, Or.inr ⟨cur, by simp, h2, h3⟩⟩

theorem mergeEntries_vg {EI GI : List Nat} (now : Int) (tombs : List Tomb) : ∀ (cs : List Node) (s s' : St) (path : List Nat)
    (inDel : Bool), Safe EI GI s.root → SrcPartL EI GI cs → (inDel = false → VG s.root path) → ∀ q, VG s.root q →
    mergeEntries now tombs s path inDel cs = .ok s' → VG s'.root q
  | [], s, s', _, _, _, _, _, q, hq, h => by
    simp only [mergeEntries] at h
    injection h with h; subst h; exact hq
  | .entry e :: rest, s, s', path, inDel, hS, hg, hp, q, hq, h => by
    have he : e.d.uuid ∈ EI ∧ e.d.uuid ∉ GI ∧ TimedE e := by
      have := hg.ent; simp only [allEL, allE] at this; exact this.1
    unfold mergeEntries at h
    obtain ⟨s1, hs1, h⟩ := except_bind_ok h
    exact mergeEntries_vg now tombs rest s1 s' path inDel (safe_entryStep now tombs s s1 path inDel e hS he.2 hs1) hg.tail
      (fun hid => mergeEntryStep_vg now tombs s s1 path inDel e hS he.1 hp path (hp hid) hs1) q
      (mergeEntryStep_vg now tombs s s1 path inDel e hS he.1 hp q hq hs1) h
  | .group _ _ _ _ :: rest, s, s', path, inDel, hS, hg, hp, q, hq, h => by
    unfold mergeEntries at h
    exact mergeEntries_vg now tombs rest s s' path inDel hS hg.tail hp q hq h

/-! ### the group pass returns no look-up error -/

mutual
  theorem mergeGroup_noLk {EI GI : List Nat} (now : Int) (tombs : List Tomb) :
      ∀ (g : Node) (s : St) (path : List Nat) (inDel : Bool), Safe EI GI s.root → SrcPart EI GI g →
        (inDel = false → g.uuid ∈ uuidsL s.root.children ∨ path = []) → NoLk (mergeGroup now tombs s path g inDel)
    | .entry _, s, _, _, _, _, _ => by simp only [mergeGroup]; exact NoLk.ok _
    | .group gu gc gt cs, s, path, inDel, hS, hg, hp => by
      have hcs := hg.children
      have hgu : gu ∈ GI ∧ gu ∉ EI := by have := hg.grp; simp only [allG] at this; exact this.1
      unfold mergeGroup
      dsimp only
      have jp : ∀ (x : St × List Nat), Safe EI GI x.1.root → (inDel = false → VG x.1.root x.2 ∧ TailOk GI x.1.root x.2) →
          NoLk (match x with
          | (s, path) => do
            let s ← mergeEntries now tombs s path inDel cs
            mergeSubgroups now tombs s path inDel cs) := by
        intro x hx hpx
        obtain ⟨s1, p1⟩ := x
        dsimp only at hx hpx
        refine NoLk.bind (mergeEntries_noLk now tombs cs s1 p1 inDel hx hcs (fun hid => (hpx hid).1)) (fun a ha => ?_)
        refine mergeSubgroups_noLk now tombs cs a p1 inDel (safe_entries now tombs cs s1 a p1 inDel hx hcs ha) hcs (fun hid => ?_)
        exact ⟨mergeEntries_vg now tombs cs s1 a p1 inDel hx hcs (fun hid => (hpx hid).1) p1 (hpx hid).1 ha,
          (hpx hid).2.le (mergeEntries_le now tombs cs s1 a p1 inDel hx.inv ha).1⟩
      split
      · rename_i hloc
        refine jp (s, path) hS (fun hid => ?_)
        rcases hp hid with h | h
        · exact absurd h (findLoc_none_notMem s.root gu hloc)
        · subst h
          exact ⟨vg_nil s.root hS.inv.1, Or.inl rfl⟩
      · rename_i dloc hloc
        obtain ⟨eg, heg⟩ := hS.findGroup gu hgu.1 dloc hloc
        split
        · rename_i hfg
          rw [heg] at hfg; cases hfg
        · rename_i du dc dt dch hfg
          refine NoLk.bind (groupMergeData_noLk _ _ _ _ _ _ _) (fun x _ => ?_)
          obtain ⟨c', t', upd⟩ := x
          dsimp only
          have hS' := safe_groupData s.root (dloc ++ [gu]) du dc dt dch c' t' hS (by simp) hfg
          have hmem : gu ∈ uuidsL s.root.children := findLoc_some_mem s.root gu dloc hloc
          have hH' := holds_groupData gu s.root (dloc ++ [gu]) du dc dt dch c' t' ⟨hS.inv, hmem⟩ (by simp) hfg
          have hvg : VG (updatePath s.root (dloc ++ [gu]) (fun n => match n with
              | .group u _ _ ch => .group u c' t' ch
              | e => e)) (dloc ++ [gu]) := by
            obtain ⟨t1, ht1, _⟩ := findGroup_updatePath (dloc ++ [gu]) _ (dloc ++ [gu]) (dloc ++ [gu]) s.root _ hS.inv.1
              (fun _ h => h) (fun n _ => fok_groupData (dloc ++ [gu]) c' t' n) hfg
            exact ⟨t1, ht1⟩
          have hT : TailOk GI (updatePath s.root (dloc ++ [gu]) (fun n => match n with
              | .group u _ _ ch => .group u c' t' ch
              | e => e)) (dloc ++ [gu]) := Or.inr ⟨gu, by simp, hgu.1, hH'.2⟩
          refine jp (_, _) ?_ (fun _ => ?_)
          · dsimp only
            split
            · rw [ev_root]; exact hS'
            · exact hS'
          · dsimp only
            split
            · rw [ev_root]; exact ⟨hvg, hT⟩
            · exact ⟨hvg, hT⟩
        · rename_i e' hfe
          have := (findGroup_some hfe).2
          simp [Node.isGroup] at this

  theorem mergeEntries_noLk {EI GI : List Nat} (now : Int) (tombs : List Tomb) :
      ∀ (cs : List Node) (s : St) (path : List Nat) (inDel : Bool), Safe EI GI s.root → SrcPartL EI GI cs →
        (inDel = false → VG s.root path) → NoLk (mergeEntries now tombs s path inDel cs)
    | [], s, _, _, _, _, _ => by simp only [mergeEntries]; exact NoLk.ok _
    | .entry e :: rest, s, path, inDel, hS, hg, hp => by
      have he : e.d.uuid ∈ EI ∧ e.d.uuid ∉ GI ∧ TimedE e := by
        have := hg.ent; simp only [allEL, allE] at this; exact this.1
      unfold mergeEntries
      exact NoLk.bind (mergeEntryStep_noLk now tombs s path inDel e hS he.1 hp)
        (fun a ha => mergeEntries_noLk now tombs rest a path inDel (safe_entryStep now tombs s a path inDel e hS he.2 ha) hg.tail
          (fun hid => mergeEntryStep_vg now tombs s a path inDel e hS he.1 hp path (hp hid) ha))
    | .group _ _ _ _ :: rest, s, path, inDel, hS, hg, hp => by
      unfold mergeEntries
      exact mergeEntries_noLk now tombs rest s path inDel hS hg.tail hp

  theorem mergeSubgroups_noLk {EI GI : List Nat} (now : Int) (tombs : List Tomb) :
      ∀ (cs : List Node) (s : St) (path : List Nat) (inDel : Bool), Safe EI GI s.root → SrcPartL EI GI cs →
        (inDel = false → VG s.root path ∧ TailOk GI s.root path) → NoLk (mergeSubgroups now tombs s path inDel cs)
    | [], s, _, _, _, _, _ => by simp only [mergeSubgroups]; exact NoLk.ok _
    | .entry _ :: rest, s, path, inDel, hS, hg, hp => by
      unfold mergeSubgroups
      exact mergeSubgroups_noLk now tombs rest s path inDel hS hg.tail hp
    | .group ou oc ot ocs :: rest, s, path, inDel, hS, hg, hp => by
      have hog : SrcPart EI GI (.group ou oc ot ocs) := hg.head
      have hou : ou ∈ GI ∧ ou ∉ EI := by have := hog.grp; simp only [allG] at this; exact this.1
      unfold mergeSubgroups
      dsimp only
      have viaGroup : ∀ (s0 : St) (b : Bool), Safe EI GI s0.root → (b = false → ou ∈ uuidsL s0.root.children) →
          (inDel = false → TailOk GI s0.root path) → NoLk (do
            let s ← mergeGroup now tombs s0 (path ++ [ou]) (.group ou oc ot ocs) b
            mergeSubgroups now tombs s (refreshPath s.root path) inDel rest) := by
        intro s0 b h0 hb hT0
        refine NoLk.bind (mergeGroup_noLk now tombs (.group ou oc ot ocs) s0 _ b h0 hog (fun hbf => Or.inl (hb hbf))) (fun a ha => ?_)
        have hSa := safe_group now tombs _ s0 a _ b h0 hog ha
        refine mergeSubgroups_noLk now tombs rest a _ inDel hSa hg.tail (fun hid => ?_)
        exact tailOk_refresh a.root path hSa ((hT0 hid).le (mergeGroup_le now tombs _ s0 a _ b h0.inv ha).1)
      split
      · exact viaGroup s true hS (fun h => by cases h) (fun hid => (hp hid).2)
      · rename_i hc
        have hid : inDel = false := by
          cases inDel with
          | false => rfl
          | true => simp at hc
        split
        · rename_i dloc hloc
          have hmem : ou ∈ uuidsL s.root.children := findLoc_some_mem s.root ou dloc hloc
          obtain ⟨eg, heg⟩ := hS.findGroup ou hou.1 dloc hloc
          split
          · split
            · exact NoLk.bind (NoLk.err _ notLk_kind) (fun a ha => by cases ha)
            · rename_i eg' heg'
              rw [heg] at heg'; injection heg' with heg'; subst heg'
              split
              · rename_i hcond
                have hnc : ou ∉ path := by
                  simp only [Bool.and_eq_true, Bool.not_eq_eq_eq_not, Bool.not_true] at hcond
                  intro hm
                  have := hcond.2
                  simp [hm] at this
                obtain ⟨egp, egg⟩ := findGroup_some heg
                obtain ⟨s2, n', hrel, _, _, _⟩ := relocate_ok s ou dloc path (ot.loc.getD 0) _ eg hS.inv hloc (hp hid).1.choose_spec
                  egp (Or.inl hnc)
                rw [hrel]
                refine NoLk.bind (NoLk.ok _) (fun a ha => ?_)
                injection ha with ha; subst ha
                have hle := relocate_le s s2 ou dloc path (ot.loc.getD 0) hS.inv hrel
                exact viaGroup _ inDel (by rw [ev_root]; exact safe_relocate s s2 _ _ _ _ hS hrel)
                  (fun _ => by rw [ev_root]; exact hle ou hmem) (fun _ => by rw [ev_root]; exact (hp hid).2.le hle)
              · exact viaGroup s inDel hS (fun _ => hmem) (fun _ => (hp hid).2)
          · exact viaGroup s inDel hS (fun _ => hmem) (fun _ => (hp hid).2)
        · rename_i hloc
          obtain ⟨pg, hpg⟩ := (hp hid).1
          rw [ev_root, hpg]
          dsimp only
          have hadd := le_add_child s.root pg (.group ou oc ot []) path hS.inv hpg
          exact viaGroup _ inDel (safe_addGroup s.root pg path ou oc ot hS hpg hloc hou.2)
            (fun _ => hadd.2 ou (by simp [uuidsN])) (fun _ => (hp hid).2.le hadd.1)
end

/-! ### root, passes, the whole merge -/

theorem mergeRoot_noLk (now : Int) (s : St) (srcRoot : Node) : NoLk (mergeRoot now s srcRoot) := by
  unfold mergeRoot
  split
  · split
    · refine NoLk.bind (groupMergeData_noLk _ _ _ _ _ _ _) (fun x _ => ?_)
      obtain ⟨c', t', upd⟩ := x
      exact NoLk.pure _
    · exact NoLk.pure _
  · exact NoLk.pure _

theorem mergePasses_noLk {EI GI : List Nat} (now : Int) (tombs : List Tomb) (srcRoot : Node) (hg : SrcPart EI GI srcRoot) :
    ∀ (k : Nat) (s : St), Safe EI GI s.root → NoLk (mergePasses now tombs srcRoot k s) := by
  intro k
  induction k with
  | zero => intro s _; exact NoLk.pure _
  | succ k ih =>
    intro s hS
    unfold mergePasses
    split
    · rename_i e he
      intro e' h; injection h with h; subst h
      exact mergeGroup_noLk now tombs srcRoot _ _ _ (show Safe EI GI ({ s with events := [] } : St).root from hS) hg
        (fun _ => Or.inr rfl) e he
    · rename_i s1 hs1
      dsimp only
      split
      · exact NoLk.pure _
      · exact ih _ (show Safe EI GI ({ s1 with events := s.events ++ s1.events } : St).root from
          safe_group now tombs srcRoot _ s1 _ _ (show Safe EI GI ({ s with events := [] } : St).root from hS) hg hs1)

/-- **`merge` returns none of the look-up errors** when the two replicas agree on kinds -/
theorem merge_noLk {EI GI : List Nat} (now : Int) (dst src : Db) (hS : Safe EI GI dst.root) (hg : SrcPart EI GI src.root) :
    NoLk (merge now dst src) := by
  unfold merge
  dsimp only
  refine NoLk.bind (mergeRoot_noLk now _ _) (fun s1 hs1 => ?_)
  have hS1 := safe_mergeRoot now _ s1 src.root hS hs1
  refine NoLk.bind (mergePasses_noLk now _ _ hg _ _ hS1) (fun s2 hs2 => ?_)
  have hI2 := mergePasses_inv now dst.tombs src.root _ s1 s2 hS1.inv hs2
  obtain ⟨r, hr⟩ := mergeDeletions_ok now dst.tombs s2 src hI2
  rw [hr]
  refine NoLk.bind (NoLk.ok _) (fun x _ => ?_)
  obtain ⟨s3, tombs⟩ := x
  exact NoLk.pure _

/-- **the only errors `merge` returns are the two that report conflicting time stamps** (a group that differs between the
    replicas under one modification time; a history holding two versions under one time), when the two replicas agree on kinds
    and every entry version carries a modification time -/
theorem merge_errors {EI GI : List Nat} (now : Int) (dst src : Db) (hS : Safe EI GI dst.root) (hg : SrcPart EI GI src.root)
    (e : MErr) (h : merge now dst src = .error e) :
    e = .groupMtimeNotUpdated ∨ e = .duplicateHistory := by
  have h1 := merge_noPanic now dst src hS hg e h
  have h2 := merge_noLk now dst src hS hg e h
  have h3 := merge_noFuel now dst src hS.inv
  cases e with
  | findGroup => exact absurd (Or.inl rfl) h2
  | findEntry => exact absurd (Or.inr (Or.inl rfl)) h2
  | generic => exact absurd (Or.inr (Or.inr (Or.inl rfl))) h2
  | entryMtimeNotUpdated => exact absurd (Or.inr (Or.inr (Or.inr rfl))) h2
  | groupMtimeNotUpdated => exact Or.inl rfl
  | duplicateHistory => exact Or.inr rfl
  | panicHistoryNoMtime => exact absurd (Or.inr rfl) h1
  | panicKindMismatch => exact absurd (Or.inl rfl) h1
  | outOfFuel => exact absurd h h3

end Kp.Merge
