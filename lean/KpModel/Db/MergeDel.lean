import KpModel.Db.MergeLwwG
/-!
# Deletions are honoured exactly when they are newer (entries)

An entry that the destination holds and the source deleted (it is nowhere in the source's tree; the source carries tombstones
for it) is removed by `merge`, and gains a tombstone, if and only if one of those tombstones is later than the entry's last
modification in the destination.
-/
namespace Kp.Merge
open Node

/-! ### where `find_node_location` points -/

theorem getPath_cons_child (r c : Node) (p : List Nat) (hn : (uuidsL r.children).Nodup) (hc : c ∈ r.children)
    (hg : c.isGroup = true) : getPath r (c.uuid :: p) = getPath c p := by
  cases p with
  | nil =>
    simp only [getPath]
    exact find_self' r.children c hn hc
  | cons v rest =>
    simp only [getPath]
    have := find_self r.children c (fun n => n.isGroup) hn hc hg
    rw [this]

mutual
  /-- every UUID below a sound group is reached by a path of group UUIDs -/
  theorem path_of_memN (id : Nat) : ∀ (r : Node), (uuidsL r.children).Nodup → id ∈ uuidsL r.children →
      ∃ path g n, getPath r path = some g ∧ g.isGroup = true ∧ n ∈ g.children ∧ n.uuid = id
    | .entry _, _, hm => by simp [Node.children, uuidsL] at hm
    | .group u c t cs, hn, hm =>
      path_of_memL id (.group u c t cs) rfl hn cs (fun _ h => h) hm
  theorem path_of_memL (id : Nat) (r : Node) (hr : r.isGroup = true) (hn : (uuidsL r.children).Nodup) :
      ∀ (cs : List Node), (∀ c ∈ cs, c ∈ r.children) → id ∈ uuidsL cs →
      ∃ path g n, getPath r path = some g ∧ g.isGroup = true ∧ n ∈ g.children ∧ n.uuid = id
    | [], _, hm => by simp [uuidsL] at hm
    | .entry e :: cs, hsub, hm => by
      simp only [uuidsL, uuidsN, List.mem_append, List.mem_singleton] at hm
      rcases hm with hm | hm
      · exact ⟨[], r, .entry e, by simp [getPath], hr, hsub _ List.mem_cons_self, hm.symm⟩
      · exact path_of_memL id r hr hn cs (fun c hc => hsub c (List.mem_cons_of_mem _ hc)) hm
    | .group u' c' t' ccs :: cs, hsub, hm => by
      simp only [uuidsL, uuidsN, List.mem_append, List.mem_cons] at hm
      have hcm : Node.group u' c' t' ccs ∈ r.children := hsub _ List.mem_cons_self
      rcases hm with (hm | hm) | hm
      · exact ⟨[], r, .group u' c' t' ccs, by simp [getPath], hr, hcm, hm.symm⟩
      · have hcn := (nodup_children_of_mem r.children u' c' t' ccs hn hcm).1
        obtain ⟨path, g, n, hp, hg, hnm, hnu⟩ := path_of_memN id (.group u' c' t' ccs) hcn hm
        refine ⟨u' :: path, g, n, ?_, hg, hnm, hnu⟩
        have := getPath_cons_child r (.group u' c' t' ccs) path hn hcm rfl
        simp only [Node.uuid] at this
        rw [this]; exact hp
      · exact path_of_memL id r hr hn cs (fun c hc => hsub c (List.mem_cons_of_mem _ hc)) hm
end

/-- in a sound tree `find_node_location` finds the parent of the node with that UUID -/
theorem findLoc_sound (root : Node) (id : Nat) (hI : Inv root) (hm : id ∈ uuidsL root.children) :
    ∃ loc g n, findLoc root id = some loc ∧ findGroup root loc = some g ∧ getPath g [id] = some n ∧ n.uuid = id
      ∧ getPath root (loc ++ [id]) = some n := by
  obtain ⟨path, g, n, hp, hg, hnm, hnu⟩ := path_of_memN id root hI.2 hm
  have hgn : (uuidsL g.children).Nodup := by
    cases path with
    | nil => simp only [getPath, Option.some.injEq] at hp; subst hp; exact hI.2
    | cons a b =>
      have hsub := getPath_sublist_children a b root g hI.1 hp
      have hnd : (uuidsN g).Nodup := List.Nodup.sublist hsub hI.2
      rw [uuidsN_group g hg] at hnd
      exact (List.nodup_cons.mp hnd).2
  refine ⟨path, g, n, ?_, ?_, ?_, hnu, ?_⟩
  · have := findLoc_child path root g n hI.2 hp hg hnm
    rw [hnu] at this; exact this
  · unfold findGroup; rw [hp]; simp [hg]
  · simp only [getPath]
    have := find_self' g.children n hgn hnm
    rw [hnu] at this; exact this
  · have := getPath_child path root g n hI.2 hp hg hnm
    rw [hnu] at this; exact this

/-! ### the tombstone list only grows, by tombstones of the source -/

theorem deleteEntries_prefix' (now : Int) : ∀ (l : List Tomb) (s : St) (nt : List Tomb) (s' : St) (nt' : List Tomb),
    deleteEntries now s nt l = .ok (s', nt') → ∃ add, nt' = nt ++ add ∧ ∀ t ∈ add, t ∈ l := by
  intro l
  induction l with
  | nil =>
    intro s nt s' nt' h
    simp [deleteEntries] at h
    exact ⟨[], by simp [h.2], by simp⟩
  | cons d rest ih =>
    intro s nt s' nt' h
    have lift : ∀ s0 nt0, deleteEntries now s0 nt0 rest = .ok (s', nt') → (∃ a0, nt0 = nt ++ a0 ∧ ∀ t ∈ a0, t ∈ d :: rest) →
        ∃ add, nt' = nt ++ add ∧ ∀ t ∈ add, t ∈ d :: rest := by
      intro s0 nt0 h0 ⟨a0, ha0, hm0⟩
      obtain ⟨a1, ha1, hm1⟩ := ih s0 nt0 s' nt' h0
      refine ⟨a0 ++ a1, by rw [ha1, ha0, List.append_assoc], ?_⟩
      intro t ht
      rcases List.mem_append.mp ht with ht | ht
      · exact hm0 t ht
      · exact List.mem_cons_of_mem _ (hm1 t ht)
    have same := fun hh => lift s nt hh ⟨[], by simp, by simp⟩
    simp only [deleteEntries] at h
    split at h
    · exact same h
    · split at h
      · exact same h
      · split at h
        · cases h
        · split at h
          · exact same h
          · split at h
            · split at h
              · cases h
              · exact lift _ _ h ⟨[d], rfl, by simp⟩
            · exact same h

theorem deleteGroups_prefix' (now : Int) : ∀ (fuel : Nat) (q : List Tomb) (s : St) (nt : List Tomb) (s' : St)
    (nt' : List Tomb) (all : List Tomb), (∀ t ∈ q, t ∈ all) →
    deleteGroups now fuel s nt q = .ok (s', nt') → ∃ add, nt' = nt ++ add ∧ ∀ t ∈ add, t ∈ all := by
  intro fuel
  induction fuel with
  | zero =>
    intro q s nt s' nt' all _ h
    simp only [deleteGroups] at h
    split at h
    · injection h with h; injection h with h1 h2; exact ⟨[], by simp [h2], by simp⟩
    · cases h
  | succ fuel ih =>
    intro q s nt s' nt' all hq h
    cases q with
    | nil =>
      simp only [deleteGroups] at h
      injection h with h; injection h with h1 h2; exact ⟨[], by simp [h2], by simp⟩
    | cons d queue =>
      have hq' : ∀ t ∈ queue, t ∈ all := fun t ht => hq t (List.mem_cons_of_mem _ ht)
      have hd : d ∈ all := hq d (List.mem_cons_self ..)
      have same := fun hh => ih queue s nt s' nt' all hq' hh
      simp only [deleteGroups] at h
      split at h
      · exact same h
      · split at h
        · exact same h
        · split at h
          · cases h
          · split at h
            · exact same h
            · split at h
              · exact same h
              · split at h
                · exact ih (queue ++ [d]) s nt s' nt' all (by
                    intro t ht
                    rcases List.mem_append.mp ht with ht | ht
                    · exact hq' t ht
                    · simp at ht; rw [ht]; exact hd) h
                · split at h
                  · exact same h
                  · split at h
                    · split at h
                      · cases h
                      · obtain ⟨a1, ha1, hm1⟩ := ih queue _ (nt ++ [d]) s' nt' all hq' h
                        refine ⟨d :: a1, by rw [ha1]; simp, ?_⟩
                        intro t ht
                        cases ht with
                        | head => exact hd
                        | tail _ ht' => exact hm1 t ht'
                    · exact same h

/-! ### the entry followed, before and during the deletion passes -/

/-- the destination holds an entry (not a group) with UUID `u` whose modification time is `m` -/
structure Live (u : Nat) (m : Option Int) (r : Node) : Prop where
  holds : Holds u r
  mt : allE (fun e => e.d.uuid = u → e.d.times.mtime = m) r
  noGroup : allG (fun x _ _ => x ≠ u) r

theorem Live.entry {u : Nat} {m : Option Int} {r : Node} (h : Live u m r) :
    ∃ loc parent e, findLoc r u = some loc ∧ findGroup r loc = some parent ∧ findEntry parent [u] = some e
      ∧ e.d.times.mtime = m := by
  obtain ⟨loc, g, n, h1, h2, h3, h4, h5⟩ := findLoc_sound r u h.holds.1 h.holds.2
  cases n with
  | group x c t cs =>
    have := allG_getPath _ _ r _ h.noGroup h5
    simp only [allG] at this
    exact absurd h4 this.1
  | entry e =>
    refine ⟨loc, g, e, h1, h2, ?_, ?_⟩
    · unfold findEntry; rw [h3]
    · have := allE_getPath _ _ r _ h.mt h5
      simp only [allE] at this
      exact this h4

/-- removing a childless node with another UUID -/
theorem Live.remove {u : Nat} {m : Option Int} {r : Node} (h : Live u m r) (parent parent' last : Node) (loc : List Nat) (x : Nat)
    (h3 : findGroup r loc = some parent) (h9 : removeNode parent x = some (parent', last)) (hlast : uuidsN last = [x])
    (hx : x ≠ u) : Live u m (updatePath r loc (fun _ => parent')) := by
  have hI := h.holds.1
  obtain ⟨_, gpg⟩ := findGroup_some h3
  obtain ⟨_, _, hp'⟩ := removeNode_facts parent parent' last x h9
  have hsub := remove_step_sublist r parent parent' last loc x hI.1 h3 h9
  have hpg : parent'.isGroup = true := by
    rw [hp']; cases parent <;> simp [Node.setChildren, Node.isGroup] at gpg ⊢
  have hg' := updatePath_isGroup loc r (fun _ => parent') hI.1 (fun _ => hpg)
  obtain ⟨_, hperm⟩ := remove_perm r parent parent' last x loc hI h3 h9
  refine ⟨⟨⟨hg', List.Nodup.sublist hsub hI.2⟩, ?_⟩, remove_step_allE _ r parent parent' last loc x h.mt h3 h9,
    remove_step_allG _ r parent parent' last loc x h.noGroup h3 h9⟩
  have := hperm.mem_iff.mp h.holds.2
  simp only [List.mem_append, hlast, List.mem_singleton] at this
  rcases this with h1 | h1
  · exact h1
  · exact absurd h1.symm hx

/-- the entry pass: the entry stays, untombstoned, while no tombstone for it is newer than its modification time; the first
    newer one removes it and records the tombstone -/
theorem deleteEntries_live (now : Int) (u : Nat) (m : Option Int) : ∀ (ts : List Tomb) (s : St) (nt : List Tomb) (s' : St) (nt' : List Tomb),
    Live u m s.root → tombsContain nt u = false → deleteEntries now s nt ts = .ok (s', nt') →
    ((∀ d ∈ ts, d.uuid = u → ¬ (m.getD now < d.time)) → Live u m s'.root ∧ tombsContain nt' u = false)
    ∧ ((∃ d ∈ ts, d.uuid = u ∧ m.getD now < d.time) → u ∉ uuidsL s'.root.children ∧ tombsContain nt' u = true) := by
  intro ts
  induction ts with
  | nil =>
    intro s nt s' nt' hL hnt h
    simp only [deleteEntries, Except.ok.injEq, Prod.mk.injEq] at h
    obtain ⟨rfl, rfl⟩ := h
    exact ⟨fun _ => ⟨hL, hnt⟩, fun ⟨d, hd, _⟩ => by cases hd⟩
  | cons d rest ih =>
    intro s nt s' nt' hL hnt h
    -- what the induction hypothesis gives when this tombstone changes nothing
    have skip : deleteEntries now s nt rest = .ok (s', nt') → (d.uuid = u → ¬ (m.getD now < d.time)) →
        ((∀ d' ∈ d :: rest, d'.uuid = u → ¬ (m.getD now < d'.time)) → Live u m s'.root ∧ tombsContain nt' u = false)
        ∧ ((∃ d' ∈ d :: rest, d'.uuid = u ∧ m.getD now < d'.time) → u ∉ uuidsL s'.root.children ∧ tombsContain nt' u = true) := by
      intro hk hd
      obtain ⟨a, b⟩ := ih s nt s' nt' hL hnt hk
      refine ⟨fun hall => a (fun d' hd' => hall d' (List.mem_cons_of_mem _ hd')), fun ⟨d', hd', hu', hlt'⟩ => ?_⟩
      rcases List.mem_cons.mp hd' with rfl | hd'
      · exact absurd hlt' (hd hu')
      · exact b ⟨d', hd', hu', hlt'⟩
    by_cases hdu : d.uuid = u
    · -- a tombstone for the entry followed
      obtain ⟨loc, parent, e, h1, h2, h3, h4⟩ := hL.entry
      unfold deleteEntries at h
      rw [hdu] at h
      simp only [hnt, Bool.false_eq_true, ↓reduceIte, h1, h2, h3, h4] at h
      by_cases hlt : m.getD now < d.time
      · simp only [hlt, ↓reduceIte] at h
        split at h
        · cases h
        · rename_i parent' last h9
          -- removed here; the rest of the pass cannot bring it back
          have hI := hL.holds.1
          obtain ⟨gp, gpg⟩ := findGroup_some h2
          obtain ⟨hlu, hlm, hp'⟩ := removeNode_facts parent parent' last u h9
          obtain ⟨hg1, hperm⟩ := remove_perm s.root parent parent' last u loc hI h2 h9
          have hnd := hperm.nodup_iff.mp hI.2
          have hparts := List.nodup_append.mp hnd
          have hgone : u ∉ uuidsL (updatePath s.root loc (fun _ => parent')).children := by
            intro hc
            exact hparts.2.2 u hc u (by rw [← hlu]; exact uuid_mem_uuidsN last) rfl
          have hsub := deleteEntries_subset now rest _ _ s' nt' (by rw [ev_root]; exact hg1) h
          obtain ⟨add, hadd, _⟩ := deleteEntries_prefix' now rest _ _ s' nt' h
          refine ⟨fun hall => absurd hlt (hall d List.mem_cons_self hdu), fun _ => ⟨fun hc => hgone ?_, ?_⟩⟩
          · have := hsub.2 u hc
            rwa [ev_root] at this
          · rw [hadd, tombsContain_append, tombsContain_append]
            simp [tombsContain, hdu]
      · simp only [hlt, ↓reduceIte] at h
        exact skip h (fun _ => hlt)
    · -- a tombstone for another node
      have hne : ¬ d.uuid = u := hdu
      unfold deleteEntries at h
      split at h
      · exact skip h (fun e => absurd e hne)
      · split at h
        · exact skip h (fun e => absurd e hne)
        · rename_i loc hloc
          split at h
          · cases h
          · rename_i parent h3
            split at h
            · exact skip h (fun e => absurd e hne)
            · rename_i e hfe
              split at h
              · split at h
                · cases h
                · rename_i parent' last h9
                  have hI := hL.holds.1
                  obtain ⟨gp, gpg⟩ := findGroup_some h3
                  obtain ⟨hlu, hlm, hp'⟩ := removeNode_facts parent parent' last d.uuid h9
                  have hpn : (uuidsL parent.children).Nodup := by
                    cases loc with
                    | nil => simp only [getPath, Option.some.injEq] at gp; subst gp; exact hI.2
                    | cons u0 rest0 =>
                      have := (getPath_sublist_children u0 rest0 s.root parent hI.1 gp).nodup hI.2
                      rw [uuidsN_group parent gpg] at this
                      exact (List.nodup_cons.mp this).2
                  have hem : Node.entry e ∈ parent.children ∧ (Node.entry e).uuid = d.uuid := by
                    have := findEntry_some hfe
                    simp only [getPath] at this
                    exact ⟨(find_first this).1, by simpa using (find_first this).2⟩
                  have hlast : last = Node.entry e := uuid_unique_child _ _ _ hpn hlm hem.1 (by rw [hlu, hem.2])
                  have hL' := hL.remove parent parent' last loc d.uuid h3 h9
                    (by rw [hlast]; simp only [uuidsN]; rw [← hem.2]; rfl) hne
                  have hnt' : tombsContain (nt ++ [d]) u = false := by
                    rw [tombsContain_append, hnt]
                    simp [tombsContain, hne]
                  obtain ⟨a, b⟩ := ih _ _ s' nt' (by rw [ev_root]; exact hL') hnt' h
                  refine ⟨fun hall => a (fun d' hd' => hall d' (List.mem_cons_of_mem _ hd')), fun ⟨d', hd', hu', hlt'⟩ => ?_⟩
                  rcases List.mem_cons.mp hd' with rfl | hd'
                  · exact absurd hu' hne
                  · exact b ⟨d', hd', hu', hlt'⟩
              · exact skip h (fun e => absurd e hne)

/-- the group pass removes empty groups only: the entry followed is not touched, no tombstone for it is recorded -/
theorem gdecide_delete_live (now : Int) (u : Nat) (m : Option Int) (s : St) (nt : List Tomb) (d : Tomb) (q : List Tomb) (s' : St)
    (nt' : List Tomb) (hL : Live u m s.root) (hnt : tombsContain nt u = false) (h : gdecide now s nt d q = .delete s' nt') :
    Live u m s'.root ∧ tombsContain nt' u = false := by
  have hI := hL.holds.1
  unfold gdecide at h
  split at h
  · cases h
  · split at h
    · cases h
    · rename_i loc hloc
      split at h
      · cases h
      · rename_i parent h3
        split at h
        · cases h
        · rename_i grp hfg
          dsimp only at h
          split at h
          · cases h
          · rename_i hent
            split at h
            · cases h
            · split at h
              · cases h
              · rename_i hgrp
                split at h
                · split at h
                  · cases h
                  · rename_i parent' last h9
                    injection h with h1 h2
                    subst h1; subst h2
                    obtain ⟨gp, gpg⟩ := findGroup_some h3
                    obtain ⟨hlu, hlm, _⟩ := removeNode_facts parent parent' last d.uuid h9
                    have hpn : (uuidsL parent.children).Nodup := by
                      cases loc with
                      | nil => simp only [getPath, Option.some.injEq] at gp; subst gp; exact hI.2
                      | cons u0 rest0 =>
                        have := (getPath_sublist_children u0 rest0 s.root parent hI.1 gp).nodup hI.2
                        rw [uuidsN_group parent gpg] at this
                        exact (List.nodup_cons.mp this).2
                    obtain ⟨hgg, hggg⟩ := findGroup_some hfg
                    have hgm : grp ∈ parent.children ∧ grp.uuid = d.uuid := by
                      simp only [getPath] at hgg
                      exact ⟨(find_first hgg).1, by simpa using (find_first hgg).2⟩
                    have hlast : last = grp := uuid_unique_child _ _ _ hpn hlm hgm.1 (by rw [hlu, hgm.2])
                    have hempty : grp.children = [] := by
                      have he : (grp.children.filter (fun c => !c.isGroup)) = [] := by
                        simpa using hent
                      have hg : (grp.children.filter (·.isGroup)) = [] := by
                        simpa using hgrp
                      cases hc : grp.children with
                      | nil => rfl
                      | cons c cs =>
                        rw [hc] at he hg
                        by_cases hcg : c.isGroup = true
                        · simp [hcg] at hg
                        · simp [hcg] at he
                    -- a group with the UUID followed does not exist
                    have hne : d.uuid ≠ u := by
                      intro e
                      have hpa := allG_getPath _ loc s.root parent hL.noGroup gp
                      have hga := allG_getPath _ [d.uuid] parent grp hpa hgg
                      cases grp with
                      | entry _ => cases hggg
                      | group x c t cs =>
                        simp only [allG] at hga
                        exact hga.1 (by simpa [Node.uuid, e] using hgm.2)
                    refine ⟨?_, ?_⟩
                    · rw [ev_root]
                      exact hL.remove parent parent' last loc d.uuid h3 h9
                        (by rw [hlast, uuidsN_group grp hggg, hempty, hgm.2]; rfl) hne
                    · rw [tombsContain_append, hnt]
                      simp [tombsContain, hne]
                · cases h

theorem deleteGroups_live (now : Int) (u : Nat) (m : Option Int) : ∀ (fuel : Nat) (s : St) (nt q : List Tomb) (s' : St) (nt' : List Tomb),
    Live u m s.root → tombsContain nt u = false → deleteGroups now fuel s nt q = .ok (s', nt') →
    Live u m s'.root ∧ tombsContain nt' u = false := by
  intro fuel
  induction fuel with
  | zero =>
    intro s nt q s' nt' hL hnt h
    unfold deleteGroups at h
    split at h
    · injection h with h; injection h with h1 h2; subst h1; subst h2; exact ⟨hL, hnt⟩
    · cases h
  | succ n ih =>
    intro s nt q s' nt' hL hnt h
    cases q with
    | nil =>
      unfold deleteGroups at h
      injection h with h; injection h with h1 h2; subst h1; subst h2; exact ⟨hL, hnt⟩
    | cons d q =>
      rw [deleteGroups_step] at h
      split at h
      · exact ih s nt q s' nt' hL hnt h
      · exact ih s nt _ s' nt' hL hnt h
      · rename_i s1 nt1 hdec
        obtain ⟨hL1, hnt1⟩ := gdecide_delete_live now u m s nt d q s1 nt1 hL hnt hdec
        exact ih s1 nt1 q s' nt' hL1 hnt1 h
      · cases h

/-! ### the whole merge -/

/-- **an entry the source deleted**: the destination holds the entry, has no tombstone for it, and the source's tree does not
    hold it.  Then the merge removes it and records a tombstone for it exactly when one of the source's tombstones for it is
    later than its last modification in the destination; otherwise it stays and no tombstone for it is recorded. -/
theorem merge_entry_deletion (now : Int) (dst src d' : Db) (evs : List Event) (hI : Inv dst.root)
    (hfd : dst.root.uuid ∉ uuidsL dst.root.children) (hsg : src.root.isGroup = true)
    (h : merge now dst src = .ok (d', evs)) (pd : List Nat) (de : Entry) (hd : findEntry dst.root pd = some de)
    (hsrc : de.d.uuid ∉ uuidsL src.root.children) (hnt : tombsContain dst.tombs de.d.uuid = false) :
    ((∃ d ∈ src.tombs, d.uuid = de.d.uuid ∧ de.d.times.mtime.getD now < d.time) →
        de.d.uuid ∉ uuidsL d'.root.children ∧ tombsContain d'.tombs de.d.uuid = true)
    ∧ ((∀ d ∈ src.tombs, d.uuid = de.d.uuid → ¬ (de.d.times.mtime.getD now < d.time)) →
        de.d.uuid ∈ uuidsL d'.root.children ∧ tombsContain d'.tombs de.d.uuid = false) := by
  have hgd := findEntry_some hd
  have hpd : pd ≠ [] := by
    intro e; subst e
    simp only [getPath, Option.some.injEq] at hgd
    have := hI.1; rw [hgd] at this; cases this
  let P : Entry → Prop := fun e => e.d.uuid = de.d.uuid → e.d.times.mtime = de.d.times.mtime
  let G : GP := fun x _ _ => x ≠ de.d.uuid
  have hmem : de.d.uuid ∈ uuidsL dst.root.children := getPath_uuids pd dst.root _ hpd hgd de.d.uuid (by simp [uuidsN])
  have hH0 : HoldsG de.d.uuid dst.root := ⟨⟨hI, hmem⟩, fun e => hfd (e ▸ hmem)⟩
  have hP0 : allE P dst.root := allE_only (fun x => x.d.times.mtime = de.d.times.mtime) dst.root pd de hI hgd rfl
  -- the only node with this UUID is the entry: no group has it
  have hG0 : allG G dst.root := by
    cases hroot : dst.root with
    | entry e => trivial
    | group ru rc rt rcs =>
      have hru : ru ≠ de.d.uuid := by have := hH0.2; rw [hroot] at this; exact this
      simp only [allG]
      refine ⟨hru, ?_⟩
      -- below the root: positional, around the entry
      have key := allG_updatePath_at (fun _ _ _ => True) G (fun x => x) [de.d.uuid]
        (fun x _ _ _ hne hx => hne (by simp [hx])) pd dst.root _ hpd hI.1 hI.2
        (by rw [hroot]; simpa [Node.uuid] using hru) hgd (by intro y hy; simpa [uuidsN] using hy) (allG_true _) trivial
      rw [updatePath_id pd dst.root _ (fun x => x) hI.1 hgd rfl, hroot] at key
      simp only [allG] at key
      exact key.2
  have hSe : allE (SrcOk P de.d.uuid now) src.root := by
    have hab : allE (fun e => e.d.uuid ≠ de.d.uuid) src.root :=
      allE_absent (fun _ => True) _ de.d.uuid (fun _ _ hne => hne) src.root hsg hsrc (allE_true _)
    refine allE_mono _ _ (fun oe hoe => ⟨fun _ hu => absurd hu hoe, fun ex m hue _ hupd hmu => ?_⟩) _ hab
    rcases entryUpdate_some now ex oe m hupd with ⟨_, hu, _⟩ | ⟨_, hu, _⟩
    · exact absurd (hue ▸ hu ▸ hmu) hoe
    · exact absurd (hu ▸ hmu) hoe
  have hSg : allG (SrcOkG G de.d.uuid now) src.root :=
    allG_mono _ _ (fun _ _ _ _ => ⟨fun hne => hne, fun _ _ _ _ _ hx _ => hx⟩) _ (allG_true _)
  unfold merge at h
  dsimp only at h
  obtain ⟨s1, hs1, h⟩ := except_bind_ok h
  have hH1 := holdsG_mergeRoot de.d.uuid now _ s1 src.root hH0 hs1
  have hP1 := mergeRoot_allE P now _ s1 src.root hI.1 hP0 hs1
  have hG1 := mergeRoot_allG G now _ s1 src.root (fun _ _ => hH0.2) hG0 hs1
  obtain ⟨s2, hs2, h⟩ := except_bind_ok h
  obtain ⟨hP2, hH2⟩ := mergePasses_allE P (fun _ _ hx => hx) de.d.uuid now dst.tombs src.root hSe _ s1 s2 hH1.1 hP1 hs2
  obtain ⟨hG2, _⟩ := mergePasses_allG G (fun _ _ _ _ hx => hx) de.d.uuid now dst.tombs src.root hSg _ s1 s2 hH1 hG1 hs2
  have hL2 : Live de.d.uuid de.d.times.mtime s2.root := ⟨hH2, hP2, hG2⟩
  obtain ⟨x, hx, h⟩ := except_bind_ok h
  obtain ⟨s3, tombs⟩ := x
  dsimp only at h
  injection h with h; injection h with h1 h2
  subst h1
  simp only
  unfold mergeDeletions at hx
  obtain ⟨r, hr4, hx⟩ := except_bind_ok hx
  obtain ⟨s4, nt4⟩ := r
  dsimp only at hx
  obtain ⟨hstay, hgone⟩ := deleteEntries_live now de.d.uuid de.d.times.mtime src.tombs s2 dst.tombs s4 nt4 hL2 hnt hr4
  refine ⟨fun hex => ?_, fun hall => ?_⟩
  · obtain ⟨hu4, ht4⟩ := hgone hex
    obtain ⟨_, hinv⟩ := deleteEntries_inv now src.tombs s2 dst.tombs hH2.1.1 hH2.1.2
    have hI4 := hinv s4 nt4 hr4
    have hsub := deleteGroups_subset now _ s4 nt4 _ s3 tombs ⟨hI4.1, hI4.2⟩ hx
    obtain ⟨add, hadd, _⟩ := deleteGroups_prefix' now _ _ s4 nt4 s3 tombs src.tombs (fun t ht => (List.mem_filter.mp ht).1) hx
    refine ⟨fun hc => hu4 (hsub _ hc), ?_⟩
    rw [hadd, tombsContain_append, ht4]; rfl
  · obtain ⟨hL4, ht4⟩ := hstay hall
    obtain ⟨hL3, ht3⟩ := deleteGroups_live now de.d.uuid de.d.times.mtime _ s4 nt4 _ s3 tombs hL4 ht4 hx
    exact ⟨hL3.holds.2, ht3⟩
