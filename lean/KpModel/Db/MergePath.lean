import KpModel.Db.MergeDelOk
/-!
# Paths of groups survive updates elsewhere

`merge_group` keeps using the path of the group it works on while it changes the tree: it replaces entries, appends children and
moves nodes away.  None of these invalidates a path of groups that does not run through the node moved away.
-/
namespace Kp.Merge
open Node

theorem children_setChildren (g : Node) (cs : List Node) (h : g.isGroup = true) : (g.setChildren cs).children = cs := by
  cases g with
  | entry e => simp [Node.isGroup] at h
  | group a b c d => rfl

theorem isGroup_setChildren (g : Node) (cs : List Node) : (g.setChildren cs).isGroup = g.isGroup := by
  cases g <;> rfl

/-- what a lookup finds after the first child satisfying `P` has been replaced: the same child, or the replaced one -/
theorem find_updFirst (P Q : Node → Bool) (F : Node → Node) : ∀ (cs : List Node) (c : Node),
    (∀ d, cs.find? P = some d → Q (F d) = Q d) → cs.find? Q = some c →
    (updFirst P F cs).find? Q = some c ∨ (cs.find? P = some c ∧ (updFirst P F cs).find? Q = some (F c)) := by
  intro cs
  induction cs with
  | nil => intro c _ h; cases h
  | cons d ds ih =>
    intro c hQ h
    by_cases hp : P d = true
    · have hQd : Q (F d) = Q d := hQ d (by simp only [List.find?_cons, hp])
      simp only [updFirst, hp, ↓reduceIte]
      by_cases hq : Q d = true
      · simp only [List.find?_cons, hq, Option.some.injEq] at h
        subst h
        right
        refine ⟨by simp only [List.find?_cons, hp], ?_⟩
        simp only [List.find?_cons, hQd, hq]
      · have hq' : Q d = false := by simpa using hq
        simp only [List.find?_cons, hq'] at h
        left
        simp only [List.find?_cons, hQd, hq']
        exact h
    · have hp' : P d = false := by simpa using hp
      simp only [updFirst, hp', Bool.false_eq_true, ↓reduceIte]
      by_cases hq : Q d = true
      · simp only [List.find?_cons, hq, Option.some.injEq] at h
        subst h
        left
        simp only [List.find?_cons, hq]
      · have hq' : Q d = false := by simpa using hq
        simp only [List.find?_cons, hq'] at h
        simp only [List.find?_cons, hq', hp']
        exact ih c (fun d' hd' => hQ d' (by simp only [List.find?_cons, hp']; exact hd')) h

/-- what the function applied at the end of an update path has to keep, for the steps `X` of the paths followed: the node's UUID
    and kind, and which group a look-up among its children finds -/
structure FOk (X : List Nat) (f : Node → Node) (n : Node) : Prop where
  uuid : (f n).uuid = n.uuid
  kind : (f n).isGroup = n.isGroup
  last : ∀ x ∈ X, ∀ c, n.children.find? (fun m => m.uuid == x) = some c → c.isGroup = true →
    (f n).children.find? (fun m => m.uuid == x) = some c
  step : ∀ x ∈ X, ∀ c, n.children.find? (fun m => m.isGroup && m.uuid == x) = some c →
    (f n).children.find? (fun m => m.isGroup && m.uuid == x) = some c

theorem findGroup_nil (n : Node) (h : n.isGroup = true) : findGroup n [] = some n := by
  simp [findGroup, getPath, h]

/-- the paths below the node the function is applied to -/
theorem findGroup_apply (X : List Nat) (f : Node → Node) (n t : Node) (q : List Nat) (hq : ∀ x ∈ q, x ∈ X) (hf : FOk X f n)
    (hn : n.isGroup = true) (h : findGroup n q = some t) : ∃ t', findGroup (f n) q = some t' ∧ t'.uuid = t.uuid := by
  cases q with
  | nil =>
    simp only [findGroup, getPath, hn, ↓reduceIte, Option.some.injEq] at h
    subst h
    exact ⟨f n, findGroup_nil _ (by rw [hf.kind]; exact hn), hf.uuid⟩
  | cons x rest =>
    cases rest with
    | nil =>
      unfold findGroup at h ⊢
      simp only [getPath] at h ⊢
      cases hc : n.children.find? (fun m => m.uuid == x) with
      | none => rw [hc] at h; cases h
      | some c =>
        rw [hc] at h
        simp only at h
        split at h
        · rename_i hcg
          injection h with h; subst h
          rw [hf.last x (hq x (by simp)) c hc hcg]
          exact ⟨c, by simp [hcg], rfl⟩
        · cases h
    | cons y rest' =>
      unfold findGroup at h ⊢
      simp only [getPath] at h ⊢
      cases hc : n.children.find? (fun m => m.isGroup && m.uuid == x) with
      | none => rw [hc] at h; simp only at h; cases h
      | some c =>
        rw [hc] at h
        rw [hf.step x (hq x (by simp)) c hc]
        exact ⟨t, h, rfl⟩

theorem updatePath_cons_kind (g : Node) (u : Nat) (rest : List Nat) (f : Node → Node) :
    (updatePath g (u :: rest) f).isGroup = g.isGroup := by
  cases rest <;> simp only [updatePath, isGroup_setChildren]

theorem updatePath_cons_uuid (g : Node) (u : Nat) (rest : List Nat) (f : Node → Node) :
    (updatePath g (u :: rest) f).uuid = g.uuid := by
  cases rest <;> simp only [updatePath, setChildren_uuid]

/-- one level: the children are `updFirst P F` of the old ones, and the paths below the replaced child survive `F` -/
theorem findGroup_level (X : List Nat) (P : Node → Bool) (F : Node → Node) (root root' t : Node) (x : Nat) (qrest : List Nat)
    (hch : root'.children = updFirst P F root.children)
    (hF : ∀ c, root.children.find? P = some c → (F c).uuid = c.uuid ∧ (F c).isGroup = c.isGroup)
    (hcont : ∀ c t, root.children.find? P = some c → c.isGroup = true → findGroup c qrest = some t →
      ∃ t', findGroup (F c) qrest = some t' ∧ t'.uuid = t.uuid)
    (h : findGroup root (x :: qrest) = some t) : ∃ t', findGroup root' (x :: qrest) = some t' ∧ t'.uuid = t.uuid := by
  cases qrest with
  | nil =>
    unfold findGroup at h ⊢
    simp only [getPath] at h ⊢
    rw [hch]
    cases hc : root.children.find? (fun m => m.uuid == x) with
    | none => rw [hc] at h; cases h
    | some c =>
      rw [hc] at h
      simp only at h
      split at h
      · rename_i hcg
        injection h with h; subst h
        rcases find_updFirst P (fun m => m.uuid == x) F root.children c
          (fun d hd => by simp only [(hF d hd).1]) hc with h1 | h1
        · rw [h1]; exact ⟨c, by simp [hcg], rfl⟩
        · rw [h1.2]
          obtain ⟨hu, hk⟩ := hF c h1.1
          exact ⟨F c, by simp [hk, hcg], hu⟩
      · cases h
  | cons y rest' =>
    unfold findGroup at h ⊢
    simp only [getPath] at h ⊢
    rw [hch]
    cases hc : root.children.find? (fun m => m.isGroup && m.uuid == x) with
    | none => rw [hc] at h; simp only at h; cases h
    | some c =>
      rw [hc] at h
      simp only at h
      have hcg : c.isGroup = true := by
        have := (find_first hc).2
        simp only [Bool.and_eq_true] at this; exact this.1
      rcases find_updFirst P (fun m => m.isGroup && m.uuid == x) F root.children c
        (fun d hd => by simp only [(hF d hd).1, (hF d hd).2]) hc with h1 | h1
      · rw [h1]; exact ⟨t, h, rfl⟩
      · rw [h1.2]
        simp only
        have := hcont c t h1.1 hcg (by unfold findGroup; exact h)
        unfold findGroup at this
        exact this

/-- **a path of groups still designates a group with the same UUID** after an update at any path by a function that keeps what
    `FOk` lists -/
theorem findGroup_updatePath (X : List Nat) (f : Node → Node) : ∀ (p q : List Nat) (root t : Node), root.isGroup = true →
    (∀ x ∈ q, x ∈ X) → (∀ n, getPath root p = some n → FOk X f n) → findGroup root q = some t →
    ∃ t', findGroup (updatePath root p f) q = some t' ∧ t'.uuid = t.uuid := by
  intro p
  induction p with
  | nil =>
    intro q root t hr hq hf h
    simp only [updatePath]
    exact findGroup_apply X f root t q hq (hf root (by simp only [getPath])) hr h
  | cons u prest ih =>
    intro q root t hr hq hf h
    have hkind : (updatePath root (u :: prest) f).isGroup = true := by rw [updatePath_cons_kind]; exact hr
    cases q with
    | nil =>
      simp only [findGroup, getPath, hr, ↓reduceIte, Option.some.injEq] at h
      subst h
      exact ⟨_, findGroup_nil _ hkind, updatePath_cons_uuid _ _ _ _⟩
    | cons x qrest =>
      have hqr : ∀ z ∈ qrest, z ∈ X := fun z hz => hq z (List.mem_cons_of_mem _ hz)
      cases prest with
      | nil =>
        refine findGroup_level X (fun m => m.uuid == u) f root _ t x qrest ?_ ?_ ?_ h
        · simp only [updatePath]; exact children_setChildren _ _ hr
        · intro c hc
          have := hf c (by simp only [getPath]; exact hc)
          exact ⟨this.uuid, this.kind⟩
        · intro c t' hc hcg ht
          exact findGroup_apply X f c t' qrest hqr (hf c (by simp only [getPath]; exact hc)) hcg ht
      | cons v prest' =>
        refine findGroup_level X (fun m => m.isGroup && m.uuid == u) (fun c => updatePath c (v :: prest') f) root _ t x qrest
          ?_ ?_ ?_ h
        · simp only [updatePath]; exact children_setChildren _ _ hr
        · intro c _
          exact ⟨updatePath_cons_uuid _ _ _ _, updatePath_cons_kind _ _ _ _⟩
        · intro c t' hc hcg ht
          refine ih qrest c t' hcg hqr (fun n hn => hf n ?_) ht
          simp only [getPath, hc]
          exact hn

/-- the first child satisfying `P` is found again, replaced, when the replacement still satisfies `P` -/
theorem find_updFirst_self (P : Node → Bool) (F : Node → Node) : ∀ (cs : List Node) (c : Node), cs.find? P = some c →
    P (F c) = true → (updFirst P F cs).find? P = some (F c) := by
  intro cs
  induction cs with
  | nil => intro c h; cases h
  | cons d ds ih =>
    intro c h hP
    by_cases hp : P d = true
    · simp only [List.find?_cons, hp, Option.some.injEq] at h
      subst h
      simp only [updFirst, hp, ↓reduceIte, List.find?_cons, hP]
    · have hp' : P d = false := by simpa using hp
      simp only [List.find?_cons, hp'] at h
      simp only [updFirst, hp', Bool.false_eq_true, ↓reduceIte, List.find?_cons]
      exact ih c h hP

/-- **the update path itself designates the updated node** when the function keeps its UUID -/
theorem getPath_updatePath_self (f : Node → Node) : ∀ (p : List Nat) (root n : Node), root.isGroup = true →
    getPath root p = some n → (f n).uuid = n.uuid → getPath (updatePath root p f) p = some (f n) := by
  intro p
  induction p with
  | nil =>
    intro root n _ h _
    simp only [getPath, Option.some.injEq] at h; subst h
    simp only [updatePath, getPath]
  | cons u rest ih =>
    intro root n hr h hu
    cases rest with
    | nil =>
      simp only [getPath] at h
      simp only [updatePath, getPath]
      rw [children_setChildren _ _ hr]
      refine find_updFirst_self _ f _ n h ?_
      have := (find_first h).2
      simp only [hu]; exact this
    | cons v rest' =>
      simp only [getPath] at h
      simp only [updatePath, getPath]
      rw [children_setChildren _ _ hr]
      cases hc : root.children.find? (fun m => m.isGroup && m.uuid == u) with
      | none => rw [hc] at h; cases h
      | some c =>
        rw [hc] at h
        simp only at h
        have hcp := (find_first hc).2
        have hcg : c.isGroup = true := by simp only [Bool.and_eq_true] at hcp; exact hcp.1
        rw [find_updFirst_self _ (fun c => updatePath c (v :: rest') f) _ c hc
          (by simp only [updatePath_cons_kind, updatePath_cons_uuid]; exact hcp)]
        simp only
        exact ih c n hcg h hu

end Kp.Merge
