import KpModel.Io
/-! Helper lemmas for C11 (`write_all` over scripted sinks). -/
namespace Kp.Io

theorem accept_cases (s : Sink) (m : Nat) (buf : Bytes) (rest : List WStep) (hm : 1 ≤ m) (hb : buf ≠ []) :
    (s.untilFail = some 0 ∧ s.accept m buf rest = (.err s.kind, { s with script := rest }))
    ∨ (s.untilFail ≠ some 0 ∧ ∃ k, k + 1 ≤ buf.length
        ∧ s.accept m buf rest = (.ok (k + 1),
            { s with received := s.received ++ buf.take (k + 1), untilFail := s.untilFail.map (· - (k + 1)),
                     script := rest })) := by
  have hbl : 1 ≤ buf.length := by
    cases buf with
    | nil => exact absurd rfl hb
    | cons x xs => simp
  by_cases h0 : s.untilFail = some 0
  · left; exact ⟨h0, by simp [Sink.accept, h0]⟩
  · right
    refine ⟨h0, min (min m (s.untilFail.getD buf.length)) buf.length - 1, ?_, ?_⟩
    · omega
    · have hk : 1 ≤ min (min m (s.untilFail.getD buf.length)) buf.length := by
        cases hu : s.untilFail with
        | none => simp; omega
        | some u =>
          have : u ≠ 0 := by intro h; apply h0; rw [hu, h]
          simp; omega
      have e : min (min m (s.untilFail.getD buf.length)) buf.length - 1 + 1
          = min (min m (s.untilFail.getD buf.length)) buf.length := by omega
      rw [e]
      simp [Sink.accept, h0]

def noZero (sc : List WStep) : Prop := WStep.zero ∉ sc

/-- everything `write_all` guarantees about its result `r` when started on sink `s` with buffer `buf` -/
structure WSpec (s : Sink) (buf : Bytes) (r : Except ErrKind Unit × Sink) : Prop where
  kind : r.2.kind = s.kind
  ok : r.1 = .ok () → r.2.received = s.received ++ buf
  err : ∀ k, r.1 = .error k → k = s.kind ∨ k = .writeZero
  pre : ∃ p, r.2.received = s.received ++ p ∧ p <+: buf
  complete : s.untilFail = none → noZero s.script →
    r.1 = .ok () ∧ r.2.untilFail = none ∧ noZero r.2.script

theorem wspec_nil (s : Sink) : WSpec s [] (.ok (), s) where
  kind := rfl
  ok := fun _ => by simp
  err := fun k h => by cases h
  pre := ⟨[], by simp⟩
  complete := fun h1 h2 => ⟨rfl, h1, h2⟩

theorem wspec_fail (s : Sink) (buf : Bytes) (rest : List WStep) (h0 : s.untilFail = some 0) :
    WSpec s buf (.error s.kind, { s with script := rest }) where
  kind := rfl
  ok := fun h => by cases h
  err := fun k h => by injection h with h; exact Or.inl h.symm
  pre := ⟨[], by simp⟩
  complete := fun h1 _ => by rw [h1] at h0; cases h0

theorem wspec_zero (s : Sink) (buf : Bytes) (rest : List WStep) (hz : ¬ noZero s.script) :
    WSpec s buf (.error .writeZero, { s with script := rest }) where
  kind := rfl
  ok := fun h => by cases h
  err := fun k h => by injection h with h; exact Or.inr h.symm
  pre := ⟨[], by simp⟩
  complete := fun _ h2 => absurd h2 hz

theorem wspec_intr (s : Sink) (buf : Bytes) (rest : List WStep) (r : Except ErrKind Unit × Sink)
    (hnz : noZero s.script → noZero rest) (h : WSpec { s with script := rest } buf r) : WSpec s buf r :=
  ⟨h.kind, h.ok, h.err, h.pre, fun h1 h2 => h.complete h1 (hnz h2)⟩

theorem wspec_step (s : Sink) (buf : Bytes) (k : Nat) (rest : List WStep) (r : Except ErrKind Unit × Sink)
    (hnz : noZero s.script → noZero rest)
    (h : WSpec { s with received := s.received ++ buf.take k, untilFail := s.untilFail.map (· - k),
                        script := rest } (buf.drop k) r) : WSpec s buf r := by
  refine ⟨h.kind, ?_, h.err, ?_, ?_⟩
  · intro hr
    rw [h.ok hr]
    simp [List.append_assoc]
  · obtain ⟨p, hp1, t, ht⟩ := h.pre
    refine ⟨buf.take k ++ p, by rw [hp1]; simp [List.append_assoc], t, ?_⟩
    rw [List.append_assoc, ht, List.take_append_drop]
  · intro h1 h2
    exact h.complete (by simp [h1]) (hnz h2)

theorem writeAll_spec (fuel : Nat) :
    ∀ (s : Sink) (buf : Bytes), buf.length + s.script.length + 1 ≤ fuel →
      WSpec s buf (writeAll s buf fuel) := by
  induction fuel with
  | zero => intro s buf h; omega
  | succ fuel ih =>
    intro s buf hf
    rw [writeAll]
    by_cases hb : buf = []
    · subst hb; simp only [↓reduceIte]; exact wspec_nil s
    simp only [hb, ↓reduceIte]
    have hbl : 1 ≤ buf.length := by
      cases buf with
      | nil => exact absurd rfl hb
      | cons x xs => simp
    have haccept : ∀ m rest, 1 ≤ m → rest.length + 1 ≤ s.script.length ∨ (s.script = [] ∧ rest = []) →
        (noZero s.script → noZero rest) →
        WSpec s buf (match s.accept m buf rest with
          | (.intr, s') => writeAll s' buf fuel
          | (.err k, s') => (.error k, s')
          | (.ok 0, s') => (.error .writeZero, s')
          | (.ok n, s') => writeAll s' (buf.drop n) fuel) := by
      intro m rest hm hrest hnz
      rcases accept_cases s m buf rest hm hb with ⟨h0, ha⟩ | ⟨h0, k, hk2, ha⟩
      · rw [ha]; exact wspec_fail s buf rest h0
      · rw [ha]
        apply wspec_step s buf (k + 1) rest _ hnz
        apply ih
        simp only [List.length_drop]
        rcases hrest with hr | ⟨hr1, hr2⟩
        · omega
        · rw [hr2]; rw [hr1] at hf; simp at hf ⊢; omega
    unfold Sink.write
    cases hs : s.script with
    | nil => exact haccept buf.length [] hbl (Or.inr ⟨hs, rfl⟩) (fun _ => by simp [noZero])
    | cons st rest =>
      cases st with
      | intr =>
        simp only
        apply wspec_intr s buf rest _ (fun h => by rw [hs] at h; simp [noZero] at h ⊢; exact h)
        apply ih
        rw [hs] at hf; simp at hf ⊢; omega
      | zero =>
        simp only
        exact wspec_zero s buf rest (by rw [hs]; simp [noZero])
      | cap n =>
        exact haccept (n + 1) rest (by omega) (Or.inl (by simp [hs]))
          (fun h => by rw [hs] at h; simp [noZero] at h ⊢; exact h)

end Kp.Io
