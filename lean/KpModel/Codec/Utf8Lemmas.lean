import KpModel.Codec.Base64
/-!
UTF-8 (`Kp.Codec.utf8`, the model of `str::as_bytes` on a `String`) is injective: the encodings of two scalar
values are never a proper prefix of one another and determine the scalar value.  Lemma file; used by `Props/C20.lean`.
-/
namespace Kp.Codec

theorem ofNat8_eq_iff (a b : Nat) : UInt8.ofNat a = UInt8.ofNat b ↔ a % 256 = b % 256 := by
  constructor
  · intro h; have := congrArg UInt8.toNat h; simpa [UInt8.toNat_ofNat'] using this
  · intro h; apply UInt8.toNat_inj.mp; simp [UInt8.toNat_ofNat', h]

theorem char_lt (c : Char) : c.toNat < 1114112 := by
  have := c.valid
  simp only [UInt32.isValidChar, Nat.isValidChar] at this
  show c.val.toNat < 1114112
  omega

theorem utf8Char_ne_nil (c : Char) : utf8Char c ≠ [] := by
  simp only [utf8Char]
  repeat' split
  all_goals simp

theorem utf8Char_prefix_free (c c' : Char) (r r' : Bytes) (h : utf8Char c ++ r = utf8Char c' ++ r') :
    c = c' ∧ r = r' := by
  have hc := char_lt c; have hc' := char_lt c'
  suffices hn : c.toNat = c'.toNat ∧ r = r' from ⟨Char.ext (UInt32.toNat_inj.mp hn.1), hn.2⟩
  simp only [utf8Char] at h
  generalize c.toNat = n at *
  generalize c'.toNat = m at *
  by_cases a1 : n < 0x80 <;> by_cases a2 : n < 0x800 <;> by_cases a3 : n < 0x10000 <;>
  by_cases b1 : m < 0x80 <;> by_cases b2 : m < 0x800 <;> by_cases b3 : m < 0x10000 <;>
  simp only [a1, a2, a3, b1, b2, b3, ↓reduceIte, List.cons_append, List.nil_append, List.cons.injEq,
    ofNat8_eq_iff] at h <;>
  first
    | (exfalso; omega)
    | exact ⟨by omega, h.2⟩
    | exact ⟨by omega, h.2.2⟩
    | exact ⟨by omega, h.2.2.2⟩
    | exact ⟨by omega, h.2.2.2.2⟩

theorem utf8_cons (c : Char) (t : List Char) : utf8 (c :: t) = utf8Char c ++ utf8 t := by
  simp [utf8]

/-- UTF-8 is injective on strings of scalar values -/
theorem utf8_injective : ∀ (s s' : List Char), utf8 s = utf8 s' → s = s'
  | [], [], _ => rfl
  | [], c :: t, h => by
    rw [utf8_cons] at h
    have : utf8Char c = [] := by
      have h' : utf8Char c ++ utf8 t = [] := by rw [← h]; simp [utf8]
      exact (List.append_eq_nil_iff.mp h').1
    exact absurd this (utf8Char_ne_nil c)
  | c :: t, [], h => by
    rw [utf8_cons] at h
    have : utf8Char c = [] := by
      have h' : utf8Char c ++ utf8 t = [] := by rw [h]; simp [utf8]
      exact (List.append_eq_nil_iff.mp h').1
    exact absurd this (utf8Char_ne_nil c)
  | c :: t, c' :: t', h => by
    rw [utf8_cons, utf8_cons] at h
    obtain ⟨e1, e2⟩ := utf8Char_prefix_free c c' _ _ h
    rw [e1, utf8_injective t t' e2]

/-! ### lengths the hex and base64 decoders accept -/
/-- what `hex::decode` accepts has exactly two characters per byte (odd lengths are rejected) -/
theorem hexDecode_length : ∀ (s : List Char) (b : Bytes), hexDecode s = some b → s.length = 2 * b.length
  | [], b, h => by simp [hexDecode] at h; subst h; rfl
  | [_], b, h => by simp [hexDecode] at h
  | x :: y :: rest, b, h => by
    simp only [hexDecode] at h
    split at h
    · rename_i x' y' r hx hy hr
      injection h with h; subst h
      have := hexDecode_length rest r hr
      simp [this]; omega
    · cases h
/-- what `base64::STANDARD.decode` accepts has a length that is a multiple of four -/
theorem b64Decode_length_mod : ∀ (s : List Char) (b : Bytes), b64Decode s = some b → s.length % 4 = 0 := by
  intro s
  induction s using b64Decode.induct <;> intro b h <;> simp_all [b64Decode] <;> omega
end Kp.Codec
