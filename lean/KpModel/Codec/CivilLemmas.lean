import KpModel.Codec.Time
/-!
`daysFromCivil` is the day count of the proleptic Gregorian calendar — for every year, negative ones included:
it is 0 on 1970-01-01 and grows by one from each day to the next (within a month, across a month's end with the
month lengths of `daysInMonth` and the leap-year rule of `isLeap`, across a year's end).  These successor laws
determine the function on all valid dates.  Lemma file; the property theorems restate them in `Props/C02.lean`.
(The proof attempt for the former definition — Hinnant's `- 399` adjustment for C's truncating division applied
under Lean's floor division — failed for negative years and exposed a one-day error of `minDateTime`.)
-/
namespace Kp.Codec
theorem dfc_epoch : daysFromCivil 1970 1 1 = 0 := by decide
theorem dfc_next_day (y m d : Int) : daysFromCivil y m (d + 1) = daysFromCivil y m d + 1 := by
  simp only [daysFromCivil]
  generalize (if m ≤ 2 then y - 1 else y) = y'
  omega
theorem dfc_next_month_2 (y : Int) :
    daysFromCivil y 3 1 = daysFromCivil y 2 (daysInMonth y 2) + 1 := by
  by_cases hl : (y % 4 = 0 ∧ y % 100 ≠ 0) ∨ y % 400 = 0
  · have hd : daysInMonth y 2 = 29 := by simp [daysInMonth, isLeap] <;> omega
    rw [hd]; simp only [daysFromCivil]
    repeat' split
    all_goals omega
  · have hd : daysInMonth y 2 = 28 := by simp [daysInMonth, isLeap] <;> omega
    rw [hd]; simp only [daysFromCivil]
    repeat' split
    all_goals omega
theorem dfc_next_month (y m : Int) (h1 : 1 ≤ m) (h2 : m ≤ 11) :
    daysFromCivil y (m + 1) 1 = daysFromCivil y m (daysInMonth y m) + 1 := by
  have : m = 1 ∨ m = 2 ∨ m = 3 ∨ m = 4 ∨ m = 5 ∨ m = 6 ∨ m = 7 ∨ m = 8 ∨ m = 9 ∨ m = 10 ∨ m = 11 := by omega
  rcases this with h | h | h | h | h | h | h | h | h | h | h <;> subst h
  case inr.inl => exact dfc_next_month_2 y
  all_goals
    simp only [daysFromCivil, daysInMonth, isLeap]
    repeat' split
    all_goals simp only [Bool.or_eq_true, Bool.and_eq_true, beq_iff_eq, bne_iff_ne, ne_eq] at *
    all_goals first | omega | (exfalso; simp at *; done) | (simp at * <;> omega)
theorem dfc_next_year (y : Int) : daysFromCivil (y + 1) 1 1 = daysFromCivil y 12 31 + 1 := by
  simp only [daysFromCivil]
  repeat' split
  all_goals omega
theorem minDateTime_value : minDateTime = -8334601228800 := by decide
end Kp.Codec
