import KpModel.Format.Bytes
import KpModel.Codec.Base64
/-
Time stamps (`src/xml_db/parse/mod.rs: parse_xml_timestamp`, `src/xml_db/dump/mod.rs: format_xml_timestamp`).
A time stamp is a number of whole seconds relative to the Unix epoch.  Two textual forms: ISO-8601
`YYYY-MM-DDTHH:MM:SSZ` (KDBX 3.1) and base64 of the little-endian `i64` seconds since 0001-01-01T00:00:00 (KDBX 4).
chrono's `parse_from_str("%Y-%m-%dT%H:%M:%SZ")` is modelled on the canonical form only (4-digit year, 2-digit fields).
-/
namespace Kp.Codec
open Kp.Fmt

/-- days from 1970-01-01 to the civil date (proleptic Gregorian; Hinnant's algorithm) -/
def daysFromCivil (y m d : Int) : Int :=
  let y' := if m ≤ 2 then y - 1 else y
  let era := y' / 400   -- floor division (Lean's `/` on `Int` rounds down for a positive divisor); Hinnant's `- 399` is for C's truncating `/`
  let yoe := y' - era * 400
  let mp := (m + 9) % 12
  let doy := (153 * mp + 2) / 5 + d - 1
  let doe := yoe * 365 + yoe / 4 - yoe / 100 + doy
  era * 146097 + doe - 719468

def isLeap (y : Int) : Bool := (y % 4 == 0 && y % 100 != 0) || y % 400 == 0
def daysInMonth (y m : Int) : Int :=
  if m == 2 then (if isLeap y then 29 else 28)
  else if m == 4 || m == 6 || m == 9 || m == 11 then 30 else 31

/-- seconds of 0001-01-01T00:00:00 relative to the Unix epoch -/
def baseline : Int := -62135596800

/-- range of `chrono::NaiveDateTime`: years −262143 … 262142 -/
def minDateTime : Int := daysFromCivil (-262143) 1 1 * 86400
def maxDateTime : Int := daysFromCivil 262142 12 31 * 86400 + 86399

def i64Max : Int := 9223372036854775807

def digitsToNat (cs : List Char) : Option Nat :=
  if cs.all Char.isDigit && !cs.isEmpty then some (cs.foldl (fun a c => a * 10 + (c.toNat - 48)) 0) else none

/-- the canonical ISO form; `none` = not this form (chrono's parser fails and the base64 branch is taken) -/
def parseIso (s : String) : Option Int :=
  match s.toList with
  | [y1, y2, y3, y4, '-', m1, m2, '-', d1, d2, 'T', h1, h2, ':', n1, n2, ':', s1, s2, 'Z'] => do
    let y ← digitsToNat [y1, y2, y3, y4]
    let m ← digitsToNat [m1, m2]
    let d ← digitsToNat [d1, d2]
    let h ← digitsToNat [h1, h2]
    let n ← digitsToNat [n1, n2]
    let sec ← digitsToNat [s1, s2]
    if 1 ≤ m ∧ m ≤ 12 ∧ 1 ≤ d ∧ (d : Int) ≤ daysInMonth y m ∧ h ≤ 23 ∧ n ≤ 59 ∧ sec ≤ 59 then
      some (daysFromCivil y m d * 86400 + h * 3600 + n * 60 + sec)
    else none
  | _ => none

/-- little-endian two's-complement `i64` -/
def leI64 (b : Bytes) : Int :=
  let u := le64 b
  if u < 9223372036854775808 then u else (u : Int) - 18446744073709551616

def toLeI64 (x : Int) : Bytes :=
  toLe64 (if x ≥ 0 then x.toNat else (x + 18446744073709551616).toNat)

/-- `parse_xml_timestamp` -/
def parseTimestamp (s : String) : Outcome Int :=
  match parseIso s with
  | some t => .ok t
  | none =>
    match b64Decode s.toList with
    | none => .err .integrity
    | some v =>
      if v.length < 8 then .err .integrity                  -- `v[0..8]`
      else
        let x := leI64 (v.take 8)
        if x > i64Max / 1000 ∨ x < -(i64Max / 1000) then .err .integrity   -- `Duration::seconds`
        else
          let r := baseline + x
          if r < minDateTime ∨ r > maxDateTime then .err .integrity       -- `baseline + d`
          else .ok r

/-- `format_xml_timestamp` -/
def formatTimestamp (t : Int) : String := String.ofList (b64Encode (toLeI64 (t - baseline)))

/-- `usize`/`isize` from decimal text (`str::parse`): optional sign, digits, in range -/
def parseUsize (s : String) : Option Nat :=
  let cs := s.toList
  let ds := match cs with | '+' :: r => r | r => r
  match digitsToNat ds with
  | some v => if v < 18446744073709551616 then some v else none
  | none => none

def parseIsize (s : String) : Option Int :=
  let cs := s.toList
  match cs with
  | '-' :: r =>
    match digitsToNat r with
    | some v => if v ≤ 9223372036854775808 then some (-(v : Int)) else none
    | none => none
  | _ =>
    let ds := match cs with | '+' :: r => r | r => r
    match digitsToNat ds with
    | some v => if v < 9223372036854775808 then some (v : Int) else none
    | none => none

/-- `s.to_lowercase().parse::<bool>()` -/
def parseBool (s : String) : Option Bool :=
  let l := s.toList.map Char.toLower
  if l = ['t', 'r', 'u', 'e'] then some true else if l = ['f', 'a', 'l', 's', 'e'] then some false else none

def hexByte (a b : Char) : Option Nat :=
  match hexVal a, hexVal b with
  | some x, some y => some (x * 16 + y)
  | _, _ => none

end Kp.Codec
