import KpModel.Xml.Dump
import KpModel.Xml.Parse
import KpModel.Codec.Time
import KpModel.Format.Kdbx4Lemmas
/-
Round trips of the codecs the XML mapping is built from: base64, little-endian i64, KDBX4 time stamps, UUIDs, booleans.
(Lemma file; the property theorems of C03 restate them in `Props/C03.lean`.)
-/
namespace Kp.Codec
open Kp.Fmt

theorem b64Val_b64Char : ∀ v, v < 64 → b64Val (b64Char v) = some v := by decide
theorem b64Char_ne_pad : ∀ v, v < 64 → b64Char v ≠ '=' := by decide

theorem ofNat_toNat (a : UInt8) : UInt8.ofNat a.toNat = a := by simp

/-- base64 decoding inverts encoding, for every byte string -/
theorem b64_roundtrip (b : Bytes) : b64Decode (b64Encode b) = some b := by
  fun_induction b64Encode b with
  | case1 => rfl
  | case2 a =>
    have ha := UInt8.toNat_lt a
    have h1 : a.toNat / 4 < 64 := by omega
    have h2 : a.toNat % 4 * 16 < 64 := by omega
    simp only [b64Decode, b64Val_b64Char _ h1, b64Val_b64Char _ h2]
    have : a.toNat % 4 * 16 % 16 = 0 := by omega
    simp only [this, ↓reduceIte]
    have e : a.toNat / 4 * 4 + a.toNat % 4 * 16 / 16 = a.toNat := by omega
    rw [e, ofNat_toNat]
  | case3 a b =>
    have ha := UInt8.toNat_lt a
    have hb := UInt8.toNat_lt b
    have h1 : a.toNat / 4 < 64 := by omega
    have h2 : a.toNat % 4 * 16 + b.toNat / 16 < 64 := by omega
    have h3 : b.toNat % 16 * 4 < 64 := by omega
    have n3 := b64Char_ne_pad _ h3
    simp only [b64Decode, b64Val_b64Char _ h1, b64Val_b64Char _ h2, b64Val_b64Char _ h3]
    have : b.toNat % 16 * 4 % 4 = 0 := by omega
    simp only [this, ↓reduceIte]
    have e1 : a.toNat / 4 * 4 + (a.toNat % 4 * 16 + b.toNat / 16) / 16 = a.toNat := by omega
    have e2 : (a.toNat % 4 * 16 + b.toNat / 16) % 16 * 16 + b.toNat % 16 * 4 / 4 = b.toNat := by omega
    rw [e1, e2, ofNat_toNat, ofNat_toNat]
  | case4 a b c rest ih =>
    have ha := UInt8.toNat_lt a
    have hb := UInt8.toNat_lt b
    have hc := UInt8.toNat_lt c
    have h1 : a.toNat / 4 < 64 := by omega
    have h2 : a.toNat % 4 * 16 + b.toNat / 16 < 64 := by omega
    have h3 : b.toNat % 16 * 4 + c.toNat / 64 < 64 := by omega
    have h4 : c.toNat % 64 < 64 := by omega
    have n3 := b64Char_ne_pad _ h3
    have n4 := b64Char_ne_pad _ h4
    rw [b64Decode]
    · simp only [b64Val_b64Char _ h1, b64Val_b64Char _ h2, b64Val_b64Char _ h3, b64Val_b64Char _ h4, ih]
      have e1 : a.toNat / 4 * 4 + (a.toNat % 4 * 16 + b.toNat / 16) / 16 = a.toNat := by omega
      have e2 : (a.toNat % 4 * 16 + b.toNat / 16) % 16 * 16 + (b.toNat % 16 * 4 + c.toNat / 64) / 4 = b.toNat := by omega
      have e3 : (b.toNat % 16 * 4 + c.toNat / 64) % 4 * 64 + c.toNat % 64 = c.toNat := by omega
      rw [e1, e2, e3, ofNat_toNat, ofNat_toNat, ofNat_toNat]
    · intro a' _ _; exact n3 a'
    · intro a' _; exact n4 a'

theorem b64Encode_length (b : Bytes) : (b64Encode b).length = (b.length + 2) / 3 * 4 := by
  fun_induction b64Encode b with
  | case1 => rfl
  | case2 a => simp
  | case3 a b => simp
  | case4 a b c rest ih => simp only [List.length_cons, ih]; omega

theorem leI64_toLeI64 (x : Int) (h1 : -9223372036854775808 ≤ x) (h2 : x ≤ 9223372036854775807) :
    leI64 (toLeI64 x) = x := by
  unfold leI64 toLeI64
  by_cases hx : x ≥ 0
  · simp only [hx, ↓reduceIte]
    have hn : x.toNat < 18446744073709551616 := by omega
    rw [le64_toLe64' _ hn]
    have : x.toNat < 9223372036854775808 := by omega
    simp only [this, ↓reduceIte]
    omega
  · simp only [hx, ↓reduceIte]
    have hn : (x + 18446744073709551616).toNat < 18446744073709551616 := by omega
    rw [le64_toLe64' _ hn]
    have : ¬ ((x + 18446744073709551616).toNat < 9223372036854775808) := by omega
    simp only [this, ↓reduceIte]
    omega

theorem toLeI64_length (x : Int) : (toLeI64 x).length = 8 := by simp [toLeI64]

/-- a KDBX4 time stamp (base64 of the seconds since 0001-01-01) reads back as itself, for every whole second chrono can represent -/
theorem timestamp_roundtrip (t : Int) (h1 : minDateTime ≤ t) (h2 : t ≤ maxDateTime) :
    parseTimestamp (formatTimestamp t) = .ok t := by
  unfold parseTimestamp formatTimestamp
  have hlen : (b64Encode (toLeI64 (t - baseline))).length = 12 := by
    rw [b64Encode_length, toLeI64_length]
  have hiso : parseIso (String.ofList (b64Encode (toLeI64 (t - baseline)))) = none := by
    unfold parseIso
    rw [String.toList_ofList]
    split
    · rename_i heq
      have := congrArg List.length heq
      rw [hlen] at this
      simp at this
    · rfl
  rw [hiso]
  simp only [String.toList_ofList, b64_roundtrip, toLeI64_length, Nat.lt_irrefl, ↓reduceIte]
  have hmin : minDateTime = -8334601228800 := by decide
  have hmax : maxDateTime = 8210266876799 := by decide
  have hb : baseline = -62135596800 := rfl
  have htake : (toLeI64 (t - baseline)).take 8 = toLeI64 (t - baseline) := by
    rw [List.take_of_length_le (by rw [toLeI64_length]; exact Nat.le_refl 8)]
  rw [htake, leI64_toLeI64 _ (by omega) (by omega)]
  have hi : i64Max / 1000 = 9223372036854775 := by decide
  have c1 : ¬ (t - baseline > i64Max / 1000 ∨ t - baseline < -(i64Max / 1000)) := by rw [hi]; omega
  simp only [c1, ↓reduceIte]
  have c2 : ¬ (baseline + (t - baseline) < minDateTime ∨ baseline + (t - baseline) > maxDateTime) := by omega
  simp only [c2, ↓reduceIte]
  congr 1
  omega

end Kp.Codec

namespace Kp.Xml
open Kp.Codec

/-- a UUID (16 bytes) written as base64 reads back as itself -/
theorem uuid_roundtrip (u : Bytes) (h : u.length = 16) : parseUuid (b64Text u) = some u := by
  simp [parseUuid, b64Text, String.toList_ofList, b64_roundtrip, h]

/-- booleans: written `True` / `False`, read case-insensitively -/
theorem bool_roundtrip (b : Bool) : parseBool (boolText b) = some b := by
  cases b <;> decide


end Kp.Xml
