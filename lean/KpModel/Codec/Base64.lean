import KpModel.Basic
/-
base64 (RFC 4648 standard alphabet) and hex codecs as the `base64` 0.22 (`STANDARD` engine: canonical
padding required, no trailing bits, no white space) and `hex` 0.4 crates implement them.
-/
namespace Kp.Codec

def b64Alphabet : List Char :=
  ['A','B','C','D','E','F','G','H','I','J','K','L','M','N','O','P','Q','R','S','T','U','V','W','X','Y','Z',
   'a','b','c','d','e','f','g','h','i','j','k','l','m','n','o','p','q','r','s','t','u','v','w','x','y','z',
   '0','1','2','3','4','5','6','7','8','9','+','/']

def b64Char (v : Nat) : Char := b64Alphabet.getD v 'A'

def b64Val (c : Char) : Option Nat :=
  if 'A' ≤ c ∧ c ≤ 'Z' then some (c.toNat - 65)
  else if 'a' ≤ c ∧ c ≤ 'z' then some (c.toNat - 97 + 26)
  else if '0' ≤ c ∧ c ≤ '9' then some (c.toNat - 48 + 52)
  else if c = '+' then some 62
  else if c = '/' then some 63
  else none

/-- `STANDARD.encode` -/
def b64Encode : Bytes → List Char
  | [] => []
  | [a] => [b64Char (a.toNat / 4), b64Char (a.toNat % 4 * 16), '=', '=']
  | [a, b] => [b64Char (a.toNat / 4), b64Char (a.toNat % 4 * 16 + b.toNat / 16), b64Char (b.toNat % 16 * 4), '=']
  | a :: b :: c :: rest =>
    b64Char (a.toNat / 4) :: b64Char (a.toNat % 4 * 16 + b.toNat / 16)
      :: b64Char (b.toNat % 16 * 4 + c.toNat / 64) :: b64Char (c.toNat % 64) :: b64Encode rest

/-- `STANDARD.decode`: `none` on any character outside the alphabet, missing or misplaced padding,
    or non-zero trailing bits -/
def b64Decode : List Char → Option Bytes
  | [] => some []
  | [a, b, '=', '='] =>
    match b64Val a, b64Val b with
    | some x, some y => if y % 16 = 0 then some [UInt8.ofNat (x * 4 + y / 16)] else none
    | _, _ => none
  | [a, b, c, '='] =>
    match b64Val a, b64Val b, b64Val c with
    | some x, some y, some z =>
      if z % 4 = 0 then some [UInt8.ofNat (x * 4 + y / 16), UInt8.ofNat (y % 16 * 16 + z / 4)] else none
    | _, _, _ => none
  | a :: b :: c :: d :: rest =>
    match b64Val a, b64Val b, b64Val c, b64Val d, b64Decode rest with
    | some x, some y, some z, some w, some r =>
      some (UInt8.ofNat (x * 4 + y / 16) :: UInt8.ofNat (y % 16 * 16 + z / 4) :: UInt8.ofNat (z % 4 * 64 + w) :: r)
    | _, _, _, _, _ => none
  | _ => none

def hexVal (c : Char) : Option Nat :=
  if '0' ≤ c ∧ c ≤ '9' then some (c.toNat - 48)
  else if 'a' ≤ c ∧ c ≤ 'f' then some (c.toNat - 97 + 10)
  else if 'A' ≤ c ∧ c ≤ 'F' then some (c.toNat - 65 + 10)
  else none

/-- `hex::decode` -/
def hexDecode : List Char → Option Bytes
  | [] => some []
  | a :: b :: rest =>
    match hexVal a, hexVal b, hexDecode rest with
    | some x, some y, some r => some (UInt8.ofNat (x * 16 + y) :: r)
    | _, _, _ => none
  | _ => none

/-- UTF-8 encoding of a scalar value -/
def utf8Char (c : Char) : Bytes :=
  let n := c.toNat
  if n < 0x80 then [UInt8.ofNat n]
  else if n < 0x800 then [UInt8.ofNat (0xC0 + n / 64), UInt8.ofNat (0x80 + n % 64)]
  else if n < 0x10000 then [UInt8.ofNat (0xE0 + n / 4096), UInt8.ofNat (0x80 + n / 64 % 64), UInt8.ofNat (0x80 + n % 64)]
  else [UInt8.ofNat (0xF0 + n / 262144), UInt8.ofNat (0x80 + n / 4096 % 64), UInt8.ofNat (0x80 + n / 64 % 64),
        UInt8.ofNat (0x80 + n % 64)]

def utf8 (s : List Char) : Bytes := s.flatMap utf8Char

end Kp.Codec
