import KpModel.Basic
/-
Executable SHA-1, SHA-256, SHA-512 and HMAC (FIPS 180-4, RFC 2104).  Used only for *execution* in the
correspondence driver (the model's framing and TOTP logic decides on their values); no theorem depends on
these definitions — theorems are stated over abstract hash functions.  Validated against the FIPS / RFC
vectors by the driver's self-test op (`selftest`), which is a test and labelled so.
-/
namespace Kp.Crypto

def rotr32 (x : UInt32) (n : UInt32) : UInt32 := (x >>> n) ||| (x <<< (32 - n))
def rotl32 (x : UInt32) (n : UInt32) : UInt32 := (x <<< n) ||| (x >>> (32 - n))
def rotr64 (x : UInt64) (n : UInt64) : UInt64 := (x >>> n) ||| (x <<< (64 - n))

def be32 (b : ByteArray) (i : Nat) : UInt32 :=
  (b.get! i).toUInt32 <<< 24 ||| (b.get! (i+1)).toUInt32 <<< 16 ||| (b.get! (i+2)).toUInt32 <<< 8 ||| (b.get! (i+3)).toUInt32

def be64 (b : ByteArray) (i : Nat) : UInt64 :=
  (be32 b i).toUInt64 <<< 32 ||| (be32 b (i+4)).toUInt64

def put32 (out : ByteArray) (x : UInt32) : ByteArray :=
  (((out.push (x >>> 24).toUInt8).push (x >>> 16).toUInt8).push (x >>> 8).toUInt8).push x.toUInt8

def put64 (out : ByteArray) (x : UInt64) : ByteArray :=
  put32 (put32 out (x >>> 32).toUInt32) x.toUInt32

/-- message ‖ 0x80 ‖ 0…0 ‖ bit length (big endian, `lenBytes` wide), padded to a multiple of `block` -/
def pad (msg : ByteArray) (block lenBytes : Nat) : ByteArray := Id.run do
  let mut m := msg.push 0x80
  while (m.size + lenBytes) % block != 0 do
    m := m.push 0
  let bits := msg.size * 8
  for i in [0:lenBytes] do
    m := m.push (UInt8.ofNat ((bits >>> (8 * (lenBytes - 1 - i))) % 256))
  return m

def k256 : Array UInt32 := #[
  0x428a2f98, 0x71374491, 0xb5c0fbcf, 0xe9b5dba5, 0x3956c25b, 0x59f111f1, 0x923f82a4, 0xab1c5ed5,
  0xd807aa98, 0x12835b01, 0x243185be, 0x550c7dc3, 0x72be5d74, 0x80deb1fe, 0x9bdc06a7, 0xc19bf174,
  0xe49b69c1, 0xefbe4786, 0x0fc19dc6, 0x240ca1cc, 0x2de92c6f, 0x4a7484aa, 0x5cb0a9dc, 0x76f988da,
  0x983e5152, 0xa831c66d, 0xb00327c8, 0xbf597fc7, 0xc6e00bf3, 0xd5a79147, 0x06ca6351, 0x14292967,
  0x27b70a85, 0x2e1b2138, 0x4d2c6dfc, 0x53380d13, 0x650a7354, 0x766a0abb, 0x81c2c92e, 0x92722c85,
  0xa2bfe8a1, 0xa81a664b, 0xc24b8b70, 0xc76c51a3, 0xd192e819, 0xd6990624, 0xf40e3585, 0x106aa070,
  0x19a4c116, 0x1e376c08, 0x2748774c, 0x34b0bcb5, 0x391c0cb3, 0x4ed8aa4a, 0x5b9cca4f, 0x682e6ff3,
  0x748f82ee, 0x78a5636f, 0x84c87814, 0x8cc70208, 0x90befffa, 0xa4506ceb, 0xbef9a3f7, 0xc67178f2]

def sha256Raw (msg : ByteArray) : ByteArray := Id.run do
  let m := pad msg 64 8
  let mut h : Array UInt32 := #[0x6a09e667, 0xbb67ae85, 0x3c6ef372, 0xa54ff53a, 0x510e527f, 0x9b05688c, 0x1f83d9ab, 0x5be0cd19]
  for blk in [0:m.size / 64] do
    let mut w : Array UInt32 := Array.replicate 64 0
    for t in [0:16] do
      w := w.set! t (be32 m (blk * 64 + t * 4))
    for t in [16:64] do
      let x := w[t-15]!
      let y := w[t-2]!
      let s0 := rotr32 x 7 ^^^ rotr32 x 18 ^^^ (x >>> 3)
      let s1 := rotr32 y 17 ^^^ rotr32 y 19 ^^^ (y >>> 10)
      w := w.set! t (w[t-16]! + s0 + w[t-7]! + s1)
    let mut a := h[0]!; let mut b := h[1]!; let mut c := h[2]!; let mut d := h[3]!
    let mut e := h[4]!; let mut f := h[5]!; let mut g := h[6]!; let mut hh := h[7]!
    for t in [0:64] do
      let s1 := rotr32 e 6 ^^^ rotr32 e 11 ^^^ rotr32 e 25
      let ch := (e &&& f) ^^^ ((~~~ e) &&& g)
      let t1 := hh + s1 + ch + k256[t]! + w[t]!
      let s0 := rotr32 a 2 ^^^ rotr32 a 13 ^^^ rotr32 a 22
      let mj := (a &&& b) ^^^ (a &&& c) ^^^ (b &&& c)
      let t2 := s0 + mj
      hh := g; g := f; f := e; e := d + t1; d := c; c := b; b := a; a := t1 + t2
    h := #[h[0]! + a, h[1]! + b, h[2]! + c, h[3]! + d, h[4]! + e, h[5]! + f, h[6]! + g, h[7]! + hh]
  let mut out := ByteArray.empty
  for x in h do out := put32 out x
  return out

def k512 : Array UInt64 := #[
  0x428a2f98d728ae22, 0x7137449123ef65cd, 0xb5c0fbcfec4d3b2f, 0xe9b5dba58189dbbc, 0x3956c25bf348b538,
  0x59f111f1b605d019, 0x923f82a4af194f9b, 0xab1c5ed5da6d8118, 0xd807aa98a3030242, 0x12835b0145706fbe,
  0x243185be4ee4b28c, 0x550c7dc3d5ffb4e2, 0x72be5d74f27b896f, 0x80deb1fe3b1696b1, 0x9bdc06a725c71235,
  0xc19bf174cf692694, 0xe49b69c19ef14ad2, 0xefbe4786384f25e3, 0x0fc19dc68b8cd5b5, 0x240ca1cc77ac9c65,
  0x2de92c6f592b0275, 0x4a7484aa6ea6e483, 0x5cb0a9dcbd41fbd4, 0x76f988da831153b5, 0x983e5152ee66dfab,
  0xa831c66d2db43210, 0xb00327c898fb213f, 0xbf597fc7beef0ee4, 0xc6e00bf33da88fc2, 0xd5a79147930aa725,
  0x06ca6351e003826f, 0x142929670a0e6e70, 0x27b70a8546d22ffc, 0x2e1b21385c26c926, 0x4d2c6dfc5ac42aed,
  0x53380d139d95b3df, 0x650a73548baf63de, 0x766a0abb3c77b2a8, 0x81c2c92e47edaee6, 0x92722c851482353b,
  0xa2bfe8a14cf10364, 0xa81a664bbc423001, 0xc24b8b70d0f89791, 0xc76c51a30654be30, 0xd192e819d6ef5218,
  0xd69906245565a910, 0xf40e35855771202a, 0x106aa07032bbd1b8, 0x19a4c116b8d2d0c8, 0x1e376c085141ab53,
  0x2748774cdf8eeb99, 0x34b0bcb5e19b48a8, 0x391c0cb3c5c95a63, 0x4ed8aa4ae3418acb, 0x5b9cca4f7763e373,
  0x682e6ff3d6b2b8a3, 0x748f82ee5defb2fc, 0x78a5636f43172f60, 0x84c87814a1f0ab72, 0x8cc702081a6439ec,
  0x90befffa23631e28, 0xa4506cebde82bde9, 0xbef9a3f7b2c67915, 0xc67178f2e372532b, 0xca273eceea26619c,
  0xd186b8c721c0c207, 0xeada7dd6cde0eb1e, 0xf57d4f7fee6ed178, 0x06f067aa72176fba, 0x0a637dc5a2c898a6,
  0x113f9804bef90dae, 0x1b710b35131c471b, 0x28db77f523047d84, 0x32caab7b40c72493, 0x3c9ebe0a15c9bebc,
  0x431d67c49c100d4c, 0x4cc5d4becb3e42b6, 0x597f299cfc657e2a, 0x5fcb6fab3ad6faec, 0x6c44198c4a475817]

def sha512Raw (msg : ByteArray) : ByteArray := Id.run do
  let m := pad msg 128 16
  let mut h : Array UInt64 := #[0x6a09e667f3bcc908, 0xbb67ae8584caa73b, 0x3c6ef372fe94f82b, 0xa54ff53a5f1d36f1,
    0x510e527fade682d1, 0x9b05688c2b3e6c1f, 0x1f83d9abfb41bd6b, 0x5be0cd19137e2179]
  for blk in [0:m.size / 128] do
    let mut w : Array UInt64 := Array.replicate 80 0
    for t in [0:16] do
      w := w.set! t (be64 m (blk * 128 + t * 8))
    for t in [16:80] do
      let x := w[t-15]!
      let y := w[t-2]!
      let s0 := rotr64 x 1 ^^^ rotr64 x 8 ^^^ (x >>> 7)
      let s1 := rotr64 y 19 ^^^ rotr64 y 61 ^^^ (y >>> 6)
      w := w.set! t (w[t-16]! + s0 + w[t-7]! + s1)
    let mut a := h[0]!; let mut b := h[1]!; let mut c := h[2]!; let mut d := h[3]!
    let mut e := h[4]!; let mut f := h[5]!; let mut g := h[6]!; let mut hh := h[7]!
    for t in [0:80] do
      let s1 := rotr64 e 14 ^^^ rotr64 e 18 ^^^ rotr64 e 41
      let ch := (e &&& f) ^^^ ((~~~ e) &&& g)
      let t1 := hh + s1 + ch + k512[t]! + w[t]!
      let s0 := rotr64 a 28 ^^^ rotr64 a 34 ^^^ rotr64 a 39
      let mj := (a &&& b) ^^^ (a &&& c) ^^^ (b &&& c)
      let t2 := s0 + mj
      hh := g; g := f; f := e; e := d + t1; d := c; c := b; b := a; a := t1 + t2
    h := #[h[0]! + a, h[1]! + b, h[2]! + c, h[3]! + d, h[4]! + e, h[5]! + f, h[6]! + g, h[7]! + hh]
  let mut out := ByteArray.empty
  for x in h do out := put64 out x
  return out

def sha1Raw (msg : ByteArray) : ByteArray := Id.run do
  let m := pad msg 64 8
  let mut h : Array UInt32 := #[0x67452301, 0xEFCDAB89, 0x98BADCFE, 0x10325476, 0xC3D2E1F0]
  for blk in [0:m.size / 64] do
    let mut w : Array UInt32 := Array.replicate 80 0
    for t in [0:16] do
      w := w.set! t (be32 m (blk * 64 + t * 4))
    for t in [16:80] do
      w := w.set! t (rotl32 (w[t-3]! ^^^ w[t-8]! ^^^ w[t-14]! ^^^ w[t-16]!) 1)
    let mut a := h[0]!; let mut b := h[1]!; let mut c := h[2]!; let mut d := h[3]!; let mut e := h[4]!
    for t in [0:80] do
      let (f, k) : UInt32 × UInt32 :=
        if t < 20 then ((b &&& c) ||| ((~~~ b) &&& d), 0x5A827999)
        else if t < 40 then (b ^^^ c ^^^ d, 0x6ED9EBA1)
        else if t < 60 then ((b &&& c) ||| (b &&& d) ||| (c &&& d), 0x8F1BBCDC)
        else (b ^^^ c ^^^ d, 0xCA62C1D6)
      let tmp := rotl32 a 5 + f + e + k + w[t]!
      e := d; d := c; c := rotl32 b 30; b := a; a := tmp
    h := #[h[0]! + a, h[1]! + b, h[2]! + c, h[3]! + d, h[4]! + e]
  let mut out := ByteArray.empty
  for x in h do out := put32 out x
  return out

def ofBytes (b : Bytes) : ByteArray := ByteArray.mk b.toArray
def toBytes (b : ByteArray) : Bytes := b.data.toList

def sha1 (m : Bytes) : Bytes := toBytes (sha1Raw (ofBytes m))
def sha256 (m : Bytes) : Bytes := toBytes (sha256Raw (ofBytes m))
def sha512 (m : Bytes) : Bytes := toBytes (sha512Raw (ofBytes m))

/-- RFC 2104 -/
def hmacWith (hash : ByteArray → ByteArray) (block : Nat) (key msg : ByteArray) : ByteArray := Id.run do
  let mut k := if key.size > block then hash key else key
  while k.size < block do
    k := k.push 0
  let mut ipad := ByteArray.empty
  let mut opad := ByteArray.empty
  for i in [0:block] do
    ipad := ipad.push (k.get! i ^^^ 0x36)
    opad := opad.push (k.get! i ^^^ 0x5c)
  return hash (opad ++ hash (ipad ++ msg))

def hmacSha1 (key msg : Bytes) : Bytes := toBytes (hmacWith sha1Raw 64 (ofBytes key) (ofBytes msg))
def hmacSha256 (key msg : Bytes) : Bytes := toBytes (hmacWith sha256Raw 64 (ofBytes key) (ofBytes msg))
def hmacSha512 (key msg : Bytes) : Bytes := toBytes (hmacWith sha512Raw 128 (ofBytes key) (ofBytes msg))

end Kp.Crypto
