/-
Shared basics: byte strings, little-endian integers, outcomes.
Model files import nothing outside core/Std so that the driver links as a native executable.
-/
namespace Kp

abbrev Bytes := List UInt8

instance instDecidableEqExcept {ε α : Type} [DecidableEq ε] [DecidableEq α] : DecidableEq (Except ε α) :=
  fun a b =>
    match a, b with
    | .ok x, .ok y => if h : x = y then isTrue (by rw [h]) else isFalse (fun h' => h (by injection h'))
    | .error x, .error y => if h : x = y then isTrue (by rw [h]) else isFalse (fun h' => h (by injection h'))
    | .ok _, .error _ => isFalse (fun h => by cases h)
    | .error _, .ok _ => isFalse (fun h => by cases h)

end Kp
