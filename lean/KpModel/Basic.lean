/-
Shared basics: byte strings, little-endian integers, outcomes.
Model files import nothing outside core/Std so that the driver links as a native executable.
-/
namespace Kp

abbrev Bytes := List UInt8

end Kp
