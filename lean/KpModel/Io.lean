import KpModel.Basic
/-
Model of the I/O boundary (`src/db/mod.rs`: `Database::open`, `get_xml`, `get_version`; `src/key.rs`:
`DatabaseKey::with_keyfile`; `src/format/kdbx4/dump.rs`, `src/format/mod.rs`: the writes of `save`).
Properties C10 and C11.

A byte source is scripted: per-call caps (a call delivers at most `cap+1` bytes and at most what the caller's
buffer holds), interruptions, and an optional failure at a byte offset.  `std::io::Read::read_to_end` is
modelled by its documented contract: call `read` until `Ok(0)`, retry `ErrorKind::Interrupted`, propagate
any other error.  The buffer sizes std chooses are a parameter (`want`), the theorems hold for all of them.
-/
namespace Kp.Io

inductive ErrKind where
  | other | unexpectedEof | writeZero | brokenPipe | invalidData | invalidInput | timedOut
  deriving DecidableEq, Repr, Inhabited

inductive RStep where
  | cap (n : Nat)   -- deliver at most n+1 bytes on this call
  | intr            -- this call returns Err(Interrupted)
  deriving DecidableEq, Repr

structure Src where
  data : Bytes                 -- bytes not yet delivered
  untilFail : Option Nat       -- `some k`: after k more bytes the source fails with `kind`
  kind : ErrKind
  script : List RStep          -- per-call behaviour; exhausted = no cap
  deriving Repr

inductive ReadRes where
  | ok (bs : Bytes)    -- `Ok(bs.length)`; `[]` = end of file
  | intr
  | err (k : ErrKind)
  deriving Repr

/-- deliver at most `m` bytes (or fail, when the failure offset has been reached) -/
def Src.deliver (s : Src) (m : Nat) (rest : List RStep) : ReadRes × Src :=
  if s.untilFail = some 0 then (.err s.kind, { s with script := rest })
  else
    let k := min (min m (s.untilFail.getD s.data.length)) s.data.length
    (.ok (s.data.take k),
     { s with data := s.data.drop k, untilFail := s.untilFail.map (· - k), script := rest })

/-- one call of `Read::read` with a buffer of `want+1` bytes -/
def Src.read (s : Src) (want : Nat) : ReadRes × Src :=
  match s.script with
  | .intr :: rest => (.intr, { s with script := rest })
  | .cap n :: rest => s.deliver (min (n + 1) (want + 1)) rest
  | [] => s.deliver (want + 1) []

/-- `read_to_end`: the call index `i` selects std's buffer size `want i + 1` -/
def readToEnd (want : Nat → Nat) (i : Nat) (s : Src) (acc : Bytes) (fuel : Nat) : Except ErrKind Bytes :=
  match fuel with
  | 0 => .ok acc      -- unreachable with fuel ≥ data.length + script.length + 1 (theorem `readToEnd_fuel`)
  | fuel + 1 =>
    match s.read (want i) with
    | (.intr, s') => readToEnd want (i + 1) s' acc fuel
    | (.err k, _) => .error k
    | (.ok [], _) => .ok acc
    | (.ok bs, s') => readToEnd want (i + 1) s' (acc ++ bs) fuel

def Src.fuel (s : Src) : Nat := s.data.length + s.script.length + 1

/-- `Read::take(limit).read_to_end(..)`: as `readToEnd`, but never asks for more than `limit` remaining
    bytes and stops without calling the source once the limit is used up -/
def readUpTo (want : Nat → Nat) (i : Nat) (limit : Nat) (s : Src) (acc : Bytes) (fuel : Nat) :
    Except ErrKind Bytes :=
  match fuel with
  | 0 => .ok acc
  | fuel + 1 =>
    if limit = 0 then .ok acc
    else
      match s.read (min (want i) (limit - 1)) with
      | (.intr, s') => readUpTo want (i + 1) limit s' acc fuel
      | (.err k, _) => .error k
      | (.ok [], _) => .ok acc
      | (.ok bs, s') => readUpTo want (i + 1) (limit - bs.length) s' (acc ++ bs) fuel

/-! ### Version sniffing (`DatabaseVersion::parse`, `src/format/mod.rs`) -/

inductive Version where
  | kdb (minor : Nat) | kdb2 (minor : Nat) | kdbx3 (minor : Nat) | kdbx4 (minor : Nat)
  deriving DecidableEq, Repr

def le16 (a b : UInt8) : Nat := a.toNat + 256 * b.toNat
def le32 (a b c d : UInt8) : Nat := a.toNat + 256 * b.toNat + 65536 * c.toNat + 16777216 * d.toNat

/-- `DatabaseVersion::parse`: `none` = `Err(InvalidKDBXIdentifier | InvalidKDBXVersion)` -/
def parseVersion (d : Bytes) : Option Version :=
  match d with
  | b0 :: b1 :: b2 :: b3 :: v0 :: v1 :: v2 :: v3 :: m0 :: m1 :: j0 :: j1 :: _ =>
    if b0 = 0x03 ∧ b1 = 0xd9 ∧ b2 = 0xa2 ∧ b3 = 0x9a then
      let version := le32 v0 v1 v2 v3
      let minor := le16 m0 m1
      let major := le16 j0 j1
      if version = 0xb54bfb65 then some (.kdb minor)
      else if version = 0xb54bfb66 then some (.kdb2 minor)
      else if version = 0xb54bfb67 ∧ major = 3 then some (.kdbx3 minor)
      else if version = 0xb54bfb67 ∧ major = 4 then some (.kdbx4 minor)
      else none
    else none
  | _ => none

/-- the version a successful `Database::parse` reports in `config.version`: for KDBX it is what
    `DatabaseVersion::parse` returns; for KDB it is the low half of the 32-bit version field at offset 12
    (`header.subversion as u16`), not the bytes at offset 8 that `DatabaseVersion::parse` calls "minor" -/
def openVersion (d : Bytes) : Option Version :=
  match parseVersion d with
  | some (.kdb _) =>
    match d.drop 12 with
    | a :: b :: _ => some (.kdb (le16 a b))
    | _ => none
  | v => v

/-- `Database::get_version` (after the repair of the single-`read` defect): read up to 12 bytes, parse -/
def getVersion (want : Nat → Nat) (s : Src) : Except ErrKind (Option Version) :=
  (readUpTo want 0 12 s [] s.fuel).map parseVersion

/-- `Database::open` / `get_xml` / `with_keyfile`: `read_to_end`, then a pure function of the bytes -/
def openWith {α : Type} (parse : Bytes → α) (want : Nat → Nat) (s : Src) : Except ErrKind α :=
  (readToEnd want 0 s [] s.fuel).map parse

/-! ### Sinks (`std::io::Write`) and the writes of `save` -/

inductive WStep where
  | cap (n : Nat)   -- accept at most n+1 bytes on this call
  | intr
  | zero            -- accept nothing: `Ok(0)`
  deriving DecidableEq, Repr

structure Sink where
  received : Bytes
  untilFail : Option Nat
  kind : ErrKind
  script : List WStep
  deriving Repr

inductive WriteRes where
  | ok (n : Nat) | intr | err (k : ErrKind)
  deriving Repr

/-- accept at most `m` bytes of `buf` (or fail, when the failure offset has been reached) -/
def Sink.accept (s : Sink) (m : Nat) (buf : Bytes) (rest : List WStep) : WriteRes × Sink :=
  if s.untilFail = some 0 then (.err s.kind, { s with script := rest })
  else
    let k := min (min m (s.untilFail.getD buf.length)) buf.length
    (.ok k, { s with received := s.received ++ buf.take k, untilFail := s.untilFail.map (· - k),
                     script := rest })

/-- one call of `Write::write(buf)` -/
def Sink.write (s : Sink) (buf : Bytes) : WriteRes × Sink :=
  match s.script with
  | .intr :: rest => (.intr, { s with script := rest })
  | .zero :: rest => (.ok 0, { s with script := rest })
  | .cap n :: rest => s.accept (n + 1) buf rest
  | [] => s.accept buf.length buf []

/-- `Write::write_all`: loop until the buffer is empty; `Ok(0)` → `WriteZero`; retry `Interrupted` -/
def writeAll (s : Sink) (buf : Bytes) (fuel : Nat) : Except ErrKind Unit × Sink :=
  match fuel with
  | 0 => (.ok (), s)
  | fuel + 1 =>
    if buf = [] then (.ok (), s)
    else
      match s.write buf with
      | (.intr, s') => writeAll s' buf fuel
      | (.err k, s') => (.error k, s')
      | (.ok 0, s') => (.error .writeZero, s')
      | (.ok n, s') => writeAll s' (buf.drop n) fuel

/-- `save` as seen by the destination writer: the segments (header, header hash, header HMAC, block stream)
    are handed to `write_all` one after the other; the first error aborts -/
def saveSegments (s : Sink) (segs : List Bytes) : Except ErrKind Unit × Sink :=
  match segs with
  | [] => (.ok (), s)
  | seg :: rest =>
    match writeAll s seg (seg.length + s.script.length + 1) with
    | (.ok (), s') => saveSegments s' rest
    | (.error k, s') => (.error k, s')

end Kp.Io
