import KpModel.Basic
/-
Model of `src/key.rs` (`DatabaseKey::get_key_elements`, `parse_keyfile`, `parse_xml_keyfile`) and of the
composite-key step in `format/{kdbx4/parse,kdbx4/dump,kdbx3,kdb}.rs`.  Property C20.

SHA-256, base64 and hex decoding are parameters (`KeyPrims`); the XML view of a key file (what the xml-rs
tokenizer delivers: the last `Characters` text under KeyFile/Meta/Version and under KeyFile/Key/Data, or
"not well-formed") is an input supplied by the harness's own tokenizer run.
-/
namespace Kp.Key

abbrev Str := List Char

structure KeyPrims where
  sha256 : Bytes → Bytes
  utf8 : Str → Bytes
  /-- `base64::STANDARD.decode` (strict alphabet, canonical padding required) -/
  b64 : Str → Option Bytes
  /-- `hex::decode` (even length, upper or lower case) -/
  hex : Str → Option Bytes

/-- what the XML tokenizer makes of the key file -/
inductive XmlView where
  | malformed                                        -- some event is an error: the file is "not XML"
  | wellFormed (version : Option Str) (data : Option Str)
  deriving DecidableEq, Repr

/-- `char::is_whitespace` (Unicode White_Space) -/
def isWs (c : Char) : Bool :=
  let n := c.toNat
  (9 ≤ n && n ≤ 13) || n == 32 || n == 0x85 || n == 0xA0 || n == 0x1680 || (0x2000 ≤ n && n ≤ 0x200A)
  || n == 0x2028 || n == 0x2029 || n == 0x202F || n == 0x205F || n == 0x3000

/-- the text of a version-2 `<Data>` element with all white space removed (after the repair of F10; the
    unrepaired code removed only leading/trailing white space and interior space, CR, LF) -/
def stripWs (s : Str) : Str := s.filter (fun c => !isWs c)

def v2 : Str := ['2', '.', '0']

/-- `parse_xml_keyfile`: `none` = `Err(InvalidKeyFile)` or an XML error -/
def xmlKey (P : KeyPrims) : XmlView → Option Bytes
  | .malformed => none
  | .wellFormed _ none => none
  | .wellFormed ver (some data) =>
    if ver = some v2 then
      match P.hex (stripWs data) with
      | some k => some k
      | none => some (P.utf8 data)
    else
      match P.b64 data with
      | some k => some k
      | none => some (P.utf8 data)

/-- `parse_keyfile` -/
def keyfileKey (P : KeyPrims) (buf : Bytes) (view : XmlView) : Bytes :=
  match xmlKey P view with
  | some k => k
  | none => if buf.length = 32 then buf else P.sha256 buf

structure Creds where
  password : Option Str
  keyfile : Option (Bytes × XmlView)

/-- `get_key_elements`: `none` = `Err(IncorrectKey)` (no credentials at all) -/
def keyElements (P : KeyPrims) (c : Creds) : Option (List Bytes) :=
  let out := (match c.password with | some p => [P.sha256 (P.utf8 p)] | none => [])
    ++ (match c.keyfile with | some (buf, view) => [keyfileKey P buf view] | none => [])
  if out = [] then none else some out

/-- KDBX 3.1 / 4: the composite key is the SHA-256 of the concatenated elements -/
def compositeKdbx (P : KeyPrims) (c : Creds) : Option Bytes :=
  (keyElements P c).map fun es => P.sha256 es.flatten

inductive KdbComposite where
  | key (k : Bytes)
  | noCredentials
  | errNot32             -- `key_elements[0].try_into()` fails on a lone element that is not 32 bytes: `IncorrectKey` (was an unwrap panic, A36, repaired)
  deriving DecidableEq, Repr

/-- KDB: a lone element is used unhashed (and must be 32 bytes), otherwise as above -/
def compositeKdb (P : KeyPrims) (c : Creds) : KdbComposite :=
  match keyElements P c with
  | none => .noCredentials
  | some [e] => if e.length = 32 then .key e else .errNot32
  | some es => .key (P.sha256 es.flatten)

end Kp.Key
