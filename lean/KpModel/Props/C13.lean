import KpModel.Db.MergeSelf
import KpModel.Db.MergeInv
import KpModel.Db.MergeLemmas
import KpModel.Db.MergeLww
import KpModel.Db.MergeLwwG
import KpModel.Db.MergeQuiet
/-!
# C13 — merging is idempotent and merging a database with itself changes nothing
Property theorems only.  Faithful model: `KpModel/Db/Merge.lean` (tied to `Database::merge` by the
correspondence op `merge`, which also re-runs the merge a second time and self-merges on the real code).
Proved here: idempotence of every *component* (history union, entry update, group update) for all inputs.
The global statement is kept visible below (`C13_full`) and is validated by exhaustive enumeration of
replica pairs on the real code and on the model — a test, labelled so in the evidence.
-/
namespace Kp.Merge

/-- merging the source's history into the merged history again changes nothing -/
theorem historyMerge_absorb (dst src r : List EData) (h : historyMerge dst src = .ok r) :
    historyMerge r src = .ok r := by
  unfold historyMerge at h
  cases h1 : phase1 dst [] with
  | error e => simp [h1] at h
  | ok m =>
    simp only [h1] at h
    cases h2 : phase2 src m with
    | error e => simp [h2] at h
    | ok m' =>
      simp only [h2] at h
      injection h with h; subst h
      have s1 := phase1_sorted dst [] m (by simp [keys, SortedDesc]) h1
      have k1 := phase1_keyInv dst [] m (by intro p hp; cases hp) h1
      have s2 := phase2_sorted src m m' s1.1 h2
      have k2 := phase2_keyInv src m m' k1 h2
      have rb := phase1_rebuild m' s2.1 k2.1 [] (by intro a ha; simp [keys] at ha)
      simp only [List.nil_append] at rb
      have ab := phase2_absorb src m' (by
        intro x hx
        obtain ⟨t, ht⟩ := k2.2 x hx
        refine ⟨t, ht, ?_⟩
        rw [s2.2.1 t]
        right
        simp only [List.mem_map]
        exact ⟨x, hx, ht⟩)
      unfold historyMerge
      simp only [rb, ab]

/-- a second group update with the same source is a no-op (no event, same data) -/
theorem groupMergeData_idem (now : Int) (u dc sc : Nat) (dt st t' : Times) (c' : Nat) (upd : Bool)
    (hs : st.mtime.isSome) (h : groupMergeData now u dc dt u sc st = .ok (c', t', upd)) :
    groupMergeData now u c' t' u sc st = .ok (c', t', false) := by
  obtain ⟨sm, hsm⟩ := Option.isSome_iff_exists.mp hs
  unfold groupMergeData at h ⊢
  simp only [hsm, Option.getD_some] at h ⊢
  by_cases h1 : (dt.mtime.getD now == sm) = true
  · simp only [h1, ↓reduceIte] at h
    split at h
    · cases h
    · injection h with h; injection h with ha hb; injection hb with hb hc
      subst ha; subst hb
      simp [h1] at *
      assumption
  · simp only [h1, Bool.false_eq_true, ↓reduceIte] at h
    by_cases h2 : dt.mtime.getD now > sm
    · simp only [h2, ↓reduceIte] at h
      injection h with h; injection h with ha hb; injection hb with hb hc
      subst ha; subst hb
      simp [h1, h2]
    · simp only [h2, ↓reduceIte] at h
      injection h with h; injection h with ha hb; injection hb with hb hc
      subst ha; subst hb
      simp [hsm]

theorem keepLoc_d (dst m : Entry) (h : m.d.uuid = dst.d.uuid ∨ True) :
    (keepLoc dst m).history = m.history ∧ (keepLoc dst m).d.uuid = m.d.uuid
    ∧ (keepLoc dst m).d.content = m.d.content ∧ (keepLoc dst m).d.times.mtime = m.d.times.mtime := by
  unfold keepLoc
  cases dst.d.times.loc <;> simp [Entry.setLoc]

theorem keepLoc_same (dst m : Entry) (h : m.d = dst.d) : keepLoc dst m = m := by
  obtain ⟨⟨u, c, ⟨mt, lc, ot⟩⟩, dh⟩ := dst
  obtain ⟨md, hist⟩ := m
  simp only at h
  subst h
  unfold keepLoc
  cases lc with
  | none => rfl
  | some l => rfl

theorem mergeHistory_ok (w l r : Entry) (h : mergeHistory w l = .ok r) :
    ∃ hl, historyMerge (w.history.getD []) (srcItems l) = .ok hl ∧ r = { w with history := some hl } := by
  unfold mergeHistory at h
  cases hh : historyMerge (w.history.getD []) (srcItems l) with
  | error e => rw [hh] at h; cases h
  | ok hl => rw [hh] at h; injection h with h; exact ⟨hl, rfl, h.symm⟩

/-- a second entry update with the same source is a no-op: `merge_group` finds nothing to do -/
theorem entryUpdate_idem (now : Int) (e src m : Entry) (hs : src.d.times.mtime.isSome)
    (h : entryUpdate now e src = .ok (some m)) : entryUpdate now m src = .ok none := by
  obtain ⟨sm, hsm⟩ := Option.isSome_iff_exists.mp hs
  unfold entryUpdate at h
  split at h
  · cases h
  · cases hm : entryMerge now e src with
    | error err => rw [hm] at h; cases h
    | ok r =>
      rw [hm] at h
      cases r with
      | none => cases h
      | some merged =>
        simp only at h
        split at h
        · cases h
        · injection h with h; injection h with h; subst h
          unfold entryMerge at hm
          simp only [hsm, Option.getD_some] at hm
          by_cases heq : (e.d.times.mtime.getD now == sm) = true
          · simp only [heq, ↓reduceIte] at hm
            split at hm <;> cases hm
          · simp only [heq, Bool.false_eq_true, ↓reduceIte] at hm
            unfold entryUpdate
            by_cases hdiv : entryDiverged merged src = true
            · simp only [hdiv, Bool.not_true, Bool.false_eq_true, ↓reduceIte]
              by_cases hgt : e.d.times.mtime.getD now > sm
              · -- destination newer: the history absorbs, the merge reproduces `merged`
                simp only [hgt, ↓reduceIte] at hm
                cases hmh : mergeHistory e src with
                | error err => rw [hmh] at hm; cases hm
                | ok w =>
                  rw [hmh] at hm
                  injection hm with hm; injection hm with hm
                  obtain ⟨hl, hh, hw⟩ := mergeHistory_ok e src w hmh
                  have hwd : w.d = e.d := by rw [hw]
                  rw [keepLoc_same e w hwd] at hm
                  subst hm
                  have habs := historyMerge_absorb _ _ _ hh
                  have hwh : w.history = some hl := by rw [hw]
                  have hmh2 : mergeHistory w src = .ok w := by
                    unfold mergeHistory
                    simp only [hwh, Option.getD_some, habs]
                    congr 1
                    cases w with
                    | mk d hist => simp only at hwh; subst hwh; rfl
                  unfold entryMerge
                  simp only [hsm, Option.getD_some, hwd, heq, Bool.false_eq_true, ↓reduceIte, hgt, hmh2]
                  rw [keepLoc_same w w rfl]
                  simp
              · -- source newer: `merged` carries the source's modification time, the times are now equal
                simp only [hgt, ↓reduceIte] at hm
                cases hmh : mergeHistory src e with
                | error err => rw [hmh] at hm; cases hm
                | ok w =>
                  rw [hmh] at hm
                  injection hm with hm; injection hm with hm
                  obtain ⟨hl, hh, hw⟩ := mergeHistory_ok src e w hmh
                  have hmt : merged.d.times.mtime = some sm := by
                    rw [← hm, (keepLoc_d e w (Or.inr trivial)).2.2.2, hw]; exact hsm
                  unfold entryMerge
                  simp [hsm, hmt, hdiv]
            · simp [hdiv]

/-- C13 at full strength (global): for replicas `a`, `b` of a common ancestor, merging `b` into the result
    of `merge a b` again reports no event and changes nothing; so does merging the result into itself. -/
def C13_full (WellFormedPair : Db → Db → Prop) : Prop :=
  ∀ (now : Int) (a b r : Db) (evs : List Event), WellFormedPair a b →
    merge now a b = .ok (r, evs) →
    merge now r b = .ok (r, []) ∧ merge now r r = .ok (r, [])

/-! Non-vacuity of the component statements -/
example : historyMerge [⟨1, 5, ⟨some 30, none, 0⟩⟩, ⟨1, 4, ⟨some 10, none, 0⟩⟩] [⟨1, 7, ⟨some 20, none, 0⟩⟩]
    = .ok [⟨1, 5, ⟨some 30, none, 0⟩⟩, ⟨1, 7, ⟨some 20, none, 0⟩⟩, ⟨1, 4, ⟨some 10, none, 0⟩⟩] := by decide

/-! ### the self-merge clause of C13, for every well-formed database -/

/-- a database is well-formed for merging: the root is a group, all UUIDs (the root's included) are pairwise
    distinct, every group carries a modification time, and no tombstone names a node that is still there -/
structure WellFormed (d : Db) : Prop where
  isGroup : d.root.isGroup = true
  nodup : (uuidsL d.root.children).Nodup
  rootFresh : d.root.uuid ∉ uuidsL d.root.children
  timed : timedN d.root
  noTomb : ∀ u ∈ uuidsL d.root.children, tombsContain d.tombs u = false

/-- **C13 (self-merge)**: merging a well-formed database with an identical copy reports no events and leaves the
    database — tree and tombstones — exactly as it was -/
theorem merge_self (now : Int) (d : Db) (W : WellFormed d) : merge now d d = .ok (d, []) := by
  obtain ⟨root, tombs⟩ := d
  have C : SelfCtx root tombs := ⟨W.isGroup, W.nodup, W.rootFresh, W.noTomb⟩
  cases root with
  | entry e => have := W.isGroup; simp [Node.isGroup] at this
  | group ru rc rt rcs =>
    have ht := W.timed
    simp only [timedN] at ht
    have hroot : mergeRoot now ⟨.group ru rc rt rcs, []⟩ (.group ru rc rt rcs) = .ok ⟨.group ru rc rt rcs, []⟩ := by
      simp [mergeRoot, bind, Except.bind, groupMergeData_self now ru rc rt ht.1, pure, Except.pure]
    have hpass : mergePasses now tombs (.group ru rc rt rcs) (groupCount (.group ru rc rt rcs) + 1)
        ⟨.group ru rc rt rcs, []⟩ = .ok ⟨.group ru rc rt rcs, []⟩ := by
      unfold mergePasses
      have := mergeGroup_self now tombs (.group ru rc rt rcs) [] C (.group ru rc rt rcs) [] W.timed (Or.inl ⟨rfl, rfl⟩)
      simp [this, pure, Except.pure]
    have hdel : mergeDeletions now tombs ⟨.group ru rc rt rcs, []⟩ ⟨.group ru rc rt rcs, tombs⟩
        = .ok (⟨.group ru rc rt rcs, []⟩, tombs) := by
      unfold mergeDeletions
      simp only [bind, Except.bind, deleteEntries_allKnown now _ tombs tombs (tombsContain_self tombs)]
      have hq : tombs.filter (fun d => !tombsContain tombs d.uuid) = [] := by
        rw [List.filter_eq_nil_iff]
        intro x hx
        simp [tombsContain_self tombs x hx]
      rw [hq]
      simp [deletionFuel, deleteGroups]
    unfold merge
    simp only [bind, Except.bind, hroot, hpass, hdel, pure, Except.pure]


/-- the hypotheses are satisfiable (non-vacuity): a root with an entry and a group holding a sub-group -/
example : WellFormed ⟨.group 1 0 ⟨some 5, none, 0⟩ [.entry ⟨⟨10, 0, ⟨some 5, none, 0⟩⟩, none⟩,
      .group 2 0 ⟨some 6, none, 0⟩ [.group 3 0 ⟨some 7, none, 0⟩ []]], [⟨99, 4⟩]⟩ := by
  refine ⟨rfl, by decide, by decide, ?_, ?_⟩
  · simp [timedN, timedL]
  · intro u hu
    have e : uuidsL (Node.children (.group 1 0 ⟨some 5, none, 0⟩ [.entry ⟨⟨10, 0, ⟨some 5, none, 0⟩⟩, none⟩,
        .group 2 0 ⟨some 6, none, 0⟩ [.group 3 0 ⟨some 7, none, 0⟩ []]])) = [10, 2, 3] := by decide
    rw [e] at hu
    simp only [List.mem_cons, List.not_mem_nil, or_false] at hu
    rcases hu with rfl | rfl | rfl <;> decide

/-- merging two well-formed replicas with the same root gives a well-formed database again: a group at the root, pairwise
    distinct UUIDs, the root's UUID not below it, every group with a modification time, no node both present and tombstoned -/
theorem merge_result_wellFormed (now : Int) (dst src d' : Db) (evs : List Event) (Wd : WellFormed dst) (Ws : WellFormed src)
    (hroot : src.root.uuid = dst.root.uuid) (h : merge now dst src = .ok (d', evs)) : WellFormed d' := by
  have hI : Inv dst.root := ⟨Wd.isGroup, Wd.nodup⟩
  have hinv := merge_inv now dst src d' evs hI h
  obtain ⟨ht, hu⟩ := merge_timed_uuid now dst src d' evs hI Wd.timed Ws.timed h
  refine ⟨hinv.1, hinv.2, ?_, ht, merge_clean now dst src d' evs hI Wd.noTomb h⟩
  intro hmem
  rw [hu] at hmem
  rcases merge_noForeignNodes now dst src d' evs hI h _ hmem with h1 | h1
  · exact Wd.rootFresh h1
  · rw [← hroot] at h1; exact Ws.rootFresh h1

/-- **C13 (the merge result merged back into itself)**: for every pair of well-formed replicas with the same root, whatever
    they hold otherwise, merging the result of their merge with an identical copy of itself reports no events and changes
    nothing -/
theorem C13_result_self_merge (now now' : Int) (dst src d' : Db) (evs : List Event) (Wd : WellFormed dst) (Ws : WellFormed src)
    (hroot : src.root.uuid = dst.root.uuid) (h : merge now dst src = .ok (d', evs)) : merge now' d' d' = .ok (d', []) :=
  merge_self now' d' (merge_result_wellFormed now dst src d' evs Wd Ws hroot h)

/-- **C13 (a second merge of the same source keeps every shared entry's content), partial**: after `merge dst src` gave `d₁`, merging
    `src` into `d₁` again leaves the content of every entry that `dst` and `src` both hold as the first merge left it — by
    `merge_entry_lww_state` applied twice: the first merge leaves the entry as one of the two versions and with the winner's
    content; merging the source's version into that gives the same content again.  (The full clause — no events, the whole
    database unchanged — is `C13_twice`, validated on every enumerated pair, not proved.)  The destination's version carries a
    modification time (else "now" stands in for it and the second merge may run at another time). -/
theorem C13_twice_entry_content_partial (now now' : Int) (dst src d1 d2 : Db) (ev1 ev2 : List Event)
    (hr : dst.root.isGroup = true) (hn : (uuidsL dst.root.children).Nodup)
    (hrs : src.root.isGroup = true) (hns : (uuidsL src.root.children).Nodup)
    (h1 : merge now dst src = .ok (d1, ev1)) (h2 : merge now' d1 src = .ok (d2, ev2))
    (pd ps p1 p2 : List Nat) (de se e1 e2 : Entry)
    (hd : findEntry dst.root pd = some de) (hs : findEntry src.root ps = some se) (hu : de.d.uuid = se.d.uuid)
    (htimed : de.d.times.mtime.isSome = true)
    (hr1 : findEntry d1.root p1 = some e1) (hu1 : e1.d.uuid = se.d.uuid)
    (hr2 : findEntry d2.root p2 = some e2) (hu2 : e2.d.uuid = se.d.uuid) :
    e2.d.content = e1.d.content := by
  have hI1 := merge_inv now dst src d1 ev1 ⟨hr, hn⟩ h1
  obtain ⟨hst, hc1⟩ := merge_entry_lww_state now dst src d1 ev1 ⟨hr, hn⟩ ⟨hrs, hns⟩ h1 pd ps p1 de se e1 hd hs hu hr1 hu1
  have hc2 := merge_entry_lww now' d1 src d2 ev2 hI1 ⟨hrs, hns⟩ h2 p1 ps p2 e1 se e2 hr1 hs hu1 hr2 hu2
  rw [hc2]
  rcases hst with ⟨a, b⟩ | ⟨a, _⟩
  · -- still the destination's version: it won the first time, it wins again
    rw [b]
    cases hm : de.d.times.mtime with
    | none => rw [hm] at htimed; cases htimed
    | some t =>
      rw [hm] at hc1
      simp only [Option.getD_some] at hc1 ⊢
      split
      · rfl
      · rename_i hlt
        rw [if_neg hlt] at hc1
        rw [hc1]
  · split
    · rfl
    · exact a.symm

/-- **C13 (a second merge of the same source keeps every shared group's own data), partial**: the counterpart of
    `C13_twice_entry_content_partial` for a group's name / notes / icon / settings. -/
theorem C13_twice_group_content_partial (now now' : Int) (dst src d1 d2 : Db) (ev1 ev2 : List Event)
    (hr : dst.root.isGroup = true) (hn : (uuidsL dst.root.children).Nodup) (hfd : dst.root.uuid ∉ uuidsL dst.root.children)
    (hrs : src.root.isGroup = true) (hns : (uuidsL src.root.children).Nodup) (hfs : src.root.uuid ∉ uuidsL src.root.children)
    (hf1 : d1.root.uuid ∉ uuidsL d1.root.children)
    (h1 : merge now dst src = .ok (d1, ev1)) (h2 : merge now' d1 src = .ok (d2, ev2))
    (pd ps p1 p2 : List Nat) (u dc : Nat) (dt : Times) (dch : List Node) (sc : Nat) (st : Times) (sch : List Node)
    (c1 : Nat) (t1 : Times) (ch1 : List Node) (c2 : Nat) (t2 : Times) (ch2 : List Node)
    (hpd : pd ≠ []) (hps : ps ≠ []) (hp1 : p1 ≠ [])
    (hd : getPath dst.root pd = some (.group u dc dt dch)) (hs : getPath src.root ps = some (.group u sc st sch))
    (htimed : dt.mtime.isSome = true)
    (hr1 : getPath d1.root p1 = some (.group u c1 t1 ch1)) (hr2 : getPath d2.root p2 = some (.group u c2 t2 ch2)) :
    c2 = c1 := by
  have hI1 := merge_inv now dst src d1 ev1 ⟨hr, hn⟩ h1
  obtain ⟨hst, hc1⟩ := merge_group_lww_state now dst src d1 ev1 ⟨hr, hn⟩ hfd ⟨hrs, hns⟩ hfs h1 pd ps p1 u dc dt dch sc st sch c1 t1 ch1
    hpd hps hd hs hr1
  have hc2 := merge_group_lww now' d1 src d2 ev2 hI1 hf1 ⟨hrs, hns⟩ hfs h2 p1 ps p2 u c1 t1 ch1 sc st sch c2 t2 ch2 hp1 hps hr1 hs hr2
  rw [hc2]
  rcases hst with ⟨a, b⟩ | ⟨a, _⟩
  · rw [b]
    cases hm : dt.mtime with
    | none => rw [hm] at htimed; cases htimed
    | some t =>
      rw [hm] at hc1
      simp only [Option.getD_some] at hc1 ⊢
      split
      · rfl
      · rename_i hlt
        rw [if_neg hlt] at hc1
        rw [hc1]
  · split
    · rfl
    · exact a.symm

/-- **C13 (a merge that reports no event changed nothing)**: every mutation `merge` performs goes with an event (an entry or
    group created, updated, moved or deleted); when the log it returns is empty, the tree and the tombstone list of the result
    are the destination's.  So of the two halves of "reports no events and leaves it unchanged" the first implies the second,
    for every destination that is a group with pairwise distinct UUIDs below it and every source. -/
theorem C13_no_events_means_unchanged (now : Int) (dst src d' : Db) (hr : dst.root.isGroup = true)
    (hn : (uuidsL dst.root.children).Nodup) (h : merge now dst src = .ok (d', [])) :
    d'.root = dst.root ∧ d'.tombs = dst.tombs :=
  merge_quiet now dst src d' ⟨hr, hn⟩ h

end Kp.Merge
