import KpModel.Props.C01
import KpModel.Generated.Consts
/-!
# C07 — saved files are valid KDBX4 that an independent reader decodes identically
Property theorems only.  `saveSegments` is the faithful transcription of `dump_kdbx4`.  Proved: what `save`
writes is one of the conforming layouts and therefore decodes to what was saved (framing theorem C01);
the constants of the *source* (regenerated into `Generated/Consts.lean` on every run) are the published ones
and the sizes are those the algorithms require.
-/
namespace Kp.Fmt

/-! ### the translator's tie: constants of the source = constants of the model = published constants -/

/-- field ids, algorithm UUIDs, compression and inner-cipher ids, dictionary type ids, signature -/
theorem consts_tie_ids :
    Kp.Gen.HEADER_END = 0 ∧ Kp.Gen.HEADER_COMMENT = 1 ∧ Kp.Gen.HEADER_OUTER_ENCRYPTION_ID = 2
    ∧ Kp.Gen.HEADER_COMPRESSION_ID = 3 ∧ Kp.Gen.HEADER_MASTER_SEED = 4 ∧ Kp.Gen.HEADER_ENCRYPTION_IV = 7
    ∧ Kp.Gen.HEADER_KDF_PARAMS = 11
    ∧ Kp.Gen.INNER_HEADER_END = 0 ∧ Kp.Gen.INNER_HEADER_RANDOM_STREAM_ID = 1
    ∧ Kp.Gen.INNER_HEADER_RANDOM_STREAM_KEY = 2 ∧ Kp.Gen.INNER_HEADER_BINARY_ATTACHMENTS = 3
    ∧ Kp.Gen.CIPHERSUITE_AES256 = cipherUuid .aes256 ∧ Kp.Gen.CIPHERSUITE_TWOFISH = cipherUuid .twofish
    ∧ Kp.Gen.CIPHERSUITE_CHACHA20 = cipherUuid .chacha20
    ∧ Kp.Gen.KDF_AES_KDBX3 = kdfAesKdbx3 ∧ Kp.Gen.KDF_AES_KDBX4 = kdfAesKdbx4
    ∧ Kp.Gen.KDF_ARGON2 = kdfArgon2d ∧ Kp.Gen.KDF_ARGON2ID = kdfArgon2id
    ∧ Kp.Gen.INNER_PLAIN = innerId .plain ∧ Kp.Gen.INNER_SALSA_20 = innerId .salsa20
    ∧ Kp.Gen.INNER_CHA_CHA_20 = innerId .chacha20
    ∧ Kp.Gen.COMPRESSION_NONE = 0 ∧ Kp.Gen.COMPRESSION_GZIP = 1
    ∧ Kp.Gen.VARIANT_DICTIONARY_VERSION = 0x100 ∧ Kp.Gen.VARIANT_DICTIONARY_END = 0
    ∧ Kp.Gen.U32_TYPE_ID = 0x04 ∧ Kp.Gen.U64_TYPE_ID = 0x05 ∧ Kp.Gen.BOOL_TYPE_ID = 0x08
    ∧ Kp.Gen.I32_TYPE_ID = 0x0c ∧ Kp.Gen.I64_TYPE_ID = 0x0d ∧ Kp.Gen.STR_TYPE_ID = 0x18 ∧ Kp.Gen.BYTES_TYPE_ID = 0x42
    ∧ Kp.Gen.KDBX_IDENTIFIER = [0x03, 0xd9, 0xa2, 0x9a] ∧ Kp.Gen.KEEPASS_LATEST_ID = 0xb54bfb67
    ∧ Kp.Gen.KEEPASS_1_ID = 0xb54bfb65 ∧ Kp.Gen.KEEPASS_2_ID = 0xb54bfb66
    ∧ Kp.Gen.KDBX3_MAJOR_VERSION = 3 ∧ Kp.Gen.KDBX4_MAJOR_VERSION = 4 ∧ Kp.Gen.VERSION_HEADER_SIZE = 12
    ∧ Kp.Gen.HMAC_KEY_END = [1]
    ∧ Kp.Gen.KDF_ID.map (fun c => UInt8.ofNat c.toNat) = kUUID
    ∧ Kp.Gen.KDF_ROUNDS.map (fun c => UInt8.ofNat c.toNat) = kR ∧ Kp.Gen.KDF_SEED.map (fun c => UInt8.ofNat c.toNat) = kS
    ∧ Kp.Gen.KDF_SALT.map (fun c => UInt8.ofNat c.toNat) = kS ∧ Kp.Gen.KDF_MEMORY.map (fun c => UInt8.ofNat c.toNat) = kM
    ∧ Kp.Gen.KDF_ITERATIONS.map (fun c => UInt8.ofNat c.toNat) = kI
    ∧ Kp.Gen.KDF_PARALLELISM.map (fun c => UInt8.ofNat c.toNat) = kP
    ∧ Kp.Gen.KDF_VERSION.map (fun c => UInt8.ofNat c.toNat) = kV := by
  decide

/-- what each algorithm requires (written from the algorithm specifications, not from the source):
    CBC IV = block size 16; ChaCha20 (IETF) nonce 12; Salsa20 key 32; seeds 32 -/
def requiredIv : OuterCipher → Nat | .aes256 => 16 | .twofish => 16 | .chacha20 => 12
/-- minimal inner key: Salsa20 needs exactly 32; ChaCha20's key is hashed (SHA-512), 32 bytes of entropy; none for plain -/
def requiredInnerKey : InnerCipher → Nat | .plain => 0 | .salsa20 => 32 | .chacha20 => 32

/-- **C07_sizes**: the sizes in the source are the sizes the model uses and the algorithms require -/
theorem C07_sizes :
    Kp.Gen.AES256_IV_SIZE = ivSize .aes256 ∧ Kp.Gen.TWOFISH_IV_SIZE = ivSize .twofish
    ∧ Kp.Gen.CHACHA20_IV_SIZE = ivSize .chacha20
    ∧ (∀ c, ivSize c = requiredIv c)
    ∧ Kp.Gen.PLAIN_KEY_SIZE = innerKeySize .plain ∧ Kp.Gen.SALSA20_KEY_SIZE = innerKeySize .salsa20
    ∧ Kp.Gen.CHACHA20_KEY_SIZE = innerKeySize .chacha20
    ∧ (∀ c, requiredInnerKey c ≤ innerKeySize c) ∧ innerKeySize .salsa20 = 32
    ∧ Kp.Gen.HEADER_MASTER_SEED_SIZE = masterSeedSize ∧ masterSeedSize = 32
    ∧ Kp.Gen.KDF_SEED_SIZE = 32 ∧ (∀ k, kdfSeedSize k = 32)
    ∧ Kp.Gen.AES256_KEY_SIZE = 32 ∧ Kp.Gen.TWOFISH_KEY_SIZE = 32
    ∧ Kp.Gen.SALSA20_NONCE = [0xE8, 0x30, 0x09, 0x4B, 0x97, 0x20, 0x5D, 0x2A] := by
  refine ⟨by decide, by decide, by decide, fun c => by cases c <;> rfl, by decide, by decide, by decide,
    fun c => by cases c <;> decide, rfl, by decide, rfl, by decide, fun _ => rfl, by decide, by decide, by decide⟩

/-! ### what `save` writes is a conforming layout -/

theorem save_is_build (P : Prims) (c : Config) (rnd : Bytes)
    (vdOrder : List (UInt8 × Bytes × Bytes) → List (UInt8 × Bytes × Bytes))
    (atts : List (UInt8 × Bytes)) (xml composite : Bytes) :
    (saveSegments P c rnd vdOrder atts xml composite).map List.flatten
      = build P c (takeTape c rnd) (libraryLayout vdOrder) atts xml composite := by
  unfold saveSegments build
  simp only
  cases transformedKey P c.kdf (takeTape c rnd).kdfSeed composite with
  | none => rfl
  | some tk =>
    simp only [libraryLayout]
    cases P.encO c.outer (P.sha256 ((takeTape c rnd).masterSeed ++ tk)) (takeTape c rnd).iv
        (plainPayload P c (takeTape c rnd) atts false xml) with
    | none => rfl
    | some ct => simp [assemble, writeBlocks, List.append_assoc]

theorem takeTape_lengths (c : Config) (rnd : Bytes)
    (h : masterSeedSize + ivSize c.outer + innerKeySize c.inner + kdfSeedSize c.kdf ≤ rnd.length) :
    (takeTape c rnd).masterSeed.length = 32 ∧ (takeTape c rnd).iv.length = ivSize c.outer
    ∧ (takeTape c rnd).innerKey.length = innerKeySize c.inner ∧ (takeTape c rnd).kdfSeed.length = 32 := by
  simp only [takeTape, masterSeedSize, kdfSeedSize] at h ⊢
  simp only [List.length_take, List.length_drop]
  omega

/-- parameters a `DatabaseConfig` can carry (Rust integer widths; Argon2 version is an enum of two values) -/
def configInRange (c : Config) : Prop :=
  c.minor < 65536 ∧
  match c.kdf with
  | .aes rounds => rounds < 18446744073709551616
  | .argon2 _ iterations memory parallelism version =>
    iterations < 18446744073709551616 ∧ memory < 18446744073709551616 ∧ parallelism < 4294967296
      ∧ (version = 0x10 ∨ version = 0x13)

theorem vdDump_length_lt (ents : List (UInt8 × Bytes × Bytes)) (n : Nat)
    (h : (ents.flatMap fun e => vdEntryBytes e.1 e.2.1 e.2.2).length ≤ n) (hn : n + 3 < 4294967296) :
    (vdDump ents).length < 4294967296 := by
  simp only [vdDump, List.length_append, toLe16, List.length_cons, List.length_nil]
  omega

theorem library_conforming (c : Config) (rnd : Bytes) (atts : List (UInt8 × Bytes)) (ct : Bytes)
    (vdOrder : List (UInt8 × Bytes × Bytes) → List (UInt8 × Bytes × Bytes))
    (hperm : ∀ l, (vdOrder l).Perm l)
    (hr : configInRange c)
    (hrnd : masterSeedSize + ivSize c.outer + innerKeySize c.inner + kdfSeedSize c.kdf ≤ rnd.length)
    (ha : attOk atts) (hct : ct.length < 4294967296) :
    Conforming c (takeTape c rnd) (libraryLayout vdOrder) atts ct := by
  obtain ⟨l1, l2, l3, l4⟩ := takeTape_lengths c rnd hrnd
  have hkr : kdfInRange c.kdf (takeTape c rnd).kdfSeed := by
    refine ⟨by rw [l4]; decide, ?_⟩
    have := hr.2
    cases hk : c.kdf <;> rw [hk] at this <;> exact this
  have hvdlen : (vdDump (vdOrder (kdfVdEntries c.kdf (takeTape c rnd).kdfSeed))).length < 4294967296 := by
    have hp := hperm (kdfVdEntries c.kdf (takeTape c rnd).kdfSeed)
    have hlen : ((vdOrder (kdfVdEntries c.kdf (takeTape c rnd).kdfSeed)).flatMap fun e => vdEntryBytes e.1 e.2.1 e.2.2).length
        = ((kdfVdEntries c.kdf (takeTape c rnd).kdfSeed).flatMap fun e => vdEntryBytes e.1 e.2.1 e.2.2).length := by
      simp only [List.length_flatMap]
      exact (hp.map _).sum_nat
    apply vdDump_length_lt _ 400 _ (by decide)
    rw [hlen]
    cases hk : c.kdf with
    | aes r =>
      simp [kdfVdEntries, vdEntryBytes, kUUID, kR, kS, kdfAesKdbx4, l4]
    | argon2 id it mem par ver =>
      simp [kdfVdEntries, vdEntryBytes, kUUID, kM, kS, kI, kP, kV, l4]
      cases id <;> simp [kdfArgon2id, kdfArgon2d]
  refine ⟨⟨hr.1, by rw [l1]; decide, by rw [l2]; cases c.outer <;> decide, hkr, hperm _, ?_, by simp [libraryLayout],
      hvdlen, by simp [libraryLayout]⟩, fun r _ => l4, by rw [l3]; cases c.inner <;> decide,
      ha, ?_, ?_⟩
  · intro f hf
    simp [libraryLayout] at hf
    rcases hf with rfl | rfl | rfl | rfl | rfl <;> trivial
  · simp only [libraryLayout]
    split <;> simp_all
  · intro b hb
    simp only [libraryLayout] at hb
    split at hb
    · cases hb
    · simp at hb; subst hb; exact ⟨by assumption, hct⟩

/-- **C07_wellformed**: whatever `save` writes (for every configuration in range, every draw of the random
    values, every hash-map order, all attachments and XML) is read back by the faithful reader — and, by the
    framing theorem, by any reader of conforming files — as exactly what was saved. -/
theorem C07_wellformed (P : Prims) (L : P.Laws) (c : Config) (rnd : Bytes)
    (vdOrder : List (UInt8 × Bytes × Bytes) → List (UInt8 × Bytes × Bytes))
    (atts : List (UInt8 × Bytes)) (xml composite : Bytes) (segs : List Bytes)
    (hperm : ∀ l, (vdOrder l).Perm l) (hr : configInRange c)
    (hrnd : masterSeedSize + ivSize c.outer + innerKeySize c.inner + kdfSeedSize c.kdf ≤ rnd.length)
    (ha : attOk atts)
    (hsize : ∀ ct, P.encO c.outer (P.sha256 ((takeTape c rnd).masterSeed ++
        ((transformedKey P c.kdf (takeTape c rnd).kdfSeed composite).getD []))) (takeTape c rnd).iv
        (plainPayload P c (takeTape c rnd) atts false xml) = some ct → ct.length < 4294967296)
    (hs : saveSegments P c rnd vdOrder atts xml composite = some segs) :
    decrypt P segs.flatten (some composite) = .ok ⟨c, atts, (takeTape c rnd).innerKey, xml⟩ := by
  have hb := save_is_build P c rnd vdOrder atts xml composite
  rw [hs] at hb
  simp only [Option.map_some] at hb
  unfold build at hb
  cases htk : transformedKey P c.kdf (takeTape c rnd).kdfSeed composite with
  | none => rw [htk] at hb; cases hb
  | some tk =>
    rw [htk] at hb
    simp only at hb
    cases hct : P.encO c.outer (P.sha256 ((takeTape c rnd).masterSeed ++ tk)) (takeTape c rnd).iv
        (plainPayload P c (takeTape c rnd) atts (libraryLayout vdOrder).attachmentsFirst xml) with
    | none => rw [hct] at hb; cases hb
    | some ct =>
      rw [hct] at hb
      simp only at hb
      injection hb with hb
      rw [hb]
      have hlen : ct.length < 4294967296 := hsize ct (by rw [htk]; exact hct)
      exact C01_framing P L c (takeTape c rnd) (libraryLayout vdOrder) atts xml composite tk ct htk hct
        (library_conforming c rnd atts ct vdOrder hperm hr hrnd ha hlen)

end Kp.Fmt
