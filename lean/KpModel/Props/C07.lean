import KpModel.Format.Kdbx4
namespace Kp.Fmt
theorem placeholder_C07 : True := trivial
end Kp.Fmt
