import KpModel.Db.MergeLemmas
import KpModel.Db.MergeInv
import KpModel.Db.MergeSpec
import KpModel.Db.MergeDel
import KpModel.Db.MergeDelG
import KpModel.Db.MergeDelE
/-!
# C15 — merge honours deletions exactly when they are newer, and never resurrects
Property theorems only.  Proved for all inputs: the destination's tombstone list only grows (it stays a
prefix, new tombstones are the source's), the strict comparison at the boundary.  The remaining clauses
(no resurrection, present-xor-tombstoned, group deleted iff newer and empty for either tombstone order) are
evaluated by `MergeSpec.c15Clauses` on the real result of every enumerated replica pair (a test).
-/
namespace Kp.Merge

theorem deleteEntries_prefix (now : Int) : ∀ (l : List Tomb) (s : St) (nt : List Tomb) (s' : St) (nt' : List Tomb),
    deleteEntries now s nt l = .ok (s', nt') → ∃ add, nt' = nt ++ add ∧ ∀ t ∈ add, t ∈ l := by
  intro l
  induction l with
  | nil =>
    intro s nt s' nt' h
    simp [deleteEntries] at h
    exact ⟨[], by simp [h.2], by simp⟩
  | cons d rest ih =>
    intro s nt s' nt' h
    have lift : ∀ s0 nt0, deleteEntries now s0 nt0 rest = .ok (s', nt') → (∃ a0, nt0 = nt ++ a0 ∧ ∀ t ∈ a0, t ∈ d :: rest) →
        ∃ add, nt' = nt ++ add ∧ ∀ t ∈ add, t ∈ d :: rest := by
      intro s0 nt0 h0 ⟨a0, ha0, hm0⟩
      obtain ⟨a1, ha1, hm1⟩ := ih s0 nt0 s' nt' h0
      refine ⟨a0 ++ a1, by rw [ha1, ha0, List.append_assoc], ?_⟩
      intro t ht
      rcases List.mem_append.mp ht with ht | ht
      · exact hm0 t ht
      · exact List.mem_cons_of_mem _ (hm1 t ht)
    have same := fun hh => lift s nt hh ⟨[], by simp, by simp⟩
    simp only [deleteEntries] at h
    split at h
    · exact same h
    · split at h
      · exact same h
      · split at h
        · cases h
        · split at h
          · exact same h
          · split at h
            · split at h
              · cases h
              · exact lift _ _ h ⟨[d], rfl, by simp⟩
            · exact same h

theorem deleteGroups_prefix (now : Int) : ∀ (fuel : Nat) (q : List Tomb) (s : St) (nt : List Tomb) (s' : St)
    (nt' : List Tomb) (all : List Tomb), (∀ t ∈ q, t ∈ all) →
    deleteGroups now fuel s nt q = .ok (s', nt') → ∃ add, nt' = nt ++ add ∧ ∀ t ∈ add, t ∈ all := by
  intro fuel
  induction fuel with
  | zero =>
    intro q s nt s' nt' all _ h
    simp only [deleteGroups] at h
    split at h
    · injection h with h; injection h with h1 h2; exact ⟨[], by simp [h2], by simp⟩
    · cases h
  | succ fuel ih =>
    intro q s nt s' nt' all hq h
    cases q with
    | nil =>
      simp only [deleteGroups] at h
      injection h with h; injection h with h1 h2; exact ⟨[], by simp [h2], by simp⟩
    | cons d queue =>
      have hq' : ∀ t ∈ queue, t ∈ all := fun t ht => hq t (List.mem_cons_of_mem _ ht)
      have hd : d ∈ all := hq d (List.mem_cons_self ..)
      have same := fun hh => ih queue s nt s' nt' all hq' hh
      simp only [deleteGroups] at h
      split at h
      · exact same h
      · split at h
        · exact same h
        · split at h
          · cases h
          · split at h
            · exact same h
            · split at h
              · exact same h
              · split at h
                · exact ih (queue ++ [d]) s nt s' nt' all (by
                    intro t ht
                    rcases List.mem_append.mp ht with ht | ht
                    · exact hq' t ht
                    · simp at ht; rw [ht]; exact hd) h
                · split at h
                  · exact same h
                  · split at h
                    · split at h
                      · cases h
                      · obtain ⟨a1, ha1, hm1⟩ := ih queue _ (nt ++ [d]) s' nt' all hq' h
                        refine ⟨d :: a1, by rw [ha1]; simp, ?_⟩
                        intro t ht
                        cases ht with
                        | head => exact hd
                        | tail _ ht' => exact hm1 t ht'
                    · exact same h

/-- the destination's tombstone list only grows: after a merge it is a prefix of the result's list, and
    every added tombstone is one of the source's -/
theorem tombstones_monotone (now : Int) (dst src r : Db) (evs : List Event)
    (h : merge now dst src = .ok (r, evs)) :
    ∃ add, r.tombs = dst.tombs ++ add ∧ ∀ t ∈ add, t ∈ src.tombs := by
  unfold merge at h
  simp only [bind, Except.bind, pure, Except.pure] at h
  split at h
  · cases h
  · split at h
    · cases h
    · split at h
      · cases h
      · rename_i sd hmd
        obtain ⟨s3, tb⟩ := sd
        injection h with h; injection h with h1 h2
        subst h1
        unfold mergeDeletions at hmd
        simp only [bind, Except.bind] at hmd
        split at hmd
        · cases hmd
        · rename_i p1 hde
          obtain ⟨s1, nt1⟩ := p1
          obtain ⟨a1, ha1, hm1⟩ := deleteEntries_prefix now _ _ _ _ _ hde
          obtain ⟨a2, ha2, hm2⟩ := deleteGroups_prefix now _ _ _ _ _ _ src.tombs
            (fun t ht => (List.mem_filter.mp ht).1) hmd
          refine ⟨a1 ++ a2, by simp only; rw [ha2, ha1, List.append_assoc], ?_⟩
          intro t ht
          rcases List.mem_append.mp ht with ht | ht
          · exact hm1 t ht
          · exact hm2 t ht

/-- boundary: a deletion stamped with exactly the entry's modification time does not remove it
    (the comparison is strict) -/
theorem deletion_time_equal_keeps (now : Int) (s : St) (nt : List Tomb) (d : Tomb) (loc : List Nat)
    (parent : Node) (e : Entry)
    (h0 : tombsContain nt d.uuid = false) (h1 : findLoc s.root d.uuid = some loc)
    (h2 : findGroup s.root loc = some parent) (h3 : findEntry parent [d.uuid] = some e)
    (h4 : e.d.times.mtime = some d.time) :
    deleteEntries now s nt [d] = .ok (s, nt) := by
  simp [deleteEntries, h0, h1, h2, h3, h4]

/-- C15 at full strength (global) -/
def C15_full (WellFormedPair : Db → Db → Prop) : Prop :=
  ∀ (now : Int) (a b r : Db) (evs : List Event), WellFormedPair a b → merge now a b = .ok (r, evs) →
    Kp.MergeSpec.c15Clauses a b r = []

/-- **C15 (never resurrects)**: a node the destination has already deleted — tombstoned there and absent from its tree — is
    not below the root of what `merge` returns, whatever the source holds (the node itself, newer versions of it, children
    below it): entries and groups are created only under UUIDs the destination has no tombstone for, everything else the
    group passes do is an update in place or a move, and the deletion passes only remove.  For every destination that is a
    group with pairwise distinct UUIDs below it and every source. -/
theorem C15_never_resurrects (now : Int) (dst src d' : Db) (evs : List Event) (hr : dst.root.isGroup = true)
    (hn : (uuidsL dst.root.children).Nodup) (h : merge now dst src = .ok (d', evs)) (u : Nat)
    (ht : tombsContain dst.tombs u = true) (hu : u ∉ uuidsL dst.root.children) : u ∉ uuidsL d'.root.children :=
  merge_noResurrection now dst src d' evs ⟨hr, hn⟩ h u ht hu

/-- **C15 (no node is both present and tombstoned)**: when no node of the destination has a tombstone in the destination's own
    list, no node of what `merge` returns has a tombstone in the list it returns — created nodes have no tombstone in the
    destination, a tombstone taken over from the source goes with the removal of its node, and under pairwise distinct UUIDs
    the removed node was the only one with that UUID.  For every source. -/
theorem C15_no_node_present_and_tombstoned (now : Int) (dst src d' : Db) (evs : List Event) (hr : dst.root.isGroup = true)
    (hn : (uuidsL dst.root.children).Nodup) (hc : ∀ u ∈ uuidsL dst.root.children, tombsContain dst.tombs u = false)
    (h : merge now dst src = .ok (d', evs)) : ∀ u ∈ uuidsL d'.root.children, tombsContain d'.tombs u = false :=
  merge_clean now dst src d' evs ⟨hr, hn⟩ hc h

/-- **C15 (an entry's deletion is honoured exactly when it is newer)**: the destination holds an entry, has no tombstone for it,
    and the source's tree no longer holds it.  Then `merge` removes the entry and records a tombstone for it if one of the
    source's tombstones for it is later than the entry's last modification in the destination (a missing time counts as `now`);
    and if none is, the entry stays and no tombstone for it is recorded — whatever else the merge does (the group passes leave
    the entry's modification time alone, the group deletion pass removes empty groups only).  For every destination that is a
    group with pairwise distinct UUIDs below it and a root UUID of its own, and every source whose root is a group. -/
theorem C15_entry_deleted_iff_newer (now : Int) (dst src d' : Db) (evs : List Event)
    (hr : dst.root.isGroup = true) (hn : (uuidsL dst.root.children).Nodup) (hfd : dst.root.uuid ∉ uuidsL dst.root.children)
    (hsg : src.root.isGroup = true) (h : merge now dst src = .ok (d', evs))
    (pd : List Nat) (de : Entry) (hd : findEntry dst.root pd = some de)
    (hsrc : de.d.uuid ∉ uuidsL src.root.children) (hnt : tombsContain dst.tombs de.d.uuid = false) :
    ((∃ d ∈ src.tombs, d.uuid = de.d.uuid ∧ de.d.times.mtime.getD now < d.time) →
        de.d.uuid ∉ uuidsL d'.root.children ∧ tombsContain d'.tombs de.d.uuid = true)
    ∧ ((∀ d ∈ src.tombs, d.uuid = de.d.uuid → ¬ (de.d.times.mtime.getD now < d.time)) →
        de.d.uuid ∈ uuidsL d'.root.children ∧ tombsContain d'.tombs de.d.uuid = false) :=
  merge_entry_deletion now dst src d' evs ⟨hr, hn⟩ hfd hsg h pd de hd hsrc hnt

/-- **C15 (what nobody deleted stays)**: a node of the destination that neither replica has a tombstone for is below the root of
    the result — the result's tombstones all come from the two lists (`tombstones_monotone`), and a node of the destination is in
    the result or tombstoned there (`merge_keeps`). -/
theorem C15_untombstoned_node_stays (now : Int) (dst src d' : Db) (evs : List Event) (hr : dst.root.isGroup = true)
    (hn : (uuidsL dst.root.children).Nodup) (h : merge now dst src = .ok (d', evs)) (u : Nat)
    (hu : u ∈ uuidsL dst.root.children) (hd : tombsContain dst.tombs u = false) (hs : tombsContain src.tombs u = false) :
    u ∈ uuidsL d'.root.children ∧ tombsContain d'.tombs u = false := by
  obtain ⟨add, hadd, hfrom⟩ := tombstones_monotone now dst src d' evs h
  have hno : tombsContain d'.tombs u = false := by
    rw [hadd, tombsContain_append, hd, Bool.false_or]
    cases hc : tombsContain add u with
    | false => rfl
    | true =>
      unfold tombsContain at hc hs
      obtain ⟨t, ht, htu⟩ := List.any_eq_true.mp hc
      have : src.tombs.any (·.uuid == u) = true := List.any_eq_true.mpr ⟨t, hfrom t ht, htu⟩
      rw [this] at hs; cases hs
  rcases merge_keeps now dst src d' evs ⟨hr, hn⟩ h u hu with h1 | h1
  · exact ⟨h1, hno⟩
  · rw [hno] at h1; cases h1

/-- the premises of `C15_entry_deleted_iff_newer` are met by a non-trivial pair, in both directions -/
def exDelDst : Db := ⟨.group 1 0 ⟨some 5, none, 0⟩ [.group 2 0 ⟨some 5, none, 0⟩ [.entry ⟨⟨10, 7, ⟨some 20, none, 0⟩⟩, some []⟩]], []⟩
def exDelSrcNewer : Db := ⟨.group 1 0 ⟨some 5, none, 0⟩ [.group 2 0 ⟨some 5, none, 0⟩ []], [⟨10, 25⟩]⟩
def exDelSrcOlder : Db := ⟨.group 1 0 ⟨some 5, none, 0⟩ [.group 2 0 ⟨some 5, none, 0⟩ []], [⟨10, 15⟩]⟩
set_option linter.unusedSimpArgs false in
set_option maxRecDepth 4000 in
example : merge 100 exDelDst exDelSrcNewer
    = .ok (⟨.group 1 0 ⟨some 5, none, 0⟩ [.group 2 0 ⟨some 5, none, 0⟩ []], [⟨10, 25⟩]⟩, [(.entryDeleted, 10)])
    ∧ merge 100 exDelDst exDelSrcOlder = .ok (⟨exDelDst.root, []⟩, []) := by
  constructor <;>
  simp [merge, exDelDst, exDelSrcNewer, exDelSrcOlder, mergeRoot, groupMergeData, groupCount, groupCountL, mergePasses, mergeGroup, mergeEntries,
    mergeSubgroups, findLoc, findLocL, findLocG, findEntry, findGroup, getPath, updatePath, updFirst, removeNode, St.ev,
    mergeDeletions, deleteEntries, deleteGroups, deletionFuel, tombsContain, Node.children, Node.uuid, Node.isGroup, Node.setChildren,
    bind, Except.bind, pure, Except.pure]
example : findEntry exDelDst.root [2, 10] = some ⟨⟨10, 7, ⟨some 20, none, 0⟩⟩, some []⟩ := by
  simp [findEntry, getPath, exDelDst, Node.children, Node.uuid, Node.isGroup]
example : (uuidsL exDelDst.root.children).Nodup ∧ exDelDst.root.uuid ∉ uuidsL exDelDst.root.children
    ∧ (10 : Nat) ∉ uuidsL exDelSrcNewer.root.children := by decide

/-- **C15 (a group is kept unless a tombstone for it is newer)**: the destination holds a group below its root, has no tombstone
    for it, and the source's tree no longer holds it.  When none of the source's tombstones for it is later than the group's last
    modification in the destination, the group is in the result and no tombstone for it is recorded (the group passes leave the
    modification time of a group the source does not hold alone; the entry pass removes entries only; the group pass removes a
    group only under a tombstone later than its modification time).  The converse direction for groups also needs the group to be
    empty once its own deleted children are gone; it is validated by the reference clauses, not proved. -/
theorem C15_group_kept_unless_newer (now : Int) (dst src d' : Db) (evs : List Event)
    (hr : dst.root.isGroup = true) (hn : (uuidsL dst.root.children).Nodup) (hfd : dst.root.uuid ∉ uuidsL dst.root.children)
    (hsg : src.root.isGroup = true) (h : merge now dst src = .ok (d', evs))
    (pd : List Nat) (hpd : pd ≠ []) (u c : Nat) (t : Times) (ch : List Node)
    (hd : getPath dst.root pd = some (.group u c t ch))
    (hsrc : u ∉ uuidsL src.root.children) (hsr : src.root.uuid ≠ u) (hnt : tombsContain dst.tombs u = false)
    (hall : ∀ d ∈ src.tombs, d.uuid = u → ¬ (t.mtime.getD now < d.time)) :
    u ∈ uuidsL d'.root.children ∧ tombsContain d'.tombs u = false :=
  merge_group_kept now dst src d' evs ⟨hr, hn⟩ hfd hsg h pd hpd u c t ch hd hsrc hsr hnt hall

/-- **C15 (an empty group with a newer tombstone is deleted)**: the destination holds the group `u` below its root, without
    children and without a tombstone for it (the same root group on both sides, with a UUID of its own); the source's tree does
    not hold `u`, and one of the source's tombstones for it is later than the group's last modification in the destination.
    Then the merge removes the group and records a tombstone for it: the group passes put nothing into a group the source does
    not hold (`mergeGroup_frame`: every append goes to the group the source frame designates), leave its modification time alone,
    and the work queue of `merge_deletions` reaches the newer tombstone while the group is still there.  With
    `C15_group_kept_unless_newer`: an empty group disappears if and only if a tombstone for it is newer. -/
theorem C15_empty_group_deleted_if_newer (now : Int) (dst src d' : Db) (evs : List Event)
    (hr : dst.root.isGroup = true) (hn : (uuidsL dst.root.children).Nodup)
    (hrs : src.root.isGroup = true) (hns : (uuidsL src.root.children).Nodup)
    (hru : src.root.uuid = dst.root.uuid)
    (hfd : dst.root.uuid ∉ uuidsL dst.root.children) (hfs : src.root.uuid ∉ uuidsL src.root.children)
    (h : merge now dst src = .ok (d', evs)) (pd : List Nat) (hpd : pd ≠ []) (u c : Nat) (t : Times)
    (hd : getPath dst.root pd = some (.group u c t []))
    (hsrc : u ∉ uuidsL src.root.children) (hnt : tombsContain dst.tombs u = false)
    (hex : ∃ d ∈ src.tombs, d.uuid = u ∧ t.mtime.getD now < d.time) :
    u ∉ uuidsL d'.root.children ∧ tombsContain d'.tombs u = true :=
  merge_empty_group_deleted now dst src d' evs ⟨hr, hn⟩ ⟨hrs, hns⟩ hru hfd hfs h pd hpd u c t hd hsrc hnt hex

/-- the premises are met: the source deleted the empty group 2 at time 9, the destination last touched it at 5 -/
def exGDelDst : Db := ⟨.group 1 0 ⟨some 5, none, 0⟩ [.group 2 0 ⟨some 5, none, 0⟩ [], .group 3 0 ⟨some 5, none, 0⟩ []], []⟩
def exGDelSrc : Db := ⟨.group 1 0 ⟨some 5, none, 0⟩ [.group 3 0 ⟨some 5, none, 0⟩ []], [⟨2, 9⟩]⟩
set_option linter.unusedSimpArgs false in
set_option maxRecDepth 8000 in
example : merge 100 exGDelDst exGDelSrc
    = .ok (⟨.group 1 0 ⟨some 5, none, 0⟩ [.group 3 0 ⟨some 5, none, 0⟩ []], [⟨2, 9⟩]⟩, [(.groupDeleted, 2)]) := by
  simp [merge, exGDelDst, exGDelSrc, mergeRoot, groupMergeData, groupCount, groupCountL, mergePasses, mergeGroup, mergeEntries,
    mergeSubgroups, refreshPath, findLoc, findLocL, findLocG, findEntry, findGroup, getPath, updatePath, updFirst, removeNode, St.ev,
    mergeDeletions, deleteEntries, deleteGroups, deletionFuel, tombsContain, Node.children, Node.uuid, Node.isGroup, Node.setChildren,
    Node.times, bind, Except.bind, pure, Except.pure]

end Kp.Merge
