import KpModel.Db.TreeLemmas
/-!
# C18 — tree traversal visits every node once and path lookup agrees with it

Property theorems only.  Model: `KpModel/Db/Tree.lean` (tied to `Group::{iter,get,get_mut,entries,groups}`
by the correspondence op `tree`).
-/
namespace Kp.Tree
open Node

/-- C18 at full strength, as one statement about every tree `g` and every path `p`. -/
def C18_full : Prop :=
  ∀ g : Node,
    -- iteration = level order: root, then each deeper level in child order (parents before children)
    iter g = levelsUpTo (depth g) [g]
    -- every node exactly once (as a multiset the iteration is the pre-order enumeration of the tree)
    ∧ (iter g).Perm (preorder g) ∧ (iter g).length = size g
    -- path lookup
    ∧ get g [] = some g
    ∧ (∀ h, get g [h] = g.children.find? (·.titleMatches h))
    ∧ (∀ h h' t, get g (h :: h' :: t) =
          (g.children.find? (fun n => n.isGroup && n.titleMatches h)).bind (get · (h' :: t)))
    ∧ (∀ p, getMut g p = get g p)
    ∧ (∀ p r, get g p = some r → r ∈ iter g)
    -- listings partition the children in order
    ∧ (entries g).Sublist g.children ∧ (groups g).Sublist g.children
    ∧ (∀ c ∈ g.children, (c ∈ entries g ↔ c.isGroup = false) ∧ (c ∈ groups g ↔ c.isGroup = true))
    ∧ (entries g).length + (groups g).length = g.children.length

theorem iter_levels (g : Node) : iter g = levelsUpTo (depth g) [g] := by
  unfold iter
  rw [bfs_levels (depth g) [g], level_of_depth_le (depth g) [g] (by simp [depthList]), bfs_nil]
  simp

theorem iter_perm (g : Node) : (iter g).Perm (preorder g) := by
  have := bfs_perm_preorder [g]
  simpa [iter, preorderList] using this

theorem iter_length (g : Node) : (iter g).length = size g := by
  rw [(iter_perm g).length_eq]
  have := length_preorderList [g]
  simpa [preorderList, sizeList] using this

theorem get_nil (g : Node) : get g [] = some g := by simp [get]

theorem get_single (g : Node) (h : String) :
    get g [h] = g.children.find? (·.titleMatches h) := by simp [get]

theorem get_step (g : Node) (h h' : String) (t : List String) :
    get g (h :: h' :: t) =
      (g.children.find? (fun n => n.isGroup && n.titleMatches h)).bind (get · (h' :: t)) := by
  rw [get, findGroup]
  cases g.children.find? (fun n => n.isGroup && n.titleMatches h) <;> simp

private theorem getMutPick_eq_guard (h : String) :
    getMutPick h = Option.guard (fun n => n.isGroup && n.titleMatches h) := by
  funext n
  cases n with
  | group i nm ch =>
    simp only [getMutPick, Option.guard, isGroup, Bool.true_and]
  | entry i t =>
    simp only [getMutPick, Option.guard, isGroup, Bool.false_and]
    rfl

private theorem findSome_group (cs : List Node) (h : String) :
    cs.findSome? (getMutPick h) = cs.find? (fun n => n.isGroup && n.titleMatches h) := by
  rw [getMutPick_eq_guard, List.findSome?_guard]

theorem getMut_eq_get (g : Node) (p : List String) : getMut g p = get g p := by
  induction p generalizing g with
  | nil => simp [get, getMut]
  | cons h t ih =>
    cases t with
    | nil => simp [get, getMut, List.head?_filter]
    | cons h' t' =>
      rw [get, getMut, findSome_group, findGroup]
      cases g.children.find? (fun n => n.isGroup && n.titleMatches h) with
      | none => rfl
      | some c => exact ih c

theorem get_mem_preorder (g : Node) (p : List String) (r : Node) (h : get g p = some r) :
    r ∈ preorder g := by
  induction p generalizing g with
  | nil =>
    simp [get] at h; subst h; exact mem_preorder_self _
  | cons hd t ih =>
    cases t with
    | nil =>
      simp only [get] at h
      have hm := List.mem_of_find?_eq_some h
      exact mem_preorder_of_child hm (mem_preorder_self r)
    | cons h' t' =>
      rw [get_step] at h
      cases hf : g.children.find? (fun n => n.isGroup && n.titleMatches hd) with
      | none => simp [hf] at h
      | some c =>
        simp [hf] at h
        exact mem_preorder_of_child (List.mem_of_find?_eq_some hf) (ih c h)

theorem get_mem_iter (g : Node) (p : List String) (r : Node) (h : get g p = some r) : r ∈ iter g :=
  (iter_perm g).mem_iff.mpr (get_mem_preorder g p r h)

theorem entries_groups_partition (g : Node) :
    (entries g).Sublist g.children ∧ (groups g).Sublist g.children
    ∧ (∀ c ∈ g.children, (c ∈ entries g ↔ c.isGroup = false) ∧ (c ∈ groups g ↔ c.isGroup = true))
    ∧ (entries g).length + (groups g).length = g.children.length := by
  refine ⟨List.filter_sublist, List.filter_sublist, ?_, ?_⟩
  · intro c hc
    simp [entries, groups, hc]
  · simp only [entries, groups]
    induction g.children with
    | nil => simp
    | cons c cs ih =>
      cases hcg : c.isGroup <;> simp [hcg] <;> omega

theorem C18 : C18_full := by
  intro g
  have hp := entries_groups_partition g
  exact ⟨iter_levels g, iter_perm g, iter_length g, get_nil g, get_single g, get_step g,
    getMut_eq_get g, get_mem_iter g, hp.1, hp.2.1, hp.2.2.1, hp.2.2.2⟩

/-- First-match semantics spelled out: the child found for the head of a path is the first one that
    matches it (and, when more steps follow, is a group); earlier children do not qualify. -/
theorem get_first_match (g : Node) (h : String) (t : List String) (r : Node)
    (hr : get g (h :: t) = some r) :
    ∃ (i : Nat) (c : Node), g.children[i]? = some c ∧ c.titleMatches h = true
      ∧ (t ≠ [] → c.isGroup = true ∧ get c t = some r) ∧ (t = [] → r = c)
      ∧ ∀ j : Nat, j < i → ∀ c' : Node, g.children[j]? = some c' →
          ¬ (c'.titleMatches h = true ∧ (t = [] ∨ c'.isGroup = true)) := by
  cases t with
  | nil =>
    rw [get_single] at hr
    obtain ⟨hm, i, hi, heq, hlt⟩ := List.find?_eq_some_iff_getElem.mp hr
    refine ⟨i, r, by simp [hi, heq], hm, by simp, by simp, ?_⟩
    intro j hj c' hc' ⟨hm', _⟩
    have hjl : j < g.children.length := by omega
    have := hlt j hj
    rw [List.getElem?_eq_getElem hjl] at hc'
    have hc'' := Option.some.inj hc'
    rw [hc''] at this
    simp [hm'] at this
  | cons h' t' =>
    rw [get_step] at hr
    cases hf : g.children.find? (fun n => n.isGroup && n.titleMatches h) with
    | none => simp [hf] at hr
    | some c =>
      simp [hf] at hr
      obtain ⟨hm, i, hi, heq, hlt⟩ := List.find?_eq_some_iff_getElem.mp hf
      simp only [Bool.and_eq_true] at hm
      refine ⟨i, c, by simp [hi, heq], hm.2, fun _ => ⟨hm.1, hr⟩, by simp, ?_⟩
      intro j hj c' hc' ⟨hm', hg'⟩
      have hjl : j < g.children.length := by omega
      have := hlt j hj
      rw [List.getElem?_eq_getElem hjl] at hc'
      have hc'' := Option.some.inj hc'
      rw [hc''] at this
      simp at hg'
      simp [hm', hg'] at this

/-! Non-vacuity / sanity on a concrete tree with a repeated title and an entry shadowing a group. -/
def sample : Node :=
  group 0 "Root" [entry 1 (some "A"), group 2 "A" [entry 3 (some "x"), group 4 "B" []],
                  group 5 "A" [entry 6 (some "y")], entry 7 none]

example : (iter sample).map Node.id = [0, 1, 2, 5, 7, 3, 4, 6] := by
  simp [iter, sample, bfs_cons, bfs_nil, children, Node.id]
example : (get sample ["A"]).map Node.id = some 1 := by
  simp [get, sample, children, titleMatches, Node.id]
example : (get sample ["A", "x"]).map Node.id = some 3 := by
  simp [get, findGroup, sample, children, titleMatches, isGroup, Node.id]
example : (get sample ["A", "y"]).map Node.id = none := by
  simp [get, findGroup, sample, children, titleMatches, isGroup]

end Kp.Tree
