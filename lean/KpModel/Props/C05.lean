import KpModel.Props.C04
/-!
# C05 — a KDBX4 file cannot be altered without the key and still open differently
Property theorems only, over the faithful model of `decrypt_kdbx4` / `read_hmac_block_stream` on
*arbitrary* bytes.  What the reader accepts was verified: every accepted block under the MAC key of its own
index (`blocks_authenticated`), the header under the header MAC key (C04).  Under the idealisation that a MAC
verifies only for what the honest writer authenticated (`Unforgeable`, a hypothesis), the accepted data is a
prefix of the original blocks (`C05_blocks_prefix`) that is followed by a verified empty end-of-stream block; when the
only empty block the writer authenticated is that of the end of the stream, the accepted data is the whole original data
(`C05_blocks_whole`).  Before the repair of F21 the reader accepted a stream that simply stopped (see DESIGN.md).
-/
namespace Kp.Fmt

/-- "block `b` was verified at index `i` somewhere in the stream": its MAC under the key of index `i`,
    followed by its length field and its bytes, occurs in the stream -/
def Verified (P : Prims) (hk stream : Bytes) (i : Nat) (b : Bytes) : Prop :=
  ∃ sizeBytes, sizeBytes.length = 4 ∧ le32 sizeBytes = b.length
    ∧ (blockMac P hk i sizeBytes b ++ sizeBytes ++ b) <:+: stream

/-- every block the reader accepts was verified under the key of its own index, in order, starting at the
    index the reader started with — for every byte string -/
theorem blocks_authenticated (P : Prims) (hk : Bytes) (whole : Bytes) :
    ∀ (fuel : Nat) (pre rest : Bytes) (idx : Nat) (out r : Bytes), whole = pre ++ rest →
      readBlocks P hk fuel rest idx out = .ok r →
      ∃ bs : List Bytes, r = out ++ bs.flatten ∧ (∀ b ∈ bs, b ≠ [])
        ∧ (∀ j (hj : j < bs.length), Verified P hk whole (idx + j) bs[j])
        ∧ (rest.length < fuel → Verified P hk whole (idx + bs.length) []) := by
  intro fuel
  induction fuel with
  | zero =>
    intro pre rest idx out r _ h
    simp only [readBlocks] at h
    injection h with h
    exact ⟨[], by simp [h], by simp, by simp, fun hl => absurd hl (Nat.not_lt_zero _)⟩
  | succ fuel ih =>
    intro pre rest idx out r hw h
    rw [readBlocks] at h
    simp only [] at h
    split at h
    · cases h
    · split at h
      · cases h
      · split at h
        · cases h
        · split at h
          · cases h
          · rename_i h0 h32 h4 hsz
            generalize hmac : rest.take 32 = mac at h
            generalize hsb : (rest.drop 32).take 4 = sizeBytes at h hsz
            generalize hblock : ((rest.drop 32).drop 4).take (le32 sizeBytes) = block at h
            split at h
            · cases h
            · rename_i hne
              have hmaceq : mac = blockMac P hk idx sizeBytes block := by
                simpa using hne
              have hsbl : sizeBytes.length = 4 := by
                rw [← hsb, List.length_take]; omega
              have hbl : block.length = le32 sizeBytes := by
                rw [← hblock, List.length_take]; omega
              have hrest : rest = mac ++ sizeBytes ++ block ++ ((rest.drop 32).drop 4).drop (le32 sizeBytes) := by
                have e1 : mac ++ rest.drop 32 = rest := by rw [← hmac]; exact List.take_append_drop ..
                have e2 : sizeBytes ++ (rest.drop 32).drop 4 = rest.drop 32 := by
                  rw [← hsb]; exact List.take_append_drop ..
                have e3 : block ++ ((rest.drop 32).drop 4).drop (le32 sizeBytes) = (rest.drop 32).drop 4 := by
                  rw [← hblock]; exact List.take_append_drop ..
                rw [List.append_assoc, List.append_assoc, e3, e2, e1]
              split at h
              · rename_i hz0
                injection h with h
                refine ⟨[], by simp [h], by simp, by simp, fun _ => ?_⟩
                have hb0 : block = [] := by
                  apply List.eq_nil_of_length_eq_zero
                  rw [hbl]; exact hz0
                refine ⟨sizeBytes, hsbl, by simp [hz0], ?_⟩
                simp only [List.length_nil, Nat.add_zero, List.append_nil]
                rw [← hb0, ← hmaceq, hw]
                refine ⟨pre, block ++ ((rest.drop 32).drop 4).drop (le32 sizeBytes), ?_⟩
                conv => rhs; rw [hrest]
                simp [List.append_assoc]
              · rename_i hz
                have hw' : whole = (pre ++ (mac ++ sizeBytes ++ block)) ++ ((rest.drop 32).drop 4).drop (le32 sizeBytes) := by
                  rw [hw]
                  conv => lhs; rw [hrest]
                  simp [List.append_assoc]
                obtain ⟨bs, hr, hnonempty, hver, hterm⟩ := ih _ _ (idx + 1) (out ++ block) r hw' h
                refine ⟨block :: bs, by rw [hr]; simp [List.append_assoc], ?_, ?_, ?_⟩
                rotate_left 2
                · intro hl
                  have hlen : (((rest.drop 32).drop 4).drop (le32 sizeBytes)).length < fuel := by
                    simp only [List.length_drop]; omega
                  have := hterm hlen
                  rw [show idx + (block :: bs).length = idx + 1 + bs.length by simp; omega]
                  exact this
                · intro b hb
                  cases hb with
                  | head => intro hb0; rw [hb0] at hbl; simp at hbl; omega
                  | tail _ hb' => exact hnonempty b hb'
                · intro j hj
                  cases j with
                  | zero =>
                    refine ⟨sizeBytes, hsbl, hbl.symm, ?_⟩
                    simp only [List.getElem_cons_zero, Nat.add_zero]
                    rw [← hmaceq, hw']
                    exact ⟨pre, ((rest.drop 32).drop 4).drop (le32 sizeBytes), by simp [List.append_assoc]⟩
                  | succ j =>
                    have := hver j (by simp at hj; omega)
                    simp only [List.getElem_cons_succ]
                    rw [show idx + (j + 1) = idx + 1 + j by omega]
                    exact this

/-- the idealisation of HMAC, as a hypothesis about a particular tampered stream: whatever verifies at index `i`
    is the honest writer's `i`-th block -/
def Unforgeable (P : Prims) (hk : Bytes) (parts : List Bytes) (stream' : Bytes) : Prop :=
  ∀ i b, b ≠ [] → Verified P hk stream' i b → parts[i]? = some b

/-- **C05_blocks_prefix**: under `Unforgeable`, whatever the attacker did to the block stream (substituting bytes,
    swapping, duplicating, dropping, truncating, re-indexing, appending), the data the reader accepts is the
    concatenation of the first `m` original blocks, for some `m` -/
theorem C05_blocks_prefix (P : Prims) (hk : Bytes) (parts : List Bytes) (stream' r : Bytes)
    (hu : Unforgeable P hk parts stream')
    (h : readBlocks P hk (stream'.length + 1) stream' 0 [] = .ok r) :
    ∃ m, r = (parts.take m).flatten ∧ Verified P hk stream' m [] := by
  obtain ⟨bs, hr, hne, hver, hterm⟩ := blocks_authenticated P hk stream' (stream'.length + 1) [] stream' 0 [] r (by simp) h
  refine ⟨bs.length, ?_, by simpa using hterm (by omega)⟩
  rw [hr, List.nil_append]
  congr 1
  apply List.ext_getElem?
  intro j
  by_cases hj : j < bs.length
  · have hv := hver j hj
    simp only [Nat.zero_add] at hv
    have hp := hu j bs[j] (hne _ (List.getElem_mem hj)) hv
    rw [List.getElem?_eq_getElem hj, List.getElem?_take, if_pos hj, hp]
  · rw [List.getElem?_eq_none (by omega), List.getElem?_take, if_neg hj]

/-- the header: a file that opens carries a header MAC that verifies under the key derived from the file's own
    header fields and the credentials — for every byte string -/
theorem C05_header_mac_verified (P : Prims) (data : Bytes) (comp : Bytes) (d : Decrypted)
    (h : decrypt P data (some comp) = .ok d) :
    ∃ hdr hstart tk, parseOuterHeader data = .ok (hdr, hstart) ∧ runKdf P hdr.kdf hdr.kdfSeed comp = .ok tk
      ∧ sliceE data hstart (hstart + 32) = .ok (P.sha256 (data.take hstart))
      ∧ sliceE data (hstart + 32) (hstart + 64)
          = .ok (P.hmac256 (blockKey P (P.sha512 (hdr.masterSeed ++ tk ++ [1])) u64Max) (data.take hstart)) := by
  unfold decrypt at h
  simp only [bind, Outcome.bind] at h
  cases hp : parseOuterHeader data with
  | err e => rw [hp] at h; cases h
  | panic s => rw [hp] at h; cases h
  | ok p =>
    obtain ⟨hdr, hstart⟩ := p
    rw [hp] at h
    simp only at h
    cases hs1 : sliceE data 0 hstart with
    | err e => rw [hs1] at h; cases h
    | panic s => rw [hs1] at h; cases h
    | ok headerData =>
      rw [hs1] at h; simp only at h
      cases hs2 : sliceE data hstart (hstart + 32) with
      | err e => rw [hs2] at h; cases h
      | panic s => rw [hs2] at h; cases h
      | ok headerSha =>
        rw [hs2] at h; simp only at h
        cases hs3 : sliceE data (hstart + 32) (hstart + 64) with
        | err e => rw [hs3] at h; cases h
        | panic s => rw [hs3] at h; cases h
        | ok headerHmac =>
          rw [hs3] at h; simp only at h
          cases hs4 : sliceE data (hstart + 64) data.length with
          | err e => rw [hs4] at h; cases h
          | panic s => rw [hs4] at h; cases h
          | ok stream =>
            rw [hs4] at h; simp only at h
            have hhd : headerData = data.take hstart := by
              unfold sliceE at hs1
              split at hs1
              · injection hs1 with hs1; simp at hs1; exact hs1.symm
              · cases hs1
            split at h
            · cases h
            · rename_i hsha
              have hshaeq : headerSha = P.sha256 headerData := by simpa using hsha
              cases hk : runKdf P hdr.kdf hdr.kdfSeed comp with
              | err e => rw [hk] at h; cases h
              | panic s => rw [hk] at h; cases h
              | ok tk =>
                rw [hk] at h; simp only at h
                split at h
                · cases h
                · rename_i hm
                  have hmeq : headerHmac = P.hmac256 (blockKey P (P.sha512 (hdr.masterSeed ++ tk ++ [1])) u64Max) headerData := by
                    simpa using hm
                  exact ⟨hdr, hstart, tk, rfl, hk, by rw [← hhd, ← hshaeq]; exact hs2, by rw [← hhd, ← hmeq]; exact hs3⟩

/-- **C05_blocks_whole** (after the repair of F21: a stream that stops without the empty end-of-stream block is rejected):
    under `Unforgeable`, and when the only empty block the honest writer authenticated is the end-of-stream block (index
    `parts.length`) — the same idealisation of HMAC, for the empty block —, whatever the attacker did to the block stream the data
    the reader accepts is the *whole* original data, never a strict prefix of it -/
theorem C05_blocks_whole (P : Prims) (hk : Bytes) (parts : List Bytes) (stream' r : Bytes)
    (hu : Unforgeable P hk parts stream') (hend : ∀ i, Verified P hk stream' i [] → i = parts.length)
    (h : readBlocks P hk (stream'.length + 1) stream' 0 [] = .ok r) : r = parts.flatten := by
  obtain ⟨m, hr, hv⟩ := C05_blocks_prefix P hk parts stream' r hu h
  rw [hr, hend m hv, List.take_length]

/-- what `decrypt_kdbx4` does with the data the block reader hands on: decrypt, decompress, inner header -/
def finish (P : Prims) (h : OuterHeader) (masterKey payloadEnc : Bytes) : Outcome Decrypted :=
  match P.decO h.cipher masterKey h.iv payloadEnc with
  | none => .err .integrity
  | some payloadCompressed =>
    match (if h.compression then P.gunzip payloadCompressed else some payloadCompressed) with
    | none => .err .io
    | some payload => do
      let (ia, bodyStart) ← innerLoop (payload.length + 1) payload 0 {}
      match ia.cipher, ia.key with
      | some ic, some ik => .ok ⟨⟨h.minor, h.cipher, h.compression, ic, h.kdf⟩, ia.attachments, ik, payload.drop bodyStart⟩
      | _, _ => .err .integrity

/-- a file that opens: its header parses, the key derivation succeeds, the block reader accepts the rest of the file, and the
    result is `finish` of what the block reader returned — for every byte string -/
theorem decrypt_ok_factors (P : Prims) (data : Bytes) (comp : Bytes) (d : Decrypted)
    (h : decrypt P data (some comp) = .ok d) :
    ∃ hdr hstart tk stream r, parseOuterHeader data = .ok (hdr, hstart) ∧ runKdf P hdr.kdf hdr.kdfSeed comp = .ok tk
      ∧ sliceE data (hstart + 64) data.length = .ok stream
      ∧ readBlocks P (P.sha512 (hdr.masterSeed ++ tk ++ [1])) (stream.length + 1) stream 0 [] = .ok r
      ∧ finish P hdr (P.sha256 (hdr.masterSeed ++ tk)) r = .ok d := by
  unfold decrypt at h
  simp only [bind, Outcome.bind] at h
  cases hp : parseOuterHeader data with
  | err e => rw [hp] at h; cases h
  | panic s => rw [hp] at h; cases h
  | ok p =>
    obtain ⟨hdr, hstart⟩ := p
    rw [hp] at h
    simp only at h
    cases hs1 : sliceE data 0 hstart with
    | err e => rw [hs1] at h; cases h
    | panic s => rw [hs1] at h; cases h
    | ok headerData =>
      rw [hs1] at h; simp only at h
      cases hs2 : sliceE data hstart (hstart + 32) with
      | err e => rw [hs2] at h; cases h
      | panic s => rw [hs2] at h; cases h
      | ok headerSha =>
        rw [hs2] at h; simp only at h
        cases hs3 : sliceE data (hstart + 32) (hstart + 64) with
        | err e => rw [hs3] at h; cases h
        | panic s => rw [hs3] at h; cases h
        | ok headerHmac =>
          rw [hs3] at h; simp only at h
          cases hs4 : sliceE data (hstart + 64) data.length with
          | err e => rw [hs4] at h; cases h
          | panic s => rw [hs4] at h; cases h
          | ok stream =>
            rw [hs4] at h; simp only at h
            split at h
            · cases h
            · cases hk : runKdf P hdr.kdf hdr.kdfSeed comp with
              | err e => rw [hk] at h; cases h
              | panic s => rw [hk] at h; cases h
              | ok tk =>
                rw [hk] at h; simp only at h
                split at h
                · cases h
                · cases hrb : readBlocks P (P.sha512 (hdr.masterSeed ++ tk ++ [1])) (stream.length + 1) stream 0 [] with
                  | err e => rw [hrb] at h; cases h
                  | panic s => rw [hrb] at h; cases h
                  | ok r =>
                    rw [hrb] at h
                    refine ⟨hdr, hstart, tk, stream, r, rfl, hk, hs4, hrb, ?_⟩
                    unfold finish
                    simp only [bind, Outcome.bind]
                    exact h

/-- **C05_whole_file**: let `f` be a file that opens to `d` under the credentials, its block stream carrying the blocks
    `parts`, and `f'` any byte string with the same outer header (what the header MAC stands for: `C05_header_mac_verified`)
    whose block stream — whatever the attacker substituted, swapped, duplicated, dropped, cut off or appended — satisfies the
    idealisation of HMAC relative to `parts` (`Unforgeable`, and the empty block verifies at the end of the stream only).  Then
    if `f'` opens at all, it opens to `d`: the same configuration, attachments, inner key and inner XML.  Never different
    content, never a prefix. -/
theorem C05_whole_file (P : Prims) (f f' comp : Bytes) (d d' : Decrypted) (parts : List Bytes) (hdr : OuterHeader) (hstart : Nat)
    (hp : parseOuterHeader f = .ok (hdr, hstart)) (hsame : parseOuterHeader f' = .ok (hdr, hstart))
    (hd : decrypt P f (some comp) = .ok d) (hd' : decrypt P f' (some comp) = .ok d')
    (horig : ∀ hk stream r, sliceE f (hstart + 64) f.length = .ok stream →
      readBlocks P hk (stream.length + 1) stream 0 [] = .ok r → r = parts.flatten)
    (hu : ∀ hk stream', sliceE f' (hstart + 64) f'.length = .ok stream' →
      Unforgeable P hk parts stream' ∧ ∀ i, Verified P hk stream' i [] → i = parts.length) :
    d' = d := by
  obtain ⟨hdr1, hstart1, tk, stream, r, hp1, hk, hs, hrb, hfin⟩ := decrypt_ok_factors P f comp d hd
  obtain ⟨hdr2, hstart2, tk', stream', r', hp2, hk', hs', hrb', hfin'⟩ := decrypt_ok_factors P f' comp d' hd'
  rw [hp] at hp1
  injection hp1 with hp1
  injection hp1 with h1 h2
  subst h1; subst h2
  rw [hsame] at hp2
  injection hp2 with hp2
  injection hp2 with h1 h2
  subst h1; subst h2
  rw [hk] at hk'
  injection hk' with hk'
  subst hk'
  have hr : r = parts.flatten := horig _ stream r hs hrb
  obtain ⟨hu1, hu2⟩ := hu (P.sha512 (hdr.masterSeed ++ tk ++ [1])) stream' hs'
  have hr' : r' = parts.flatten := C05_blocks_whole P _ parts stream' r' hu1 hu2 hrb'
  rw [hr', ← hr, hfin] at hfin'
  injection hfin' with hfin'
  exact hfin'.symm

/-- a block stream that ends without the empty end-of-stream block is rejected (before the repair of F21 it was accepted:
    `Database::get_xml` returned a strict prefix of the inner XML of an uncompressed file cut at a block boundary) -/
def witnessPrims : Prims :=
  ⟨fun _ => [], fun _ => [], fun _ _ => List.replicate 32 0, fun _ _ _ => [], fun _ _ _ _ _ _ _ => none,
   fun _ _ _ _ => none, fun _ _ _ _ => none, fun x => x, fun x => some x⟩

theorem unterminated_rejected :
    readBlocks witnessPrims [] 10 (blockBytes witnessPrims [] 0 [7, 7]) 0 [] = .err .integrity := by
  decide

/-- … and the same stream with its end-of-stream block is read whole -/
theorem terminated_accepted :
    readBlocks witnessPrims [] 10 (blockBytes witnessPrims [] 0 [7, 7] ++ blockBytes witnessPrims [] 1 []) 0 [] = .ok [7, 7] := by
  decide

end Kp.Fmt
