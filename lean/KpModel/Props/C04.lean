import KpModel.Props.C01
/-!
# C04 — only the exact credentials open a database (KDBX4)
Property theorems only, over the faithful model of `decrypt_kdbx4`.  `IdealMac` is the idealisation of
HMAC-SHA-256, stated as a hypothesis: the header MAC computed under the key derived from the wrong composite
differs from the stored one.
-/
namespace Kp.Fmt

/-- the stored header MAC, as a function of the transformed key -/
def headerMac (P : Prims) (c : Config) (t : Tape) (l : Layout) (tk : Bytes) : Bytes :=
  P.hmac256 (blockKey P (P.sha512 (t.masterSeed ++ tk ++ [1])) u64Max) (outerHeaderBytes c t l)

/-- up to the credential check, reading an assembled file is determined by the header -/
theorem decrypt_until_key_check (P : Prims) (L : P.Laws) (c : Config) (t : Tape) (l : Layout)
    (tk ct : Bytes) (H : HeaderOk c t l) (comp : Option Bytes) :
    (comp = none → decrypt P (assemble P c t l tk ct) comp = .err .key)
    ∧ (∀ cp, comp = some cp →
        (∀ s, runKdf P c.kdf t.kdfSeed cp = .panic s → decrypt P (assemble P c t l tk ct) comp = .panic s)
        ∧ (∀ e, runKdf P c.kdf t.kdfSeed cp = .err e → decrypt P (assemble P c t l tk ct) comp = .err e)
        ∧ (∀ tk', runKdf P c.kdf t.kdfSeed cp = .ok tk' → headerMac P c t l tk' ≠ headerMac P c t l tk →
            decrypt P (assemble P c t l tk ct) comp = .err .key)) := by
  have hshaL : (P.sha256 (outerHeaderBytes c t l)).length = 32 := L.sha256_len _
  have hmacL : (P.hmac256 (blockKey P (P.sha512 (t.masterSeed ++ tk ++ [1])) u64Max) (outerHeaderBytes c t l)).length = 32 :=
    L.hmac_len _ _
  unfold decrypt assemble headerMac
  generalize hH : outerHeaderBytes c t l = header at *
  generalize hS : P.sha256 header = sha at *
  generalize hM : P.hmac256 (blockKey P (P.sha512 (t.masterSeed ++ tk ++ [1])) u64Max) header = mac at *
  generalize hW : writeBlocksFrom P (P.sha512 (t.masterSeed ++ tk ++ [1])) 0 (l.blocks ct) = stream at *
  have hp : parseOuterHeader (header ++ sha ++ mac ++ stream)
      = .ok (⟨c.minor, c.outer, c.compression, t.masterSeed, t.iv, c.kdf, t.kdfSeed⟩, header.length) := by
    have := parseOuterHeader_build c t l H (sha ++ mac ++ stream)
    rw [hH] at this
    simpa [List.append_assoc] using this
  have s1 : sliceE (header ++ sha ++ mac ++ stream) 0 header.length = .ok header := by
    have := sliceE_mid [] header (sha ++ mac ++ stream)
    simpa [List.append_assoc] using this
  have s2 : sliceE (header ++ sha ++ mac ++ stream) header.length (header.length + 32) = .ok sha := by
    have := sliceE_mid header sha (mac ++ stream)
    rw [hshaL] at this
    simpa [List.append_assoc] using this
  have s3 : sliceE (header ++ sha ++ mac ++ stream) (header.length + 32) (header.length + 64) = .ok mac := by
    have := sliceE_mid (header ++ sha) mac stream
    simp only [List.length_append, hshaL, hmacL] at this
    have e : header.length + 32 + 32 = header.length + 64 := by omega
    rw [e] at this
    exact this
  have s4 : sliceE (header ++ sha ++ mac ++ stream) (header.length + 64)
      (header ++ sha ++ mac ++ stream).length = .ok stream := by
    unfold sliceE
    have : header.length + 64 ≤ (header ++ sha ++ mac ++ stream).length
        ∧ (header ++ sha ++ mac ++ stream).length ≤ (header ++ sha ++ mac ++ stream).length := by
      simp only [List.length_append, hshaL, hmacL]; omega
    simp only [this, and_self, ↓reduceIte]
    have hl : (header ++ sha ++ mac).length = header.length + 64 := by
      simp only [List.length_append, hshaL, hmacL]
    rw [List.drop_left' hl]
    simp only [List.length_append, hshaL, hmacL]
    have : header.length + 32 + 32 + stream.length - (header.length + 64) = stream.length := by omega
    rw [this, List.take_length]
  have hne : (sha != P.sha256 header) = false := by simp [hS]
  simp only [bind, Outcome.bind, hp, s1, s2, s3, s4, hne, Bool.false_eq_true, ↓reduceIte]
  refine ⟨fun h => by rw [h], fun cp h => ?_⟩
  rw [h]
  simp only
  refine ⟨fun s hs => by rw [hs], fun e he => by rw [he], fun tk' hk hmacne => ?_⟩
  rw [hk]
  simp only
  simp only [List.append_assoc] at hmacne
  simp
  intro h
  exact absurd h.symm hmacne

/-- **C04 (KDBX4).**  With a composite key whose header MAC differs from the stored one (the idealisation
    `headerMac … tk' ≠ headerMac … tk`), opening a conforming file reports a *key* error — never a database,
    never an integrity error. -/
theorem C04_kdbx4 (P : Prims) (L : P.Laws) (c : Config) (t : Tape) (l : Layout) (tk ct composite' tk' : Bytes)
    (H : HeaderOk c t l) (hk : runKdf P c.kdf t.kdfSeed composite' = .ok tk')
    (hideal : headerMac P c t l tk' ≠ headerMac P c t l tk) :
    decrypt P (assemble P c t l tk ct) (some composite') = .err .key :=
  ((decrypt_until_key_check P L c t l tk ct H (some composite')).2 composite' rfl).2.2 tk' hk hideal

/-- empty credentials: a key error -/
theorem C04_empty (P : Prims) (L : P.Laws) (c : Config) (t : Tape) (l : Layout) (tk ct : Bytes)
    (H : HeaderOk c t l) : decrypt P (assemble P c t l tk ct) none = .err .key :=
  (decrypt_until_key_check P L c t l tk ct H none).1 rfl

/-- whatever the wrong credentials are, no database is returned (the KDF may also fail on them) -/
theorem C04_never_a_value (P : Prims) (L : P.Laws) (c : Config) (t : Tape) (l : Layout) (tk ct composite' : Bytes)
    (H : HeaderOk c t l)
    (hideal : ∀ tk', runKdf P c.kdf t.kdfSeed composite' = .ok tk' → headerMac P c t l tk' ≠ headerMac P c t l tk) :
    ∀ d, decrypt P (assemble P c t l tk ct) (some composite') ≠ .ok d := by
  intro d hd
  have h := (decrypt_until_key_check P L c t l tk ct H (some composite')).2 composite' rfl
  cases hk : runKdf P c.kdf t.kdfSeed composite' with
  | ok tk' => rw [h.2.2 tk' hk (hideal tk' hk)] at hd; cases hd
  | err e => rw [h.2.1 e hk] at hd; cases hd
  | panic s => rw [h.1 s hk] at hd; cases hd

end Kp.Fmt
