import KpModel.Format.Legacy
import KpModel.Props.C01
/-!
# C04 — only the exact credentials open a database (KDBX4)
Property theorems only, over the faithful model of `decrypt_kdbx4`.  `IdealMac` is the idealisation of
HMAC-SHA-256, stated as a hypothesis: the header MAC computed under the key derived from the wrong composite
differs from the stored one.
-/
namespace Kp.Fmt

/-- the stored header MAC, as a function of the transformed key -/
def headerMac (P : Prims) (c : Config) (t : Tape) (l : Layout) (tk : Bytes) : Bytes :=
  P.hmac256 (blockKey P (P.sha512 (t.masterSeed ++ tk ++ [1])) u64Max) (outerHeaderBytes c t l)

/-- up to the credential check, reading an assembled file is determined by the header -/
theorem decrypt_until_key_check (P : Prims) (L : P.Laws) (c : Config) (t : Tape) (l : Layout)
    (tk ct : Bytes) (H : HeaderOk c t l) (comp : Option Bytes) :
    (comp = none → decrypt P (assemble P c t l tk ct) comp = .err .key)
    ∧ (∀ cp, comp = some cp →
        (∀ s, runKdf P c.kdf t.kdfSeed cp = .panic s → decrypt P (assemble P c t l tk ct) comp = .panic s)
        ∧ (∀ e, runKdf P c.kdf t.kdfSeed cp = .err e → decrypt P (assemble P c t l tk ct) comp = .err e)
        ∧ (∀ tk', runKdf P c.kdf t.kdfSeed cp = .ok tk' → headerMac P c t l tk' ≠ headerMac P c t l tk →
            decrypt P (assemble P c t l tk ct) comp = .err .key)) := by
  have hshaL : (P.sha256 (outerHeaderBytes c t l)).length = 32 := L.sha256_len _
  have hmacL : (P.hmac256 (blockKey P (P.sha512 (t.masterSeed ++ tk ++ [1])) u64Max) (outerHeaderBytes c t l)).length = 32 :=
    L.hmac_len _ _
  unfold decrypt assemble headerMac
  generalize hH : outerHeaderBytes c t l = header at *
  generalize hS : P.sha256 header = sha at *
  generalize hM : P.hmac256 (blockKey P (P.sha512 (t.masterSeed ++ tk ++ [1])) u64Max) header = mac at *
  generalize hW : writeBlocksFrom P (P.sha512 (t.masterSeed ++ tk ++ [1])) 0 (l.blocks ct) = stream at *
  have hp : parseOuterHeader (header ++ sha ++ mac ++ stream)
      = .ok (⟨c.minor, c.outer, c.compression, t.masterSeed, t.iv, c.kdf, t.kdfSeed⟩, header.length) := by
    have := parseOuterHeader_build c t l H (sha ++ mac ++ stream)
    rw [hH] at this
    simpa [List.append_assoc] using this
  have s1 : sliceE (header ++ sha ++ mac ++ stream) 0 header.length = .ok header := by
    have := sliceE_mid [] header (sha ++ mac ++ stream)
    simpa [List.append_assoc] using this
  have s2 : sliceE (header ++ sha ++ mac ++ stream) header.length (header.length + 32) = .ok sha := by
    have := sliceE_mid header sha (mac ++ stream)
    rw [hshaL] at this
    simpa [List.append_assoc] using this
  have s3 : sliceE (header ++ sha ++ mac ++ stream) (header.length + 32) (header.length + 64) = .ok mac := by
    have := sliceE_mid (header ++ sha) mac stream
    simp only [List.length_append, hshaL, hmacL] at this
    have e : header.length + 32 + 32 = header.length + 64 := by omega
    rw [e] at this
    exact this
  have s4 : sliceE (header ++ sha ++ mac ++ stream) (header.length + 64)
      (header ++ sha ++ mac ++ stream).length = .ok stream := by
    unfold sliceE
    have : header.length + 64 ≤ (header ++ sha ++ mac ++ stream).length
        ∧ (header ++ sha ++ mac ++ stream).length ≤ (header ++ sha ++ mac ++ stream).length := by
      simp only [List.length_append, hshaL, hmacL]; omega
    simp only [this, and_self, ↓reduceIte]
    have hl : (header ++ sha ++ mac).length = header.length + 64 := by
      simp only [List.length_append, hshaL, hmacL]
    rw [List.drop_left' hl]
    simp only [List.length_append, hshaL, hmacL]
    have : header.length + 32 + 32 + stream.length - (header.length + 64) = stream.length := by omega
    rw [this, List.take_length]
  have hne : (sha != P.sha256 header) = false := by simp [hS]
  simp only [bind, Outcome.bind, hp, s1, s2, s3, s4, hne, Bool.false_eq_true, ↓reduceIte]
  refine ⟨fun h => by rw [h], fun cp h => ?_⟩
  rw [h]
  simp only
  refine ⟨fun s hs => by rw [hs], fun e he => by rw [he], fun tk' hk hmacne => ?_⟩
  rw [hk]
  simp only
  simp only [List.append_assoc] at hmacne
  simp
  intro h
  exact absurd h.symm hmacne

/-- **C04 (KDBX4).**  With a composite key whose header MAC differs from the stored one (the idealisation
    `headerMac … tk' ≠ headerMac … tk`), opening a conforming file reports a *key* error — never a database,
    never an integrity error. -/
theorem C04_kdbx4 (P : Prims) (L : P.Laws) (c : Config) (t : Tape) (l : Layout) (tk ct composite' tk' : Bytes)
    (H : HeaderOk c t l) (hk : runKdf P c.kdf t.kdfSeed composite' = .ok tk')
    (hideal : headerMac P c t l tk' ≠ headerMac P c t l tk) :
    decrypt P (assemble P c t l tk ct) (some composite') = .err .key :=
  ((decrypt_until_key_check P L c t l tk ct H (some composite')).2 composite' rfl).2.2 tk' hk hideal

/-- empty credentials: a key error -/
theorem C04_empty (P : Prims) (L : P.Laws) (c : Config) (t : Tape) (l : Layout) (tk ct : Bytes)
    (H : HeaderOk c t l) : decrypt P (assemble P c t l tk ct) none = .err .key :=
  (decrypt_until_key_check P L c t l tk ct H none).1 rfl

/-- whatever the wrong credentials are, no database is returned (the KDF may also fail on them) -/
theorem C04_never_a_value (P : Prims) (L : P.Laws) (c : Config) (t : Tape) (l : Layout) (tk ct composite' : Bytes)
    (H : HeaderOk c t l)
    (hideal : ∀ tk', runKdf P c.kdf t.kdfSeed composite' = .ok tk' → headerMac P c t l tk' ≠ headerMac P c t l tk) :
    ∀ d, decrypt P (assemble P c t l tk ct) (some composite') ≠ .ok d := by
  intro d hd
  have h := (decrypt_until_key_check P L c t l tk ct H (some composite')).2 composite' rfl
  cases hk : runKdf P c.kdf t.kdfSeed composite' with
  | ok tk' => rw [h.2.2 tk' hk (hideal tk' hk)] at hd; cases hd
  | err e => rw [h.2.1 e hk] at hd; cases hd
  | panic s => rw [h.1 s hk] at hd; cases hd

/-! ### legacy formats: what an open under given credentials implies -/

/-- **C04, KDBX 3.1**: the file opens under a composite key only if the outer cipher, keyed from that composite,
    decrypts the body to a payload that begins with the stream-start bytes stored in the (unauthenticated) header;
    without credentials it never opens. -/
theorem C04_kdbx3 (P : Prims) (data : Bytes) (comp : Option Bytes) (r : Decrypted3) (h : decrypt3 P data comp = .ok r) :
    ∃ (c : Bytes) (acc : H3Acc) (n : Nat) (cph : OuterCipher) (ms ts iv ss payload : Bytes) (rounds : Nat),
      comp = some c ∧ h3Loop (data.length + 1) (data.drop 12) 12 {} = .ok (acc, n)
      ∧ acc.cipher = some cph ∧ acc.masterSeed = some ms ∧ acc.transformSeed = some ts ∧ acc.iv = some iv
      ∧ acc.streamStart = some ss ∧ acc.rounds = some rounds
      ∧ P.decO cph (P.sha256 (ms ++ P.aesKdf ts rounds c)) iv (data.drop n) = some payload
      ∧ payload.take ss.length = ss := by
  unfold decrypt3 at h
  split at h
  · cases h
  · cases hl : h3Loop (data.length + 1) (data.drop 12) 12 {} with
    | err e => simp [hl, bind, Outcome.bind] at h
    | panic p => simp [hl, bind, Outcome.bind] at h
    | ok an =>
      obtain ⟨acc, n⟩ := an
      simp only [hl, bind, Outcome.bind] at h
      split at h
      · rename_i cph z ms ts rounds iv sk ss ic h1 h2 h3 h4 h5 h6 h7 h8 h9
        split at h
        · cases h
        · rename_i c
          by_cases hts : ts.length ≠ 32
          · simp [runKdf, hts] at h
          · simp only [runKdf, hts, ↓reduceIte] at h
            cases hdec : P.decO cph (P.sha256 (ms ++ P.aesKdf ts rounds c)) iv (data.drop n) with
            | none => simp [hdec] at h
            | some payload =>
              simp only [hdec] at h
              by_cases hlen : payload.length < ss.length
              · simp [hlen] at h
              · simp only [hlen, ↓reduceIte] at h
                by_cases hne : (payload.take ss.length != ss) = true
                · simp [hne] at h
                · refine ⟨c, acc, n, cph, ms, ts, iv, ss, payload, rounds, rfl, rfl, h1, h3, h4, h6, h8, h5, hdec, ?_⟩
                  simpa using hne
      · cases h

theorem C04_kdbx3_empty (P : Prims) (data : Bytes) (r : Decrypted3) : decrypt3 P data none ≠ .ok r := by
  intro h
  obtain ⟨c, _, _, _, _, _, _, _, _, _, hc, _⟩ := C04_kdbx3 P data none r h
  cases hc


/-- **C04, KDB**: the file opens under key elements only if there are key elements, a lone one is 32 bytes long, and the
    cipher keyed from them decrypts the body to a payload whose SHA-256 is the contents hash stored in the header. -/
theorem C04_kdb (P : Prims) (data : Bytes) (comp : Option (Option Bytes)) (r : DecryptedKdb) (h : parseKdb P data comp = .ok r) :
    ∃ (c padded : Bytes) (last : UInt8) (cph : OuterCipher),
      comp = some (some c)
      ∧ P.decO cph (P.sha256 ((data.drop 16).take 16 ++ P.aesKdf ((data.drop 88).take 32) (le32 (data.drop 120)) c))
          ((data.drop 32).take 16) (data.drop 124) = some padded
      ∧ padded.getLast? = some last
      ∧ (data.drop 56).take 32 = P.sha256 (padded.take (padded.length - last.toNat)) := by
  unfold parseKdb at h
  split at h
  · cases h
  · rename_i h124
    simp only at h
    split at h
    · cases h
    · cases h
    · rename_i c
      have hts : ¬ (((data.drop 88).take 32).length ≠ 32) := by
        simp only [List.length_take, List.length_drop, ne_eq, Decidable.not_not]; omega
      simp only [runKdf, hts, ↓reduceIte, bind, Outcome.bind] at h
      · split at h
        · rename_i cph hc
          try simp only at h
          cases hdec : P.decO cph (P.sha256 ((data.drop 16).take 16 ++ P.aesKdf ((data.drop 88).take 32) (le32 (data.drop 120)) c))
              ((data.drop 32).take 16) (data.drop 124) with
          | none => simp [hdec] at h
          | some padded =>
            simp only [hdec] at h
            cases hl : padded.getLast? with
            | none => simp [hl] at h
            | some last =>
              simp only [hl] at h
              by_cases hbig : last.toNat > padded.length
              · simp [hbig] at h
              · simp only [hbig, ↓reduceIte] at h
                by_cases hne : ((data.drop 56).take 32 != P.sha256 (padded.take (padded.length - last.toNat))) = true
                · simp [hne] at h
                · exact ⟨c, padded, last, cph, rfl, hdec, hl, by simpa using hne⟩
        · cases h
        · cases h

end Kp.Fmt
