import KpModel.Format.Kdbx4
namespace Kp.Fmt
theorem placeholder_C04 : True := trivial
end Kp.Fmt
