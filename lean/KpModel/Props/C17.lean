import KpModel.Db.History
/-!
# C17 — entry history records every committed change once, newest first, without nesting
Property theorems only.  Model: `KpModel/Db/History.lean` (tied to `Entry::update_history`,
`History::add_entry`, `History::get_entries` by the correspondence op `history`).
-/
namespace Kp.Hist
open Entry

/-- when a commit adds an item -/
def Differs (e : Entry) : Prop :=
  e.history = none ∨ e.history = some [] ∨ ∃ h0 t, e.history = some (h0 :: t) ∧ h0.content ≠ e.content

theorem hasUncommitted_iff (e : Entry) : hasUncommitted e = true ↔ Differs e := by
  cases e with
  | mk c m o h =>
    cases h with
    | none => simp [hasUncommitted, Differs, history]
    | some l =>
      cases l with
      | nil => simp [hasUncommitted, Differs, history]
      | cons h0 t =>
        simp [hasUncommitted, Differs, history, content]
        exact ⟨fun h => fun h' => h h'.symm, fun h => fun h' => h h'.symm⟩

/-- a commit adds a history item exactly when the entry differs (ignoring time stamps and history) from
    the newest item, or has no history yet -/
theorem commit_adds_iff (now : Int) (e : Entry) : (updateHistory now e).2 = true ↔ Differs e := by
  rw [← hasUncommitted_iff]
  cases e with
  | mk c m o h =>
    cases h with
    | none => simp [updateHistory, hasUncommitted, history, setHistory]
    | some l =>
      simp only [updateHistory, history, Option.isNone_some, Bool.false_eq_true, ↓reduceIte]
      cases hu : hasUncommitted (mk c m o (some l)) <;> simp

/-- …and then the newest item is the entry without its history, stamped `now`, the modification time is
    `now`, every earlier item is kept in place, and nothing else changes -/
theorem commit_head (now : Int) (e : Entry) (h : (updateHistory now e).2 = true) :
    let e' := (updateHistory now e).1
    e'.history = some (mk e.content (some now) e.otimes none :: histList e)
      ∧ e'.mtime = some now ∧ e'.content = e.content ∧ e'.otimes = e.otimes := by
  cases e with
  | mk c m o hh =>
    cases hh with
    | none =>
      simp [updateHistory, hasUncommitted, history, setHistory, setMtime, strip, addEntry, histList,
        content, otimes, mtime]
    | some l =>
      simp only [updateHistory, history, Option.isNone_some, Bool.false_eq_true, ↓reduceIte] at h ⊢
      cases hu : hasUncommitted (mk c m o (some l)) with
      | false => simp [hu] at h
      | true =>
        simp [setHistory, setMtime, strip, addEntry, histList, content, otimes, mtime, history]

/-- a commit without changes adds nothing and leaves the entry (and its modification time) alone -/
theorem commit_noop (now : Int) (e : Entry) (h : (updateHistory now e).2 = false) :
    (updateHistory now e).1 = e := by
  cases e with
  | mk c m o hh =>
    cases hh with
    | none => simp [updateHistory, hasUncommitted, history, setHistory] at h
    | some l =>
      simp only [updateHistory, history, Option.isNone_some, Bool.false_eq_true, ↓reduceIte] at h ⊢
      cases hu : hasUncommitted (mk c m o (some l)) with
      | false => simp
      | true => simp [hu] at h

/-- committing twice in a row (at any two clock readings) adds one item at most -/
theorem commit_twice (now now' : Int) (e : Entry) :
    (updateHistory now' (updateHistory now e).1).2 = false := by
  cases hb : (updateHistory now e).2 with
  | false =>
    have h1 := commit_noop now e hb
    rw [h1]
    cases hb' : (updateHistory now' e).2 with
    | false => rfl
    | true =>
      have a := (commit_adds_iff now e).mpr ((commit_adds_iff now' e).mp hb')
      rw [hb] at a; cases a
  | true =>
    have ⟨hh, _, hc, _⟩ := commit_head now e hb
    cases hb' : (updateHistory now' (updateHistory now e).1).2 with
    | false => rfl
    | true =>
      have d := (commit_adds_iff now' _).mp hb'
      rcases d with d | d | ⟨h0, t, d, hne⟩
      · rw [hh] at d; cases d
      · rw [hh] at d; cases d
      · rw [hh] at d
        injection d with d
        injection d with d1 d2
        subst d1
        rw [hc] at hne
        simp [content] at hne

/-- an edit that only touches other time stamps never makes the next commit add an item -/
theorem commit_ignores_times (now now' : Int) (o : Nat) (e : Entry) :
    (updateHistory now' ((updateHistory now e).1.setOtimes o)).2 = false := by
  have h := commit_twice now now' e
  cases hb' : (updateHistory now' ((updateHistory now e).1.setOtimes o)).2 with
  | false => rfl
  | true =>
    have d := (commit_adds_iff now' _).mp hb'
    have : Differs (updateHistory now e).1 := by
      generalize (updateHistory now e).1 = x at d
      cases x with
      | mk c m o' hh => simpa [Differs, setOtimes, history, content] using d
    rw [(commit_adds_iff now' _).mpr this] at h
    cases h

/-! ### Invariants over every sequence of operations -/

theorem step_histList_suffix (e : Entry) (op : Op) : histList e <:+ histList (step e op).1 := by
  cases e with
  | mk c m o hh =>
    cases op with
    | setContent c' => simp [step, histList, setContent, history]
    | setOtimes o' => simp [step, histList, setOtimes, history]
    | setMtime m' => simp [step, histList, setMtime, history]
    | initHistory => cases hh <;> simp [step, histList, setHistory, history]
    | addExternal x =>
      cases hh with
      | none => simp [step, histList, history]
      | some l => simp [step, histList, history, setHistory, addEntry, List.suffix_cons]
    | commit now =>
      simp only [step]
      cases hb : (updateHistory now (mk c m o hh)).2 with
      | false => rw [commit_noop _ _ hb]; exact List.suffix_refl _
      | true =>
        have ⟨h1, _⟩ := commit_head now _ hb
        simp only [histList] at h1 ⊢
        rw [h1]
        simp [List.suffix_cons]

/-- earlier items are never altered or dropped: the history before any sequence of operations is a
    suffix of the history after it -/
theorem history_suffix (e : Entry) (ops : List Op) : histList e <:+ histList (run e ops) := by
  induction ops generalizing e with
  | nil => exact List.suffix_refl _
  | cons op ops ih =>
    simp only [run, List.foldl_cons]
    exact List.IsSuffix.trans (step_histList_suffix e op) (ih _)

theorem step_noNest (e : Entry) (op : Op) (h : NoNest e) : NoNest (step e op).1 := by
  cases e with
  | mk c m o hh =>
    cases op with
    | setContent c' => simpa [step, NoNest, histList, setContent, history] using h
    | setOtimes o' => simpa [step, NoNest, histList, setOtimes, history] using h
    | setMtime m' => simpa [step, NoNest, histList, setMtime, history] using h
    | initHistory =>
      cases hh with
      | none => simp [step, NoNest, histList, setHistory, history]
      | some l => simpa [step, NoNest, histList, setHistory, history] using h
    | addExternal x =>
      cases hh with
      | none => simpa [step, NoNest, histList, history] using h
      | some l =>
        simp only [step, history, NoNest, histList, setHistory, Option.getD_some, addEntry,
          List.mem_cons] at h ⊢
        intro i hi
        rcases hi with rfl | hi
        · cases x; simp [strip, setHistory, history]
        · exact h i hi
    | commit now =>
      simp only [step]
      cases hb : (updateHistory now (mk c m o hh)).2 with
      | false => rw [commit_noop _ _ hb]; exact h
      | true =>
        have ⟨h1, _⟩ := commit_head now _ hb
        simp only [NoNest, histList] at h ⊢
        rw [h1]
        intro i hi
        simp only [Option.getD_some, List.mem_cons] at hi
        rcases hi with rfl | hi
        · simp [history]
        · exact h i hi

/-- history items never contain a history of their own, whatever sequence of edits, commits and
    externally built additions is applied -/
theorem no_nesting (e : Entry) (ops : List Op) (h : NoNest e) : NoNest (run e ops) := by
  induction ops generalizing e with
  | nil => exact h
  | cons op ops ih =>
    simp only [run, List.foldl_cons]
    exact ih _ (step_noNest e op h)

/-- the newest item is first: right after a commit that added an item, index 0 holds it -/
theorem newest_first (now : Int) (e : Entry) (h : (updateHistory now e).2 = true) :
    (histList (updateHistory now e).1)[0]? = some (mk e.content (some now) e.otimes none) := by
  have ⟨h1, _⟩ := commit_head now e h
  simp [histList, h1]

/-- C17 at full strength -/
def C17_full : Prop :=
  ∀ (e : Entry) (now : Int),
    ((updateHistory now e).2 = true ↔ Differs e)
    ∧ ((updateHistory now e).2 = true →
        (updateHistory now e).1.history = some (mk e.content (some now) e.otimes none :: histList e)
        ∧ (updateHistory now e).1.mtime = some now)
    ∧ ((updateHistory now e).2 = false → (updateHistory now e).1 = e)
    ∧ (∀ ops, histList e <:+ histList (run e ops))
    ∧ (∀ ops, NoNest e → NoNest (run e ops))

theorem C17 : C17_full := by
  intro e now
  refine ⟨commit_adds_iff now e, ?_, commit_noop now e, history_suffix e, no_nesting e⟩
  intro h
  have := commit_head now e h
  exact ⟨this.1, this.2.1⟩

/-! Non-vacuity: a concrete run with an edit, two commits, a pure time-stamp edit and an external item. -/
def sampleRun : Entry :=
  run (Entry.mk 1 (some 10) 0 none)
    [.commit 11, .setContent 2, .commit 12, .commit 13, .setOtimes 5, .commit 14,
     .addExternal (Entry.mk 9 (some 1) 0 (some [Entry.mk 8 none 0 none]))]

example : (histList sampleRun).map Entry.content = [9, 2, 1] ∧ sampleRun.mtime = some 12
    ∧ (histList sampleRun).all (fun i => i.history.isNone) = true := by
  decide

end Kp.Hist
