import KpModel.Db.MergeLemmas
import KpModel.Db.MergeInv
import KpModel.Db.MergeLww
import KpModel.Db.MergeLwwG
import KpModel.Db.MergeLwwH
import KpModel.Db.MergePlace
import KpModel.Db.MergeSorted
import KpModel.Db.MergeSpec
/-!
# C14 — merge keeps the newest version of every node and every historical version
Property theorems only.  Proved for all inputs: the history union (sorted newest first, duplicate-free by
time, contains every destination item itself and every source time), last-writer-wins for entries and
groups incl. preservation of the destination's location time.  The global refinement statement
(`C14_full`) is kept visible; the flat reference `MergeSpec.c14Clauses` is evaluated on the real result of
every enumerated replica pair (a test, labelled so).
-/
namespace Kp.Merge

/-- history union: strictly descending by modification time (hence no time twice), every destination
    item is kept as it is, every source item's time is represented, every result time comes from a side -/
theorem history_merge_spec (dst src r : List EData) (h : historyMerge dst src = .ok r) :
    SortedDesc (r.filterMap (·.times.mtime))
    ∧ (∀ x ∈ dst, x ∈ r)
    ∧ (∀ x ∈ src, ∃ y ∈ r, y.times.mtime = x.times.mtime)
    ∧ (∀ y ∈ r, ∃ x, (x ∈ dst ∨ x ∈ src) ∧ x.times.mtime = y.times.mtime) := by
  unfold historyMerge at h
  cases h1 : phase1 dst [] with
  | error e => simp [h1] at h
  | ok m =>
    simp only [h1] at h
    cases h2 : phase2 src m with
    | error e => simp [h2] at h
    | ok m' =>
      simp only [h2] at h
      injection h with h; subst h
      have s1 := phase1_sorted dst [] m (by simp [keys, SortedDesc]) h1
      have k1 := phase1_keyInv dst [] m (by intro p hp; cases hp) h1
      have s2 := phase2_sorted src m m' s1.1 h2
      have k2 := phase2_keyInv src m m' k1 h2
      have m1 := phase1_mem dst [] m h1
      have hkeys : (m'.map (·.2)).filterMap (·.times.mtime) = keys m' := by
        have : ∀ (l : AL), KeyInv l → (l.map (·.2)).filterMap (·.times.mtime) = keys l := by
          intro l hl
          induction l with
          | nil => rfl
          | cons p rest ih =>
            have hp := hl p (List.mem_cons_self ..)
            simp only [List.map_cons, List.filterMap_cons, hp, keys]
            congr 1
            exact ih (fun q hq => hl q (List.mem_cons_of_mem _ hq))
        exact this m' k2.1
      refine ⟨by rw [hkeys]; exact s2.1, ?_, ?_, ?_⟩
      · intro x hx
        obtain ⟨t, _, hmem⟩ := m1.2 x hx
        exact List.mem_map.mpr ⟨(t, x), s2.2.2 _ hmem, rfl⟩
      · intro x hx
        obtain ⟨t, ht⟩ := k2.2 x hx
        have : t ∈ keys m' := by
          rw [s2.2.1 t]; right; exact List.mem_map.mpr ⟨x, hx, ht⟩
        obtain ⟨p, hp, hpk⟩ := List.mem_map.mp this
        refine ⟨p.2, List.mem_map.mpr ⟨p, hp, rfl⟩, ?_⟩
        rw [k2.1 p hp, hpk, ht]
      · intro y hy
        obtain ⟨p, hp, hpy⟩ := List.mem_map.mp hy
        have hk : p.1 ∈ keys m' := List.mem_map.mpr ⟨p, hp, rfl⟩
        rw [s2.2.1, s1.2] at hk
        have hym : y.times.mtime = some p.1 := by rw [← hpy]; exact k2.1 p hp
        rcases hk with (hk | hk) | hk
        · simp [keys] at hk
        · obtain ⟨x, hx, hxt⟩ := List.mem_map.mp hk
          exact ⟨x, Or.inl hx, by rw [hxt, hym]⟩
        · obtain ⟨x, hx, hxt⟩ := List.mem_map.mp hk
          exact ⟨x, Or.inr hx, by rw [hxt, hym]⟩

/-- entries: the side with the later modification time wins — its content and modification time are
    taken — while the destination's location-changed time is kept; equal times change nothing -/
theorem entry_merge_lww (now : Int) (dst src m : Entry) (h : entryMerge now dst src = .ok (some m)) :
    let dm := dst.d.times.mtime.getD now
    let sm := src.d.times.mtime.getD 0
    dm ≠ sm
    ∧ (dm > sm → m.d.content = dst.d.content ∧ m.d.uuid = dst.d.uuid ∧ m.d.times.mtime = dst.d.times.mtime)
    ∧ (dm < sm → m.d.content = src.d.content ∧ m.d.uuid = src.d.uuid ∧ m.d.times.mtime = src.d.times.mtime)
    ∧ (∀ l, dst.d.times.loc = some l → m.d.times.loc = some l) := by
  intro dm sm
  unfold entryMerge at h
  by_cases heq : (dst.d.times.mtime.getD now == src.d.times.mtime.getD 0) = true
  · simp only [heq, ↓reduceIte] at h
    split at h <;> cases h
  · simp only [heq, Bool.false_eq_true, ↓reduceIte] at h
    have hne : dm ≠ sm := by
      intro hc; apply heq; simp [dm, sm] at hc; simp [hc]
    refine ⟨hne, ?_, ?_, ?_⟩
    · intro hgt
      have hgt' : dst.d.times.mtime.getD now > src.d.times.mtime.getD 0 := hgt
      simp only [hgt', ↓reduceIte] at h
      cases hmh : mergeHistory dst src with
      | error e => rw [hmh] at h; cases h
      | ok w =>
        rw [hmh] at h
        injection h with h; injection h with h; subst h
        unfold mergeHistory at hmh
        split at hmh
        · cases hmh
        · injection hmh with hmh; subst hmh
          unfold keepLoc
          cases dst.d.times.loc <;> simp [Entry.setLoc]
    · intro hlt
      have hngt : ¬ (dst.d.times.mtime.getD now > src.d.times.mtime.getD 0) := by
        have : dm < sm := hlt
        simp only [dm, sm] at this; omega
      simp only [hngt, ↓reduceIte] at h
      cases hmh : mergeHistory src dst with
      | error e => rw [hmh] at h; cases h
      | ok w =>
        rw [hmh] at h
        injection h with h; injection h with h; subst h
        unfold mergeHistory at hmh
        split at hmh
        · cases hmh
        · injection hmh with hmh; subst hmh
          unfold keepLoc
          cases dst.d.times.loc <;> simp [Entry.setLoc]
    · intro l hl
      split at h
      · cases h
      · injection h with h; injection h with h; subst h
        unfold keepLoc
        simp [hl, Entry.setLoc]

/-- groups: the later side's name/notes/icon/settings (`content`) and time stamps win, the destination's
    location-changed time is kept; a destination that is newer or equal keeps its data -/
theorem group_merge_lww (now : Int) (du dc : Nat) (dt : Times) (su sc : Nat) (st : Times)
    (c' : Nat) (t' : Times) (upd : Bool) (h : groupMergeData now du dc dt su sc st = .ok (c', t', upd)) :
    let dm := dt.mtime.getD now
    let sm := st.mtime.getD 0
    (dm ≥ sm → c' = dc ∧ t' = dt ∧ upd = false)
    ∧ (dm < sm → c' = sc ∧ t'.mtime = st.mtime ∧ t'.other = st.other ∧ upd = true
        ∧ (∀ l, dt.loc = some l → t'.loc = some l)) := by
  intro dm sm
  unfold groupMergeData at h
  by_cases heq : (dt.mtime.getD now == st.mtime.getD 0) = true
  · simp only [heq, ↓reduceIte] at h
    have e : dm = sm := by simpa [dm, sm] using heq
    split at h
    · cases h
    · injection h with h; injection h with a b; injection b with b c
      exact ⟨fun _ => ⟨a.symm, b.symm, c.symm⟩, fun hlt => by omega⟩
  · simp only [heq, Bool.false_eq_true, ↓reduceIte] at h
    by_cases hgt : dt.mtime.getD now > st.mtime.getD 0
    · simp only [hgt, ↓reduceIte] at h
      injection h with h; injection h with a b; injection b with b c
      exact ⟨fun _ => ⟨a.symm, b.symm, c.symm⟩, fun hlt => by
        have : dm < sm := hlt
        simp only [dm, sm] at this; omega⟩
    · simp only [hgt, ↓reduceIte] at h
      injection h with h; injection h with a b; injection b with b c
      subst a; subst b; subst c
      refine ⟨fun hge => ?_, fun _ => ⟨rfl, rfl, rfl, rfl, fun l hl => by simp [hl]⟩⟩
      have hne : dm ≠ sm := by
        intro hc; apply heq; simp [dm, sm] at hc; simp [hc]
      have : dm ≥ sm := hge
      simp only [dm, sm] at this hne; omega

/-- C14 at full strength (global refinement to the flat last-writer-wins reference) -/
def C14_full (WellFormedPair : Db → Db → Prop) : Prop :=
  ∀ (now : Int) (a b r : Db) (evs : List Event), WellFormedPair a b → merge now a b = .ok (r, evs) →
    Kp.MergeSpec.c14Clauses a b r = [] ∧ Kp.MergeSpec.c14Created a b r = []

/-- **C14 (what exists only in the source is created)**: every entry and group of the source for which the destination has no
    tombstone — neither for the node itself nor for a group above it in the source (`liveL`) — is below the root of what `merge`
    returns, unless the result carries a tombstone for it (the source deleted it later in the same merge).  The group passes
    never remove a UUID (`mergeGroup_le`), the first pass reaches every such node, and a deletion pass removes a node only
    together with recording its tombstone.  For every destination that is a group with pairwise distinct UUIDs below it. -/
theorem C14_source_nodes_created (now : Int) (dst src d' : Db) (evs : List Event) (hr : dst.root.isGroup = true)
    (hn : (uuidsL dst.root.children).Nodup) (h : merge now dst src = .ok (d', evs)) :
    ∀ u ∈ liveL dst.tombs src.root.children, u ∈ uuidsL d'.root.children ∨ tombsContain d'.tombs u = true :=
  merge_creates now dst src d' evs ⟨hr, hn⟩ h

/-- **C14 (nothing of the destination is lost by the group passes)**: a node of the destination is below the root of the
    result or has a tombstone there -/
theorem C14_destination_nodes_kept (now : Int) (dst src d' : Db) (evs : List Event) (hr : dst.root.isGroup = true)
    (hn : (uuidsL dst.root.children).Nodup) (h : merge now dst src = .ok (d', evs)) :
    ∀ u ∈ uuidsL dst.root.children, u ∈ uuidsL d'.root.children ∨ tombsContain d'.tombs u = true :=
  merge_keeps now dst src d' evs ⟨hr, hn⟩ h

/-- **C14 (last writer wins, for the whole merge)**: an entry that both replicas hold has, wherever the merge leaves it, the
    content (every field, the opaque `content` token) of the destination's version unless the source's modification time is
    strictly later, in which case it has the source's — whatever else the merge did: relocations of the entry or of groups
    above it, repeated passes, other entries' updates, the deletion passes.  For every destination and source that are groups
    with pairwise distinct UUIDs below them; a missing destination time counts as `now`, a missing source time as the epoch,
    as in `Entry::merge`.  (The modification *time* is not claimed: when both versions have the same content and history the
    code leaves the destination's time stamp alone, `has_diverged_from` ignores times.) -/
theorem C14_entry_last_writer_wins (now : Int) (dst src d' : Db) (evs : List Event)
    (hr : dst.root.isGroup = true) (hn : (uuidsL dst.root.children).Nodup)
    (hrs : src.root.isGroup = true) (hns : (uuidsL src.root.children).Nodup)
    (h : merge now dst src = .ok (d', evs))
    (pd ps pr : List Nat) (de se e' : Entry)
    (hd : findEntry dst.root pd = some de) (hs : findEntry src.root ps = some se) (hu : de.d.uuid = se.d.uuid)
    (hres : findEntry d'.root pr = some e') (hu' : e'.d.uuid = se.d.uuid) :
    e'.d.content = if de.d.times.mtime.getD now ≥ se.d.times.mtime.getD 0 then de.d.content else se.d.content :=
  merge_entry_lww now dst src d' evs ⟨hr, hn⟩ ⟨hrs, hns⟩ h pd ps pr de se e' hd hs hu hres hu'


/-- **C14 (… and its modification time)**: when the two versions differ in content, the entry carries, wherever the merge leaves
    it, the modification time of the side that modified it last — the destination's unless the source's is strictly later.
    (When the two versions have the same content the code may leave the destination's stamp although the source's is later:
    F20.) -/
theorem C14_entry_time_of_last_writer (now : Int) (dst src d' : Db) (evs : List Event)
    (hr : dst.root.isGroup = true) (hn : (uuidsL dst.root.children).Nodup)
    (hrs : src.root.isGroup = true) (hns : (uuidsL src.root.children).Nodup)
    (h : merge now dst src = .ok (d', evs))
    (pd ps pr : List Nat) (de se e' : Entry)
    (hd : findEntry dst.root pd = some de) (hs : findEntry src.root ps = some se) (hu : de.d.uuid = se.d.uuid)
    (hres : findEntry d'.root pr = some e') (hu' : e'.d.uuid = se.d.uuid) (hdiff : de.d.content ≠ se.d.content) :
    e'.d.times.mtime = if de.d.times.mtime.getD now ≥ se.d.times.mtime.getD 0 then de.d.times.mtime else se.d.times.mtime := by
  obtain ⟨hst, hc⟩ := merge_entry_lww_state now dst src d' evs ⟨hr, hn⟩ ⟨hrs, hns⟩ h pd ps pr de se e' hd hs hu hres hu'
  by_cases hge : de.d.times.mtime.getD now ≥ se.d.times.mtime.getD 0
  · rw [if_pos hge] at hc ⊢
    rcases hst with ⟨_, hm⟩ | ⟨hc2, _⟩
    · exact hm
    · exact absurd (hc.symm.trans hc2) hdiff
  · rw [if_neg hge] at hc ⊢
    rcases hst with ⟨hc2, _⟩ | ⟨_, hm⟩
    · exact absurd (hc2.symm.trans hc) hdiff
    · exact hm

/-- the premises are met by a non-trivial pair: the entry sits in a sub-group in the destination and directly below the root
    in the source, the source's version is newer and wins -/
def exLwwDst : Db := ⟨.group 1 0 ⟨some 5, none, 0⟩ [.group 2 0 ⟨some 5, none, 0⟩ [.entry ⟨⟨10, 7, ⟨some 20, none, 0⟩⟩, some []⟩]], []⟩
def exLwwSrc : Db := ⟨.group 1 0 ⟨some 5, none, 0⟩ [.group 2 0 ⟨some 5, none, 0⟩ [], .entry ⟨⟨10, 9, ⟨some 30, some 25, 0⟩⟩, some []⟩], []⟩
def exLwwRes : Db := ⟨.group 1 0 ⟨some 5, none, 0⟩ [.group 2 0 ⟨some 5, none, 0⟩
  [.entry ⟨⟨10, 9, ⟨some 30, some 25, 0⟩⟩, some [⟨10, 7, ⟨some 20, none, 0⟩⟩]⟩]], []⟩
set_option maxRecDepth 4000 in
example : merge 100 exLwwDst exLwwSrc = .ok (exLwwRes, [(.entryUpdated, 10)]) := by
  simp [merge, exLwwDst, exLwwSrc, exLwwRes, mergeRoot, groupMergeData, groupCount, groupCountL, mergePasses, mergeGroup, mergeEntries,
    mergeSubgroups, mergeEntryStep, findLoc, findLocL, findLocG, findEntry, findGroup, getPath, updatePath, updFirst, entryUpdate,
    entryDiverged, entryMerge, mergeHistory, historyMerge, phase1, phase2, srcItems, hasUncommitted, insertDesc, keepLoc, St.ev,
    mergeDeletions, deleteEntries, deleteGroups, deletionFuel, tombsContain, Node.children, Node.uuid, Node.isGroup, Node.setChildren,
    bind, Except.bind, pure, Except.pure]
example : findEntry exLwwDst.root [2, 10] = some ⟨⟨10, 7, ⟨some 20, none, 0⟩⟩, some []⟩
    ∧ findEntry exLwwSrc.root [10] = some ⟨⟨10, 9, ⟨some 30, some 25, 0⟩⟩, some []⟩
    ∧ findEntry exLwwRes.root [2, 10] = some ⟨⟨10, 9, ⟨some 30, some 25, 0⟩⟩, some [⟨10, 7, ⟨some 20, none, 0⟩⟩]⟩ := by
  refine ⟨?_, ?_, ?_⟩ <;> simp [findEntry, getPath, exLwwDst, exLwwSrc, exLwwRes, Node.children, Node.uuid, Node.isGroup]
example : (uuidsL exLwwDst.root.children).Nodup ∧ (uuidsL exLwwSrc.root.children).Nodup := by decide

/-- **C14 (last writer wins for groups, for the whole merge)**: a group below the root that both replicas hold has, wherever
    the merge leaves it, its own data (name, notes, icon, settings: the opaque `content` token) from the destination unless the
    source's modification time is strictly later, in which case from the source — whatever else the merge did.  For every
    destination and source that are groups with pairwise distinct UUIDs below them and a root UUID of their own. -/
theorem C14_group_last_writer_wins (now : Int) (dst src d' : Db) (evs : List Event)
    (hr : dst.root.isGroup = true) (hn : (uuidsL dst.root.children).Nodup) (hfd : dst.root.uuid ∉ uuidsL dst.root.children)
    (hrs : src.root.isGroup = true) (hns : (uuidsL src.root.children).Nodup) (hfs : src.root.uuid ∉ uuidsL src.root.children)
    (h : merge now dst src = .ok (d', evs))
    (pd ps pr : List Nat) (u dc : Nat) (dt : Times) (dch : List Node) (sc : Nat) (st : Times) (sch : List Node)
    (rc : Nat) (rt : Times) (rch : List Node) (hpd : pd ≠ []) (hps : ps ≠ [])
    (hd : getPath dst.root pd = some (.group u dc dt dch)) (hs : getPath src.root ps = some (.group u sc st sch))
    (hres : getPath d'.root pr = some (.group u rc rt rch)) :
    rc = if dt.mtime.getD now ≥ st.mtime.getD 0 then dc else sc :=
  merge_group_lww now dst src d' evs ⟨hr, hn⟩ hfd ⟨hrs, hns⟩ hfs h pd ps pr u dc dt dch sc st sch rc rt rch hpd hps hd hs hres

/-- **C14 (… and the group's modification time)**: when the two versions of a group differ in their own data, the group carries
    the modification time of the side that modified it last -/
theorem C14_group_time_of_last_writer (now : Int) (dst src d' : Db) (evs : List Event)
    (hr : dst.root.isGroup = true) (hn : (uuidsL dst.root.children).Nodup) (hfd : dst.root.uuid ∉ uuidsL dst.root.children)
    (hrs : src.root.isGroup = true) (hns : (uuidsL src.root.children).Nodup) (hfs : src.root.uuid ∉ uuidsL src.root.children)
    (h : merge now dst src = .ok (d', evs))
    (pd ps pr : List Nat) (u dc : Nat) (dt : Times) (dch : List Node) (sc : Nat) (st : Times) (sch : List Node)
    (rc : Nat) (rt : Times) (rch : List Node) (hpd : pd ≠ []) (hps : ps ≠ [])
    (hd : getPath dst.root pd = some (.group u dc dt dch)) (hs : getPath src.root ps = some (.group u sc st sch))
    (hres : getPath d'.root pr = some (.group u rc rt rch)) (hdiff : dc ≠ sc) :
    rt.mtime = if dt.mtime.getD now ≥ st.mtime.getD 0 then dt.mtime else st.mtime := by
  obtain ⟨hst, hc⟩ := merge_group_lww_state now dst src d' evs ⟨hr, hn⟩ hfd ⟨hrs, hns⟩ hfs h pd ps pr u dc dt dch sc st sch rc rt rch
    hpd hps hd hs hres
  by_cases hge : dt.mtime.getD now ≥ st.mtime.getD 0
  · rw [if_pos hge] at hc ⊢
    rcases hst with ⟨_, hm⟩ | ⟨hc2, _⟩
    · exact hm
    · exact absurd (hc.symm.trans hc2) hdiff
  · rw [if_neg hge] at hc ⊢
    rcases hst with ⟨hc2, _⟩ | ⟨_, hm⟩
    · exact absurd (hc2.symm.trans hc) hdiff
    · exact hm

/-- the premises are met by a non-trivial pair: the source renamed the sub-group later -/
def exLwwGSrc : Db := ⟨.group 1 0 ⟨some 5, none, 0⟩ [.group 2 4 ⟨some 8, none, 0⟩ []], []⟩
def exLwwGRes : Db := ⟨.group 1 0 ⟨some 5, none, 0⟩ [.group 2 4 ⟨some 8, none, 0⟩ [.entry ⟨⟨10, 7, ⟨some 20, none, 0⟩⟩, some []⟩]], []⟩
set_option maxRecDepth 4000 in
example : merge 100 exLwwDst exLwwGSrc = .ok (exLwwGRes, [(.groupUpdated, 2)]) := by
  simp [merge, exLwwDst, exLwwGSrc, exLwwGRes, mergeRoot, groupMergeData, groupCount, groupCountL, mergePasses, mergeGroup, mergeEntries,
    mergeSubgroups, findLoc, findLocL, findLocG, findGroup, getPath, updatePath, updFirst, St.ev,
    mergeDeletions, deleteEntries, deleteGroups, deletionFuel, tombsContain, Node.children, Node.uuid, Node.isGroup, Node.setChildren,
    bind, Except.bind, pure, Except.pure]
example : getPath exLwwDst.root [2] = some (.group 2 0 ⟨some 5, none, 0⟩ [.entry ⟨⟨10, 7, ⟨some 20, none, 0⟩⟩, some []⟩])
    ∧ getPath exLwwGSrc.root [2] = some (.group 2 4 ⟨some 8, none, 0⟩ [])
    ∧ getPath exLwwGRes.root [2] = some (.group 2 4 ⟨some 8, none, 0⟩ [.entry ⟨⟨10, 7, ⟨some 20, none, 0⟩⟩, some []⟩]) := by
  refine ⟨?_, ?_, ?_⟩ <;> simp [getPath, exLwwDst, exLwwGSrc, exLwwGRes, Node.children, Node.uuid]
example : (uuidsL exLwwGSrc.root.children).Nodup ∧ exLwwDst.root.uuid ∉ uuidsL exLwwDst.root.children
    ∧ exLwwGSrc.root.uuid ∉ uuidsL exLwwGSrc.root.children := by decide

/-- **C14 (the history union, for the whole merge)**: an entry that both replicas hold, with different modification times, has
    in the result of the merge a history that represents — by modification time, the key `History::merge_with` unites by —
    every history item of the destination's version and every history item of the source's version, and, when the two versions
    differ in content or history, the losing side's current version if that was not yet in its own history.  (When the two
    versions have the same content and history nothing is merged; that the merged history is newest first without a time
    twice is `history_merge_spec`.)  For every destination and source that are groups with pairwise distinct UUIDs below them. -/
theorem C14_history_union (now : Int) (dst src d' : Db) (evs : List Event)
    (hr : dst.root.isGroup = true) (hn : (uuidsL dst.root.children).Nodup)
    (hrs : src.root.isGroup = true) (hns : (uuidsL src.root.children).Nodup)
    (h : merge now dst src = .ok (d', evs))
    (pd ps pr : List Nat) (de se e' : Entry)
    (hd : findEntry dst.root pd = some de) (hs : findEntry src.root ps = some se) (hu : de.d.uuid = se.d.uuid)
    (hne : de.d.times.mtime.getD now ≠ se.d.times.mtime.getD 0)
    (hres : findEntry d'.root pr = some e') (hu' : e'.d.uuid = se.d.uuid) :
    (∀ t ∈ histTimes de, t ∈ histTimes e') ∧ (∀ t ∈ histTimes se, t ∈ histTimes e')
    ∧ (entryDiverged de se = true → de.d.times.mtime.getD now < se.d.times.mtime.getD 0 → hasUncommitted de = true →
        ∀ t, de.d.times.mtime = some t → t ∈ histTimes e')
    ∧ (entryDiverged de se = true → de.d.times.mtime.getD now > se.d.times.mtime.getD 0 → hasUncommitted se = true →
        ∀ t, se.d.times.mtime = some t → t ∈ histTimes e') :=
  merge_entry_history now dst src d' evs ⟨hr, hn⟩ ⟨hrs, hns⟩ h pd ps pr de se e' hd hs hu hne hres hu'

/-- the premises are met by a pair with histories on both sides; the result represents 20 (the loser's current version), 15, 10 -/
def exHDst : Db := ⟨.group 1 0 ⟨some 5, none, 0⟩ [.entry ⟨⟨10, 7, ⟨some 20, none, 0⟩⟩, some [⟨10, 6, ⟨some 10, none, 0⟩⟩]⟩], []⟩
def exHSrc : Db := ⟨.group 1 0 ⟨some 5, none, 0⟩ [.entry ⟨⟨10, 9, ⟨some 30, none, 0⟩⟩, some [⟨10, 8, ⟨some 15, none, 0⟩⟩]⟩], []⟩
def exHRes : Db := ⟨.group 1 0 ⟨some 5, none, 0⟩ [.entry ⟨⟨10, 9, ⟨some 30, none, 0⟩⟩,
  some [⟨10, 7, ⟨some 20, none, 0⟩⟩, ⟨10, 8, ⟨some 15, none, 0⟩⟩, ⟨10, 6, ⟨some 10, none, 0⟩⟩]⟩], []⟩
set_option maxRecDepth 4000 in
example : merge 100 exHDst exHSrc = .ok (exHRes, [(.entryUpdated, 10)]) := by
  simp [merge, exHDst, exHSrc, exHRes, mergeRoot, groupMergeData, groupCount, groupCountL, mergePasses, mergeGroup, mergeEntries,
    mergeSubgroups, mergeEntryStep, findLoc, findLocL, findEntry, getPath, updatePath, updFirst, entryUpdate,
    entryDiverged, entryMerge, mergeHistory, historyMerge, phase1, phase2, srcItems, hasUncommitted, insertDesc, keepLoc, St.ev,
    mergeDeletions, deleteEntries, deleteGroups, deletionFuel, tombsContain, Node.children, Node.uuid, Node.isGroup, Node.setChildren,
    bind, Except.bind, pure, Except.pure]
example : (findEntry exHDst.root [10]).map histTimes = some [10] ∧ (findEntry exHSrc.root [10]).map histTimes = some [15]
    ∧ (findEntry exHRes.root [10]).map histTimes = some [20, 15, 10] := by
  refine ⟨?_, ?_, ?_⟩ <;> simp [findEntry, getPath, exHDst, exHSrc, exHRes, Node.children, Node.uuid, histTimes]

/-- **C14 (last mover wins, for the whole merge)**: both replicas hold the entry `u` (the same root group on both sides, with a
    UUID of its own), both carry a location-changed time for it, and the source's is strictly later.  If the merge reaches the
    source's entry outside every group the destination has deleted (`liveL`: no group above it in the source has a tombstone in
    the destination), then wherever `find_node_location` finds the entry in the result, its parent is the group that holds it in
    the source — the last element of the location path (none = directly below the root).  Followed through the whole merge with
    "every group that has a child `u` is the group `X`" (`Db/MergePlace.lean`): other nodes' moves, creations and updates keep
    it, the visit of the source's entry moves it (or finds it already there), later passes find the two parents equal and leave
    it, the deletion passes only remove. -/
theorem C14_entry_last_mover_wins (now : Int) (dst src d' : Db) (evs : List Event)
    (hr : dst.root.isGroup = true) (hn : (uuidsL dst.root.children).Nodup)
    (hrs : src.root.isGroup = true) (hns : (uuidsL src.root.children).Nodup)
    (hru : src.root.uuid = dst.root.uuid)
    (hfd : dst.root.uuid ∉ uuidsL dst.root.children) (hfs : src.root.uuid ∉ uuidsL src.root.children)
    (h : merge now dst src = .ok (d', evs))
    (u : Nat) (qd qs qr : List Nat) (de se : Entry)
    (hld : findLoc dst.root u = some qd) (hd : findEntry dst.root (qd ++ [u]) = some de)
    (hls : findLoc src.root u = some qs) (hs : findEntry src.root (qs ++ [u]) = some se)
    (dl sl : Int) (hdl : de.d.times.loc = some dl) (hsl : se.d.times.loc = some sl) (hgt : sl > dl)
    (hlive : u ∈ liveL dst.tombs src.root.children)
    (hlr : findLoc d'.root u = some qr) : qr.getLast? = qs.getLast? :=
  merge_entry_moved now dst src d' evs ⟨hr, hn⟩ ⟨hrs, hns⟩ hru hfd hfs h u qd qs qr de se hld hd hls hs dl sl hdl hsl hgt hlive hlr

/-- **C14 (the destination's move stands when the source's is not later)**: under the same premises with the source's
    location-changed time not later than the destination's, the entry's parent in the result is the group that holds it in the
    destination. -/
theorem C14_entry_destination_move_stands (now : Int) (dst src d' : Db) (evs : List Event)
    (hr : dst.root.isGroup = true) (hn : (uuidsL dst.root.children).Nodup)
    (hrs : src.root.isGroup = true) (hns : (uuidsL src.root.children).Nodup)
    (hru : src.root.uuid = dst.root.uuid)
    (hfd : dst.root.uuid ∉ uuidsL dst.root.children) (hfs : src.root.uuid ∉ uuidsL src.root.children)
    (h : merge now dst src = .ok (d', evs))
    (u : Nat) (qd qs qr : List Nat) (de se : Entry)
    (hld : findLoc dst.root u = some qd) (hd : findEntry dst.root (qd ++ [u]) = some de)
    (hls : findLoc src.root u = some qs) (hs : findEntry src.root (qs ++ [u]) = some se)
    (dl sl : Int) (hdl : de.d.times.loc = some dl) (hsl : se.d.times.loc = some sl) (hle : ¬ sl > dl)
    (hlr : findLoc d'.root u = some qr) : qr.getLast? = qd.getLast? :=
  merge_entry_stays now dst src d' evs ⟨hr, hn⟩ ⟨hrs, hns⟩ hru hfd hfs h u qd qs qr de se hld hd hls hs dl sl hdl hsl hle hlr

/-- the premises of `C14_entry_last_mover_wins` are met by a non-trivial pair: the source moved the entry, later, into a group
    the destination does not have yet -/
def exMvDst : Db := ⟨.group 1 0 ⟨some 5, none, 0⟩ [.group 2 0 ⟨some 5, none, 0⟩ [.entry ⟨⟨10, 7, ⟨some 20, some 20, 0⟩⟩, some []⟩]], []⟩
def exMvSrc : Db := ⟨.group 1 0 ⟨some 5, none, 0⟩ [.group 2 0 ⟨some 5, none, 0⟩ [],
  .group 3 0 ⟨some 5, none, 0⟩ [.entry ⟨⟨10, 7, ⟨some 20, some 25, 0⟩⟩, some []⟩]], []⟩
def exMvRes : Db := ⟨.group 1 0 ⟨some 5, none, 0⟩ [.group 2 0 ⟨some 5, none, 0⟩ [],
  .group 3 0 ⟨some 5, none, 0⟩ [.entry ⟨⟨10, 7, ⟨some 20, some 25, 0⟩⟩, some []⟩]], []⟩
set_option linter.unusedSimpArgs false in
set_option maxRecDepth 8000 in
example : merge 100 exMvDst exMvSrc = .ok (exMvRes, [(.groupCreated, 3), (.entryLocationUpdated, 10)]) := by
  simp [merge, exMvDst, exMvSrc, exMvRes, mergeRoot, groupMergeData, groupCount, groupCountL, mergePasses, mergeGroup, mergeEntries,
    mergeSubgroups, mergeEntryStep, refreshPath, relocate, removeNode, findLoc, findLocL, findLocG, findEntry, findGroup, getPath, updatePath, updFirst,
    entryUpdate, entryDiverged, Entry.setLoc, Node.setLoc, St.ev,
    mergeDeletions, deleteEntries, deleteGroups, deletionFuel, tombsContain, Node.children, Node.uuid, Node.isGroup, Node.setChildren,
    bind, Except.bind, pure, Except.pure]
set_option linter.unusedSimpArgs false in
example : findLoc exMvDst.root 10 = some [2] ∧ findLoc exMvSrc.root 10 = some [3] ∧ findLoc exMvRes.root 10 = some [3]
    ∧ (10 : Nat) ∈ liveL exMvDst.tombs exMvSrc.root.children := by
  refine ⟨?_, ?_, ?_, ?_⟩ <;>
  simp [findLoc, findLocL, findLocG, exMvDst, exMvSrc, exMvRes, Node.children, Node.uuid, liveL, liveN, tombsContain]

/-- **C14 (what exists only in the source is created under the same parent)**: the destination does not hold the UUID `u` (of an
    entry or of a group), the source does (the same root group on both sides, with a UUID of its own).  Wherever
    `find_node_location` finds it in the result, its parent is the group that holds it in the source.  (That it *is* in the
    result unless tombstoned is `C14_source_nodes_created`.) -/
theorem C14_created_under_same_parent (now : Int) (dst src d' : Db) (evs : List Event)
    (hr : dst.root.isGroup = true) (hn : (uuidsL dst.root.children).Nodup)
    (hrs : src.root.isGroup = true) (hns : (uuidsL src.root.children).Nodup)
    (hru : src.root.uuid = dst.root.uuid)
    (hfd : dst.root.uuid ∉ uuidsL dst.root.children) (hfs : src.root.uuid ∉ uuidsL src.root.children)
    (h : merge now dst src = .ok (d', evs))
    (u : Nat) (qs qr : List Nat) (hnd : u ∉ uuidsL dst.root.children)
    (hls : findLoc src.root u = some qs) (hlr : findLoc d'.root u = some qr) : qr.getLast? = qs.getLast? :=
  merge_created_under_parent now dst src d' evs ⟨hr, hn⟩ ⟨hrs, hns⟩ hru hfd hfs h u qs qr hnd hls hlr

-- non-vacuity: the group 3 of `exMvSrc` is not in `exMvDst`
set_option linter.unusedSimpArgs false in
example : (3 : Nat) ∉ uuidsL exMvDst.root.children ∧ findLoc exMvSrc.root 3 = some [] ∧ findLoc exMvRes.root 3 = some [] := by
  refine ⟨by decide, ?_, ?_⟩ <;>
  simp [findLoc, findLocL, findLocG, exMvSrc, exMvRes, Node.children, Node.uuid]

/-- **C14 (every history stays newest first, no time twice)**: when the history of every entry of both replicas is strictly
    descending by modification time (`allE HistSorted`: every entry of the tree), so is the history of every entry of the result —
    an entry the merge did not update keeps its history, an updated one gets the union `History::merge_with` builds
    (`history_merge_spec`), a created one the source's.  With `C14_history_union`: every version of both sides, each time once,
    newest first. -/
theorem C14_histories_sorted (now : Int) (dst src d' : Db) (evs : List Event)
    (hr : dst.root.isGroup = true) (hn : (uuidsL dst.root.children).Nodup)
    (hD : allE HistSorted dst.root) (hS : allE HistSorted src.root) (h : merge now dst src = .ok (d', evs)) :
    allE HistSorted d'.root :=
  merge_histories_sorted now dst src d' evs ⟨hr, hn⟩ hD hS h

example : allE HistSorted exHDst.root ∧ allE HistSorted exHSrc.root ∧ allE HistSorted exHRes.root := by
  simp [allE, allEL, HistSorted, histTimes, exHDst, exHSrc, exHRes, SortedDesc]

end Kp.Merge
