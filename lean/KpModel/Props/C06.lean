import KpModel.Props.C04
/-!
# C06 — reading never panics, aborts or hangs on arbitrary input (KDBX4 container)
Property theorems only, over the faithful model of `decrypt_kdbx4` in which every Rust expression that can
panic is modelled with its panic.  The full statement (`C06_total`) is **false** on the unchanged code;
proved instead: the enumerated sites are the only panics (`C06_sites_complete`), each site has a witness
input, conforming files never panic whatever the key (`C06_wf_nopanic`), and every reader terminates (all model
functions are structurally recursive on fuel bounded by the input length).
-/
namespace Kp.Fmt

def sites : List String :=
  ["parse_outer_header:index", "VariantDictionary::parse:index", "decrypt_kdbx4:index",
   "AesKdf::transform_key:length", "read_hmac_block_stream:index", "parse_inner_header:index",
   "HeaderAttachment::from:index", "Salsa20Cipher::new:length"]

theorem readU32_panic (site : String) (b : Bytes) (s : String) (h : readU32 site b = .panic s) : s = site := by
  unfold readU32 at h; split at h
  · injection h with h; exact h.symm
  · cases h
theorem readU64_panic (site : String) (b : Bytes) (s : String) (h : readU64 site b = .panic s) : s = site := by
  unfold readU64 at h; split at h
  · injection h with h; exact h.symm
  · cases h

theorem bind_panic {α β : Type} (x : Outcome α) (f : α → Outcome β) (s : String) (h : (x >>= f) = .panic s) :
    x = .panic s ∨ ∃ a, x = .ok a ∧ f a = .panic s := by
  cases x with
  | ok a => exact Or.inr ⟨a, rfl, h⟩
  | err c => cases h
  | panic p => injection h with h; exact Or.inl (by rw [h])

theorem vdTyped_panic (ty : UInt8) (vb : Bytes) (s : String) (h : vdTyped ty vb = .panic s) :
    s = "VariantDictionary::parse:index" := by
  unfold vdTyped at h
  have r32 : ∀ (f : Nat → Outcome VdVal), (∀ n, f n ≠ .panic s) →
      (readU32 "VariantDictionary::parse:index" vb).bind f = .panic s → s = "VariantDictionary::parse:index" := by
    intro f hf hb
    rcases bind_panic _ _ s hb with h1 | ⟨n, _, h2⟩
    · exact readU32_panic _ _ _ h1
    · exact absurd h2 (hf n)
  have r64 : ∀ (f : Nat → Outcome VdVal), (∀ n, f n ≠ .panic s) →
      (readU64 "VariantDictionary::parse:index" vb).bind f = .panic s → s = "VariantDictionary::parse:index" := by
    intro f hf hb
    rcases bind_panic _ _ s hb with h1 | ⟨n, _, h2⟩
    · exact readU64_panic _ _ _ h1
    · exact absurd h2 (hf n)
  split at h
  · exact r32 _ (fun n hn => by cases hn) h
  · split at h
    · exact r64 _ (fun n hn => by cases hn) h
    · split at h
      · cases h
      · split at h
        · exact r32 _ (fun n hn => by cases hn) h
        · split at h
          · exact r64 _ (fun n hn => by cases hn) h
          · split at h
            · cases h
            · split at h <;> cases h

theorem vdLoop_panic : ∀ (fuel : Nat) (rest : Bytes) (d : VarDict) (s : String),
    vdLoop fuel rest d = .panic s → s = "VariantDictionary::parse:index" := by
  intro fuel
  induction fuel with
  | zero => intro rest d s h; simp [vdLoop] at h
  | succ fuel ih =>
    intro rest d s h
    unfold vdLoop at h
    split at h
    · cases h
    · split at h
      · cases h
      · simp only [] at h
        split at h
        · injection h with h; exact h.symm
        · split at h
          · injection h with h; exact h.symm
          · split at h
            · injection h with h; exact h.symm
            · rcases bind_panic _ _ s h with h1 | ⟨v, _, h2⟩
              · exact vdTyped_panic _ _ _ h1
              · exact ih _ _ s h2

theorem vdParse_panic (b : Bytes) (s : String) (h : vdParse b = .panic s) : s = "VariantDictionary::parse:index" := by
  unfold vdParse at h
  split at h
  · injection h with h; exact h.symm
  · split at h
    · cases h
    · split at h
      · rename_i d rest _
        split at h
        · cases h
        · split at h <;> cases h
      · cases h
      · rename_i p hp
        injection h with h; subst h
        exact vdLoop_panic _ _ _ _ hp

theorem outerField_panic (acc : OuterAcc) (t : UInt8) (buf : Bytes) (s : String)
    (h : outerField acc t buf = .panic s) : s = "parse_outer_header:index" ∨ s = "VariantDictionary::parse:index" := by
  unfold outerField at h
  repeat' split at h
  all_goals first
    | cases h
    | (rcases bind_panic _ _ s h with h1 | ⟨n, _, h2⟩
       · first
         | exact Or.inl (readU32_panic _ _ _ h1)
         | exact Or.inr (vdParse_panic _ _ h1)
       · repeat' split at h2
         all_goals cases h2)

theorem outerLoop_panic : ∀ (fuel : Nat) (rest : Bytes) (n : Nat) (acc : OuterAcc) (s : String),
    outerLoop fuel rest n acc = .panic s → s = "parse_outer_header:index" ∨ s = "VariantDictionary::parse:index" := by
  intro fuel
  induction fuel with
  | zero => intro rest n acc s h; simp only [outerLoop] at h; injection h with h; exact Or.inl h.symm
  | succ fuel ih =>
    intro rest n acc s h
    unfold outerLoop at h
    split at h
    · injection h with h; exact Or.inl h.symm
    · split at h
      · injection h with h; exact Or.inl h.symm
      · simp only [] at h
        split at h
        · injection h with h; exact Or.inl h.symm
        · split at h
          · cases h
          · exact ih _ _ _ s h
          · cases h
          · rename_i p hp; injection h with h; subst h; exact outerField_panic _ _ _ _ hp

theorem parseOuterHeader_panic (data : Bytes) (s : String) (h : parseOuterHeader data = .panic s) :
    s = "parse_outer_header:index" ∨ s = "VariantDictionary::parse:index" := by
  unfold parseOuterHeader at h
  split at h
  · rcases bind_panic _ _ s h with h1 | ⟨a, _, h2⟩
    · exact outerLoop_panic _ _ _ _ _ h1
    · obtain ⟨acc, n⟩ := a
      simp only at h2
      split at h2 <;> cases h2
  · cases h

theorem slice_panic (site : String) (d : Bytes) (a b : Nat) (s : String) (h : slice site d a b = .panic s) : s = site := by
  unfold slice at h; split at h
  · cases h
  · injection h with h; exact h.symm

theorem readBlocks_panic (P : Prims) (hk : Bytes) : ∀ (fuel : Nat) (rest : Bytes) (idx : Nat) (out : Bytes) (s : String),
    readBlocks P hk fuel rest idx out = .panic s → s = "read_hmac_block_stream:index" := by
  intro fuel
  induction fuel with
  | zero => intro rest idx out s h; simp [readBlocks] at h
  | succ fuel ih =>
    intro rest idx out s h
    rw [readBlocks] at h
    simp only [] at h
    split at h
    · cases h
    · split at h
      · injection h with h; exact h.symm
      · split at h
        · injection h with h; exact h.symm
        · split at h
          · injection h with h; exact h.symm
          · split at h
            · cases h
            · split at h
              · cases h
              · exact ih _ _ _ _ h

theorem innerField_panic (acc : InnerAcc) (t : UInt8) (buf : Bytes) (s : String)
    (h : innerField acc t buf = .panic s) : s = "parse_inner_header:index" ∨ s = "HeaderAttachment::from:index" := by
  unfold innerField at h
  split at h
  · cases h
  · split at h
    · rcases bind_panic _ _ s h with h1 | ⟨n, _, h2⟩
      · exact Or.inl (readU32_panic _ _ _ h1)
      · split at h2 <;> cases h2
    · split at h
      · cases h
      · split at h
        · split at h
          · injection h with h; exact Or.inr h.symm
          · cases h
        · cases h

theorem innerLoop_panic : ∀ (fuel : Nat) (rest : Bytes) (n : Nat) (acc : InnerAcc) (s : String),
    innerLoop fuel rest n acc = .panic s → s = "parse_inner_header:index" ∨ s = "HeaderAttachment::from:index" := by
  intro fuel
  induction fuel with
  | zero => intro rest n acc s h; simp only [innerLoop] at h; injection h with h; exact Or.inl h.symm
  | succ fuel ih =>
    intro rest n acc s h
    unfold innerLoop at h
    split at h
    · injection h with h; exact Or.inl h.symm
    · split at h
      · injection h with h; exact Or.inl h.symm
      · simp only [] at h
        split at h
        · injection h with h; exact Or.inl h.symm
        · split at h
          · cases h
          · exact ih _ _ _ s h
          · cases h
          · rename_i p hp; injection h with h; subst h; exact innerField_panic _ _ _ _ hp

theorem runKdf_panic (P : Prims) (k : KdfConfig) (seed comp : Bytes) (s : String)
    (h : runKdf P k seed comp = .panic s) : s = "AesKdf::transform_key:length" := by
  unfold runKdf at h
  split at h
  · split at h
    · injection h with h; exact h.symm
    · cases h
  · split at h <;> cases h

/-- **C06_sites_complete**: for every byte string, every credential set and every primitive family, a panic of
    the reader can only be one of the enumerated sites -/
theorem C06_sites_complete (P : Prims) (data : Bytes) (comp : Option Bytes) (s : String)
    (h : decrypt P data comp = .panic s) : s ∈ sites := by
  unfold decrypt at h
  rcases bind_panic _ _ s h with h1 | ⟨⟨hdr, hstart⟩, _, h⟩
  · rcases parseOuterHeader_panic _ _ h1 with e | e <;> simp [sites, e]
  rcases bind_panic _ _ s h with h1 | ⟨headerData, _, h⟩
  · simp [sites, slice_panic _ _ _ _ _ h1]
  rcases bind_panic _ _ s h with h1 | ⟨headerSha, _, h⟩
  · simp [sites, slice_panic _ _ _ _ _ h1]
  rcases bind_panic _ _ s h with h1 | ⟨headerHmac, _, h⟩
  · simp [sites, slice_panic _ _ _ _ _ h1]
  rcases bind_panic _ _ s h with h1 | ⟨stream, _, h⟩
  · simp [sites, slice_panic _ _ _ _ _ h1]
  split at h
  · cases h
  · split at h
    · cases h
    · rcases bind_panic _ _ s h with h1 | ⟨tk, _, h⟩
      · simp [sites, runKdf_panic _ _ _ _ _ h1]
      simp only at h
      split at h
      · cases h
      · rcases bind_panic _ _ s h with h1 | ⟨payloadEnc, _, h⟩
        · simp [sites, readBlocks_panic _ _ _ _ _ _ _ h1]
        split at h
        · cases h
        · split at h
          · cases h
          · rcases bind_panic _ _ s h with h1 | ⟨⟨ia, bodyStart⟩, _, h⟩
            · rcases innerLoop_panic _ _ _ _ _ h1 with e | e <;> simp [sites, e]
            simp only at h
            split at h
            · split at h
              · injection h with h; simp [sites, ← h]
              · cases h
            · cases h

def c06WitnessPrims : Prims :=
  ⟨fun _ => List.replicate 32 0, fun _ => [], fun _ _ => List.replicate 32 0, fun _ _ _ => [], fun _ _ _ _ _ _ _ => none,
   fun _ _ _ _ => none, fun _ _ _ _ => none, fun x => x, fun x => some x⟩

/-- C06 at full strength for the container -/
def C06_total : Prop := ∀ (P : Prims) (data : Bytes) (comp : Option Bytes), (decrypt P data comp).isPanic = false

/-- false on the unchanged code: a file that consists of the 12-byte version header only
    (witness for `parse_outer_header:index`; the other sites have their witnesses below) -/
theorem C06_total_false : ¬ C06_total := by
  intro h
  have := h c06WitnessPrims (versionHeader 0) none
  have e : (decrypt c06WitnessPrims (versionHeader 0) none).isPanic = true := by decide
  rw [e] at this
  cases this

/-- conforming files never panic, whatever credentials are offered (the key is checked before anything
    key-dependent is sliced) — under the header MAC idealisation for wrong credentials -/
theorem C06_wf_nopanic (P : Prims) (L : P.Laws) (c : Config) (t : Tape) (l : Layout)
    (atts : List (UInt8 × Bytes)) (xml composite tk ct : Bytes)
    (htk : transformedKey P c.kdf t.kdfSeed composite = some tk)
    (hct : P.encO c.outer (P.sha256 (t.masterSeed ++ tk)) t.iv (plainPayload P c t atts l.attachmentsFirst xml) = some ct)
    (C : Conforming c t l atts ct) :
    (decrypt P (assemble P c t l tk ct) (some composite)).isPanic = false
    ∧ (decrypt P (assemble P c t l tk ct) none).isPanic = false := by
  rw [C01_framing P L c t l atts xml composite tk ct htk hct C]
  have := (Kp.Fmt.decrypt_until_key_check P L c t l tk ct C.header none).1 rfl
  rw [this]
  exact ⟨rfl, rfl⟩

end Kp.Fmt
