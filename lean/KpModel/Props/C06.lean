import KpModel.Props.C04
import KpModel.Format.Legacy
import KpModel.Codec.Time
import KpModel.Xml.Total
/-!
# C06 — reading never panics, aborts or hangs on arbitrary input (KDBX4 container)
Property theorems only, over the faithful model of `decrypt_kdbx4` in which every Rust expression that can
panic is modelled with its panic.  The full statement for the container (`C06_total`) was **false** on the code as found (finding F8: eight panic
sites, each with a witness input); the sites were repaired in /repo (`fix:` commits) and the model follows the
repaired code: `C06_kdbx4_total` proves that no input, key or primitive family makes the reader panic, and every
reader terminates (all model functions are structurally recursive on fuel bounded by the input length).
The legacy readers and the time-stamp scalar are covered in `C06b` below.
-/
namespace Kp.Fmt

theorem readU32_panic (b : Bytes) (s : String) (h : readU32E b = .panic s) : False := by
  unfold readU32E at h; split at h
  · cases h
  · cases h
theorem readU64_panic (b : Bytes) (s : String) (h : readU64E b = .panic s) : False := by
  unfold readU64E at h; split at h
  · cases h
  · cases h

theorem bind_panic {α β : Type} (x : Outcome α) (f : α → Outcome β) (s : String) (h : (x >>= f) = .panic s) :
    x = .panic s ∨ ∃ a, x = .ok a ∧ f a = .panic s := by
  cases x with
  | ok a => exact Or.inr ⟨a, rfl, h⟩
  | err c => cases h
  | panic p => injection h with h; exact Or.inl (by rw [h])

theorem vdTyped_panic (ty : UInt8) (vb : Bytes) (s : String) (h : vdTyped ty vb = .panic s) : False := by
  unfold vdTyped at h
  have r32 : ∀ (f : Nat → Outcome VdVal), (∀ n, f n ≠ .panic s) →
      (readU32E vb).bind f = .panic s → False := by
    intro f hf hb
    rcases bind_panic _ _ s hb with h1 | ⟨n, _, h2⟩
    · exact readU32_panic _ _ h1
    · exact absurd h2 (hf n)
  have r64 : ∀ (f : Nat → Outcome VdVal), (∀ n, f n ≠ .panic s) →
      (readU64E vb).bind f = .panic s → False := by
    intro f hf hb
    rcases bind_panic _ _ s hb with h1 | ⟨n, _, h2⟩
    · exact readU64_panic _ _ h1
    · exact absurd h2 (hf n)
  split at h
  · exact r32 _ (fun n hn => by cases hn) h
  · split at h
    · exact r64 _ (fun n hn => by cases hn) h
    · split at h
      · cases h
      · split at h
        · exact r32 _ (fun n hn => by cases hn) h
        · split at h
          · exact r64 _ (fun n hn => by cases hn) h
          · split at h
            · cases h
            · split at h <;> cases h

theorem vdLoop_panic : ∀ (fuel : Nat) (rest : Bytes) (d : VarDict) (s : String),
    vdLoop fuel rest d = .panic s → False := by
  intro fuel
  induction fuel with
  | zero => intro rest d s h; simp [vdLoop] at h
  | succ fuel ih =>
    intro rest d s h
    unfold vdLoop at h
    split at h
    · cases h
    · split at h
      · cases h
      · try simp only [] at h
        split at h
        · cases h
        · split at h
          · cases h
          · split at h
            · cases h
            · rcases bind_panic _ _ s h with h1 | ⟨v, _, h2⟩
              · exact vdTyped_panic _ _ _ h1
              · exact ih _ _ s h2

theorem vdParse_panic (b : Bytes) (s : String) (h : vdParse b = .panic s) : False := by
  unfold vdParse at h
  split at h
  · cases h
  · split at h
    · cases h
    · split at h
      · rename_i d rest _
        split at h
        · cases h
        · split at h <;> cases h
      · cases h
      · rename_i p hp
        injection h with h; subst h
        exact vdLoop_panic _ _ _ _ hp

theorem outerField_panic (acc : OuterAcc) (t : UInt8) (buf : Bytes) (s : String)
    (h : outerField acc t buf = .panic s) : False := by
  unfold outerField at h
  repeat' split at h
  all_goals first
    | cases h
    | (rcases bind_panic _ _ s h with h1 | ⟨n, _, h2⟩
       · first
         | exact readU32_panic _ _ h1
         | exact vdParse_panic _ _ h1
       · repeat' split at h2
         all_goals cases h2)

theorem outerLoop_panic : ∀ (fuel : Nat) (rest : Bytes) (n : Nat) (acc : OuterAcc) (s : String),
    outerLoop fuel rest n acc = .panic s → False := by
  intro fuel
  induction fuel with
  | zero => intro rest n acc s h; simp only [outerLoop] at h; cases h
  | succ fuel ih =>
    intro rest n acc s h
    unfold outerLoop at h
    split at h
    · cases h
    · split at h
      · cases h
      · try simp only [] at h
        split at h
        · cases h
        · split at h
          · cases h
          · exact ih _ _ _ s h
          · cases h
          · rename_i p hp; injection h with h; subst h; exact outerField_panic _ _ _ _ hp

theorem parseOuterHeader_panic (data : Bytes) (s : String) (h : parseOuterHeader data = .panic s) : False := by
  unfold parseOuterHeader at h
  split at h
  · rcases bind_panic _ _ s h with h1 | ⟨a, _, h2⟩
    · exact outerLoop_panic _ _ _ _ _ h1
    · obtain ⟨acc, n⟩ := a
      simp only at h2
      split at h2 <;> cases h2
  · cases h

theorem sliceE_panic (d : Bytes) (a b : Nat) (s : String) (h : sliceE d a b = .panic s) : False := by
  unfold sliceE at h; split at h
  · cases h
  · cases h

theorem readBlocks_panic (P : Prims) (hk : Bytes) : ∀ (fuel : Nat) (rest : Bytes) (idx : Nat) (out : Bytes) (s : String),
    readBlocks P hk fuel rest idx out = .panic s → False := by
  intro fuel
  induction fuel with
  | zero => intro rest idx out s h; simp [readBlocks] at h
  | succ fuel ih =>
    intro rest idx out s h
    rw [readBlocks] at h
    simp only [] at h
    split at h
    · cases h
    · split at h
      · cases h
      · split at h
        · cases h
        · split at h
          · cases h
          · split at h
            · cases h
            · split at h
              · cases h
              · exact ih _ _ _ _ h

theorem innerField_panic (acc : InnerAcc) (t : UInt8) (buf : Bytes) (s : String)
    (h : innerField acc t buf = .panic s) : False := by
  unfold innerField at h
  split at h
  · cases h
  · split at h
    · rcases bind_panic _ _ s h with h1 | ⟨n, _, h2⟩
      · exact readU32_panic _ _ h1
      · split at h2 <;> cases h2
    · split at h
      · cases h
      · split at h
        · split at h
          · cases h
          · cases h
        · cases h

theorem innerLoop_panic : ∀ (fuel : Nat) (rest : Bytes) (n : Nat) (acc : InnerAcc) (s : String),
    innerLoop fuel rest n acc = .panic s → False := by
  intro fuel
  induction fuel with
  | zero => intro rest n acc s h; simp only [innerLoop] at h; cases h
  | succ fuel ih =>
    intro rest n acc s h
    unfold innerLoop at h
    split at h
    · cases h
    · split at h
      · cases h
      · try simp only [] at h
        split at h
        · cases h
        · split at h
          · cases h
          · exact ih _ _ _ s h
          · cases h
          · rename_i p hp; injection h with h; subst h; exact innerField_panic _ _ _ _ hp

theorem runKdf_panic (P : Prims) (k : KdfConfig) (seed comp : Bytes) (s : String)
    (h : runKdf P k seed comp = .panic s) : False := by
  unfold runKdf at h
  split at h
  · split at h
    · cases h
    · cases h
  · split at h <;> cases h

/-- **C06_kdbx4_total**: for every byte string offered as a database, every credential set (present or absent)
    and every primitive family, the KDBX4 reader returns a value or an error: it has no panic left.
    (On the code as found this statement was false — eight panic sites, finding F8; they were repaired in /repo
    by `fix:` commits and the model follows the repaired code, so a re-introduced unchecked slice breaks the
    correspondence and this theorem's model no longer describes the code.) -/
theorem C06_kdbx4_total (P : Prims) (data : Bytes) (comp : Option Bytes) (s : String) :
    decrypt P data comp ≠ .panic s := by
  intro h
  unfold decrypt at h
  rcases bind_panic _ _ s h with h1 | ⟨⟨hdr, hstart⟩, _, h⟩
  · exact parseOuterHeader_panic _ _ h1
  rcases bind_panic _ _ s h with h1 | ⟨headerData, _, h⟩
  · exact sliceE_panic _ _ _ _ h1
  rcases bind_panic _ _ s h with h1 | ⟨headerSha, _, h⟩
  · exact sliceE_panic _ _ _ _ h1
  rcases bind_panic _ _ s h with h1 | ⟨headerHmac, _, h⟩
  · exact sliceE_panic _ _ _ _ h1
  rcases bind_panic _ _ s h with h1 | ⟨stream, _, h⟩
  · exact sliceE_panic _ _ _ _ h1
  split at h
  · cases h
  · split at h
    · cases h
    · rcases bind_panic _ _ s h with h1 | ⟨tk, _, h⟩
      · exact runKdf_panic _ _ _ _ _ h1
      try simp only at h
      split at h
      · cases h
      · rcases bind_panic _ _ s h with h1 | ⟨payloadEnc, _, h⟩
        · exact readBlocks_panic _ _ _ _ _ _ _ h1
        split at h
        · cases h
        · split at h
          · cases h
          · rcases bind_panic _ _ s h with h1 | ⟨⟨ia, bodyStart⟩, _, h⟩
            · exact innerLoop_panic _ _ _ _ _ h1
            try simp only at h
            split at h <;> cases h

/-- C06 at full strength for the KDBX4 container -/
def C06_total : Prop := ∀ (P : Prims) (data : Bytes) (comp : Option Bytes), (decrypt P data comp).isPanic = false

theorem C06_total_holds : C06_total := by
  intro P data comp
  cases h : decrypt P data comp with
  | ok a => rfl
  | err c => rfl
  | panic s => exact absurd h (C06_kdbx4_total P data comp s)

/-- the inputs that panicked before the repairs now give errors (regression witnesses, evaluated on the model):
    the 12-byte version header alone -/
def c06WitnessPrims : Prims :=
  ⟨fun _ => List.replicate 32 0, fun _ => [], fun _ _ => List.replicate 32 0, fun _ _ _ => [], fun _ _ _ _ _ _ _ => none,
   fun _ _ _ _ => none, fun _ _ _ _ => none, fun x => x, fun x => some x⟩

theorem C06_truncated_header_witness :
    decrypt c06WitnessPrims (versionHeader 0) none = .err .integrity := by decide

/-! ### Legacy readers and the time-stamp scalar (same repairs, same statement) -/

theorem h3Cipher_panic (acc : H3Acc) (buf : Bytes) (s : String) (h : h3Cipher acc buf = .panic s) : False := by
  unfold h3Cipher at h; split at h <;> cases h
theorem h3Compression_panic (acc : H3Acc) (buf : Bytes) (s : String) (h : h3Compression acc buf = .panic s) : False := by
  unfold h3Compression at h
  rcases bind_panic _ _ s h with h1 | ⟨n, _, h2⟩
  · exact readU32_panic _ _ h1
  · repeat' split at h2
    all_goals cases h2
theorem h3Rounds_panic (acc : H3Acc) (buf : Bytes) (s : String) (h : h3Rounds acc buf = .panic s) : False := by
  unfold h3Rounds at h
  rcases bind_panic _ _ s h with h1 | ⟨n, _, h2⟩
  · exact readU64_panic _ _ h1
  · cases h2
theorem h3Inner_panic (acc : H3Acc) (buf : Bytes) (s : String) (h : h3Inner acc buf = .panic s) : False := by
  unfold h3Inner at h
  rcases bind_panic _ _ s h with h1 | ⟨n, _, h2⟩
  · exact readU32_panic _ _ h1
  · split at h2 <;> cases h2

theorem h3Field_panic (acc : H3Acc) (t : UInt8) (buf : Bytes) (s : String)
    (h : h3Field acc t buf = .panic s) : False := by
  unfold h3Field at h
  repeat' split at h
  all_goals first
    | cases h
    | exact h3Cipher_panic _ _ _ h
    | exact h3Compression_panic _ _ _ h
    | exact h3Rounds_panic _ _ _ h
    | exact h3Inner_panic _ _ _ h

theorem h3Loop_panic : ∀ (fuel : Nat) (rest : Bytes) (n : Nat) (acc : H3Acc) (s : String),
    h3Loop fuel rest n acc = .panic s → False := by
  intro fuel
  induction fuel with
  | zero => intro rest n acc s h; simp only [h3Loop] at h; cases h
  | succ fuel ih =>
    intro rest n acc s h
    unfold h3Loop at h
    split at h
    · cases h
    · split at h
      · cases h
      · try simp only [] at h
        split at h
        · cases h
        · split at h
          · cases h
          · exact ih _ _ _ s h
          · cases h
          · rename_i p hp; injection h with h; subst h; exact h3Field_panic _ _ _ _ hp

theorem hashedBlocks_panic (P : Prims) : ∀ (fuel : Nat) (rest out : Bytes) (s : String),
    hashedBlocks P fuel rest out = .panic s → False := by
  intro fuel
  induction fuel with
  | zero => intro rest out s h; simp only [hashedBlocks] at h; cases h
  | succ fuel ih =>
    intro rest out s h
    rw [hashedBlocks] at h
    simp only [] at h
    repeat' split at h
    all_goals first
      | cases h
      | exact ih _ _ _ h

/-- **C06_kdbx3_total**: the KDBX 3.1 reader never panics -/
theorem C06_kdbx3_total (P : Prims) (data : Bytes) (comp : Option Bytes) (s : String) :
    decrypt3 P data comp ≠ .panic s := by
  intro h
  unfold decrypt3 at h
  split at h
  · cases h
  · rcases bind_panic _ _ s h with h1 | ⟨⟨acc, bodyStart⟩, _, h⟩
    · exact h3Loop_panic _ _ _ _ _ h1
    try simp only at h
    split at h
    · split at h
      · cases h
      · rcases bind_panic _ _ s h with h1 | ⟨tk, _, h⟩
        · exact runKdf_panic _ _ _ _ _ h1
        try simp only at h
        split at h
        · cases h
        · split at h
          · cases h
          · split at h
            · cases h
            · rcases bind_panic _ _ s h with h1 | ⟨buf, _, h⟩
              · exact hashedBlocks_panic _ _ _ _ _ h1
              split at h <;> cases h
    · cases h

theorem ensureLen_panic (sz want : Nat) (s : String) (h : ensureLen sz want = .panic s) : False := by
  unfold ensureLen at h; split at h <;> cases h

theorem ensureLen_bind_panic {α : Type} (sz want : Nat) (f : Unit → Outcome α) (s : String)
    (h : (ensureLen sz want).bind f = .panic s) : f () = .panic s := by
  unfold ensureLen at h
  split at h
  · exact h
  · cases h

theorem groupPlace_panic (st : GSt) (b : List (Bytes × List KNode)) (rc : List KNode) (p : List Nat) (level : Nat)
    (s : String) (h : groupPlace st b rc p level = .panic s) : False := by
  unfold groupPlace at h
  split at h
  · try simp only [] at h
    split at h <;> cases h
  · cases h

theorem groupEnd_panic (st : GSt) (s : String) (h : groupEnd st = .panic s) : False := by
  unfold groupEnd at h
  split at h
  · cases h
  · exact groupPlace_panic _ _ _ _ _ _ h

theorem groupField_panic (st : GSt) (ty sz : Nat) (v : Bytes) (s : String)
    (h : groupField st ty sz v = .panic s) : False := by
  unfold groupField at h
  repeat' split at h
  all_goals first
    | cases h
    | (have h' := ensureLen_bind_panic _ _ _ _ h
       first
         | cases h'
         | exact groupEnd_panic _ _ h')

theorem parseGroups_panic : ∀ (fuel want : Nat) (data : Bytes) (st : GSt) (s : String),
    parseGroups fuel want data st = .panic s → False := by
  intro fuel
  induction fuel with
  | zero => intro want data st s h; simp only [parseGroups] at h; cases h
  | succ fuel ih =>
    intro want data st s h
    unfold parseGroups at h
    split at h
    · cases h
    · split at h
      · cases h
      · split at h
        · exact ih _ _ _ _ h
        · cases h
        · rename_i p hp; injection h with h; subst h; exact groupField_panic _ _ _ _ _ hp

theorem entryEnd_panic (gm : List (Nat × List Nat)) (st : ESt) (s : String) (h : entryEnd gm st = .panic s) : False := by
  unfold entryEnd at h
  repeat' split at h
  all_goals cases h

theorem entryField_panic (gm : List (Nat × List Nat)) (st : ESt) (ty sz : Nat) (v : Bytes) (s : String)
    (h : entryField gm st ty sz v = .panic s) : False := by
  unfold entryField at h
  repeat' split at h
  all_goals first
    | cases h
    | (have h' := ensureLen_bind_panic _ _ _ _ h
       first
         | cases h'
         | exact entryEnd_panic _ _ _ h')

theorem parseEntries_panic (gm : List (Nat × List Nat)) : ∀ (fuel want : Nat) (data : Bytes) (st : ESt) (s : String),
    parseEntries gm fuel want data st = .panic s → False := by
  intro fuel
  induction fuel with
  | zero => intro want data st s h; simp only [parseEntries] at h; cases h
  | succ fuel ih =>
    intro want data st s h
    unfold parseEntries at h
    split at h
    · cases h
    · split at h
      · cases h
      · split at h
        · exact ih _ _ _ _ h
        · cases h
        · rename_i p hp; injection h with h; subst h; exact entryField_panic _ _ _ _ _ _ hp

theorem parseDb_panic (ng ne : Nat) (payload : Bytes) (s : String) (h : parseDb ng ne payload = .panic s) : False := by
  unfold parseDb at h
  rcases bind_panic _ _ s h with h1 | ⟨⟨gs, rest⟩, _, h⟩
  · exact parseGroups_panic _ _ _ _ _ h1
  try simp only at h
  split at h
  · cases h
  · rcases bind_panic _ _ s h with h1 | ⟨⟨es, r2⟩, _, h⟩
    · exact parseEntries_panic _ _ _ _ _ _ h1
    try simp only at h
    split at h <;> cases h

/-- **C06_kdb_total**: the KDB reader never panics, whatever the file, the key elements and the primitives -/
theorem C06_kdb_total (P : Prims) (data : Bytes) (comp : Option (Option Bytes)) (s : String) :
    parseKdb P data comp ≠ .panic s := by
  intro h
  unfold parseKdb at h
  split at h
  · cases h
  · try simp only [] at h
    split at h
    · cases h
    · cases h
    · rcases bind_panic _ _ s h with h1 | ⟨tk, _, h⟩
      · exact runKdf_panic _ _ _ _ _ h1
      try simp only at h
      rcases bind_panic _ _ s h with h1 | ⟨cipher, _, h⟩
      · repeat' split at h1
        all_goals cases h1
      split at h
      · cases h
      · split at h
        · cases h
        · split at h
          · cases h
          · try simp only [] at h
            split at h
            · cases h
            · rcases bind_panic _ _ s h with h1 | ⟨root, _, h⟩
              · exact parseDb_panic _ _ _ _ h1
              · cases h

/-- **C06_timestamp_total**: `parse_xml_timestamp` never panics (short or over-range base64 values are errors) -/
theorem C06_timestamp_total (t : String) (s : String) : Kp.Codec.parseTimestamp t ≠ .panic s := by
  intro h
  unfold Kp.Codec.parseTimestamp at h
  split at h
  · cases h
  · split at h
    · cases h
    · rename_i v _
      by_cases h1 : v.length < 8
      · simp only [h1, ↓reduceIte] at h; cases h
      · simp only [h1, ↓reduceIte] at h
        by_cases h2 : Kp.Codec.leI64 (List.take 8 v) > Kp.Codec.i64Max / 1000 ∨ Kp.Codec.leI64 (List.take 8 v) < -(Kp.Codec.i64Max / 1000)
        · simp only [h2, ↓reduceIte] at h; cases h
        · simp only [h2, ↓reduceIte] at h
          by_cases h3 : Kp.Codec.baseline + Kp.Codec.leI64 (List.take 8 v) < Kp.Codec.minDateTime
              ∨ Kp.Codec.baseline + Kp.Codec.leI64 (List.take 8 v) > Kp.Codec.maxDateTime
          · simp only [h3, ↓reduceIte] at h; cases h
          · simp only [h3, ↓reduceIte] at h; cases h

end Kp.Fmt

namespace Kp.Xml

/-- **C06_xml_total**: the XML object-model reader (`xml_db::parse`: `KeePassFile`, `Meta`, groups, entries with nested
    histories, values, times, custom data, …) never panics — for every event stream the tokenizer can deliver (error events
    included), every inner key stream and every decompressor -/
theorem C06_xml_total (env : Env) (evs : List Ev) (site : String) : parseContent env evs ≠ .panic site :=
  parseContent_no_panic env evs site

end Kp.Xml
