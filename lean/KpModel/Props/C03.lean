import KpModel.Xml.RoundTrip
/-!
# C03 — save followed by open is the identity on databases
Property theorems only (lemmas: `Codec/Lemmas.lean`, `Xml/RoundTrip.lean`).

Proved for all inputs:
* the container round trip (`C03_framing`, from C01/C07) and the inner-stream round trip in document order
  (`C01_stream_order`, in C08);
* the codecs the XML mapping is built from — base64, time stamps, UUIDs, booleans, decimal numbers;
* the struct-level XML mapping (writer events → xml-rs contract → reader) for `Value` (plain and protected, with the
  key-stream cursor), `Times`, `CustomData`, `AutoType` and whole entries with their nested histories
  (`C03_entry_roundtrip_partial`, tags included): for every entry of the stated domain, every key stream, every iteration order of
  every map and every position of the cursor, what the writer emits is read back as an entry with the same fields
  (maps compared as maps), the writer and the reader leaving the cursor at the same place.
* and on top of these the group tree, `Meta` and the whole document (`C03_xml_roundtrip_partial : C03_xml_full ContentOk`).
Outside the domain `ContentOk` (the writer does not write them back readably, C12's classes): byte-string values, blank
strings and empty field values, reserved time-stamp names, empty icon or attachment payloads; those are validated on every generated database by the correspondence op `xml` — a test, labelled so.
What ties the XML stage to bytes (xml-rs tokenizer and emitter) is the contract `view`, validated by the same op.
-/
namespace Kp.Codec
open Kp.Fmt

/-- base64 decoding inverts encoding, for every byte string -/
theorem C03_b64_roundtrip (b : Bytes) : b64Decode (b64Encode b) = some b := b64_roundtrip b

/-- a KDBX4 time stamp reads back as itself, for every whole second chrono can represent -/
theorem C03_timestamp_roundtrip (t : Int) (h1 : minDateTime ≤ t) (h2 : t ≤ maxDateTime) :
    parseTimestamp (formatTimestamp t) = .ok t := timestamp_roundtrip t h1 h2

end Kp.Codec

namespace Kp.Xml
open Kp.Fmt Kp.Codec

/-- a UUID (16 bytes) written as base64 reads back as itself -/
theorem C03_uuid_roundtrip (u : Bytes) (h : u.length = 16) : parseUuid (b64Text u) = some u := uuid_roundtrip u h

/-- booleans: written `True` / `False`, read case-insensitively -/
theorem C03_bool_roundtrip (b : Bool) : parseBool (boolText b) = some b := bool_roundtrip b

/-- decimal numbers (`usize`) -/
theorem C03_usize_roundtrip (n : Nat) (h : n < 18446744073709551616) : parseUsize (toString n) = some n :=
  usize_roundtrip n h

/-- C03's XML part at full strength, for a domain of databases: for every database of the domain, every key stream and
    every iteration order of every map, the writer reports success and the reader applied to what the writer emits
    (through the xml-rs contract) returns an equal database — maps compared as maps (`ContentEq`), because the writer may
    list a `HashMap` in any order — and ends with the inner-stream cursor where the writer ended. -/
def C03_xml_full (Domain : (Bytes → Bytes) → Content → Prop) : Prop :=
  ∀ (c : Content) (ks : Nat → Nat → Bytes) (gz : Bytes → Bytes) (gunz : Bytes → Option Bytes) (u : Bytes → Option String)
    (orders : List (List String)) (now : Int) (fresh : Bytes),
    Domain gz c → (∀ o n, (ks o n).length = n) → (∀ m, gunz (gz m) = some m) →
    (dumpContent ⟨ks, gz⟩ u orders c).2.1 = true ∧
    ∃ c', parseContent ⟨ks, gunz, now, fresh⟩ (view (dumpContent ⟨ks, gz⟩ u orders c).1 [])
        = .ok (c', (dumpContent ⟨ks, gz⟩ u orders c).2.2) ∧ ContentEq c c'

/-- **values**: a plain or protected value is read back as itself, the reader's cursor ending where the writer's did —
    for every key stream, every cursor position and whatever follows in the document -/
theorem C03_value_roundtrip (denv : DEnv) (penv : Env) (u : Bytes → Option String) (v : Value)
    (hks : ∀ o n, (penv.ks o n).length = n) (henv : denv.ks = penv.ks) (hv : ValueOk v)
    (stk : List String) (off : Nat) (ords : Ords) :
    ∃ evs off', Dumps (dumpValue denv v u) stk off ords true evs stk off' ords ∧ Reads (parseValue penv) evs off v off' := by
  refine ⟨_, _, dumps_value denv u v stk off ords hv, ?_⟩
  rw [henv]
  exact reads_value penv v off hv hks

/-- **times**: whatever order the time-stamp map is written in, it is read back as the same map -/
theorem C03_times_roundtrip (t : Times) (ht : TimesOk t) (hn : KeysNodup t.times) (stk : List String) (off : Nat)
    (ords : Ords) :
    ∃ evs t', Dumps (dumpTimes t) stk off ords () evs stk off ords.tail ∧ Reads parseTimes evs off t' off ∧
      t'.expires = t.expires ∧ t'.usageCount = t.usageCount ∧ ∀ k, t'.times.lookup k = t.times.lookup k :=
  ⟨_, _, dumps_times t stk off ords (fun p hp => (ht.2 p (mem_ordered _ _ p hp)).1),
    reads_times (ordered ords t.times) t off (fun p hp => (ht.2 p (mem_ordered _ _ p hp)).2) ht.1,
    rfl, rfl, lookup_insertAll_ordered ords t.times hn⟩

/-- **custom data**, protected items included -/
theorem C03_customData_roundtrip (denv : DEnv) (penv : Env) (u : Bytes → Option String) (cd : CustomData)
    (hks : ∀ o n, (penv.ks o n).length = n) (henv : denv.ks = penv.ks) (hcd : CdOk cd) (hn : KeysNodup cd)
    (stk : List String) (off : Nat) (ords : Ords) :
    ∃ evs off' cd', Dumps (dumpCustomData denv u cd) stk off ords true evs stk off' ords.tail ∧
      Reads (parseCustomData penv) evs off cd' off' ∧ ∀ k, cd'.lookup k = cd.lookup k := by
  refine ⟨_, _, _, dumps_customData denv u cd stk off ords (fun p hp => hcd p (mem_ordered _ _ p hp)), ?_,
    lookup_insertAll_ordered ords cd hn⟩
  rw [henv]
  exact reads_customData penv (ordered ords cd) off (fun p hp => hcd p (mem_ordered _ _ p hp)) hks

/-- **auto-type settings** with their associations, in order -/
theorem C03_autoType_roundtrip (a : AutoType) (ha : AutoTypeOk a) (stk : List String) (off : Nat) (ords : Ords) :
    ∃ evs, Dumps (dumpAutoType a) stk off ords () evs stk off ords ∧ Reads parseAutoType evs off a off :=
  ⟨_, dumps_autoType a stk off ords ha, reads_autoType a off ha⟩

/-- **entries**: every entry of the domain `EntryOk`, with its nested histories to any
    depth, written at any cursor position with any iteration orders of its maps, is read back as an equivalent entry
    (`EntryEq`: equal field by field, maps compared as maps, histories entry by entry in order), the reader's cursor
    ending where the writer's did.  `fd`, `fp` are the recursion budgets of writer and reader models. -/
theorem C03_entry_roundtrip_partial (denv : DEnv) (penv : Env) (u : Bytes → Option String)
    (hks : ∀ o n, (penv.ks o n).length = n) (henv : denv.ks = penv.ks) (e : Entry) (he : EntryOk e)
    (fd fp : Nat) (hfd : entryDepth e ≤ fd) (hfp : 2 * entryDepth e ≤ fp) (stk : List String) (off : Nat) (ords : Ords) :
    ∃ evs off' ords' e', Dumps (dumpEntry denv u fd e) stk off ords true evs stk off' ords' ∧
      Reads (parseEntry penv fp) evs off e' off' ∧ EntryEq e e' := by
  obtain ⟨evs, off', ords', e', h1, h2, h3, _⟩ :=
    entry_rt denv u penv hks henv (entryDepth e) e (Nat.le_refl _) he fd hfd stk off ords
  exact ⟨evs, off', ords', e', h1, h2 fp hfp, h3⟩

/-- **the whole document** (the domain `ContentOk` leaves out byte-string values, blank strings and the other classes of C12; everything else of the schema is in it — meta data with memory protection, custom icons, the binary pool
    (compressed or not) and custom data; the group tree to any depth with all group settings; entries with plain and
    protected fields, tags, colours, auto-type settings, custom data and nested histories; deleted objects):
    `save`'s XML stage followed by `open`'s XML stage is the identity, for every key stream and every map order. -/
theorem C03_xml_roundtrip_partial : C03_xml_full ContentOk := by
  intro c ks gz gunz u orders now fresh hc hks hgz
  obtain ⟨evs, off', ords', c', ⟨w, hrun, hview⟩, hread, heq⟩ :=
    doc_rt ⟨ks, gz⟩ u ⟨ks, gunz, now, fresh⟩ hks rfl hgz c hc orders
  have h1 := hrun []
  have h2 := hview []
  simp only [List.nil_append, List.append_nil, view] at h1 h2
  have h3 := hread []
  simp only [List.append_nil] at h3
  rw [dumpContent_eq]
  simp only [h1]
  refine ⟨trivial, c', ?_, heq⟩
  unfold parseContent
  rw [h2]
  show (match parseKeePassFile ⟨ks, gunz, now, fresh⟩ ⟨evs, 0⟩ with
    | .ok (c, s) => Outcome.ok (c, s.off) | .err c => .err c | .panic p => .panic p) = _
  rw [h3]

/-- **the group tree** on its own: any group of the domain, to any depth, with entries and sub-groups in order -/
theorem C03_group_roundtrip_partial (denv : DEnv) (penv : Env) (u : Bytes → Option String)
    (hks : ∀ o n, (penv.ks o n).length = n) (henv : denv.ks = penv.ks)
    (uuid : Bytes) (name : String) (notes : Option String) (iconId : Option Nat) (ciu : Option Bytes) (cs : List Node)
    (t : Times) (cd : CustomData) (isExp : Bool) (das ea es : Option String) (ltve : Option Bytes)
    (hok : NodeOk (.group uuid name notes iconId ciu cs t cd isExp das ea es ltve)) (fd fp : Nat)
    (hfd : nodeDepth (.group uuid name notes iconId ciu cs t cd isExp das ea es ltve) ≤ fd)
    (hfp : nodeDepth (.group uuid name notes iconId ciu cs t cd isExp das ea es ltve) ≤ fp)
    (stk : List String) (off : Nat) (ords : Ords) :
    ∃ evs off' ords' g', Dumps (dumpGroup denv u fd (.group uuid name notes iconId ciu cs t cd isExp das ea es ltve))
        stk off ords true evs stk off' ords' ∧
      Reads (parseGroup penv fp) evs off g' off' ∧
      NodeEq (.group uuid name notes iconId ciu cs t cd isExp das ea es ltve) g' := by
  obtain ⟨evs, off', ords', g', h1, h2, h3, _, _⟩ :=
    group_rt denv u penv hks henv uuid name notes iconId ciu cs t cd isExp das ea es ltve hok fd hfd stk off ords
  exact ⟨evs, off', ords', g', h1, h2 fp hfp, h3⟩

/-- **meta data** -/
theorem C03_meta_roundtrip_partial (denv : DEnv) (penv : Env) (u : Bytes → Option String)
    (hks : ∀ o n, (penv.ks o n).length = n) (henv : denv.ks = penv.ks) (hgz : ∀ x, penv.gunzip (denv.gzip x) = some x)
    (m : Meta) (hok : MetaOk denv.gzip m) (stk : List String) (off : Nat) (ords : Ords) :
    ∃ evs off', Dumps (dumpMeta denv u m) stk off ords true evs stk off' ords.tail ∧
      Reads (parseMeta penv) evs off { m with customData := insertAll [] (ordered ords m.customData) } off' ∧
      ∀ k, (insertAll [] (ordered ords m.customData)).lookup k = m.customData.lookup k := by
  obtain ⟨evs, off', h1, h2, _⟩ := meta_core denv u penv hks henv hgz m hok stk off ords
  exact ⟨evs, off', h1, h2, lookup_insertAll_ordered ords m.customData hok.customDataNodup⟩

def exEntry : Entry :=
  .mk (List.replicate 16 7) [("Title", .unprotected "mail"), ("Password", .prot [1, 2, 3])] none ["work", "mail"]
    ⟨false, 3, [("CreationTime", 0)]⟩ [] (some 4) none (some ⟨255, 0, 16⟩) none none (some true)
    (some [.mk (List.replicate 16 7) [("Title", .unprotected "old")] none [] ⟨false, 0, []⟩ [] none none none none none none none])

def exContent : Content :=
  { metaData := { generator := some "KeePass", memoryProtection := some {}, customIcons := [(List.replicate 16 1, [1, 2])],
                  binaries := [⟨some "0", true, [9]⟩], historyMaxItems := some 10, masterKeyChangeRec := some (-1), color := some ⟨1, 2, 3⟩ },
    root := .group (List.replicate 16 2) "Root" none (some 48) none
      [.entry exEntry, .group (List.replicate 16 3) "" (some "notes") none none [] {} [] false none none none none]
      ⟨false, 0, [("LastModificationTime", 5)]⟩ [] true none none none none,
    deletedObjects := [(List.replicate 16 4, 0)] }

/-- the entry domain is inhabited: a plain and a protected field, a time-stamp map, a history holding an older version -/
theorem C03_entry_domain_inhabited : EntryOk exEntry := by
  unfold exEntry
  refine EntryOk.mk _ _ _ _ _ _ _ _ _ _ _ _ _ (by decide) (Or.inr ⟨⟨by decide, by decide⟩, by decide⟩) ?_ (by unfold KeysNodup; decide) (by intro x h; cases h) ?_ (by unfold KeysNodup; decide) (by intro p h; cases h) (by unfold KeysNodup; decide)
    (by intro n h; cases h; decide) (by intro b h; cases h) (by intro c h; cases h; exact ⟨by decide, by decide, by decide⟩) (by intro c h; cases h) (by intro s h; cases h) ?_
  · intro p hp
    simp only [List.mem_cons, List.not_mem_nil, or_false] at hp
    rcases hp with rfl | rfl
    · exact ⟨⟨by decide, by decide⟩, ⟨by decide, Or.inr (by decide)⟩, by decide⟩
    · exact ⟨⟨by decide, by decide⟩, trivial, by decide⟩
  · refine ⟨by decide, ?_⟩
    intro p hp
    simp only [List.mem_cons, List.not_mem_nil, or_false] at hp
    subst hp
    exact ⟨by decide, by decide, by decide, by decide, by decide⟩
  · refine HistOk.some _ (EntriesOk.cons _ _ ?_ EntriesOk.nil)
    refine EntryOk.mk _ _ _ _ _ _ _ _ _ _ _ _ _ (by decide) (Or.inl rfl) ?_ (by unfold KeysNodup; decide) (by intro x h; cases h) ⟨by decide, by intro p h; cases h⟩ (by unfold KeysNodup; decide)
      (by intro p h; cases h) (by unfold KeysNodup; decide) (by intro n h; cases h) (by intro b h; cases h) (by intro c h; cases h) (by intro c h; cases h) (by intro s h; cases h) HistOk.none
    intro p hp
    simp only [List.mem_cons, List.not_mem_nil, or_false] at hp
    subst hp
    exact ⟨⟨by decide, by decide⟩, ⟨by decide, Or.inr (by decide)⟩, by decide⟩

/-- the domain of `C03_xml_roundtrip_partial` is inhabited by a non-trivial database (for every compressor whose output is
    not empty) -/
theorem C03_domain_inhabited (gz : Bytes → Bytes) (hgz : ∀ m, gz m ≠ []) : ContentOk gz exContent := by
  refine ⟨?_, ?_, ?_, ?_⟩
  · refine { generator := ?_, databaseName := (by intro s h; cases h), databaseNameChanged := (by intro s h; cases h),
             databaseDescription := (by intro s h; cases h), databaseDescriptionChanged := (by intro s h; cases h),
             defaultUsername := (by intro s h; cases h), defaultUsernameChanged := (by intro s h; cases h),
             maintenanceHistoryDays := (by intro s h; cases h), color := ?_, masterKeyChanged := (by intro s h; cases h),
             masterKeyChangeRec := ?_, masterKeyChangeForce := (by intro s h; cases h),
             customIcons := ?_, recyclebinUuid := (by intro s h; cases h),
             recyclebinChanged := (by intro s h; cases h), entryTemplatesGroup := (by intro s h; cases h),
             entryTemplatesGroupChanged := (by intro s h; cases h), lastSelectedGroup := (by intro s h; cases h),
             lastTopVisibleGroup := (by intro s h; cases h), historyMaxItems := ?_, historyMaxSize := (by intro s h; cases h),
             settingsChanged := (by intro s h; cases h), binaries := ?_, customData := (by intro p h; cases h),
             customDataNodup := by unfold KeysNodup; decide }
    · intro s h; cases h; exact ⟨by decide, by decide⟩
    · intro c h; cases h; exact ⟨by decide, by decide, by decide⟩
    · intro i h; cases h; exact ⟨by decide, by decide⟩
    · intro p hp
      simp only [exContent, List.mem_cons, List.not_mem_nil, or_false] at hp
      subst hp; exact ⟨by decide, by decide⟩
    · intro n h; cases h; unfold UsizeOk; decide
    · intro b hb
      simp only [exContent, List.mem_cons, List.not_mem_nil, or_false] at hb
      subst hb
      exact ⟨by intro i h; cases h; decide, hgz _⟩
  · unfold exContent
    refine NodeOk.group _ _ _ _ _ _ _ _ _ _ _ _ _ (by decide) ⟨by decide, Or.inr (by decide)⟩ (by intro s h; cases h)
      (by intro n h; cases h; decide) (by intro b h; cases h) ⟨by decide, ?_⟩ (by unfold KeysNodup; decide) (by intro p h; cases h)
      (by unfold KeysNodup; decide) (by intro s h; cases h) (by intro s h; cases h) (by intro s h; cases h) (by intro b h; cases h) ?_
    · intro p hp
      simp only [List.mem_cons, List.not_mem_nil, or_false] at hp
      subst hp
      exact ⟨by decide, by decide, by decide, by decide, by decide⟩
    · refine NodesOk.cons _ _ (NodeOk.entry _ C03_entry_domain_inhabited) (NodesOk.cons _ _ ?_ NodesOk.nil)
      refine NodeOk.group _ _ _ _ _ _ _ _ _ _ _ _ _ (by decide) ⟨by decide, Or.inl rfl⟩ ?_
        (by intro n h; cases h) (by intro b h; cases h) ⟨by decide, by intro p h; cases h⟩ (by unfold KeysNodup; decide) (by intro p h; cases h)
        (by unfold KeysNodup; decide) (by intro s h; cases h) (by intro s h; cases h) (by intro s h; cases h) (by intro b h; cases h) NodesOk.nil
      intro s h; cases h; exact ⟨by decide, by decide⟩
  · intro e h; cases h
  · intro p hp
    simp only [exContent, List.mem_cons, List.not_mem_nil, or_false] at hp
    subst hp; exact ⟨by decide, by decide, by decide⟩


end Kp.Xml

namespace Kp.Fmt

/-- the container part of C03: what `save` writes is read back as what was saved (restating C07_wellformed) -/
theorem C03_framing (P : Prims) (L : P.Laws) (c : Config) (rnd : Bytes)
    (vdOrder : List (UInt8 × Bytes × Bytes) → List (UInt8 × Bytes × Bytes))
    (atts : List (UInt8 × Bytes)) (xml composite : Bytes) (segs : List Bytes)
    (hperm : ∀ l, (vdOrder l).Perm l) (hr : configInRange c)
    (hrnd : masterSeedSize + ivSize c.outer + innerKeySize c.inner + kdfSeedSize c.kdf ≤ rnd.length)
    (ha : attOk atts)
    (hsize : ∀ ct, P.encO c.outer (P.sha256 ((takeTape c rnd).masterSeed ++
        ((transformedKey P c.kdf (takeTape c rnd).kdfSeed composite).getD []))) (takeTape c rnd).iv
        (plainPayload P c (takeTape c rnd) atts false xml) = some ct → ct.length < 4294967296)
    (hs : saveSegments P c rnd vdOrder atts xml composite = some segs) :
    decrypt P segs.flatten (some composite) = .ok ⟨c, atts, (takeTape c rnd).innerKey, xml⟩ :=
  C07_wellformed P L c rnd vdOrder atts xml composite segs hperm hr hrnd ha hsize hs

end Kp.Fmt
