import KpModel.Format.Kdbx4
namespace Kp.Fmt
theorem placeholder_C03 : True := trivial
end Kp.Fmt
