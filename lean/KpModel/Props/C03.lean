import KpModel.Xml.RoundTrip
/-!
# C03 — save followed by open is the identity on databases
Property theorems only (lemmas: `Codec/Lemmas.lean`, `Xml/RoundTrip.lean`).

Proved for all inputs:
* the container round trip (`C03_framing`, from C01/C07) and the inner-stream round trip in document order
  (`C01_stream_order`, in C08);
* the codecs the XML mapping is built from — base64, time stamps, UUIDs, booleans, decimal numbers;
* the struct-level XML mapping (writer events → xml-rs contract → reader) for `Value` (plain and protected, with the
  key-stream cursor), `Times`, `CustomData`, `AutoType` and whole entries with their nested histories
  (`C03_entry_roundtrip_partial`): for every entry of the stated domain, every key stream, every iteration order of
  every map and every position of the cursor, what the writer emits is read back as an entry with the same fields
  (maps compared as maps), the writer and the reader leaving the cursor at the same place.
Not proved: groups, `Meta`, the document frame, and entries with tags or colours; the round trip over the whole schema
is stated as `C03_xml_full` and validated on every generated database by the correspondence op `xml` — a test,
labelled so.
-/
namespace Kp.Codec
open Kp.Fmt

/-- base64 decoding inverts encoding, for every byte string -/
theorem C03_b64_roundtrip (b : Bytes) : b64Decode (b64Encode b) = some b := b64_roundtrip b

/-- a KDBX4 time stamp reads back as itself, for every whole second chrono can represent -/
theorem C03_timestamp_roundtrip (t : Int) (h1 : minDateTime ≤ t) (h2 : t ≤ maxDateTime) :
    parseTimestamp (formatTimestamp t) = .ok t := timestamp_roundtrip t h1 h2

end Kp.Codec

namespace Kp.Xml
open Kp.Fmt Kp.Codec

/-- a UUID (16 bytes) written as base64 reads back as itself -/
theorem C03_uuid_roundtrip (u : Bytes) (h : u.length = 16) : parseUuid (b64Text u) = some u := uuid_roundtrip u h

/-- booleans: written `True` / `False`, read case-insensitively -/
theorem C03_bool_roundtrip (b : Bool) : parseBool (boolText b) = some b := bool_roundtrip b

/-- decimal numbers (`usize`) -/
theorem C03_usize_roundtrip (n : Nat) (h : n < 18446744073709551616) : parseUsize (toString n) = some n :=
  usize_roundtrip n h

/-- C03's XML part at full strength: for every database in the lossless domain, every key stream and every
    map order, the reader applied to what the writer emits (through the xml-rs contract) returns the database. -/
def C03_xml_full (LosslessDomain : Content → Prop) : Prop :=
  ∀ (c : Content) (ks : Nat → Nat → Bytes) (gz : Bytes → Bytes) (gunz : Bytes → Option Bytes)
    (orders : List (List String)) (now : Int) (fresh : Bytes),
    LosslessDomain c → (∀ o n, (ks o n).length = n) → (∀ m, gunz (gz m) = some m) →
    ∃ used, parseContent ⟨ks, gunz, now, fresh⟩ (view (dumpContent ⟨ks, gz⟩ (fun _ => none) orders c).1 []) = .ok (c, used)


/-- **values**: a plain or protected value is read back as itself, the reader's cursor ending where the writer's did —
    for every key stream, every cursor position and whatever follows in the document -/
theorem C03_value_roundtrip (denv : DEnv) (penv : Env) (u : Bytes → Option String) (v : Value)
    (hks : ∀ o n, (penv.ks o n).length = n) (henv : denv.ks = penv.ks) (hv : ValueOk v)
    (stk : List String) (off : Nat) (ords : Ords) :
    ∃ evs off', Dumps (dumpValue denv v u) stk off ords true evs stk off' ords ∧ Reads (parseValue penv) evs off v off' := by
  refine ⟨_, _, dumps_value denv u v stk off ords hv, ?_⟩
  rw [henv]
  exact reads_value penv v off hv hks

/-- **times**: whatever order the time-stamp map is written in, it is read back as the same map -/
theorem C03_times_roundtrip (t : Times) (ht : TimesOk t) (hn : KeysNodup t.times) (stk : List String) (off : Nat)
    (ords : Ords) :
    ∃ evs t', Dumps (dumpTimes t) stk off ords () evs stk off ords.tail ∧ Reads parseTimes evs off t' off ∧
      t'.expires = t.expires ∧ t'.usageCount = t.usageCount ∧ ∀ k, t'.times.lookup k = t.times.lookup k :=
  ⟨_, _, dumps_times t stk off ords (fun p hp => (ht.2 p (mem_ordered _ _ p hp)).1),
    reads_times (ordered ords t.times) t off (fun p hp => (ht.2 p (mem_ordered _ _ p hp)).2) ht.1,
    rfl, rfl, lookup_insertAll_ordered ords t.times hn⟩

/-- **custom data**, protected items included -/
theorem C03_customData_roundtrip (denv : DEnv) (penv : Env) (u : Bytes → Option String) (cd : CustomData)
    (hks : ∀ o n, (penv.ks o n).length = n) (henv : denv.ks = penv.ks) (hcd : CdOk cd) (hn : KeysNodup cd)
    (stk : List String) (off : Nat) (ords : Ords) :
    ∃ evs off' cd', Dumps (dumpCustomData denv u cd) stk off ords true evs stk off' ords.tail ∧
      Reads (parseCustomData penv) evs off cd' off' ∧ ∀ k, cd'.lookup k = cd.lookup k := by
  refine ⟨_, _, _, dumps_customData denv u cd stk off ords (fun p hp => hcd p (mem_ordered _ _ p hp)), ?_,
    lookup_insertAll_ordered ords cd hn⟩
  rw [henv]
  exact reads_customData penv (ordered ords cd) off (fun p hp => hcd p (mem_ordered _ _ p hp)) hks

/-- **auto-type settings** with their associations, in order -/
theorem C03_autoType_roundtrip (a : AutoType) (ha : AutoTypeOk a) (stk : List String) (off : Nat) (ords : Ords) :
    ∃ evs, Dumps (dumpAutoType a) stk off ords () evs stk off ords ∧ Reads parseAutoType evs off a off :=
  ⟨_, dumps_autoType a stk off ords ha, reads_autoType a off ha⟩

/-- **entries** (partial: no tags, no colours): every entry of the domain `EntryOk`, with its nested histories to any
    depth, written at any cursor position with any iteration orders of its maps, is read back as an equivalent entry
    (`EntryEq`: equal field by field, maps compared as maps, histories entry by entry in order), the reader's cursor
    ending where the writer's did.  `fd`, `fp` are the recursion budgets of writer and reader models. -/
theorem C03_entry_roundtrip_partial (denv : DEnv) (penv : Env) (u : Bytes → Option String)
    (hks : ∀ o n, (penv.ks o n).length = n) (henv : denv.ks = penv.ks) (e : Entry) (he : EntryOk e)
    (fd fp : Nat) (hfd : entryDepth e ≤ fd) (hfp : 2 * entryDepth e ≤ fp) (stk : List String) (off : Nat) (ords : Ords) :
    ∃ evs off' ords' e', Dumps (dumpEntry denv u fd e) stk off ords true evs stk off' ords' ∧
      Reads (parseEntry penv fp) evs off e' off' ∧ EntryEq e e' := by
  obtain ⟨evs, off', ords', e', h1, h2, h3, _⟩ :=
    entry_rt denv u penv hks henv (entryDepth e) e (Nat.le_refl _) he fd fp hfd hfp stk off ords
  exact ⟨evs, off', ords', e', h1, h2, h3⟩

/-- the domain is inhabited by a non-trivial entry: a plain and a protected field, a time-stamp map, and a history
    holding an older version -/
example : EntryOk (.mk (List.replicate 16 7) [("Title", .unprotected "mail"), ("Password", .prot [1, 2, 3])] none []
    ⟨false, 3, [("CreationTime", 0)]⟩ [] (some 4) none none none none (some true)
    (some [.mk (List.replicate 16 7) [("Title", .unprotected "old")] none [] ⟨false, 0, []⟩ [] none none none none none none none])) := by
  refine EntryOk.mk _ _ _ _ _ _ _ _ _ _ (by decide) ?_ (by unfold KeysNodup; decide) (by intro x h; cases h) ?_ (by unfold KeysNodup; decide) (by intro p h; cases h) (by unfold KeysNodup; decide)
    (by intro n h; cases h; decide) (by intro b h; cases h) (by intro s h; cases h) ?_
  · intro p hp
    simp only [List.mem_cons, List.not_mem_nil, or_false] at hp
    rcases hp with rfl | rfl
    · exact ⟨⟨by decide, by decide⟩, ⟨by decide, Or.inr (by decide)⟩, by decide⟩
    · exact ⟨⟨by decide, by decide⟩, trivial, by decide⟩
  · refine ⟨by decide, ?_⟩
    intro p hp
    simp only [List.mem_cons, List.not_mem_nil, or_false] at hp
    subst hp
    exact ⟨by decide, by decide, by decide, by decide, by decide⟩
  · refine HistOk.some _ (EntriesOk.cons _ _ ?_ EntriesOk.nil)
    refine EntryOk.mk _ _ _ _ _ _ _ _ _ _ (by decide) ?_ (by unfold KeysNodup; decide) (by intro x h; cases h) ⟨by decide, by intro p h; cases h⟩ (by unfold KeysNodup; decide)
      (by intro p h; cases h) (by unfold KeysNodup; decide) (by intro n h; cases h) (by intro b h; cases h) (by intro s h; cases h) HistOk.none
    intro p hp
    simp only [List.mem_cons, List.not_mem_nil, or_false] at hp
    subst hp
    exact ⟨⟨by decide, by decide⟩, ⟨by decide, Or.inr (by decide)⟩, by decide⟩

end Kp.Xml

namespace Kp.Fmt

/-- the container part of C03: what `save` writes is read back as what was saved (restating C07_wellformed) -/
theorem C03_framing (P : Prims) (L : P.Laws) (c : Config) (rnd : Bytes)
    (vdOrder : List (UInt8 × Bytes × Bytes) → List (UInt8 × Bytes × Bytes))
    (atts : List (UInt8 × Bytes)) (xml composite : Bytes) (segs : List Bytes)
    (hperm : ∀ l, (vdOrder l).Perm l) (hr : configInRange c)
    (hrnd : masterSeedSize + ivSize c.outer + innerKeySize c.inner + kdfSeedSize c.kdf ≤ rnd.length)
    (ha : attOk atts)
    (hsize : ∀ ct, P.encO c.outer (P.sha256 ((takeTape c rnd).masterSeed ++
        ((transformedKey P c.kdf (takeTape c rnd).kdfSeed composite).getD []))) (takeTape c rnd).iv
        (plainPayload P c (takeTape c rnd) atts false xml) = some ct → ct.length < 4294967296)
    (hs : saveSegments P c rnd vdOrder atts xml composite = some segs) :
    decrypt P segs.flatten (some composite) = .ok ⟨c, atts, (takeTape c rnd).innerKey, xml⟩ :=
  C07_wellformed P L c rnd vdOrder atts xml composite segs hperm hr hrnd ha hsize hs

end Kp.Fmt
