import KpModel.IoWriteLemmas
/-!
# C11 — save writes the complete file to any sink or reports failure
Property theorems only.  Model: `KpModel/Io.lean` (`Sink`, `writeAll`, `saveSegments`; tied to
`Database::save` over scripted `Write` implementations by the correspondence op `iowrite`).
The segments are what `dump_kdbx4` hands to the destination writer: outer header, header SHA-256, header
HMAC, HMAC block stream — each through `write_all` (after the repair of the discarded `write` counts).
-/
namespace Kp.Io

theorem saveSegments_spec (segs : List Bytes) : ∀ (s : Sink),
    (saveSegments s segs).2.kind = s.kind
    ∧ ((saveSegments s segs).1 = .ok () → (saveSegments s segs).2.received = s.received ++ segs.flatten)
    ∧ (∀ k, (saveSegments s segs).1 = .error k → k = s.kind ∨ k = .writeZero)
    ∧ (∃ p, (saveSegments s segs).2.received = s.received ++ p ∧ p <+: segs.flatten)
    ∧ (s.untilFail = none → noZero s.script → (saveSegments s segs).1 = .ok ()) := by
  induction segs with
  | nil => intro s; simp [saveSegments]
  | cons seg rest ih =>
    intro s
    have w := writeAll_spec (seg.length + s.script.length + 1) s seg (Nat.le_refl _)
    rw [saveSegments]
    generalize hr : writeAll s seg (seg.length + s.script.length + 1) = r at w
    obtain ⟨r1, s'⟩ := r
    cases r1 with
    | error k =>
      simp only
      refine ⟨w.kind, fun h => (by cases h), fun k' h => ?_, ?_, fun h1 h2 => ?_⟩
      · exact w.err k' h
      · obtain ⟨p, hp, hpre⟩ := w.pre
        exact ⟨p, hp, List.IsPrefix.trans hpre (by simp)⟩
      · have := (w.complete h1 h2).1; cases this
    | ok u =>
      simp only
      obtain ⟨i1, i2, i3, ⟨p, i4, i4'⟩, i5⟩ := ih s'
      have hrec : s'.received = s.received ++ seg := w.ok rfl
      refine ⟨by rw [i1]; exact w.kind, ?_, ?_, ?_, ?_⟩
      · intro h; rw [i2 h, hrec]; simp [List.append_assoc]
      · intro k h
        have := i3 k h
        rw [show s'.kind = s.kind from w.kind] at this
        exact this
      · refine ⟨seg ++ p, by rw [i4, hrec]; simp [List.append_assoc], ?_⟩
        simp only [List.flatten_cons]
        exact (List.prefix_append_right_inj seg).mpr i4'
      · intro h1 h2
        have c := w.complete h1 h2
        exact i5 c.2.1 c.2.2

/-- C11 at full strength: for every sink behaviour (short writes on any call, interruptions, `Ok(0)`,
    failure at any byte offset) and every file (as its list of segments), `save` reports success only if
    the sink holds exactly what it held before followed by the complete file; otherwise the result is the
    sink's error (or `WriteZero` when the sink refused bytes), and what the sink holds is a prefix. -/
def C11_full : Prop :=
  ∀ (segs : List Bytes) (s : Sink),
    ((saveSegments s segs).1 = .ok () → (saveSegments s segs).2.received = s.received ++ segs.flatten)
    ∧ (∀ k, (saveSegments s segs).1 = .error k → k = s.kind ∨ k = .writeZero)
    ∧ (∃ p, (saveSegments s segs).2.received = s.received ++ p ∧ p <+: segs.flatten)
    ∧ (s.untilFail = none → noZero s.script → (saveSegments s segs).1 = .ok ())

theorem C11 : C11_full := by
  intro segs s
  have := saveSegments_spec segs s
  exact ⟨this.2.1, this.2.2.1, this.2.2.2.1, this.2.2.2.2⟩

/-! Non-vacuity: a sink that takes one byte per call, is interrupted once, and one that fails at offset 3. -/
example : (saveSegments ⟨[], none, .other, [.cap 0, .intr, .cap 0]⟩ [[1, 2], [3]]).1 = .ok ()
    ∧ (saveSegments ⟨[], none, .other, [.cap 0, .intr, .cap 0]⟩ [[1, 2], [3]]).2.received = [1, 2, 3] := by
  decide
example : (saveSegments ⟨[], some 2, .brokenPipe, [.cap 0]⟩ [[1, 2], [3]]).1 = .error .brokenPipe := by
  decide
example : (saveSegments ⟨[], none, .other, [.cap 0, .zero]⟩ [[1, 2], [3]]).1 = .error .writeZero := by
  decide

end Kp.Io
