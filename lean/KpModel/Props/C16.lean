import KpModel.Db.MergeTerm
import KpModel.Db.MergeInv
import KpModel.Db.MergeLemmas
import KpModel.Db.MergeSpec
import KpModel.Db.MergeNoPanic
import KpModel.Db.MergeDelOk
import KpModel.Db.MergeOk
/-!
# C16 — merge always terminates, succeeds on related replicas, and keeps the tree sound
Property theorems only.  `merge_group`, the entry pass of `merge_deletions` and every lookup are structurally
recursive in the model (accepted by Lean's termination checker — that *is* the termination proof for them,
for every input).  The group pass of `merge_deletions` is a work queue; see `deleteGroups` and the fuel
theorems below.  Soundness clauses (`MergeSpec.c16Clauses`) are evaluated on the real result of every
enumerated replica pair under a watchdog (a test).
-/
namespace Kp.Merge

/-- `remove_node` removes every child with that UUID, returns one of them, and touches nothing else -/
theorem removeNode_spec (g g' n : Node) (u : Nat) (h : removeNode g u = some (g', n)) :
    n.uuid = u ∧ n ∈ g.children ∧ g'.children = g.children.filter (fun c => !(c.uuid == u))
    ∧ (∀ c ∈ g'.children, c.uuid ≠ u) ∧ g'.uuid = g.uuid := by
  unfold removeNode at h
  cases hl : (g.children.filter (·.uuid == u)).getLast? with
  | none => rw [hl] at h; cases h
  | some last =>
    rw [hl] at h
    injection h with h; injection h with h1 h2
    subst h1; subst h2
    have hmem : last ∈ g.children.filter (·.uuid == u) := List.mem_of_getLast? hl
    have hm := List.mem_filter.mp hmem
    refine ⟨by simpa using hm.2, hm.1, ?_, ?_, ?_⟩
    · cases g <;> simp [Node.setChildren, Node.children]
    · intro c hc
      have : c ∈ g.children.filter (fun c => !(c.uuid == u)) := by
        cases g <;> simpa [Node.setChildren, Node.children] using hc
      have := (List.mem_filter.mp this).2
      simpa using this
    · cases g <;> simp [Node.setChildren, Node.uuid]

/-- a relocation keeps the event log and, when it succeeds, the moved node carries the new location time -/
theorem relocate_events (s s' : St) (u : Nat) (fromP toP : List Nat) (ts : Int)
    (h : relocate s u fromP toP ts = .ok s') : s'.events = s.events := by
  unfold relocate at h
  split at h
  · cases h
  · split at h
    · cases h
    · simp only at h
      split at h
      · cases h
      · injection h with h; subst h; rfl

/-- C16 at full strength (global) -/
def C16_full (WellFormedPair : Db → Db → Prop) : Prop :=
  ∀ (now : Int) (a b : Db), WellFormedPair a b →
    ∃ r evs, merge now a b = .ok (r, evs) ∧ Kp.MergeSpec.c16Clauses a b r = []

/-! ### termination of the deletion work queue -/

/-- **C16 (the work queue of `merge_deletions` terminates)**: on a destination tree that is a group with pairwise
    distinct UUIDs, for every source database, pass 1 and the re-queueing loop of pass 2 never run out of the fuel
    `(queue length + 1)² + 1`: every tombstone is resolved after finitely many rotations of the queue -/
theorem mergeDeletions_terminates (now : Int) (dstTombs : List Tomb) (s : St) (src : Db)
    (hr : s.root.isGroup = true) (hn : (uuidsL s.root.children).Nodup) :
    mergeDeletions now dstTombs s src ≠ .error .outOfFuel := by
  unfold mergeDeletions
  obtain ⟨hne, hinv⟩ := deleteEntries_inv now src.tombs s dstTombs hr hn
  cases he : deleteEntries now s dstTombs src.tombs with
  | error e =>
    simp only [bind, Except.bind]
    intro h
    simp only [Except.error.injEq] at h
    subst h
    exact hne he
  | ok r =>
    obtain ⟨s', nt'⟩ := r
    simp only [bind, Except.bind]
    obtain ⟨hr', hn'⟩ := hinv s' nt' he
    exact deleteGroups_enough now _ _ s' nt' _ rfl hr' hn' (fuelFor_le _)


/-- the hypotheses are satisfiable (non-vacuity): three nested groups below the root -/
example : (Node.group 1 0 ⟨some 5, none, 0⟩ [.group 2 0 ⟨some 5, none, 0⟩ [.group 3 0 ⟨some 5, none, 0⟩
      [.group 4 0 ⟨some 5, none, 0⟩ []]]]).isGroup = true
    ∧ (uuidsL (Node.children (.group 1 0 ⟨some 5, none, 0⟩ [.group 2 0 ⟨some 5, none, 0⟩ [.group 3 0 ⟨some 5, none, 0⟩
      [.group 4 0 ⟨some 5, none, 0⟩ []]]]))).Nodup := by
  decide

/-- **C16 (the whole merge terminates)**: on every destination that is a group with pairwise distinct UUIDs below it and for
    every source database whatever (related or not, well-formed or not), `merge` never exhausts the fuel of its only unbounded
    loop — the group passes keep the UUIDs distinct (nodes are updated in place, moved, or created under a UUID that
    `find_node_location` did not find), so the work queue of `merge_deletions` always starts from a tree on which
    `mergeDeletions_terminates` applies.  Every other loop of the model is structurally recursive. -/
theorem C16_merge_terminates (now : Int) (dst src : Db) (hr : dst.root.isGroup = true)
    (hn : (uuidsL dst.root.children).Nodup) : merge now dst src ≠ .error .outOfFuel :=
  merge_noFuel now dst src ⟨hr, hn⟩

/-- **C16 (soundness of the tree)**: what `merge` returns is again a group with pairwise distinct UUIDs below it: no node is
    duplicated, none appears in two places -/
theorem C16_merge_keeps_uuids_distinct (now : Int) (dst src d' : Db) (evs : List Event) (hr : dst.root.isGroup = true)
    (hn : (uuidsL dst.root.children).Nodup) (h : merge now dst src = .ok (d', evs)) :
    d'.root.isGroup = true ∧ (uuidsL d'.root.children).Nodup :=
  merge_inv now dst src d' evs ⟨hr, hn⟩ h

/-- **C16 (no node from nowhere)**: every node below the root of the result was below the root of the destination or is below the
    root of the source -/
theorem C16_no_node_from_nowhere (now : Int) (dst src d' : Db) (evs : List Event) (hr : dst.root.isGroup = true)
    (hn : (uuidsL dst.root.children).Nodup) (h : merge now dst src = .ok (d', evs)) :
    ∀ u ∈ uuidsL d'.root.children, u ∈ uuidsL dst.root.children ∨ u ∈ uuidsL src.root.children :=
  merge_noForeignNodes now dst src d' evs ⟨hr, hn⟩ h

/-- **C16 (merge does not panic)**: `merge` reaches none of the `unwrap()`s of `merge_group` (an entry looked up where the
    destination has a group, or the other way round) and of `History::merge_with` (a version without a modification time) —
    the model's errors `panicKindMismatch` and `panicHistoryNoMtime` — whenever the two replicas agree on kinds: for lists `EI`,
    `GI` of the source's entry and group UUIDs, the destination is a group with pairwise distinct UUIDs below it that has no
    group under an `EI` UUID and no entry under a `GI` UUID, and every entry version on either side, current or historical,
    carries a modification time.  Every intermediate tree of the merge is again such a tree (nodes are created with the source's
    kind, updated in place, moved, or removed), which is what the look-ups need; `find_node_location` is sound on such a tree
    (`findLoc_sound`).  Whatever `merge` returns is then `Ok` or one of the error *values* (never a panic). -/
theorem C16_merge_never_panics {EI GI : List Nat} (now : Int) (dst src : Db)
    (hr : dst.root.isGroup = true) (hn : (uuidsL dst.root.children).Nodup)
    (hkg : allG (fun x _ _ => x ∉ EI) dst.root) (hke : allE (fun e => e.d.uuid ∉ GI) dst.root) (hte : allE TimedE dst.root)
    (hse : allE (fun e => e.d.uuid ∈ EI ∧ e.d.uuid ∉ GI ∧ TimedE e) src.root) (hsg : allG (fun x _ _ => x ∈ GI ∧ x ∉ EI) src.root)
    (e : MErr) (h : merge now dst src = .error e) : e ≠ .panicKindMismatch ∧ e ≠ .panicHistoryNoMtime := by
  have := merge_noPanic now dst src ⟨⟨hr, hn⟩, hkg, hke, hte⟩ ⟨hse, hsg⟩ e h
  exact ⟨fun he => this (Or.inl he), fun he => this (Or.inr he)⟩

/-- the premises are met by a non-trivial pair (an entry with a history in a sub-group; the source holds it elsewhere) -/
example :
    let dst : Node := .group 1 0 ⟨some 5, none, 0⟩ [.group 2 0 ⟨some 5, none, 0⟩ [.entry ⟨⟨10, 7, ⟨some 20, none, 0⟩⟩, some [⟨10, 6, ⟨some 9, none, 0⟩⟩]⟩]]
    let src : Node := .group 1 0 ⟨some 5, none, 0⟩ [.group 2 0 ⟨some 5, none, 0⟩ [], .entry ⟨⟨10, 9, ⟨some 30, some 25, 0⟩⟩, some []⟩]
    allG (fun x _ _ => x ∉ [10]) dst ∧ allE (fun e => e.d.uuid ∉ [1, 2]) dst ∧ allE TimedE dst
    ∧ allE (fun e => e.d.uuid ∈ [10] ∧ e.d.uuid ∉ [1, 2] ∧ TimedE e) src ∧ allG (fun x _ _ => x ∈ [1, 2] ∧ x ∉ [10]) src := by
  simp [allG, allGL, allE, allEL, TimedE]

/-- **C16 (the path `merge_group` looks up again designates the group)** — the formal counterpart of the repair of F19: whatever a
    nested call did to the tree, as long as the tree is a group with pairwise distinct UUIDs below it that still holds the current
    group `cur` (a group, named by the last element of the frame's path), the refreshed path `refreshPath` designates that group.
    (Before the repair the frame kept the path computed on entry, which a nested move of a group above `cur` invalidates.) -/
theorem C16_refreshed_path_designates_group (r : Node) (path : List Nat) (cur : Nat)
    (hr : r.isGroup = true) (hn : (uuidsL r.children).Nodup) (hlast : path.getLast? = some cur)
    (hmem : cur ∈ uuidsL r.children) (hkind : allE (fun e => e.d.uuid ≠ cur) r) :
    ∃ g, findGroup r (refreshPath r path) = some g ∧ g.uuid = cur := by
  obtain ⟨loc, g, n, h1, _, _, h4, h5⟩ := findLoc_sound r cur ⟨hr, hn⟩ hmem
  have hp : refreshPath r path = loc ++ [cur] := by
    unfold refreshPath
    rw [hlast]
    simp only [h1]
  rw [hp]
  cases n with
  | entry e =>
    have := allE_getPath _ _ r _ hkind h5
    simp only [allE] at this
    exact absurd h4 this
  | group x c t cs =>
    exact ⟨.group x c t cs, by unfold findGroup; rw [h5]; rfl, h4⟩

/-- **C16 (the deletion phase reports success)**: on every destination tree that is a group with pairwise distinct UUIDs below
    it, for every source database and every list of destination tombstones, `merge_deletions` returns `Ok`: each tombstoned node
    that `find_node_location` finds has its parent where that location says (`find_group` cannot fail) and is a child of it
    (`remove_node` cannot fail), each removal leaves such a tree again, and the work queue drains within its fuel. -/
theorem C16_deletion_phase_succeeds (now : Int) (dstTombs : List Tomb) (s : St) (src : Db)
    (hr : s.root.isGroup = true) (hn : (uuidsL s.root.children).Nodup) :
    ∃ r, mergeDeletions now dstTombs s src = .ok r :=
  mergeDeletions_ok now dstTombs s src ⟨hr, hn⟩

/-- **C16 (a merge can only fail in the group passes)**: on every destination that is a group with pairwise distinct UUIDs below
    it, whenever `merge` returns an error the error was returned by the merge of the root group's own data or by one of the
    `merge_group` passes over the source tree — never by `merge_deletions`, and never after the tree has been changed by a
    deletion. -/
theorem C16_merge_fails_only_in_group_passes (now : Int) (dst src : Db) (e : MErr)
    (hr : dst.root.isGroup = true) (hn : (uuidsL dst.root.children).Nodup) (h : merge now dst src = .error e) :
    mergeRoot now ⟨dst.root, []⟩ src.root = .error e
    ∨ ∃ s1, mergeRoot now ⟨dst.root, []⟩ src.root = .ok s1
        ∧ mergePasses now dst.tombs src.root (groupCount src.root + 1) s1 = .error e := by
  unfold merge at h
  dsimp only at h
  cases h1 : mergeRoot now ⟨dst.root, []⟩ src.root with
  | error e1 =>
    rw [h1] at h
    simp only [bind, Except.bind] at h
    injection h with h; subst h
    exact Or.inl rfl
  | ok s1 =>
    refine Or.inr ⟨s1, rfl, ?_⟩
    rw [h1] at h
    simp only [bind, Except.bind] at h
    have hI1 := mergeRoot_inv now _ s1 src.root ⟨hr, hn⟩ h1
    cases h2 : mergePasses now dst.tombs src.root (groupCount src.root + 1) s1 with
    | error e2 =>
      rw [h2] at h
      dsimp only at h
      injection h with h; subst h; rfl
    | ok s2 =>
      exfalso
      rw [h2] at h
      dsimp only at h
      have hI2 := mergePasses_inv now dst.tombs src.root _ s1 s2 hI1 h2
      obtain ⟨r, hr3⟩ := mergeDeletions_ok now dst.tombs s2 src hI2
      rw [hr3] at h
      obtain ⟨s3, t3⟩ := r
      dsimp only at h
      cases h

/-- **C16 (merge reports success unless time stamps conflict)**: under the premises of `C16_merge_never_panics` (the two replicas
    agree on which UUIDs are entries and which are groups, every entry version carries a modification time, the destination is
    a group with pairwise distinct UUIDs below it), whenever `merge` does not return `Ok` the error is one of the two that
    report conflicting time stamps — a group whose own data differ between the replicas under one and the same modification
    time (`GroupModificationTimeNotUpdated`), or a winning entry version whose own history holds two versions under one time
    (`DuplicateHistoryEntries`).  `EntryModificationTimeNotUpdated` is never returned: `Entry::merge` reports it for two versions
    that are equal up to time stamps under one modification time, and `merge_group` hands it only versions that differ (two
    versions that differ under one modification time are left alone, silently).  None of the look-ups of the group passes and of the deletion phase
    (`find_group`, `find_entry`, `remove_node`: the model's `findGroup`, `findEntry`, `generic`) fails, none of the `unwrap()`s
    is reached, and the work queue drains: the path each `merge_group` frame uses designates a group whenever the frame may
    create or move nodes (it is looked up again after every nested call, see `C16_refreshed_path_designates_group`), paths of
    groups survive the removal of a node they do not run through, the replacement of an entry and the appending of a child
    (`findGroup_updatePath`), and a moved node is found again where it was put (`relocate_ok`). -/
theorem C16_merge_succeeds_unless_time_conflict {EI GI : List Nat} (now : Int) (dst src : Db)
    (hr : dst.root.isGroup = true) (hn : (uuidsL dst.root.children).Nodup)
    (hkg : allG (fun x _ _ => x ∉ EI) dst.root) (hke : allE (fun e => e.d.uuid ∉ GI) dst.root) (hte : allE TimedE dst.root)
    (hse : allE (fun e => e.d.uuid ∈ EI ∧ e.d.uuid ∉ GI ∧ TimedE e) src.root) (hsg : allG (fun x _ _ => x ∈ GI ∧ x ∉ EI) src.root) :
    (∃ r, merge now dst src = .ok r)
    ∨ merge now dst src = .error .groupMtimeNotUpdated
    ∨ merge now dst src = .error .duplicateHistory := by
  cases h : merge now dst src with
  | ok r => exact Or.inl ⟨r, rfl⟩
  | error e =>
    right
    rcases merge_errors now dst src ⟨⟨hr, hn⟩, hkg, hke, hte⟩ ⟨hse, hsg⟩ e h with h1 | h1
    · subst h1; exact Or.inl rfl
    · subst h1; exact Or.inr rfl

end Kp.Merge
