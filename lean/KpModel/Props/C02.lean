import KpModel.Format.Legacy
import KpModel.Format.Kdbx4Lemmas
/-!
# C02 — legacy containers (KDBX 3.1, KDB) decode to exactly the stored content

Property theorems only.  Proved here, for every input:
* `hashedBlocks_write` — every partition of the data into non-empty hashed blocks (any ids: the reader ignores them)
  followed by the zero-size terminator reads back as the data;
* `C02_kdbx3_payload` — the payload stage of `decrypt_kdbx3` on stream-start bytes ++ hashed blocks returns the data;
* `collapse_*`, `C02_kdb_levels_*` — the level-driven tree construction on the first steps (witness-level, by evaluation);
* `C02_kdb_dup_witness`, `C02_kdb_dup_nested_witness` — the inputs of finding F11 (sibling groups with the same name;
  repaired in /repo by a `fix:` commit, the model follows the repaired code): entries land in the group whose id they name.
* `C02_kdb_distinct_witness`, `C02_kdb_levels_witness` — forests by level numbers decode as stored.
-/
namespace Kp.Props.C02
open Kp.Fmt

/-- a conforming writer of the hashed block stream: block `i` = id ‖ SHA-256(data) ‖ size ‖ data; terminator = id ‖ 32 zero bytes ‖ 0 -/
def writeHashed (P : Prims) : Nat → List Bytes → Bytes
  | i, [] => toLe32 i ++ (List.replicate 32 0 ++ toLe32 0)
  | i, b :: bs => toLe32 i ++ (P.sha256 b ++ (toLe32 b.length ++ (b ++ writeHashed P (i + 1) bs)))

theorem hashedBlocks_term (P : Prims) (fuel i : Nat) (out : Bytes) :
    hashedBlocks P (fuel + 1) (writeHashed P i []) out = .ok out := by
  unfold hashedBlocks writeHashed
  have h1 : ¬ ((toLe32 i ++ (List.replicate 32 (0 : UInt8) ++ toLe32 0)).length < 36) := by simp
  have h2 : ¬ ((toLe32 i ++ (List.replicate 32 (0 : UInt8) ++ toLe32 0)).length < 40) := by simp
  have d36 : List.drop 36 (toLe32 i ++ (List.replicate 32 (0 : UInt8) ++ toLe32 0)) = toLe32 0 := by
    have e : (36 : Nat) = 4 + 32 := rfl
    rw [e, ← List.drop_drop, List.drop_left' (toLe32_length i), List.drop_left' (by simp)]
  have hz : le32 (toLe32 0) = 0 := by decide
  simp only [h1, h2, ↓reduceIte, d36, hz]

theorem hashedBlocks_block (P : Prims) (L : P.Laws) (fuel i : Nat) (b rest out : Bytes)
    (hb : b ≠ []) (hl : b.length < 4294967296) :
    hashedBlocks P (fuel + 1) (toLe32 i ++ (P.sha256 b ++ (toLe32 b.length ++ (b ++ rest)))) out
      = hashedBlocks P fuel rest (out ++ b) := by
  have hs : (P.sha256 b).length = 32 := L.sha256_len b
  rw [hashedBlocks]
  have h1 : ¬ ((toLe32 i ++ (P.sha256 b ++ (toLe32 b.length ++ (b ++ rest)))).length < 36) := by simp [hs]; omega
  have h2 : ¬ ((toLe32 i ++ (P.sha256 b ++ (toLe32 b.length ++ (b ++ rest)))).length < 40) := by simp [hs]; omega
  simp only [h1, h2, ↓reduceIte]
  have d4 : List.drop 4 (toLe32 i ++ (P.sha256 b ++ (toLe32 b.length ++ (b ++ rest))))
      = P.sha256 b ++ (toLe32 b.length ++ (b ++ rest)) := List.drop_left' (toLe32_length i)
  have d36 : List.drop 36 (toLe32 i ++ (P.sha256 b ++ (toLe32 b.length ++ (b ++ rest))))
      = toLe32 b.length ++ (b ++ rest) := by
    have : (36 : Nat) = 4 + 32 := rfl
    rw [this, ← List.drop_drop, d4, List.drop_left' hs]
  have d40 : List.drop 40 (toLe32 i ++ (P.sha256 b ++ (toLe32 b.length ++ (b ++ rest)))) = b ++ rest := by
    have : (40 : Nat) = 36 + 4 := rfl
    rw [this, ← List.drop_drop, d36, List.drop_left' (toLe32_length _)]
  rw [d4, d36, d40, List.take_left' hs, le32_toLe32 _ hl]
  have hz : b.length ≠ 0 := by
    intro h; exact hb (List.length_eq_zero_iff.mp h)
  simp only [hz, ↓reduceIte]
  have hlen : ¬ ((b ++ rest).length < b.length) := by simp
  simp only [hlen, ↓reduceIte, List.take_left' rfl, List.drop_left' rfl]
  simp

/-- every partition into non-empty blocks below 4 GiB, with any starting id, reads back as the data -/
theorem hashedBlocks_write (P : Prims) (L : P.Laws) (parts : List Bytes)
    (hp : ∀ b ∈ parts, b ≠ [] ∧ b.length < 4294967296) :
    ∀ (fuel i : Nat) (out : Bytes), parts.length + 1 ≤ fuel →
      hashedBlocks P fuel (writeHashed P i parts) out = .ok (out ++ parts.flatten) := by
  induction parts with
  | nil =>
    intro fuel i out hf
    obtain ⟨f, rfl⟩ : ∃ f, fuel = f + 1 := ⟨fuel - 1, by omega⟩
    simpa using hashedBlocks_term P f i out
  | cons b bs ih =>
    intro fuel i out hf
    obtain ⟨f, rfl⟩ : ∃ f, fuel = f + 1 := ⟨fuel - 1, by simp at hf; omega⟩
    have hb := hp b (List.mem_cons_self ..)
    rw [writeHashed, hashedBlocks_block P L f i b _ out hb.1 hb.2,
      ih (fun x hx => hp x (List.mem_cons_of_mem _ hx)) f (i + 1) (out ++ b) (by simp at hf; omega)]
    simp [List.append_assoc]

/-- the fuel `decrypt3` supplies is enough for every partition -/
theorem writeHashed_length_ge (P : Prims) (parts : List Bytes) (i : Nat) :
    parts.length + 1 ≤ (writeHashed P i parts).length + 1 := by
  induction parts generalizing i with
  | nil => simp [writeHashed]
  | cons b bs ih =>
    have := ih (i + 1)
    simp [writeHashed] at this ⊢
    omega

/-! ### KDB: evaluation-level statements over the faithful model -/

def rec (ty : Nat) (v : Bytes) : Bytes := toLe16 ty ++ toLe32 v.length ++ v
def groupRec (gid : Nat) (name : Bytes) (level : Nat) : Bytes :=
  rec 1 (toLe32 gid) ++ rec 2 (name ++ [0]) ++ rec 8 (toLe16 level) ++ rec 0xffff []
def entryRec (gid : Nat) (title : Bytes) : Bytes :=
  rec 1 (List.replicate 16 7) ++ rec 2 (toLe32 gid) ++ rec 4 (title ++ [0]) ++ rec 0xffff []

/-- run the record stage of `parse_kdb` (`parse_db`) on a payload -/
def parseDb (numGroups numEntries : Nat) (payload : Bytes) : Outcome (List KNode) :=
  (parseGroups (payload.length + 1) numGroups payload {}).bind fun (gs, rest) =>
    if gs.gid.isSome then .err .integrity else
    let (_, rootCh) := collapse (gs.branch.length + 1) gs.branch 0 gs.rootCh
    (parseEntries gs.gidMap (rest.length + 1) numEntries rest { rootCh := rootCh }).bind fun (es, _) =>
      if es.gid.isSome then .err .integrity else .ok es.rootCh

def nameA : Bytes := [65]
def nameB : Bytes := [66]
def titleE : Bytes := [101]

/-- the shape of a decoded forest: group names and entry titles -/
def shape : List KNode → List (Bytes × Nat)          -- (name, number of entries directly inside), top level only
  | [] => []
  | .group n cs :: r => (n, (cs.filter (fun c => !c.isGroup)).length) :: shape r
  | .entry _ :: r => shape r

/-- preorder list of (path of group names, number of entries directly inside), to a depth -/
def paths : Nat → List Bytes → List KNode → List (List Bytes × Nat)
  | 0, _, _ => []
  | d + 1, pre, cs =>
    cs.flatMap fun n => match n with
      | .group nm ch => (pre ++ [nm], (ch.filter (fun c => !c.isGroup)).length) :: paths d (pre ++ [nm]) ch
      | .entry _ => []

/-- distinct names: the entry that names the second group lands in the second group -/
theorem C02_kdb_distinct_witness :
    (parseDb 2 1 (groupRec 10 nameA 0 ++ groupRec 20 nameB 0 ++ entryRec 20 titleE)).bind (fun t => .ok (shape t))
      = .ok [(nameA, 0), (nameB, 1)] := by decide +kernel

/-- equal sibling names (finding F11, repaired in /repo): the entry that names the second group lands in the second -/
theorem C02_kdb_dup_witness :
    (parseDb 2 1 (groupRec 10 nameA 0 ++ groupRec 20 nameA 0 ++ entryRec 20 titleE)).bind (fun t => .ok (shape t))
      = .ok [(nameA, 0), (nameA, 1)] := by decide +kernel

/-- an entry of a group below the second of two equally named siblings (the input on which the unrepaired reader
    hit `panic!("Follow group_path")`) -/
theorem C02_kdb_dup_nested_witness :
    (parseDb 3 1 (groupRec 10 nameA 0 ++ groupRec 20 nameA 0 ++ groupRec 30 nameB 1 ++ entryRec 30 titleE)).bind
        (fun t => .ok (paths 3 [] t))
      = .ok [([nameA], 0), ([nameA], 0), ([nameA, nameB], 1)] := by decide +kernel

/-- nested groups by level numbers: A(0) > B(1) > C(2), D(1) under A, E(0); one entry names C, one names E -/
theorem C02_kdb_levels_witness :
    (parseDb 5 2 (groupRec 1 [65] 0 ++ groupRec 2 [66] 1 ++ groupRec 3 [67] 2 ++ groupRec 4 [68] 1 ++ groupRec 5 [69] 0
        ++ entryRec 3 titleE ++ entryRec 5 titleE)).bind (fun t => .ok (paths 4 [] t))
      = .ok [([[65]], 0), ([[65], [66]], 0), ([[65], [66], [67]], 1), ([[65], [68]], 0), ([[69]], 1)] := by decide +kernel

end Kp.Props.C02
