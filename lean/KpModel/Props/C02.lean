import KpModel.Format.Legacy
import KpModel.Format.Kdbx4Lemmas
import KpModel.Format.KdbLemmas
import KpModel.Codec.CivilLemmas
/-!
# C02 — legacy containers (KDBX 3.1, KDB) decode to exactly the stored content

Property theorems only.  Proved here, for every input:
* `hashedBlocks_write` — every partition of the data into non-empty hashed blocks (any ids: the reader ignores them)
  followed by the zero-size terminator reads back as the data;
* `C02_kdbx3_framing` — the whole of `decrypt_kdbx3`: for every primitive family with the laws, configuration, draw of
  seeds / IV / keys, order of header fields with comment fields, end-of-header payload and block partition, the file a
  conforming writer produces decodes to the stored configuration, inner key and document;
* `C02_kdb_dup_witness`, `C02_kdb_dup_nested_witness` — the inputs of finding F11 (sibling groups with the same name;
  repaired in /repo by a `fix:` commit, the model follows the repaired code): entries land in the group whose id they name.
* `C02_kdb_distinct_witness`, `C02_kdb_levels_witness` — forests by level numbers decode as stored (evaluation).
* `C02_kdb_records` — the general statement for the KDB record section: every conforming list of group records and every
  list of entry records naming their ids decodes to the forest the records denote, every entry in the group its id names;
  with `C02_kdb_position_designates`, `C02_kdb_entry_lands_in_group`, `C02_kdb_positions_stable`.
-/
namespace Kp.Props.C02
open Kp.Fmt

/-- a conforming writer of the hashed block stream: block `i` = id ‖ SHA-256(data) ‖ size ‖ data; terminator = id ‖ 32 zero bytes ‖ 0 -/
def writeHashed (P : Prims) : Nat → List Bytes → Bytes
  | i, [] => toLe32 i ++ (List.replicate 32 0 ++ toLe32 0)
  | i, b :: bs => toLe32 i ++ (P.sha256 b ++ (toLe32 b.length ++ (b ++ writeHashed P (i + 1) bs)))

theorem hashedBlocks_term (P : Prims) (fuel i : Nat) (out : Bytes) :
    hashedBlocks P (fuel + 1) (writeHashed P i []) out = .ok out := by
  unfold hashedBlocks writeHashed
  have h1 : ¬ ((toLe32 i ++ (List.replicate 32 (0 : UInt8) ++ toLe32 0)).length < 36) := by simp
  have h2 : ¬ ((toLe32 i ++ (List.replicate 32 (0 : UInt8) ++ toLe32 0)).length < 40) := by simp
  have d36 : List.drop 36 (toLe32 i ++ (List.replicate 32 (0 : UInt8) ++ toLe32 0)) = toLe32 0 := by
    have e : (36 : Nat) = 4 + 32 := rfl
    rw [e, ← List.drop_drop, List.drop_left' (toLe32_length i), List.drop_left' (by simp)]
  have hz : le32 (toLe32 0) = 0 := by decide
  simp only [h1, h2, ↓reduceIte, d36, hz]

theorem hashedBlocks_block (P : Prims) (L : P.Laws) (fuel i : Nat) (b rest out : Bytes)
    (hb : b ≠ []) (hl : b.length < 4294967296) :
    hashedBlocks P (fuel + 1) (toLe32 i ++ (P.sha256 b ++ (toLe32 b.length ++ (b ++ rest)))) out
      = hashedBlocks P fuel rest (out ++ b) := by
  have hs : (P.sha256 b).length = 32 := L.sha256_len b
  rw [hashedBlocks]
  have h1 : ¬ ((toLe32 i ++ (P.sha256 b ++ (toLe32 b.length ++ (b ++ rest)))).length < 36) := by simp [hs]; omega
  have h2 : ¬ ((toLe32 i ++ (P.sha256 b ++ (toLe32 b.length ++ (b ++ rest)))).length < 40) := by simp [hs]; omega
  simp only [h1, h2, ↓reduceIte]
  have d4 : List.drop 4 (toLe32 i ++ (P.sha256 b ++ (toLe32 b.length ++ (b ++ rest))))
      = P.sha256 b ++ (toLe32 b.length ++ (b ++ rest)) := List.drop_left' (toLe32_length i)
  have d36 : List.drop 36 (toLe32 i ++ (P.sha256 b ++ (toLe32 b.length ++ (b ++ rest))))
      = toLe32 b.length ++ (b ++ rest) := by
    have : (36 : Nat) = 4 + 32 := rfl
    rw [this, ← List.drop_drop, d4, List.drop_left' hs]
  have d40 : List.drop 40 (toLe32 i ++ (P.sha256 b ++ (toLe32 b.length ++ (b ++ rest)))) = b ++ rest := by
    have : (40 : Nat) = 36 + 4 := rfl
    rw [this, ← List.drop_drop, d36, List.drop_left' (toLe32_length _)]
  rw [d4, d36, d40, List.take_left' hs, le32_toLe32 _ hl]
  have hz : b.length ≠ 0 := by
    intro h; exact hb (List.length_eq_zero_iff.mp h)
  simp only [hz, ↓reduceIte]
  have hlen : ¬ ((b ++ rest).length < b.length) := by simp
  simp only [hlen, ↓reduceIte, List.take_left' rfl, List.drop_left' rfl]
  simp

/-- every partition into non-empty blocks below 4 GiB, with any starting id, reads back as the data -/
theorem hashedBlocks_write (P : Prims) (L : P.Laws) (parts : List Bytes)
    (hp : ∀ b ∈ parts, b ≠ [] ∧ b.length < 4294967296) :
    ∀ (fuel i : Nat) (out : Bytes), parts.length + 1 ≤ fuel →
      hashedBlocks P fuel (writeHashed P i parts) out = .ok (out ++ parts.flatten) := by
  induction parts with
  | nil =>
    intro fuel i out hf
    obtain ⟨f, rfl⟩ : ∃ f, fuel = f + 1 := ⟨fuel - 1, by omega⟩
    simpa using hashedBlocks_term P f i out
  | cons b bs ih =>
    intro fuel i out hf
    obtain ⟨f, rfl⟩ : ∃ f, fuel = f + 1 := ⟨fuel - 1, by simp at hf; omega⟩
    have hb := hp b (List.mem_cons_self ..)
    rw [writeHashed, hashedBlocks_block P L f i b _ out hb.1 hb.2,
      ih (fun x hx => hp x (List.mem_cons_of_mem _ hx)) f (i + 1) (out ++ b) (by simp at hf; omega)]
    simp [List.append_assoc]

/-- the fuel `decrypt3` supplies is enough for every partition -/
theorem writeHashed_length_ge (P : Prims) (parts : List Bytes) (i : Nat) :
    parts.length + 1 ≤ (writeHashed P i parts).length + 1 := by
  induction parts generalizing i with
  | nil => simp [writeHashed]
  | cons b bs ih =>
    have := ih (i + 1)
    simp [writeHashed] at this ⊢
    omega

/-! ### KDBX 3.1 framing: every conforming layout decodes to what was stored -/

structure Cfg3 where
  minor : Nat
  outer : OuterCipher
  compression : Bool
  inner : InnerCipher
  rounds : Nat

structure Tape3 where
  masterSeed : Bytes
  transformSeed : Bytes
  iv : Bytes
  streamKey : Bytes
  streamStart : Bytes

inductive F3 where
  | comment (b : Bytes)
  | cipher | compression | masterSeed | transformSeed | rounds | iv | streamKey | streamStart | inner
  deriving DecidableEq

def tlv2 (t : UInt8) (v : Bytes) : Bytes := t :: (toLe16 v.length ++ v)

def f3Bytes (c : Cfg3) (t : Tape3) : F3 → Bytes
  | .comment b => tlv2 1 b
  | .cipher => tlv2 2 (cipherUuid c.outer)
  | .compression => tlv2 3 (toLe32 (if c.compression then 1 else 0))
  | .masterSeed => tlv2 4 t.masterSeed
  | .transformSeed => tlv2 5 t.transformSeed
  | .rounds => tlv2 6 (toLe64 c.rounds)
  | .iv => tlv2 7 t.iv
  | .streamKey => tlv2 8 t.streamKey
  | .streamStart => tlv2 9 t.streamStart
  | .inner => tlv2 10 (toLe32 (innerId c.inner))

def versionHeader3 (minor : Nat) : Bytes :=
  [0x03, 0xd9, 0xa2, 0x9a] ++ toLe32 0xb54bfb67 ++ toLe16 minor ++ toLe16 3

def header3 (c : Cfg3) (t : Tape3) (order : List F3) (endPayload : Bytes) : Bytes :=
  versionHeader3 c.minor ++ order.flatMap (f3Bytes c t) ++ tlv2 0 endPayload

def apply3 (c : Cfg3) (t : Tape3) (acc : H3Acc) : F3 → H3Acc
  | .comment _ => acc
  | .cipher => { acc with cipher := some c.outer }
  | .compression => { acc with compression := some c.compression }
  | .masterSeed => { acc with masterSeed := some t.masterSeed }
  | .transformSeed => { acc with transformSeed := some t.transformSeed }
  | .rounds => { acc with rounds := some c.rounds }
  | .iv => { acc with iv := some t.iv }
  | .streamKey => { acc with streamKey := some t.streamKey }
  | .streamStart => { acc with streamStart := some t.streamStart }
  | .inner => { acc with inner := some c.inner }

def f3Ok : F3 → Prop
  | .comment b => b.length < 65536
  | _ => True

structure Header3Ok (c : Cfg3) (t : Tape3) (order : List F3) (endPayload : Bytes) : Prop where
  minor : c.minor < 65536
  rounds : c.rounds < 18446744073709551616
  seed : t.masterSeed.length < 65536
  tseed : t.transformSeed.length = 32
  iv : t.iv.length < 65536
  skey : t.streamKey.length < 65536
  sstart : t.streamStart.length = 32
  fields : ∀ f ∈ order, f3Ok f
  endp : endPayload.length < 65536
  all : F3.cipher ∈ order ∧ F3.compression ∈ order ∧ F3.masterSeed ∈ order ∧ F3.transformSeed ∈ order ∧ F3.rounds ∈ order
        ∧ F3.iv ∈ order ∧ F3.streamKey ∈ order ∧ F3.streamStart ∈ order ∧ F3.inner ∈ order

theorem tlv2_length (t : UInt8) (v : Bytes) : (tlv2 t v).length = 3 + v.length := by
  simp [tlv2, toLe16]; omega

theorem h3Loop_step (fuel : Nat) (t : UInt8) (v rest : Bytes) (n : Nat) (acc : H3Acc) (hv : v.length < 65536) :
    h3Loop (fuel + 1) (tlv2 t v ++ rest) n acc =
      match h3Field acc t v with
      | .ok none => .ok (acc, n + 3 + v.length)
      | .ok (some acc') => h3Loop fuel rest (n + 3 + v.length) acc'
      | .err c => .err c
      | .panic s => .panic s := by
  have e : tlv2 t v ++ rest = t :: (toLe16 v.length ++ (v ++ rest)) := by simp [tlv2]
  rw [e, h3Loop]
  have h1 : ¬ ((toLe16 v.length ++ (v ++ rest)).length < 2) := by simp [toLe16]
  simp only [h1, ↓reduceIte, le16_toLe16 _ hv]
  have hd : List.drop 2 (toLe16 v.length ++ (v ++ rest)) = v ++ rest := List.drop_left' (by simp [toLe16])
  rw [hd]
  have h2 : ¬ ((v ++ rest).length < v.length) := by simp
  simp only [h2, ↓reduceIte, List.take_left' rfl, List.drop_left' rfl]
  cases h3Field acc t v with
  | ok o => cases o <;> rfl
  | err c => rfl
  | panic s => rfl

theorem h3Field_of (c : Cfg3) (t : Tape3) (order : List F3) (ep : Bytes) (H : Header3Ok c t order ep)
    (acc : H3Acc) (f : F3) (hf : f3Ok f) :
    ∃ ty v, f3Bytes c t f = tlv2 ty v ∧ v.length < 65536 ∧ h3Field acc ty v = .ok (some (apply3 c t acc f)) := by
  cases f with
  | comment b => exact ⟨1, b, rfl, hf, by simp [h3Field, apply3]⟩
  | cipher =>
    refine ⟨2, cipherUuid c.outer, rfl, by cases c.outer <;> decide, ?_⟩
    simp [h3Field, h3Cipher, cipherOfUuid_cipherUuid, apply3]
  | compression =>
    refine ⟨3, toLe32 (if c.compression then 1 else 0), rfl, by simp, ?_⟩
    have e0 : le32 (toLe32 0) = 0 := by decide
    have e1 : le32 (toLe32 1) = 1 := by decide
    cases hc : c.compression <;> simp [h3Field, h3Compression, apply3, readU32E, bind, Outcome.bind, hc, e0, e1]
  | masterSeed => exact ⟨4, t.masterSeed, rfl, H.seed, by simp [h3Field, apply3]⟩
  | transformSeed => exact ⟨5, t.transformSeed, rfl, by rw [H.tseed]; decide, by simp [h3Field, apply3]⟩
  | rounds =>
    refine ⟨6, toLe64 c.rounds, rfl, by simp, ?_⟩
    simp [h3Field, h3Rounds, apply3, readU64E, bind, Outcome.bind, le64_toLe64' _ H.rounds]
  | iv => exact ⟨7, t.iv, rfl, H.iv, by simp [h3Field, apply3]⟩
  | streamKey => exact ⟨8, t.streamKey, rfl, H.skey, by simp [h3Field, apply3]⟩
  | streamStart => exact ⟨9, t.streamStart, rfl, by rw [H.sstart]; decide, by simp [h3Field, apply3]⟩
  | inner =>
    refine ⟨10, toLe32 (innerId c.inner), rfl, by simp, ?_⟩
    have : le32 (toLe32 (innerId c.inner)) = innerId c.inner := le32_toLe32' _ (by cases c.inner <;> decide)
    simp [h3Field, h3Inner, apply3, readU32E, bind, Outcome.bind, this, innerOfId_innerId]

theorem h3Loop_fields (c : Cfg3) (t : Tape3) (order : List F3) (ep : Bytes) (H : Header3Ok c t order ep) (rest : Bytes) :
    ∀ (fs : List F3) (fuel n : Nat) (acc : H3Acc), (∀ f ∈ fs, f3Ok f) → fs.length + 1 ≤ fuel →
      h3Loop fuel ((fs.flatMap (f3Bytes c t)) ++ (tlv2 0 ep ++ rest)) n acc
      = .ok (fs.foldl (apply3 c t) acc, n + (fs.flatMap (f3Bytes c t)).length + 3 + ep.length) := by
  intro fs
  induction fs with
  | nil =>
    intro fuel n acc _ hf
    obtain ⟨f, rfl⟩ : ∃ f, fuel = f + 1 := ⟨fuel - 1, by simp at hf; omega⟩
    simp only [List.flatMap_nil, List.nil_append, List.foldl_nil, List.length_nil, Nat.add_zero]
    rw [h3Loop_step f 0 ep rest n acc H.endp]
    simp [h3Field]
  | cons x xs ih =>
    intro fuel n acc hok hf
    obtain ⟨f, rfl⟩ : ∃ f, fuel = f + 1 := ⟨fuel - 1, by simp at hf; omega⟩
    obtain ⟨ty, v, hb, hv, hfield⟩ := h3Field_of c t order ep H acc x (hok x (List.mem_cons_self ..))
    simp only [List.flatMap_cons, List.append_assoc, List.foldl_cons, List.length_append]
    rw [hb, h3Loop_step f ty v _ n acc hv, hfield]
    simp only
    rw [ih f (n + 3 + v.length) _ (fun y hy => hok y (List.mem_cons_of_mem _ hy)) (by simp at hf; omega)]
    congr 2
    rw [tlv2_length]; omega

theorem foldl_apply3 (c : Cfg3) (t : Tape3) (fs : List F3) (acc : H3Acc) :
    (fs.foldl (apply3 c t) acc).cipher = (if F3.cipher ∈ fs then some c.outer else acc.cipher)
    ∧ (fs.foldl (apply3 c t) acc).compression = (if F3.compression ∈ fs then some c.compression else acc.compression)
    ∧ (fs.foldl (apply3 c t) acc).masterSeed = (if F3.masterSeed ∈ fs then some t.masterSeed else acc.masterSeed)
    ∧ (fs.foldl (apply3 c t) acc).transformSeed = (if F3.transformSeed ∈ fs then some t.transformSeed else acc.transformSeed)
    ∧ (fs.foldl (apply3 c t) acc).rounds = (if F3.rounds ∈ fs then some c.rounds else acc.rounds)
    ∧ (fs.foldl (apply3 c t) acc).iv = (if F3.iv ∈ fs then some t.iv else acc.iv)
    ∧ (fs.foldl (apply3 c t) acc).streamKey = (if F3.streamKey ∈ fs then some t.streamKey else acc.streamKey)
    ∧ (fs.foldl (apply3 c t) acc).streamStart = (if F3.streamStart ∈ fs then some t.streamStart else acc.streamStart)
    ∧ (fs.foldl (apply3 c t) acc).inner = (if F3.inner ∈ fs then some c.inner else acc.inner) := by
  induction fs generalizing acc with
  | nil => simp
  | cons x xs ih =>
    simp only [List.foldl_cons]
    obtain ⟨i1, i2, i3, i4, i5, i6, i7, i8, i9⟩ := ih (apply3 c t acc x)
    rw [i1, i2, i3, i4, i5, i6, i7, i8, i9]
    cases x <;> simp [apply3] <;> (repeat' split) <;> simp_all

theorem parseVersion_versionHeader3 (minor : Nat) (h : minor < 65536) (rest : Bytes) :
    Kp.Io.parseVersion (versionHeader3 minor ++ rest) = some (.kdbx3 minor) := by
  have hm : Kp.Io.le16 (UInt8.ofNat (minor % 256)) (UInt8.ofNat (minor / 256 % 256)) = minor := by
    simp only [Kp.Io.le16, UInt8.toNat_ofNat']; omega
  simp only [versionHeader3, toLe32, toLe16, List.cons_append, List.nil_append, Kp.Io.parseVersion]
  have h1 : Kp.Io.le32 103 251 75 181 = 3041655655 := by decide
  have h2 : Kp.Io.le16 3 0 = 3 := by decide
  simp [h1, h2, hm]

theorem versionHeader3_length (minor : Nat) : (versionHeader3 minor).length = 12 := by
  simp [versionHeader3, toLe16]

theorem f3_flatMap_len (c : Cfg3) (t : Tape3) (order : List F3) : order.length ≤ (order.flatMap (f3Bytes c t)).length := by
  induction order with
  | nil => simp
  | cons x xs ih =>
    simp only [List.flatMap_cons, List.length_append, List.length_cons]
    have : 1 ≤ (f3Bytes c t x).length := by cases x <;> simp [f3Bytes, tlv2]
    omega

/-- the file a conforming KDBX 3.1 writer produces -/
def build3 (P : Prims) (c : Cfg3) (t : Tape3) (order : List F3) (ep : Bytes) (parts : List Bytes) (composite : Bytes) :
    Option Bytes :=
  let tk := P.aesKdf t.transformSeed c.rounds composite
  (P.encO c.outer (P.sha256 (t.masterSeed ++ tk)) t.iv (t.streamStart ++ writeHashed P 0 parts)).map
    fun ct => header3 c t order ep ++ ct

/-- **KDBX 3.1 framing theorem.**  For every primitive family with the laws, every configuration (any outer cipher,
    compression on or off, any inner cipher id, any round count below 2^64), every draw of the seeds / IV / keys,
    every order of the header fields with comment fields anywhere, every end-of-header payload, every partition of
    the (possibly compressed) document into non-empty hashed blocks, the reader returns exactly the stored
    configuration, the stream key and the document. -/
theorem C02_kdbx3_framing (P : Prims) (L : P.Laws) (c : Cfg3) (t : Tape3) (order : List F3) (ep : Bytes)
    (parts : List Bytes) (xml composite file : Bytes)
    (H : Header3Ok c t order ep)
    (hparts : ∀ b ∈ parts, b ≠ [] ∧ b.length < 4294967296)
    (hdata : parts.flatten = (if c.compression then P.gzip xml else xml))
    (hfile : build3 P c t order ep parts composite = some file) :
    decrypt3 P file (some composite)
      = .ok ⟨c.minor, c.outer, c.compression, c.inner, c.rounds, t.streamKey, xml⟩ := by
  unfold build3 at hfile
  simp only [Option.map_eq_some_iff] at hfile
  obtain ⟨ct, hct, rfl⟩ := hfile
  unfold decrypt3
  have hv : Kp.Io.parseVersion (header3 c t order ep ++ ct) = some (.kdbx3 c.minor) := by
    unfold header3
    rw [List.append_assoc, List.append_assoc]
    exact parseVersion_versionHeader3 c.minor H.minor _
  rw [hv]
  simp only
  have hdrop : (header3 c t order ep ++ ct).drop 12 = (order.flatMap (f3Bytes c t)) ++ (tlv2 0 ep ++ ct) := by
    unfold header3
    rw [List.append_assoc, List.append_assoc, List.drop_left' (versionHeader3_length _)]
  rw [hdrop]
  have hfuel : order.length + 1 ≤ (header3 c t order ep ++ ct).length + 1 := by
    have := f3_flatMap_len c t order
    unfold header3
    simp only [List.length_append]
    omega
  rw [h3Loop_fields c t order ep H ct order _ 12 {} H.fields hfuel]
  obtain ⟨f1, f2, f3, f4, f5, f6, f7, f8, f9⟩ := foldl_apply3 c t order {}
  simp only [bind, Outcome.bind]
  rw [f1, f2, f3, f4, f5, f6, f7, f8, f9]
  obtain ⟨a1, a2, a3, a4, a5, a6, a7, a8, a9⟩ := H.all
  simp only [a1, a2, a3, a4, a5, a6, a7, a8, a9, ↓reduceIte]
  -- the body starts where the header ends
  have hbody : (header3 c t order ep ++ ct).drop (12 + (order.flatMap (f3Bytes c t)).length + 3 + ep.length) = ct := by
    apply List.drop_left'
    unfold header3
    simp only [List.length_append, versionHeader3_length, tlv2_length]
    omega
  rw [hbody]
  have hts : ¬ (t.transformSeed.length ≠ 32) := by simp [H.tseed]
  simp only [runKdf, hts, ↓reduceIte]
  have hdec := L.dec_enc _ _ _ _ _ hct
  simp only [hdec]
  have hlen : ¬ ((t.streamStart ++ writeHashed P 0 parts).length < t.streamStart.length) := by simp
  simp only [hlen, ↓reduceIte, List.take_left' rfl]
  have hne : (t.streamStart != t.streamStart) = false := by simp
  simp only [hne, Bool.false_eq_true, ↓reduceIte]
  have hd32 : (t.streamStart ++ writeHashed P 0 parts).drop 32 = writeHashed P 0 parts := List.drop_left' H.sstart
  rw [hd32]
  have hfuel2 : parts.length + 1 ≤ (t.streamStart ++ writeHashed P 0 parts).length + 1 := by
    have := writeHashed_length_ge P parts 0
    simp only [List.length_append]; omega
  rw [hashedBlocks_write P L parts hparts _ 0 [] hfuel2]
  simp only [List.nil_append, hdata]
  cases hc : c.compression
  · simp
  · simp [L.gunzip_gzip]

/-! ### KDB: evaluation-level statements over the faithful model -/

def rec (ty : Nat) (v : Bytes) : Bytes := toLe16 ty ++ toLe32 v.length ++ v
def groupRec (gid : Nat) (name : Bytes) (level : Nat) : Bytes :=
  rec 1 (toLe32 gid) ++ rec 2 (name ++ [0]) ++ rec 8 (toLe16 level) ++ rec 0xffff []
def entryRec (gid : Nat) (title : Bytes) : Bytes :=
  rec 1 (List.replicate 16 7) ++ rec 2 (toLe32 gid) ++ rec 4 (title ++ [0]) ++ rec 0xffff []

def nameA : Bytes := [65]
def nameB : Bytes := [66]
def titleE : Bytes := [101]

/-- the shape of a decoded forest: group names and entry titles -/
def shape : List KNode → List (Bytes × Nat)          -- (name, number of entries directly inside), top level only
  | [] => []
  | .group n cs :: r => (n, (cs.filter (fun c => !c.isGroup)).length) :: shape r
  | .entry _ :: r => shape r

/-- preorder list of (path of group names, number of entries directly inside), to a depth -/
def paths : Nat → List Bytes → List KNode → List (List Bytes × Nat)
  | 0, _, _ => []
  | d + 1, pre, cs =>
    cs.flatMap fun n => match n with
      | .group nm ch => (pre ++ [nm], (ch.filter (fun c => !c.isGroup)).length) :: paths d (pre ++ [nm]) ch
      | .entry _ => []

/-- distinct names: the entry that names the second group lands in the second group -/
theorem C02_kdb_distinct_witness :
    (parseDb 2 1 (groupRec 10 nameA 0 ++ groupRec 20 nameB 0 ++ entryRec 20 titleE)).bind (fun t => .ok (shape t))
      = .ok [(nameA, 0), (nameB, 1)] := by decide +kernel

/-- equal sibling names (finding F11, repaired in /repo): the entry that names the second group lands in the second -/
theorem C02_kdb_dup_witness :
    (parseDb 2 1 (groupRec 10 nameA 0 ++ groupRec 20 nameA 0 ++ entryRec 20 titleE)).bind (fun t => .ok (shape t))
      = .ok [(nameA, 0), (nameA, 1)] := by decide +kernel

/-- an entry of a group below the second of two equally named siblings (the input on which the unrepaired reader
    hit `panic!("Follow group_path")`) -/
theorem C02_kdb_dup_nested_witness :
    (parseDb 3 1 (groupRec 10 nameA 0 ++ groupRec 20 nameA 0 ++ groupRec 30 nameB 1 ++ entryRec 30 titleE)).bind
        (fun t => .ok (paths 3 [] t))
      = .ok [([nameA], 0), ([nameA], 0), ([nameA, nameB], 1)] := by decide +kernel

/-- nested groups by level numbers: A(0) > B(1) > C(2), D(1) under A, E(0); one entry names C, one names E -/
theorem C02_kdb_levels_witness :
    (parseDb 5 2 (groupRec 1 [65] 0 ++ groupRec 2 [66] 1 ++ groupRec 3 [67] 2 ++ groupRec 4 [68] 1 ++ groupRec 5 [69] 0
        ++ entryRec 3 titleE ++ entryRec 5 titleE)).bind (fun t => .ok (paths 4 [] t))
      = .ok [([[65]], 0), ([[65], [66]], 0), ([[65], [66], [67]], 1), ([[65], [68]], 0), ([[69]], 1)] := by decide +kernel

/-! ### KDB: the general statement -/

/-- **C02 for KDB record sections.**  For every list of group records with conforming level numbers (the first at level
    0, each at most one deeper than its predecessor; any names incl. repeated ones, any ids, any depth) and every list of
    entry records each naming the id of some group record (any subset and order of the seven value-field kinds), the
    reader returns the forest the records denote: each group appended along the rightmost spine at the depth its level
    gives (`specGroups`), then each entry appended to the children of the group at the position recorded for the id it
    names (`placeEntries`).  What those positions designate is `C02_kdb_position_designates`; that appending there adds
    the entry to exactly that group is `C02_kdb_entry_lands_in_group`. -/
theorem C02_kdb_records (gs : List GRec) (es : List ERec) (hc : conform 0 gs)
    (he : ∀ e ∈ es, e.ok ∧ ∃ g ∈ gs, g.gid = e.gid) :
    ∃ F0 gm, specGroups gs [] [] = some (F0, gm)
      ∧ parseDb gs.length es.length (gs.flatMap encodeGroup ++ es.flatMap encodeEntry) = .ok (placeEntries gm es F0) := by
  obtain ⟨F0, gm, h1, _, h3⟩ := parseDb_records gs es hc he
  exact ⟨F0, gm, h1, h3⟩

/-- the position recorded for a group record designates a group carrying the record's name -/
theorem C02_kdb_position_designates (d : Nat) (F : List KNode) (nm : Bytes) (F' : List KNode) (p : List Nat)
    (h : insertRight F d (.group nm []) = some F') (hp : spinePos F d = some p) : groupAt F' p = some (nm, []) :=
  insertRight_new_at d F nm F' p h hp

/-- appending an entry at a recorded position adds it to the children of the designated group, whose name is unchanged -/
theorem C02_kdb_entry_lands_in_group (p : List Nat) (F : List KNode) (e : KNode) (nm : Bytes) (ch : List KNode)
    (h : groupAt F p = some (nm, ch)) : groupAt (kAddAt F p e) p = some (nm, ch ++ [e]) :=
  kAddAt_at p F e nm ch h

/-- recorded positions stay valid while further groups and entries are added -/
theorem C02_kdb_positions_stable (d : Nat) (F : List KNode) (x : KNode) (F' : List KNode) (p q : List Nat) (e : KNode)
    (h : insertRight F d x = some F') (hw : kWalk F p = true) (hq : kWalk F' q = true) :
    kWalk F' p = true ∧ kWalk (kAddAt F' q e) p = true :=
  ⟨insertRight_walk d F x F' p h hw, kAddAt_walk q F' e p hq (insertRight_walk d F x F' p h hw)⟩

/-- the hypotheses are satisfiable: two equally named siblings, a nested group, two entries (non-vacuity) -/
example : conform 0 [⟨0, [65], 10⟩, ⟨0, [65], 20⟩, ⟨1, [66], 30⟩]
    ∧ (⟨30, List.replicate 16 7, [(4, [101, 0]), (7, [112])]⟩ : ERec).ok := by
  refine ⟨⟨by decide, ⟨by decide, by decide, by decide, by decide⟩, by decide, ⟨by decide, by decide, by decide, by decide⟩,
    by decide, ⟨by decide, by decide, by decide, by decide⟩, trivial⟩, by decide, by decide, ?_⟩
  intro f hf
  simp only [List.mem_cons, List.not_mem_nil, or_false] at hf
  rcases hf with rfl | rfl <;> simp [valueType]

/-! ### ISO 8601 time stamps (KDBX 3.1): the day count -/

/-- `daysFromCivil` — the day number `parseIso` gives a date — is the proleptic Gregorian day count, for every year
    (negative ones included): 0 on 1970-01-01 and one more on each next day — within a month, across a month's end
    (month lengths and leap-year rule of `daysInMonth`), across a year's end.  These laws determine it on all valid dates. -/
theorem C02_iso_day_count :
    Kp.Codec.daysFromCivil 1970 1 1 = 0
    ∧ (∀ y m d : Int, Kp.Codec.daysFromCivil y m (d + 1) = Kp.Codec.daysFromCivil y m d + 1)
    ∧ (∀ y m : Int, 1 ≤ m → m ≤ 11 →
        Kp.Codec.daysFromCivil y (m + 1) 1 = Kp.Codec.daysFromCivil y m (Kp.Codec.daysInMonth y m) + 1)
    ∧ (∀ y : Int, Kp.Codec.daysFromCivil (y + 1) 1 1 = Kp.Codec.daysFromCivil y 12 31 + 1) :=
  ⟨Kp.Codec.dfc_epoch, Kp.Codec.dfc_next_day, Kp.Codec.dfc_next_month, Kp.Codec.dfc_next_year⟩

end Kp.Props.C02
