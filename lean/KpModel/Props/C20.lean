import KpModel.Key
import KpModel.Codec.Base64
import KpModel.Codec.Lemmas
import KpModel.Codec.Utf8Lemmas
/-!
# C20 — credentials derive the KeePass composite key in every documented encoding
Property theorems only.  Model: `KpModel/Key.lean` (tied to the real key derivation by the correspondence
op `key`: the model's composite — computed with Lean's own SHA-256 — must equal an independent reference
derivation, real `save` output must authenticate under it, and real `parse` must accept exactly it).
All theorems hold for every `KeyPrims`.
-/
namespace Kp.Key

/-- order of the elements: SHA-256 of the UTF-8 password first, then the key-file key -/
theorem elements_order (P : KeyPrims) (pw : Str) (buf : Bytes) (view : XmlView) :
    keyElements P ⟨some pw, some (buf, view)⟩ = some [P.sha256 (P.utf8 pw), keyfileKey P buf view]
    ∧ keyElements P ⟨some pw, none⟩ = some [P.sha256 (P.utf8 pw)]
    ∧ keyElements P ⟨none, some (buf, view)⟩ = some [keyfileKey P buf view]
    ∧ keyElements P ⟨none, none⟩ = none := by
  simp [keyElements]

/-- the composite is the SHA-256 of the concatenation, in that order -/
theorem composite_def (P : KeyPrims) (pw : Str) (buf : Bytes) (view : XmlView) :
    compositeKdbx P ⟨some pw, some (buf, view)⟩
      = some (P.sha256 (P.sha256 (P.utf8 pw) ++ keyfileKey P buf view))
    ∧ compositeKdbx P ⟨some pw, none⟩ = some (P.sha256 (P.sha256 (P.utf8 pw)))
    ∧ compositeKdbx P ⟨none, some (buf, view)⟩ = some (P.sha256 (keyfileKey P buf view))
    ∧ compositeKdbx P ⟨none, none⟩ = none := by
  simp [compositeKdbx, keyElements]

/-! the key-file key in each documented encoding -/

/-- version-1 XML key file: the base64 payload -/
theorem keyfile_v1 (P : KeyPrims) (buf : Bytes) (ver : Option Str) (data : Str) (k : Bytes)
    (hv : ver ≠ some v2) (hd : P.b64 data = some k) :
    keyfileKey P buf (.wellFormed ver (some data)) = k := by
  simp [keyfileKey, xmlKey, hv, hd]

/-- version-2 XML key file: the hex payload with all white space ignored -/
theorem keyfile_v2 (P : KeyPrims) (buf : Bytes) (data : Str) (k : Bytes)
    (hd : P.hex (stripWs data) = some k) :
    keyfileKey P buf (.wellFormed (some v2) (some data)) = k := by
  simp [keyfileKey, xmlKey, hd]

/-- a 32-byte file that is not a key-file XML document: its raw content -/
theorem keyfile_raw32 (P : KeyPrims) (buf : Bytes) (view : XmlView) (hx : xmlKey P view = none)
    (hl : buf.length = 32) : keyfileKey P buf view = buf := by
  simp [keyfileKey, hx, hl]

/-- any other file: its SHA-256 -/
theorem keyfile_hashed (P : KeyPrims) (buf : Bytes) (view : XmlView) (hx : xmlKey P view = none)
    (hl : buf.length ≠ 32) : keyfileKey P buf view = P.sha256 buf := by
  simp [keyfileKey, hx, hl]

/-- XML without key data (no text under KeyFile/Key/Data) is "not a key file": raw or hashed -/
theorem xml_without_data (P : KeyPrims) (ver : Option Str) :
    xmlKey P (.wellFormed ver none) = none ∧ xmlKey P .malformed = none := by
  simp [xmlKey]

theorem stripWs_append (a b : Str) : stripWs (a ++ b) = stripWs a ++ stripWs b := by
  simp [stripWs]

theorem stripWs_ws (w : Str) (h : ∀ c ∈ w, isWs c = true) : stripWs w = [] := by
  simp only [stripWs, List.filter_eq_nil_iff]
  intro c hc
  simp [h c hc]

/-- white space — of any kind, anywhere in the payload — does not change the version-2 key -/
theorem v2_whitespace_insensitive (P : KeyPrims) (buf : Bytes) (a w b : Str)
    (hw : ∀ c ∈ w, isWs c = true) (k : Bytes) (hk : P.hex (stripWs (a ++ b)) = some k) :
    keyfileKey P buf (.wellFormed (some v2) (some (a ++ w ++ b))) = k
    ∧ keyfileKey P buf (.wellFormed (some v2) (some (a ++ b))) = k := by
  have e : stripWs (a ++ w ++ b) = stripWs (a ++ b) := by
    simp [stripWs_append, stripWs_ws w hw]
  exact ⟨keyfile_v2 P buf _ k (by rw [e]; exact hk), keyfile_v2 P buf _ k hk⟩

/-- tab, space, CR, LF, NBSP … are white space (non-vacuity of the hypothesis above) -/
example : ∀ c ∈ ['\t', ' ', '\r', '\n', Char.ofNat 0xA0], isWs c = true := by decide

/-- a password-only key differs from password + key file, if SHA-256 separates the two inputs that occur
    (the idealisation is a hypothesis, never an axiom) and the key-file key is not empty -/
theorem pw_vs_pw_keyfile_distinct (P : KeyPrims) (pw : Str) (buf : Bytes) (view : XmlView)
    (hne : keyfileKey P buf view ≠ [])
    (hinj : P.sha256 (P.sha256 (P.utf8 pw)) = P.sha256 (P.sha256 (P.utf8 pw) ++ keyfileKey P buf view) →
            P.sha256 (P.utf8 pw) = P.sha256 (P.utf8 pw) ++ keyfileKey P buf view) :
    compositeKdbx P ⟨some pw, none⟩ ≠ compositeKdbx P ⟨some pw, some (buf, view)⟩ := by
  rw [(composite_def P pw buf view).1, (composite_def P pw buf view).2.1]
  intro h
  have := hinj (Option.some.inj h)
  have h2 : (P.sha256 (P.utf8 pw)).length = (P.sha256 (P.utf8 pw) ++ keyfileKey P buf view).length := by
    rw [← this]
  simp at h2
  exact hne h2

/-- KDB: a lone 32-byte element is the key itself, unhashed; two elements are hashed together -/
theorem kdb_single_element (P : KeyPrims) (pw : Str) (buf : Bytes) (view : XmlView) :
    (((P.sha256 (P.utf8 pw)).length = 32 → compositeKdb P ⟨some pw, none⟩ = .key (P.sha256 (P.utf8 pw)))
    ∧ compositeKdb P ⟨some pw, some (buf, view)⟩
        = .key (P.sha256 (P.sha256 (P.utf8 pw) ++ keyfileKey P buf view))) := by
  refine ⟨fun h => by simp [compositeKdb, keyElements, h], by simp [compositeKdb, keyElements]⟩

/-- KDB: a lone element of any other length is rejected as an incorrect key (the `unwrap` panic of site A36 was
    repaired in /repo); it is never used as a key -/
theorem kdb_single_element_not32 (P : KeyPrims) (c : Creds) (e : Bytes)
    (h : keyElements P c = some [e]) (hl : e.length ≠ 32) : compositeKdb P c = .errNot32 := by
  simp [compositeKdb, h, hl]

/-- witness: a version-1 XML key file whose base64 payload decodes to 3 bytes -/
theorem kdb_not32_witness :
    compositeKdb ⟨fun _ => [], fun _ => [], fun _ => some [1, 2, 3], fun _ => none⟩
      ⟨none, some ([], .wellFormed none (some ['A']))⟩ = .errNot32 := by decide


/-! ### version-2 key files: the hex payload, any case (executable `hex::decode` model `Kp.Codec.hexDecode`) -/

/-- one hex digit, lower or upper case (statement-side writer) -/
def hexDigit (upper : Bool) (k : Nat) : Char :=
  if k < 10 then Char.ofNat (48 + k) else if upper then Char.ofNat (55 + k) else Char.ofNat (87 + k)

/-- a byte string written in hex, each digit in the case `cs` chooses for its position -/
def hexWrite (cs : Nat → Bool) : Nat → Bytes → Str
  | _, [] => []
  | i, x :: r => hexDigit (cs i) (x.toNat / 16) :: hexDigit (cs (i + 1)) (x.toNat % 16) :: hexWrite cs (i + 2) r

theorem hexVal_hexDigit : ∀ u k, k < 16 → Kp.Codec.hexVal (hexDigit u k) = some k := by decide
theorem isWs_hexDigit : ∀ u k, k < 16 → isWs (hexDigit u k) = false := by decide

theorem hexDecode_hexWrite (cs : Nat → Bool) (i : Nat) (b : Bytes) :
    Kp.Codec.hexDecode (hexWrite cs i b) = some b := by
  induction b generalizing i with
  | nil => simp [hexWrite, Kp.Codec.hexDecode]
  | cons x r ih =>
    have h := UInt8.toNat_lt x
    have e : x.toNat / 16 * 16 + x.toNat % 16 = x.toNat := by omega
    simp only [hexWrite, Kp.Codec.hexDecode, hexVal_hexDigit _ _ (show x.toNat / 16 < 16 by omega),
      hexVal_hexDigit _ _ (show x.toNat % 16 < 16 by omega), ih, e, UInt8.ofNat_toNat]

theorem stripWs_hexWrite (cs : Nat → Bool) (i : Nat) (b : Bytes) :
    stripWs (hexWrite cs i b) = hexWrite cs i b := by
  induction b generalizing i with
  | nil => simp [hexWrite, stripWs]
  | cons x r ih =>
    have h := UInt8.toNat_lt x
    have ih' := ih (i + 2)
    simp only [stripWs] at ih' ⊢
    simp only [hexWrite, List.filter_cons, isWs_hexDigit _ _ (show x.toNat / 16 < 16 by omega),
      isWs_hexDigit _ _ (show x.toNat % 16 < 16 by omega), ih']
    simp

/-- every key has version-2 key files, and each of them — in any mixture of upper and lower case —
    yields exactly that key -/
theorem keyfile_v2_every_key (P : KeyPrims) (hP : P.hex = Kp.Codec.hexDecode) (buf : Bytes) (cs : Nat → Bool) (k : Bytes) :
    keyfileKey P buf (.wellFormed (some v2) (some (hexWrite cs 0 k))) = k := by
  simp [keyfileKey, xmlKey, hP, stripWs_hexWrite, hexDecode_hexWrite]

/-- every key has version-1 key files (also files without a version): the standard base64 of the key
    yields exactly that key (for the executable `base64::STANDARD.decode` model) -/
theorem keyfile_v1_every_key (P : KeyPrims) (hP : P.b64 = Kp.Codec.b64Decode) (buf : Bytes) (ver : Option Str)
    (hv : ver ≠ some v2) (k : Bytes) :
    keyfileKey P buf (.wellFormed ver (some (Kp.Codec.b64Encode k))) = k :=
  keyfile_v1 P buf ver _ k hv (by rw [hP]; exact Kp.Codec.b64_roundtrip k)

/-- **different passwords, different keys — unless SHA-256 collides**: the UTF-8 byte strings of two different
    passwords are different (`utf8_injective`, proved for the executable encoder), so two password-only
    credentials have the same composite key only through a collision of the hash on the inputs that occur
    (the two collision-freedom facts are hypotheses about those inputs, never axioms) -/
theorem distinct_passwords_distinct_keys (P : KeyPrims) (hP : P.utf8 = Kp.Codec.utf8) (pw pw' : Str) (hne : pw ≠ pw')
    (h1 : P.sha256 (P.sha256 (P.utf8 pw)) = P.sha256 (P.sha256 (P.utf8 pw')) →
          P.sha256 (P.utf8 pw) = P.sha256 (P.utf8 pw'))
    (h2 : P.sha256 (P.utf8 pw) = P.sha256 (P.utf8 pw') → P.utf8 pw = P.utf8 pw') :
    compositeKdbx P ⟨some pw, none⟩ ≠ compositeKdbx P ⟨some pw', none⟩ := by
  rw [(composite_def P pw [] .malformed).2.1, (composite_def P pw' [] .malformed).2.1]
  intro h
  have e := h2 (h1 (Option.some.inj h))
  rw [hP] at e
  exact hne (Kp.Codec.utf8_injective pw pw' e)

/-- the password enters the key as its UTF-8 bytes and nothing else: different passwords, different hash inputs -/
theorem password_bytes_distinct (pw pw' : Str) (hne : pw ≠ pw') : Kp.Codec.utf8 pw ≠ Kp.Codec.utf8 pw' :=
  fun e => hne (Kp.Codec.utf8_injective pw pw' e)

/-- a version-2 payload with an odd number of non-white-space characters is not hex: the library falls
    back to the UTF-8 bytes of the element text (as `parse_xml_keyfile` does) -/
theorem keyfile_v2_odd_falls_back (P : KeyPrims) (hP : P.hex = Kp.Codec.hexDecode) (buf : Bytes) (data : Str)
    (hodd : (stripWs data).length % 2 = 1) :
    keyfileKey P buf (.wellFormed (some v2) (some data)) = P.utf8 data := by
  have hn : Kp.Codec.hexDecode (stripWs data) = none := by
    cases h : Kp.Codec.hexDecode (stripWs data) with
    | none => rfl
    | some b => have := Kp.Codec.hexDecode_length _ b h; omega
  simp [keyfileKey, xmlKey, hP, hn]

/-! Non-vacuity -/
example : hexWrite (fun i => i % 2 == 0) 0 [0xAB, 0x0F] = ['A', 'b', '0', 'f'] := by decide

end Kp.Key
