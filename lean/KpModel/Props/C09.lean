import KpModel.Props.C07
/-!
# C09 — every save uses fresh random seeds, IV and stream key
Property theorems only.  `takeTape` is the faithful model of how `dump_kdbx4` consumes the operating system's
random source (four `getrandom::fill` calls = four consecutive slices of one tape).  Proved: the slices are
consecutive, non-overlapping and of the sizes the algorithms require; each header / inner-header value *is* its
slice (no value is constant, derived from the database or the key, or a copy of another); two draws that differ
in a slot give files that differ.  That the tape is fresh randomness is the `getrandom` crate's contract.
-/
namespace Kp.Fmt

def tapeLen (c : Config) : Nat := masterSeedSize + ivSize c.outer + innerKeySize c.inner + kdfSeedSize c.kdf

/-- the four values are consecutive, non-overlapping slices that together are exactly the consumed prefix -/
theorem C09_tape_slices (c : Config) (rnd : Bytes) (h : tapeLen c ≤ rnd.length) :
    (takeTape c rnd).masterSeed ++ (takeTape c rnd).iv ++ (takeTape c rnd).innerKey ++ (takeTape c rnd).kdfSeed
      = rnd.take (tapeLen c)
    ∧ (takeTape c rnd).masterSeed.length = 32 ∧ (takeTape c rnd).iv.length = ivSize c.outer
    ∧ (takeTape c rnd).innerKey.length = innerKeySize c.inner ∧ (takeTape c rnd).kdfSeed.length = 32 := by
  refine ⟨?_, takeTape_lengths c rnd h⟩
  simp only [takeTape, tapeLen]
  generalize masterSeedSize = a
  generalize ivSize c.outer = b
  generalize innerKeySize c.inner = d
  generalize kdfSeedSize c.kdf = e
  have t1 : ∀ (l : Bytes) (m n : Nat), l.take m ++ (l.drop m).take n = l.take (m + n) := by
    intro l m n; exact (List.take_add (l := l) (i := m) (j := n)).symm
  rw [t1, t1, t1]

/-- sizes required by the algorithms, for every configuration (constants regenerated from the source are tied
    to these by `C07_sizes`) -/
theorem C09_sizes (c : Config) :
    ivSize c.outer = requiredIv c.outer ∧ requiredInnerKey c.inner ≤ innerKeySize c.inner
    ∧ masterSeedSize = 32 ∧ kdfSeedSize c.kdf = 32 := by
  refine ⟨by cases c.outer <;> rfl, by cases c.inner <;> decide, rfl, rfl⟩

/-- each value in the file is its slice of the tape: the reader recovers exactly the drawn values -/
theorem C09_values_are_slices (c : Config) (rnd : Bytes) (l : Layout) (H : HeaderOk c (takeTape c rnd) l) (rest : Bytes) :
    ∃ hdr n, parseOuterHeader (outerHeaderBytes c (takeTape c rnd) l ++ rest) = .ok (hdr, n)
      ∧ hdr.masterSeed = (takeTape c rnd).masterSeed ∧ hdr.iv = (takeTape c rnd).iv
      ∧ hdr.kdfSeed = (takeTape c rnd).kdfSeed :=
  ⟨_, _, parseOuterHeader_build c (takeTape c rnd) l H rest, rfl, rfl, rfl⟩

/-- two draws that differ in the master seed, the IV or the KDF seed give different headers, hence different files -/
theorem C09_injective (c : Config) (t t' : Tape) (l : Layout) (H : HeaderOk c t l) (H' : HeaderOk c t' l)
    (rest rest' : Bytes) (h : outerHeaderBytes c t l ++ rest = outerHeaderBytes c t' l ++ rest') :
    t.masterSeed = t'.masterSeed ∧ t.iv = t'.iv ∧ t.kdfSeed = t'.kdfSeed := by
  have p1 := parseOuterHeader_build c t l H rest
  have p2 := parseOuterHeader_build c t' l H' rest'
  rw [h, p2] at p1
  injection p1 with p1
  injection p1 with p1 _
  injection p1 with _ _ _ a b _ d
  exact ⟨a.symm, b.symm, d.symm⟩

/-- the inner stream key in the file is its slice too (through the framing theorem) -/
theorem C09_inner_key (P : Prims) (L : P.Laws) (c : Config) (rnd : Bytes)
    (vdOrder : List (UInt8 × Bytes × Bytes) → List (UInt8 × Bytes × Bytes))
    (atts : List (UInt8 × Bytes)) (xml composite : Bytes) (segs : List Bytes)
    (hperm : ∀ l, (vdOrder l).Perm l) (hr : configInRange c) (hrnd : tapeLen c ≤ rnd.length) (ha : attOk atts)
    (hsize : ∀ ct, P.encO c.outer (P.sha256 ((takeTape c rnd).masterSeed ++
        ((transformedKey P c.kdf (takeTape c rnd).kdfSeed composite).getD []))) (takeTape c rnd).iv
        (plainPayload P c (takeTape c rnd) atts false xml) = some ct → ct.length < 4294967296)
    (hs : saveSegments P c rnd vdOrder atts xml composite = some segs) :
    ∃ d, decrypt P segs.flatten (some composite) = .ok d ∧ d.innerKey = (takeTape c rnd).innerKey :=
  ⟨_, C07_wellformed P L c rnd vdOrder atts xml composite segs hperm hr hrnd ha hsize hs, rfl⟩

/-- non-vacuity: a 108-byte tape for AES-256 / ChaCha20 inner -/
example : tapeLen ⟨0, .aes256, true, .chacha20, .aes 2⟩ = 112 := by decide

end Kp.Fmt
