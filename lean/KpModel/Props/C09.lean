import KpModel.Format.Kdbx4
namespace Kp.Fmt
theorem placeholder_C09 : True := trivial
end Kp.Fmt
