import KpModel.IoLemmas
/-!
# C10 — reading is independent of how the source delivers bytes and surfaces I/O errors
Property theorems only.  Model: `KpModel/Io.lean` (tied to `Database::{open,get_xml,get_version}` and
`DatabaseKey::with_keyfile` over scripted `Read` implementations by the correspondence op `ioread`).
-/
namespace Kp.Io

/-- `read_to_end`-based entry points (`open`, `get_xml`, `with_keyfile`): for every schedule of short
    reads and interruptions and every buffer-size policy of std, the result is the whole-buffer result, or —
    when the failure offset lies within the data — the source's error.  Never a prefix. -/
theorem C10_open {α : Type} (parse : Bytes → α) (want : Nat → Nat) (s : Src) :
    openWith parse want s = s.outcome.map parse := by
  unfold openWith
  rw [readToEnd_eq want s.fuel 0 s [] (Nat.le_refl _)]
  cases s.outcome <;> simp [mapAcc, Except.map]

theorem C10_open_complete {α : Type} (parse : Bytes → α) (want : Nat → Nat) (s : Src)
    (h : s.untilFail = none) : openWith parse want s = .ok (parse s.data) := by
  rw [C10_open]; simp [Src.outcome, h, Except.map]

theorem C10_open_error {α : Type} (parse : Bytes → α) (want : Nat → Nat) (s : Src) (u : Nat)
    (h : s.untilFail = some u) (hu : u ≤ s.data.length) : openWith parse want s = .error s.kind := by
  rw [C10_open]; simp [Src.outcome, h, hu, Except.map]

/-- two deliveries of the same bytes give the same result, whatever the schedules -/
theorem C10_schedule_independent {α : Type} (parse : Bytes → α) (want want' : Nat → Nat) (s s' : Src)
    (hd : s.data = s'.data) (h : s.untilFail = none) (h' : s'.untilFail = none) :
    openWith parse want s = openWith parse want' s' := by
  rw [C10_open_complete _ _ _ h, C10_open_complete _ _ _ h', hd]

theorem parseVersion_take12 (d : Bytes) : parseVersion (d.take 12) = parseVersion d := by
  match d with
  | [] => rfl
  | [_] => rfl
  | [_, _] => rfl
  | [_, _, _] => rfl
  | [_, _, _, _] => rfl
  | [_, _, _, _, _] => rfl
  | [_, _, _, _, _, _] => rfl
  | [_, _, _, _, _, _, _] => rfl
  | [_, _, _, _, _, _, _, _] => rfl
  | [_, _, _, _, _, _, _, _, _] => rfl
  | [_, _, _, _, _, _, _, _, _, _] => rfl
  | [_, _, _, _, _, _, _, _, _, _, _] => rfl
  | _ :: _ :: _ :: _ :: _ :: _ :: _ :: _ :: _ :: _ :: _ :: _ :: _ => simp [parseVersion]

/-- version sniffing: for every schedule, the version of the whole file (or the I/O error when the source
    fails within the first 12 bytes) -/
theorem C10_getVersion (want : Nat → Nat) (s : Src) :
    getVersion want s = (s.outcomeUpTo 12).map parseVersion := by
  unfold getVersion
  rw [readUpTo_eq want s.fuel 0 12 s [] (Nat.le_refl _)]
  cases s.outcomeUpTo 12 <;> simp [mapAcc, Except.map]

theorem C10_getVersion_complete (want : Nat → Nat) (s : Src) (h : s.untilFail = none) :
    getVersion want s = .ok (parseVersion s.data) := by
  rw [C10_getVersion]; simp [Src.outcomeUpTo, h, Except.map, parseVersion_take12]

/-- C10 at full strength -/
def C10_full : Prop :=
  ∀ (want : Nat → Nat) (s : Src),
    (∀ {α : Type} (parse : Bytes → α), openWith parse want s = s.outcome.map parse)
    ∧ (s.untilFail = none → getVersion want s = .ok (parseVersion s.data))
    -- version sniffing reports the version that open reports
    ∧ (s.untilFail = none → getVersion want s = .ok (openVersion s.data))

/-- header of `tests/resources/test_db_kdb_with_password.kdb`: flags = 3, version field = 0x00030002 -/
def kdbHeader16 : Bytes :=
  [0x03, 0xd9, 0xa2, 0x9a, 0x65, 0xfb, 0x4b, 0xb5, 0x03, 0x00, 0x00, 0x00, 0x02, 0x00, 0x03, 0x00]

theorem kdb_version_witness :
    parseVersion kdbHeader16 = some (.kdb 3) ∧ openVersion kdbHeader16 = some (.kdb 2) := by
  decide

/-- The last clause fails on the unchanged code for KeePass 1 files: sniffing reports the flags word as
    "minor version", opening reports the version field (finding F13; replayed on the real code with
    `tests/resources/test_db_kdb_with_password.kdb`). -/
theorem C10_full_false : ¬ C10_full := by
  intro h
  have h3 := (h (fun _ => 0) ⟨kdbHeader16, none, .other, []⟩).2.2 rfl
  rw [C10_getVersion_complete _ _ rfl] at h3
  have w := kdb_version_witness
  simp only [w.1, w.2] at h3
  cases h3

/-- what is missing for the full statement: the KDB version field -/
def notKdb (d : Bytes) : Prop := ∀ m, parseVersion d ≠ some (.kdb m)

theorem openVersion_eq_of_notKdb (d : Bytes) (h : notKdb d) : openVersion d = parseVersion d := by
  unfold openVersion
  cases hp : parseVersion d with
  | none => rfl
  | some v =>
    cases v with
    | kdb m => exact absurd hp (h m)
    | _ => rfl

theorem C10_partial (want : Nat → Nat) (s : Src) :
    (∀ {α : Type} (parse : Bytes → α), openWith parse want s = s.outcome.map parse)
    ∧ (s.untilFail = none → getVersion want s = .ok (parseVersion s.data))
    ∧ (s.untilFail = none → notKdb s.data → getVersion want s = .ok (openVersion s.data)) := by
  refine ⟨fun parse => C10_open parse want s, C10_getVersion_complete want s, ?_⟩
  intro h hk
  rw [openVersion_eq_of_notKdb _ hk]
  exact C10_getVersion_complete want s h

/-! Non-vacuity: a one-byte-per-call schedule with an interruption, and a failure at offset 5. -/
def kdbx4Header12 : Bytes := [0x03, 0xd9, 0xa2, 0x9a, 0x67, 0xfb, 0x4b, 0xb5, 0x00, 0x00, 0x04, 0x00]

example : parseVersion kdbx4Header12 = some (.kdbx4 0) ∧ notKdb kdbx4Header12 := by
  refine ⟨by decide, ?_⟩
  intro m h
  have : parseVersion kdbx4Header12 = some (.kdbx4 0) := by decide
  rw [this] at h; cases h

example : getVersion (fun _ => 31)
    ⟨kdbx4Header12, none, .other, [.cap 0, .intr, .cap 0, .cap 0, .cap 2]⟩ = .ok (some (.kdbx4 0)) := by
  rw [C10_getVersion_complete _ _ rfl]
  have : parseVersion kdbx4Header12 = some (.kdbx4 0) := by decide
  simp [this]

example : getVersion (fun _ => 31) ⟨kdbx4Header12, some 5, .brokenPipe, [.cap 0]⟩ = .error .brokenPipe := by
  rw [C10_getVersion]; simp [Src.outcomeUpTo, kdbx4Header12, Except.map]

end Kp.Io
