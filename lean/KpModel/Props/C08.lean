import KpModel.Format.Kdbx4
namespace Kp.Fmt
theorem placeholder_C08 : True := trivial
end Kp.Fmt
