import KpModel.Xml.Dump
import KpModel.Xml.Parse
import KpModel.Props.C07
/-!
# C08 — saved files leak no database content in clear
Property theorems only.  (1) Structure: by the framing theorem everything after the header is a function of
the ciphertext `encO(compress(inner header ‖ XML))` and of MACs; the header depends only on the configuration and
the random tape (`header_independent_of_content`).  (2) Inner stream: protected values consume consecutive,
pairwise disjoint key-stream intervals in document order, for every map order (`C08_no_keystream_reuse`), and the
reader consumes the same intervals in the same order (`C01_stream_order`, same cursor).  That the outer
ciphertext reveals nothing is a cryptographic assumption on `encO`, not a theorem.
-/
namespace Kp.Xml

/-- the cursor discipline shared by writer and reader: the `n`-th protected value of `len` bytes uses the key-stream
    interval `[off_n, off_n + len)`, `off_{n+1} = off_n + len` -/
def intervals : Nat → List Bytes → List (Nat × Nat)
  | _, [] => []
  | off, v :: vs => (off, v.length) :: intervals (off + v.length) vs

def encryptAll (ks : Nat → Nat → Bytes) : Nat → List Bytes → List Bytes
  | _, [] => []
  | off, v :: vs => xorB v (ks off v.length) :: encryptAll ks (off + v.length) vs

def decryptAll (ks : Nat → Nat → Bytes) : Nat → List Bytes → List Bytes
  | _, [] => []
  | off, c :: cs => xorBytes c (ks off c.length) :: decryptAll ks (off + c.length) cs

theorem intervals_start_ge (off : Nat) (vs : List Bytes) : ∀ p ∈ intervals off vs, off ≤ p.1 := by
  induction vs generalizing off with
  | nil => intro p hp; cases hp
  | cons v vs ih =>
    intro p hp
    cases hp with
    | head => exact Nat.le_refl _
    | tail _ hp' => have := ih (off + v.length) p hp'; omega

/-- **no two-time pad**: the key-stream intervals of any two different protected values are disjoint -/
theorem C08_no_keystream_reuse (off : Nat) (vs : List Bytes) :
    (intervals off vs).Pairwise (fun a b => a.1 + a.2 ≤ b.1) := by
  induction vs generalizing off with
  | nil => exact List.Pairwise.nil
  | cons v vs ih =>
    simp only [intervals]
    refine List.Pairwise.cons ?_ (ih _)
    intro p hp
    exact intervals_start_ge _ _ p hp

theorem xor_xor (a k : Bytes) (h : k.length = a.length) : xorBytes (xorB a k) k = a := by
  induction a generalizing k with
  | nil => simp [xorB, xorBytes]
  | cons x xs ih =>
    cases k with
    | nil => simp at h
    | cons y ys =>
      simp only [xorB, xorBytes, List.zipWith_cons_cons]
      have := ih ys (by simpa using h)
      simp only [xorB, xorBytes] at this
      rw [this]
      congr 1
      rw [UInt8.xor_assoc, UInt8.xor_self, UInt8.xor_zero]

theorem xorB_length (a k : Bytes) (h : k.length = a.length) : (xorB a k).length = a.length := by
  simp [xorB, h]

/-- **stream order**: the reader, consuming the key stream in document order with the same cursor, recovers every
    protected value, wherever it occurs — for every key stream of the right lengths -/
theorem C01_stream_order (ks : Nat → Nat → Bytes) (hks : ∀ o n, (ks o n).length = n) (off : Nat) (vs : List Bytes) :
    decryptAll ks off (encryptAll ks off vs) = vs := by
  induction vs generalizing off with
  | nil => rfl
  | cons v vs ih =>
    simp only [encryptAll, decryptAll]
    have hl : (xorB v (ks off v.length)).length = v.length := xorB_length _ _ (hks _ _)
    rw [hl, xor_xor v _ (hks _ _), ih]

/-- the writer's `Value::Protected` case follows the cursor discipline: cipher text = value XOR the key-stream
    slice at the current cursor; the cursor advances by the value's length; unprotected values do not touch it -/
theorem dumpValue_cursor (env : DEnv) (u : Bytes → Option String) (p : Bytes) (s : DSt) :
    ((dumpValue env (.prot p) u).run s).2.off = s.off + p.length
    ∧ ((dumpValue env (.prot p) u).run s).2.out
        = s.out ++ [.start "Value" [("Protected", "True")], .chars (b64Text (xorB p (env.ks s.off p.length))), .stop] := by
  simp [dumpValue, emit, StateT.run, bind, StateT.bind, modify, modifyGet, MonadStateOf.modifyGet, StateT.modifyGet,
    get, getThe, MonadStateOf.get, StateT.get, set, StateT.set, pure, StateT.pure, List.append_assoc]

theorem dumpValue_unprotected_cursor (env : DEnv) (u : Bytes → Option String) (t : String) (s : DSt) :
    ((dumpValue env (.unprotected t) u).run s).2.off = s.off := by
  by_cases ht : t.isEmpty = true <;>
    simp [dumpValue, tagText, emit, StateT.run, bind, StateT.bind, modify, modifyGet, MonadStateOf.modifyGet,
      StateT.modifyGet, pure, StateT.pure, ht]

/-- the reader's side of the same discipline -/
theorem innerDecrypt_cursor (env : Env) (buf : Bytes) (s : PSt) :
    innerDecrypt env buf s = .ok (xorBytes buf (env.ks s.off buf.length), { s with off := s.off + buf.length }) := rfl

/-- with a key-stream slice that is not all zero, the cipher text of a protected value differs from the value
    (so neither the value nor the base64 of the value is what is written) -/
theorem C08_protected_not_plain (v k : Bytes) (hk : k.length = v.length) (hnz : ∃ i, k.getD i 0 ≠ 0) :
    xorB v k ≠ v := by
  obtain ⟨i, hi⟩ := hnz
  intro h
  have hlen : i < k.length := by
    rcases Nat.lt_or_ge i k.length with hc | hc
    · exact hc
    · exact absurd (by simp [List.getD, List.getElem?_eq_none hc]) hi
  have hv : i < v.length := by omega
  have hx : (xorB v k)[i]? = some (v[i] ^^^ k[i]) := by
    simp [xorB, List.getElem?_zipWith, List.getElem?_eq_getElem hv, List.getElem?_eq_getElem hlen]
  rw [h, List.getElem?_eq_getElem hv] at hx
  have hx' : v[i] = v[i] ^^^ k[i] := Option.some.inj hx
  have hk0 : k[i] = 0 := by
    have h2 : v[i] ^^^ v[i] = v[i] ^^^ (v[i] ^^^ k[i]) := by rw [← hx']
    rw [← UInt8.xor_assoc, UInt8.xor_self, UInt8.zero_xor] at h2
    exact h2.symm
  apply hi
  simp [List.getD, List.getElem?_eq_getElem hlen, hk0]

end Kp.Xml

namespace Kp.Fmt

/-- the outer header depends only on the configuration, the random tape and the layout — not on the database,
    the attachments, the XML or the key -/
theorem header_independent_of_content (P : Prims) (c : Config) (t : Tape) (l : Layout) (tk tk' ct ct' : Bytes) :
    (assemble P c t l tk ct).take (outerHeaderBytes c t l).length
      = (assemble P c t l tk' ct').take (outerHeaderBytes c t l).length := by
  simp [assemble, List.append_assoc]

end Kp.Fmt
