import KpModel.Totp
import KpModel.TotpLemmas
/-!
# C19 — one-time passwords follow RFC 6238 for every secret, time and parameter set
Property theorems only.  Model: `KpModel/Totp.lean` (tied to `TOTP::{from_str,value_at,get_secret}` and
`Entry::get_otp` by the correspondence op `totp`; the executable HMACs make the model an independent
implementation whose RFC 6238 appendix-B vectors are checked by the driver's `selftest`, a test).
All theorems hold for **every** HMAC function (`H : Hmacs`).
-/
namespace Kp.Totp

theorem decimal_length (d n : Nat) : (decimal d n).length = d := by
  induction d generalizing n with
  | zero => rfl
  | succ d ih => simp [decimal, ih]

theorem digitChar_isDigit (n : Nat) : (digitChar n).isDigit = true := by
  have h : n % 10 < 10 := Nat.mod_lt _ (by decide)
  unfold digitChar
  generalize n % 10 = k at h
  have : k = 0 ∨ k = 1 ∨ k = 2 ∨ k = 3 ∨ k = 4 ∨ k = 5 ∨ k = 6 ∨ k = 7 ∨ k = 8 ∨ k = 9 := by omega
  rcases this with h | h | h | h | h | h | h | h | h | h <;> subst h <;> decide

theorem decimal_all_digits (d n : Nat) : (decimal d n).all Char.isDigit = true := by
  induction d generalizing n with
  | zero => rfl
  | succ d ih => simp [decimal, ih, digitChar_isDigit]

/-- the code has exactly `digits` characters, all decimal digits (zero padded) -/
theorem code_length (digits v : Nat) (h : 1 ≤ digits) :
    (codeString digits v).length = digits ∧ (codeString digits v).all Char.isDigit = true := by
  have : digits ≠ 0 := by omega
  simp [codeString, this, decimal_length, decimal_all_digits]

/-- dynamic truncation yields a 31-bit value -/
theorem dynTrunc_lt (h : Bytes) : dynTrunc h < 2 ^ 31 := by
  simp only [dynTrunc]
  have a := UInt8.toNat_lt (h.getD ((h.getLastD 0).toNat % 16 + 1) 0)
  have b := UInt8.toNat_lt (h.getD ((h.getLastD 0).toNat % 16 + 2) 0)
  have c := UInt8.toNat_lt (h.getD ((h.getLastD 0).toNat % 16 + 3) 0)
  have d : (h.getD ((h.getLastD 0).toNat % 16) 0).toNat % 128 < 128 := Nat.mod_lt _ (by decide)
  omega

/-- the four bytes read by the truncation lie inside any hash of at least 20 bytes (SHA-1/256/512) -/
theorem truncation_in_bounds (h : Bytes) (hl : 20 ≤ h.length) :
    (h.getLastD 0).toNat % 16 + 3 < h.length := by
  have : (h.getLastD 0).toNat % 16 < 16 := Nat.mod_lt _ (by decide)
  omega

/-- for a positive period and at most 19 digits `value_at` returns a code of exactly `digits` decimal
    digits and a remaining validity between one second and the period -/
theorem value_ok (H : Hmacs) (alg : Alg) (secret : Bytes) (period digits time : Nat)
    (hp : 1 ≤ period) (hd : 1 ≤ digits) (hd' : digits < 20) :
    ∃ cs : List Char, (valueAt H alg secret period digits time).1 = .code cs
      ∧ cs.length = digits ∧ cs.all Char.isDigit = true
      ∧ 1 ≤ (valueAt H alg secret period digits time).2
      ∧ (valueAt H alg secret period digits time).2 ≤ period := by
  have h1 : period ≠ 0 := by omega
  have h2 : ¬ (digits ≥ 20) := by omega
  simp only [valueAt, h1, h2, ↓reduceIte]
  refine ⟨_, rfl, (code_length digits _ hd).1, (code_length digits _ hd).2, ?_, ?_⟩
  · have := Nat.mod_lt time (show 0 < period by omega); omega
  · omega

/-- the value is below `10 ^ digits` by construction; the code depends on the time only through the
    time step: two instants in the same window give the same code -/
theorem window_const (H : Hmacs) (alg : Alg) (secret : Bytes) (period digits t t' : Nat)
    (h : t / period = t' / period) :
    (valueAt H alg secret period digits t).1 = (valueAt H alg secret period digits t').1 := by
  simp only [valueAt, h]
  split
  · rfl
  · split <;> rfl

/-- the counter is the 8-byte big-endian time step -/
theorem counterBytes_length (c : Nat) : (counterBytes c).length = 8 := by simp [counterBytes]

/-! ### The code as a number (RFC 4226 §5.3 step 3, RFC 6238 §4.2) -/

/-- a digit string read as a decimal number (statement-side reading function) -/
def numVal (s : List Char) : Nat := s.foldl (fun acc c => acc * 10 + (c.toNat - 48)) 0

/-- a byte string read as a big-endian number (statement-side reading function) -/
def beVal (b : Bytes) : Nat := b.foldl (fun acc x => acc * 256 + x.toNat) 0

theorem numVal_append_single (s : List Char) (c : Char) :
    numVal (s ++ [c]) = numVal s * 10 + (c.toNat - 48) := by
  simp [numVal, List.foldl_append]

theorem digitChar_toNat (n : Nat) : (digitChar n).toNat - 48 = n % 10 := by
  have h : n % 10 < 10 := Nat.mod_lt _ (by decide)
  unfold digitChar
  generalize n % 10 = k at h
  have : k = 0 ∨ k = 1 ∨ k = 2 ∨ k = 3 ∨ k = 4 ∨ k = 5 ∨ k = 6 ∨ k = 7 ∨ k = 8 ∨ k = 9 := by omega
  rcases this with h | h | h | h | h | h | h | h | h | h <;> subst h <;> decide

/-- the `d`-digit rendering of `n` reads back as `n mod 10^d` -/
theorem numVal_decimal (d n : Nat) : numVal (decimal d n) = n % 10 ^ d := by
  induction d generalizing n with
  | zero => simp [decimal, numVal, Nat.mod_one]
  | succ d ih =>
    show numVal (decimal d (n / 10) ++ [digitChar n]) = _
    rw [numVal_append_single, ih, digitChar_toNat, Nat.pow_succ, Nat.mul_comm (10 ^ d) 10, Nat.mod_mul]
    generalize n / 10 % 10 ^ d = k
    omega

/-- **the code is `Truncate(HMAC(K, T)) mod 10^Digit`**: for every HMAC function, secret, positive period,
    1 ≤ digits ≤ 19 and instant, the string `value_at` returns, read as a decimal number, is the dynamic
    truncation of the HMAC of the 8-byte time step under the secret, reduced modulo `10 ^ digits` -/
theorem C19_code_value (H : Hmacs) (alg : Alg) (secret : Bytes) (period digits time : Nat)
    (hp : 1 ≤ period) (hd : 1 ≤ digits) (hd' : digits < 20) :
    ∃ cs : List Char, (valueAt H alg secret period digits time).1 = .code cs
      ∧ numVal cs = dynTrunc (H.run alg secret (counterBytes (time / period))) % 10 ^ digits := by
  have h1 : period ≠ 0 := by omega
  have h2 : ¬ (digits ≥ 20) := by omega
  have h3 : digits ≠ 0 := by omega
  simp only [valueAt, h1, h2, ↓reduceIte]
  refine ⟨_, rfl, ?_⟩
  simp only [codeString, h3, ↓reduceIte, numVal_decimal]
  exact Nat.mod_mod _ _

/-- **the HMAC message is the time step, big endian in 8 bytes** (RFC 4226 §5.2: the counter is an
    8-byte value): read back as a number the message is the time step modulo 2^64 -/
theorem counterBytes_value (c : Nat) : beVal (counterBytes c) = c % 2 ^ 64 := by
  have r8 : List.range 8 = [0, 1, 2, 3, 4, 5, 6, 7] := by decide
  have tn : ∀ n : Nat, (UInt8.ofNat (n % 256)).toNat = n % 256 := by
    intro n; simp [UInt8.toNat_ofNat']
  have cb : counterBytes c =
      [UInt8.ofNat (c / 72057594037927936 % 256), UInt8.ofNat (c / 281474976710656 % 256),
       UInt8.ofNat (c / 1099511627776 % 256), UInt8.ofNat (c / 4294967296 % 256),
       UInt8.ofNat (c / 16777216 % 256), UInt8.ofNat (c / 65536 % 256), UInt8.ofNat (c / 256 % 256),
       UInt8.ofNat (c % 256)] := by
    simp [counterBytes, r8]
  rw [cb]
  simp only [beVal, List.foldl, tn]
  omega

/-- two different time steps (below 2^64, as every `u64` time gives) never share an HMAC message -/
theorem counterBytes_injective (c c' : Nat) (h : c < 2 ^ 64) (h' : c' < 2 ^ 64)
    (e : counterBytes c = counterBytes c') : c = c' := by
  have := congrArg beVal e
  rw [counterBytes_value, counterBytes_value, Nat.mod_eq_of_lt h, Nat.mod_eq_of_lt h'] at this
  exact this

/-- the time step is `⌊time / period⌋`: instants in different windows hash different messages -/
theorem C19_windows_hash_distinct (period t t' : Nat) (ht : t < 2 ^ 64) (ht' : t' < 2 ^ 64)
    (h : t / period ≠ t' / period) : counterBytes (t / period) ≠ counterBytes (t' / period) := by
  intro e
  exact h (counterBytes_injective _ _ (Nat.lt_of_le_of_lt (Nat.div_le_self _ _) ht)
    (Nat.lt_of_le_of_lt (Nat.div_le_self _ _) ht') e)

/-- four consecutive bytes of a list, by `drop`/`take` and by index -/
theorem drop_take4 (l : Bytes) (k : Nat) (h : k + 3 < l.length) :
    (l.drop k).take 4 = [l.getD k 0, l.getD (k + 1) 0, l.getD (k + 2) 0, l.getD (k + 3) 0] := by
  induction k generalizing l with
  | zero =>
    match l, h with
    | a :: b :: c :: d :: rest, _ => simp
  | succ k ih =>
    match l, h with
    | x :: l', h =>
      have h' : k + 3 < l'.length := by simp at h; omega
      have := ih l' h'
      simp only [List.drop_succ_cons, this]
      have e2 : k + 1 + 2 = (k + 2) + 1 := by omega
      have e3 : k + 1 + 3 = (k + 3) + 1 := by omega
      rw [e2, e3]
      simp

/-- **dynamic truncation is RFC 4226 §5.3**: on a hash of at least 20 bytes (SHA-1/256/512) the value is
    the four bytes at the offset named by the low nibble of the last byte, big endian, top bit masked -/
theorem dynTrunc_spec (h : Bytes) (hl : 20 ≤ h.length) :
    dynTrunc h = beVal ((h.drop ((h.getLastD 0).toNat % 16)).take 4) % 2 ^ 31 := by
  have : (h.getLastD 0).toNat % 16 < 16 := Nat.mod_lt _ (by decide)
  rw [drop_take4 h _ (by omega)]
  simp only [dynTrunc, beVal, List.foldl]
  have a := UInt8.toNat_lt (h.getD ((h.getLastD 0).toNat % 16) 0)
  have b := UInt8.toNat_lt (h.getD ((h.getLastD 0).toNat % 16 + 1) 0)
  have c := UInt8.toNat_lt (h.getD ((h.getLastD 0).toNat % 16 + 2) 0)
  have d := UInt8.toNat_lt (h.getD ((h.getLastD 0).toNat % 16 + 3) 0)
  omega

/-- **RFC 6238 end to end, over any HMAC of at least 20 bytes**: with `T = ⌊time / period⌋`,
    `hm = HMAC(secret, T as 8 bytes big endian)` and `off = low nibble of hm's last byte`, the string
    `value_at` returns has exactly `digits` decimal digits and reads as
    `(hm[off..off+4] big endian mod 2^31) mod 10^digits` -/
theorem C19_rfc6238 (H : Hmacs) (alg : Alg) (secret : Bytes) (period digits time : Nat)
    (hp : 1 ≤ period) (hd : 1 ≤ digits) (hd' : digits < 20)
    (hl : 20 ≤ (H.run alg secret (counterBytes (time / period))).length) :
    ∃ cs : List Char, (valueAt H alg secret period digits time).1 = .code cs
      ∧ cs.length = digits ∧ cs.all Char.isDigit = true
      ∧ beVal (counterBytes (time / period)) = (time / period) % 2 ^ 64
      ∧ numVal cs =
          (beVal (((H.run alg secret (counterBytes (time / period))).drop
              (((H.run alg secret (counterBytes (time / period))).getLastD 0).toNat % 16)).take 4)
            % 2 ^ 31) % 10 ^ digits := by
  obtain ⟨cs, h1, h2⟩ := C19_code_value H alg secret period digits time hp hd hd'
  obtain ⟨cs', h1', h3, h4, _⟩ := value_ok H alg secret period digits time hp hd hd'
  have e : cs' = cs := by rw [h1] at h1'; injection h1' with h; exact h.symm
  subst e
  exact ⟨cs', h1, h3, h4, counterBytes_value _, by rw [h2, dynTrunc_spec _ hl]⟩

/-! Non-vacuity: a concrete code (RFC 4226 appendix D style) -/
example : numVal ['0', '8', '1', '8', '0', '4'] = 81804 := by decide
example : beVal (counterBytes 59) = 59 := by decide

/-! ### URI handling -/

theorem stepPair_period_zero (a : Acc) : stepPair a (kPeriod, ['0']) = .error .int := by
  simp [stepPair, parseUInt, kPeriod, kSecret, kIssuer]

theorem stepPair_unknown (a : Acc) (k v : Str)
    (h1 : k ≠ kSecret) (h2 : k ≠ kIssuer) (h3 : k ≠ kPeriod) (h4 : k ≠ kDigits) (h5 : k ≠ kAlgorithm) :
    stepPair a (k, v) = .ok a := by
  simp [stepPair, h1, h2, h3, h4, h5]

theorem stepPair_period_pos (a a' : Acc) (kv : Str × Str) (h : stepPair a kv = .ok a')
    (ha : 1 ≤ a.period) : 1 ≤ a'.period := by
  obtain ⟨k, v⟩ := kv
  simp only [stepPair] at h
  split at h
  · injection h with h; subst h; exact ha
  · split at h
    · injection h with h; subst h; exact ha
    · split at h
      · split at h
        · split at h
          · cases h
          · injection h with h; subst h; simp; omega
        · cases h
      · split at h
        · split at h
          · injection h with h; subst h; exact ha
          · cases h
        · split at h
          · split at h
            · injection h with h; subst h; exact ha
            · cases h
          · injection h with h; subst h; exact ha

theorem foldPairs_period_pos (a a' : Acc) (ps : List (Str × Str)) (h : foldPairs a ps = .ok a')
    (ha : 1 ≤ a.period) : 1 ≤ a'.period := by
  induction ps generalizing a with
  | nil => simp [foldPairs] at h; subst h; exact ha
  | cons kv rest ih =>
    simp only [foldPairs] at h
    cases hs : stepPair a kv with
    | error e => rw [hs] at h; cases h
    | ok a1 => rw [hs] at h; exact ih a1 h (stepPair_period_pos a a1 kv hs ha)

/-- a URI that parses never carries a zero period (so `value_at` cannot divide by zero) -/
theorem parsed_period_pos (scheme path : Str) (pairs : List (Str × Str)) (t : Totp)
    (h : fromParts scheme path pairs = .ok t) : 1 ≤ t.period := by
  unfold fromParts at h
  split at h
  · cases h
  · split at h
    · cases h
    · rename_i a ha
      split at h
      · cases h
      · split at h
        · cases h
        · injection h with h; subst h
          exact foldPairs_period_pos {} a pairs ha (by decide)

/-- wrong scheme is an error whatever follows -/
theorem scheme_error (scheme path : Str) (pairs : List (Str × Str)) (h : scheme ≠ kOtpauth) :
    fromParts scheme path pairs = .error .scheme := by
  simp [fromParts, h]

/-- a missing secret is an error -/
theorem missing_secret (path : Str) (pairs : List (Str × Str)) (a : Acc)
    (h : foldPairs {} pairs = .ok a) (hs : a.secret = none) :
    fromParts kOtpauth path pairs = .error .missingSecret := by
  simp [fromParts, h, hs]

/-- C19's "never a panic" at full strength for parsed URIs -/
def C19_nopanic_full : Prop :=
  ∀ (H : Hmacs) (scheme path : Str) (pairs : List (Str × Str)) (t : Totp) (time : Nat),
    fromParts scheme path pairs = .ok t →
    ∃ c, (valueAt H t.alg t.secret t.period t.digits time).1 = .code c

/-- false on the unchanged code: `digits=20` parses and `10_u64.pow(20)` overflows in `value_at`
    (finding F14; replayed on the real code). -/
theorem C19_nopanic_full_false : ¬ C19_nopanic_full := by
  intro h
  have H : Hmacs := ⟨fun _ _ => [], fun _ _ => [], fun _ _ => []⟩
  obtain ⟨c, hc⟩ := h H kOtpauth ['/', 'x'] [(kSecret, []), (kDigits, ['2', '0'])]
    ⟨['x'], none, 30, 20, .sha1, []⟩ 0 (by decide)
  simp [valueAt] at hc

theorem C19_nopanic_partial (H : Hmacs) (scheme path : Str) (pairs : List (Str × Str))
    (t : Totp) (time : Nat) (h : fromParts scheme path pairs = .ok t) (hd : t.digits < 20) :
    ∃ c, (valueAt H t.alg t.secret t.period t.digits time).1 = .code c := by
  have hp := parsed_period_pos scheme path pairs t h
  have h1 : t.period ≠ 0 := by omega
  have h2 : ¬ (t.digits ≥ 20) := by omega
  simp [valueAt, h1, h2]

/-! ### base32 -/

/-- **base32 round trip**: decoding the RFC 4648 encoding (with padding) of any byte string gives the byte string back -/
theorem b32_roundtrip : ∀ (data : Bytes), b32Decode (b32Encode data) = some data
  | [] => by rw [b32Encode_nil]; decide
  | [b0] => b32_small1 b0
  | [b0, b1] => b32_small2 b0 b1
  | [b0, b1, b2] => b32_small3 b0 b1 b2
  | [b0, b1, b2, b3] => b32_small4 b0 b1 b2 b3
  | b0 :: b1 :: b2 :: b3 :: b4 :: rest => by
    have e : b0 :: b1 :: b2 :: b3 :: b4 :: rest = [b0, b1, b2, b3, b4] ++ rest := rfl
    rw [e, b32Encode_group [b0, b1, b2, b3, b4] rest rfl]
    refine b32Decode_group b0 b1 b2 b3 b4 (b32Encode rest) rest ?_ (b32_roundtrip rest)
    by_cases hr : rest = []
    · left; rw [hr, b32Encode_nil]
    · right; have := b32Encode_length_ge rest hr; omega


/-- the secret a parsed URI reports (`get_secret`) decodes back to the key bytes it holds -/
theorem C19_secret_roundtrip (t : Totp) : b32Decode (getSecret t) = some t.secret := b32_roundtrip t.secret

/-! ### the validity period -/
theorem window_arith (period time : Nat) (hp : 1 ≤ period) :
    (∀ t', time ≤ t' → t' < time + (period - time % period) → t' / period = time / period)
    ∧ (time + (period - time % period)) / period = time / period + 1 := by
  have hr := Nat.mod_lt time (show 0 < period by omega)
  have hdm := Nat.div_add_mod time period
  have hmul : (time / period + 1) * period = period * (time / period) + period := by
    rw [Nat.add_mul, Nat.one_mul, Nat.mul_comm]
  have hmul0 : time / period * period = period * (time / period) := Nat.mul_comm _ _
  constructor
  · intro t' h1 h2
    apply Nat.div_eq_of_lt_le
    · rw [hmul0]; omega
    · rw [hmul]; omega
  · apply Nat.div_eq_of_lt_le
    · rw [hmul]; omega
    · rw [Nat.add_mul (time / period + 1) 1 period, hmul, Nat.one_mul]; omega

/-- **the reported validity is exact**: the code returned at `time` is the code at every instant from `time`
    up to, not including, `time + validity`, and `time + validity` is the first instant of the next time step -/
theorem C19_validity_exact (H : Hmacs) (alg : Alg) (secret : Bytes) (period digits time : Nat)
    (hp : 1 ≤ period) (hd' : digits < 20) :
    (∀ t', time ≤ t' → t' < time + (valueAt H alg secret period digits time).2 →
        (valueAt H alg secret period digits t').1 = (valueAt H alg secret period digits time).1)
    ∧ (time + (valueAt H alg secret period digits time).2) / period = time / period + 1
    ∧ (time + (valueAt H alg secret period digits time).2) % period = 0 := by
  have h1 : period ≠ 0 := by omega
  have h2 : ¬ (digits ≥ 20) := by omega
  have e : (valueAt H alg secret period digits time).2 = period - time % period := by
    simp only [valueAt, h1, h2, ↓reduceIte]
  rw [e]
  obtain ⟨a, b⟩ := window_arith period time hp
  refine ⟨fun t' h3 h4 => window_const H alg secret period digits t' time (a t' h3 h4), b, ?_⟩
  have hr := Nat.mod_lt time (show 0 < period by omega)
  have hdm := Nat.div_add_mod time period
  have : time + (period - time % period) = period * (time / period + 1) := by
    rw [Nat.mul_add, Nat.mul_one]; omega
  rw [this]; exact Nat.mul_mod_right _ _

/-! ### writing a URI and reading it back -/

/-- on a non-empty all-digit string `parseUInt` is the decimal value, bounded -/
theorem parseUInt_digits (bound : Nat) (s : Str) (hne : s ≠ []) (hd : s.all Char.isDigit = true) :
    parseUInt bound s = if numVal s < bound then some (numVal s) else none := by
  match s, hne, hd with
  | c :: r, _, hd =>
    have hplus : Char.isDigit '+' = false := by decide
    have hc : c ≠ '+' := by
      intro e; subst e; simp [List.all_cons, hplus] at hd
    unfold parseUInt
    split
    · rename_i r' heq
      injection heq with h1 _; exact absurd h1 hc
    · simp [hd, numVal]

theorem parseUInt_decimal (bound w n : Nat) (hw : 1 ≤ w) (hn : n < 10 ^ w) (hb : n < bound) :
    parseUInt bound (decimal w n) = some n := by
  have hne : decimal w n ≠ [] := by
    intro e; have := decimal_length w n; rw [e] at this; simp at this; omega
  rw [parseUInt_digits bound _ hne (decimal_all_digits w n), numVal_decimal, Nat.mod_eq_of_lt hn]
  simp [hb]

def algName : Alg → Str
  | .sha1 => ['S','H','A','1'] | .sha256 => ['S','H','A','2','5','6'] | .sha512 => ['S','H','A','5','1','2']

theorem parseAlg_algName (a : Alg) : parseAlg (algName a) = some a := by cases a <;> decide

/-- **a URI written from parameters parses to exactly those parameters**: every secret (RFC 4648 base32 with
    padding), every issuer, every period 1 ≤ p < 2^64 and digit count d < 2^32 written in decimal with any
    number of leading zeros, every algorithm name -/
theorem C19_uri_roundtrip (path iss : Str) (sec : Bytes) (p d wp wd : Nat) (alg : Alg)
    (hwp : 1 ≤ wp) (hwd : 1 ≤ wd) (hp1 : 1 ≤ p) (hp : p < 10 ^ wp) (hp64 : p < 2 ^ 64)
    (hd : d < 10 ^ wd) (hd32 : d < 2 ^ 32) :
    fromParts kOtpauth path
      [(kSecret, b32Encode sec), (kIssuer, iss), (kPeriod, decimal wp p), (kDigits, decimal wd d),
       (kAlgorithm, algName alg)]
    = .ok ⟨path.dropWhile (· = '/'), some iss, p, d, alg, sec⟩ := by
  have e1 := parseUInt_decimal (2 ^ 64) wp p hwp hp hp64
  have e2 := parseUInt_decimal (2 ^ 32) wd d hwd hd hd32
  have e3 := parseAlg_algName alg
  have e4 := b32_roundtrip sec
  have hp0 : p ≠ 0 := by omega
  simp [fromParts, foldPairs, stepPair, e1, e2, e3, e4, hp0, kOtpauth, kSecret, kIssuer, kPeriod, kDigits,
    kAlgorithm]

example : decimal 3 30 = ['0', '3', '0'] ∧ parseUInt (2 ^ 64) (decimal 3 30) = some 30 := by decide

/-! Non-vacuity -/
example : fromParts kOtpauth ['/', 'K', ':', 'n']
    [(kSecret, ['J','B','S','W','Y','3','D','P','E','H','P','K','3','P','X','P']), (kPeriod, ['3','0']),
     (kDigits, ['6']), (kIssuer, ['K'])]
    = .ok ⟨['K', ':', 'n'], some ['K'], 30, 6, .sha1,
           [0x48, 0x65, 0x6c, 0x6c, 0x6f, 0x21, 0xde, 0xad, 0xbe, 0xef]⟩ := by
  decide

end Kp.Totp
