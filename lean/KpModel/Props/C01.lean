import KpModel.Format.Kdbx4Lemmas
import KpModel.Xml.Unknown
/-!
# C01 — opening a well-formed KDBX4 file yields exactly the stored content (container part)
Property theorems only.  Model: `KpModel/Format/Kdbx4.lean` (`decrypt` is the faithful transcription of
`decrypt_kdbx4`; `build` is the family of all conforming layouts; tied to the code by the correspondence op
`kdbx4read` on files of an independent builder and of the real `save`).
The XML part (event stream → object model) is modelled in `KpModel/Xml/Parse.lean` and tied by the op `xml`.
-/
namespace Kp.Fmt

/-- side conditions a conforming writer satisfies (all decidable for a concrete file) -/
structure Conforming (c : Config) (t : Tape) (l : Layout) (atts : List (UInt8 × Bytes)) (ct : Bytes) : Prop where
  header : HeaderOk c t l
  kdfSeed32 : ∀ r, c.kdf = .aes r → t.kdfSeed.length = 32      -- the AES-KDF seed is an AES-256 key
  innerKey : t.innerKey.length < 4294967296
  atts : attOk atts
  partition : (l.blocks ct).flatten = ct
  blocks : ∀ b ∈ l.blocks ct, b ≠ [] ∧ b.length < 4294967296

theorem sliceE_mid (a b c : Bytes) :
    sliceE (a ++ b ++ c) a.length (a.length + b.length) = .ok b := by
  unfold sliceE
  have : a.length ≤ a.length + b.length ∧ a.length + b.length ≤ (a ++ b ++ c).length := by
    simp only [List.length_append]; omega
  simp only [this, and_self, ↓reduceIte]
  rw [List.append_assoc, List.drop_left' rfl, Nat.add_sub_cancel_left, List.take_left' rfl]

/-- **Framing theorem.**  For every primitive family satisfying the laws, every configuration, every draw of
    the random values, every conforming layout (any order of the outer header fields with comment fields
    anywhere, any order of the KDF dictionary, any end-of-header payload, any partition of the ciphertext
    into non-empty blocks, attachments before or after the stream id and key), every list of
    attachments and every inner XML document: the faithful reader returns exactly the stored
    configuration, attachments, inner key and XML bytes. -/
theorem C01_framing (P : Prims) (L : P.Laws) (c : Config) (t : Tape) (l : Layout)
    (atts : List (UInt8 × Bytes)) (xml composite tk ct : Bytes)
    (htk : transformedKey P c.kdf t.kdfSeed composite = some tk)
    (hct : P.encO c.outer (P.sha256 (t.masterSeed ++ tk)) t.iv (plainPayload P c t atts l.attachmentsFirst xml) = some ct)
    (C : Conforming c t l atts ct) :
    decrypt P (assemble P c t l tk ct) (some composite) = .ok ⟨c, atts, t.innerKey, xml⟩ := by
  have hshaL : (P.sha256 (outerHeaderBytes c t l)).length = 32 := L.sha256_len _
  have hmacL : (P.hmac256 (blockKey P (P.sha512 (t.masterSeed ++ tk ++ [1])) u64Max) (outerHeaderBytes c t l)).length = 32 :=
    L.hmac_len _ _
  unfold decrypt assemble
  generalize hH : outerHeaderBytes c t l = header at *
  generalize hS : P.sha256 header = sha at *
  generalize hK : P.sha512 (t.masterSeed ++ tk ++ [1]) = hmacKey at *
  generalize hM : P.hmac256 (blockKey P hmacKey u64Max) header = mac at *
  generalize hW : writeBlocksFrom P hmacKey 0 (l.blocks ct) = stream at *
  have hp : parseOuterHeader (header ++ sha ++ mac ++ stream)
      = .ok (⟨c.minor, c.outer, c.compression, t.masterSeed, t.iv, c.kdf, t.kdfSeed⟩, header.length) := by
    have := parseOuterHeader_build c t l C.header (sha ++ mac ++ stream)
    rw [hH] at this
    simpa [List.append_assoc] using this
  simp only [bind, Outcome.bind, hp]
  -- the four slices
  have s1 : sliceE (header ++ sha ++ mac ++ stream) 0 header.length = .ok header := by
    have := sliceE_mid [] header (sha ++ mac ++ stream)
    simpa [List.append_assoc] using this
  have s2 : sliceE (header ++ sha ++ mac ++ stream) header.length (header.length + 32) = .ok sha := by
    have := sliceE_mid header sha (mac ++ stream)
    rw [hshaL] at this
    simpa [List.append_assoc] using this
  have s3 : sliceE (header ++ sha ++ mac ++ stream) (header.length + 32) (header.length + 64) = .ok mac := by
    have := sliceE_mid (header ++ sha) mac stream
    simp only [List.length_append, hshaL, hmacL] at this
    have e : header.length + 32 + 32 = header.length + 64 := by omega
    rw [e] at this
    exact this
  have s4 : sliceE (header ++ sha ++ mac ++ stream) (header.length + 64)
      (header ++ sha ++ mac ++ stream).length = .ok stream := by
    unfold sliceE
    have : header.length + 64 ≤ (header ++ sha ++ mac ++ stream).length
        ∧ (header ++ sha ++ mac ++ stream).length ≤ (header ++ sha ++ mac ++ stream).length := by
      simp only [List.length_append, hshaL, hmacL]; omega
    simp only [this, and_self, ↓reduceIte]
    have hl : (header ++ sha ++ mac).length = header.length + 64 := by
      simp only [List.length_append, hshaL, hmacL]
    rw [List.drop_left' hl]
    simp only [List.length_append, hshaL, hmacL]
    have : header.length + 32 + 32 + stream.length - (header.length + 64) = stream.length := by omega
    rw [this, List.take_length]
  simp only [s1, s2, s3, s4]
  have hne : (sha != P.sha256 header) = false := by simp [hS]
  simp only [hne, Bool.false_eq_true, ↓reduceIte]
  -- KDF
  have hkdf : runKdf P c.kdf t.kdfSeed composite = .ok tk := by
    cases hk : c.kdf with
    | aes r =>
      rw [hk] at htk; simp only [transformedKey] at htk; injection htk with htk
      have := C.kdfSeed32 r hk
      simp [runKdf, this, htk]
    | argon2 id it mem par ver =>
      rw [hk] at htk; simp only [transformedKey] at htk
      simp [runKdf, htk]
  simp only [hkdf, hK]
  have hne2 : (mac != P.hmac256 (blockKey P hmacKey u64Max) header) = false := by simp [hM]
  simp only [hne2, Bool.false_eq_true, ↓reduceIte]
  -- blocks
  have hrb : readBlocks P hmacKey (stream.length + 1) stream 0 [] = .ok ct := by
    have := readBlocks_write P L hmacKey (l.blocks ct) C.blocks (stream.length + 1) 0 [] []
      (by rw [← hW]; exact writeBlocks_len P hmacKey (l.blocks ct) 0)
    simp only [List.append_nil, List.nil_append, C.partition] at this
    rw [hW] at this
    exact this
  simp only [hrb]
  -- cipher and compression
  have hdec := L.dec_enc _ _ _ _ _ hct
  simp only [hdec]
  have hpayload : (if c.compression = true then P.gunzip (plainPayload P c t atts l.attachmentsFirst xml)
      else some (plainPayload P c t atts l.attachmentsFirst xml))
      = some (innerHeaderBytes c t atts l.attachmentsFirst ++ xml) := by
    unfold plainPayload
    cases c.compression <;> simp [L.gunzip_gzip]
  simp only [hpayload]
  -- inner header
  rw [innerLoop_header c t atts l.attachmentsFirst xml C.innerKey C.atts]
  simp only
  simp only [List.drop_left' rfl]

/-- the same statement phrased on `build` -/
theorem C01_framing_build (P : Prims) (L : P.Laws) (c : Config) (t : Tape) (l : Layout)
    (atts : List (UInt8 × Bytes)) (xml composite file : Bytes)
    (hb : build P c t l atts xml composite = some file)
    (C : ∀ ct, Conforming c t l atts ct) :
    decrypt P file (some composite) = .ok ⟨c, atts, t.innerKey, xml⟩ := by
  unfold build at hb
  cases htk : transformedKey P c.kdf t.kdfSeed composite with
  | none => rw [htk] at hb; cases hb
  | some tk =>
    rw [htk] at hb
    simp only at hb
    cases hct : P.encO c.outer (P.sha256 (t.masterSeed ++ tk)) t.iv (plainPayload P c t atts l.attachmentsFirst xml) with
    | none => rw [hct] at hb; cases hb
    | some ct =>
      rw [hct] at hb
      simp only at hb
      injection hb with hb
      rw [← hb]
      exact C01_framing P L c t l atts xml composite tk ct htk hct (C ct)

end Kp.Fmt

namespace Kp.Xml

/-- **unknown elements are skipped**: in every struct parser that tolerates unknown children (`KeePassFile`'s `Meta`, groups,
    entries, histories, auto-type, associations, string fields, memory protection, icons, the binary pool) an element the
    parser has no rule for — with anything inside it, to any depth, same-named descendants included — is consumed whole and
    the parse goes on exactly as if it had not been there, for every accumulator and whatever follows -/
theorem C01_unknown_child_skipped {σ : Type} (self : String) (dispatch : String → σ → Option (P σ)) (fuel : Nat) (acc : σ)
    (n : String) (a : List (String × String)) (inner : List Ev) (m : String) (rest : List Ev) (off : Nat)
    (hnone : dispatch n acc = none) (h : Balanced inner) :
    structLoop self dispatch skipUnknown (fuel + 1) acc ⟨.start n a :: inner ++ .stop m :: rest, off⟩
      = structLoop self dispatch skipUnknown fuel acc ⟨rest, off⟩ :=
  structLoop_unknown_skipped self dispatch fuel acc n a inner m rest off hnone h

/-- … and the strict ones (`Times`, `CustomData` and its items, `DeletedObjects`, `Root`, `KeePassFile`) reject it -/
theorem C01_unknown_child_rejected {σ : Type} (self : String) (dispatch : String → σ → Option (P σ)) (fuel : Nat) (acc : σ)
    (n : String) (a : List (String × String)) (evs : List Ev) (off : Nat) (hnone : dispatch n acc = none) :
    structLoop self dispatch rejectUnknown (fuel + 1) acc ⟨.start n a :: evs, off⟩ = .err .integrity :=
  structLoop_unknown_rejected self dispatch fuel acc n a evs off hnone

/-- the premise is met by nested content with a same-named descendant and character data -/
example : Balanced [.start "X" [], .chars "t", .start "X" [("a", "b")], .stop "X", .stop "X", .chars "u"] :=
  Balanced.elem "X" [] [.chars "t", .start "X" [("a", "b")], .stop "X"] "X" [.chars "u"]
    (Balanced.chars "t" _ (Balanced.elem "X" [("a", "b")] [] "X" [] Balanced.nil Balanced.nil))
    (Balanced.chars "u" _ Balanced.nil)

end Kp.Xml
