import KpModel.Xml.Parse
import KpModel.Xml.Dump
import KpModel.Props.C03
/-!
# C12 — save never succeeds with a file the library cannot read back, and never panics
Property theorems only, over the faithful models of the XML writer (`dumpContent`), the xml-rs writer→reader
contract (`view`) and the XML reader (`parseContent`).  The full statement is **false** on the unchanged code: one
witness theorem per unreadable feature class (each is replayed on the real code by the op `save-hostile` and recorded
as a known finding).  `reopens c` is the model's statement "what save writes for `c` is accepted by open".
-/
namespace Kp.Xml
open Kp.Fmt

def wEnv : Env := ⟨fun _ n => List.replicate n 0, fun x => some x, 0, List.replicate 16 0⟩
def wDEnv : DEnv := ⟨fun _ n => List.replicate n 0, fun x => x⟩

/-- strict UTF-8 view of byte values used by the witnesses: only the empty byte string is text -/
def wUtf8 (b : Bytes) : Option String := if b = [] then some "" else none

/-- the model's "save succeeds and the result opens" -/
def reopens (c : Content) : Bool :=
  let d := dumpContent wDEnv wUtf8 [] c
  d.2.1 && (match parseContent wEnv (view d.1 []) with | .ok _ => true | _ => false)

/-- the model's "save panics" (`expect("utf-8")` on a byte value that is not UTF-8) -/
def savePanics (c : Content) : Bool := !(dumpContent wDEnv wUtf8 [] c).2.1

def entryWith (fields : List (String × Value)) (times : Times := {}) (cd : CustomData := []) (tags : List String := []) : Node :=
  .entry (.mk (List.replicate 16 1) fields none tags times cd none none none none none none none)

def rootWith (children : List Node) : Node :=
  .group (List.replicate 16 0) "Root" none none none children {} [] false none none none none

/-- C12 at full strength on the models -/
def C12_full : Prop := ∀ c : Content, savePanics c = false ∧ reopens c = true

/-- non-vacuity: an ordinary database with a protected field, a custom-data item and a time stamp re-opens -/
theorem readable_example :
    reopens { root := rootWith [entryWith [("Title", .unprotected "t"), ("Password", .prot [1, 2, 3])]
                                  { times := [("CreationTime", 0)] } [("k", ⟨some (.unprotected "v"), some 5⟩)] ["a", "b"]] } = true := by
  decide +kernel

theorem witness_control_character :
    reopens { root := rootWith [entryWith [("Title", .unprotected "a\x04b")]] } = false := by decide
theorem witness_noncharacter :
    reopens { root := rootWith [entryWith [("Title", .unprotected "bad￿")]] } = false := by decide
theorem witness_blank_field_key :
    reopens { root := rootWith [entryWith [(" ", .unprotected "v")]] } = false := by decide
theorem witness_empty_field_key :
    reopens { root := rootWith [entryWith [("", .unprotected "v")]] } = false := by decide
theorem witness_empty_custom_data_key :
    reopens { root := rootWith [entryWith [] {} [("", ⟨none, none⟩)]] } = false := by decide
theorem witness_empty_icon_data :
    reopens { metaData := { customIcons := [(List.replicate 16 7, [])] }, root := rootWith [] } = false := by decide
theorem witness_empty_binary_content :
    reopens { metaData := { binaries := [⟨none, false, []⟩] }, root := rootWith [] } = false := by decide
theorem witness_non_name_time_key :
    reopens { root := rootWith [entryWith [] { times := [("1abc", 0)] }] } = false := by decide
theorem witness_reserved_time_name :
    reopens { root := rootWith [entryWith [] { times := [("Expires", 0)] }] } = false := by decide
theorem witness_bytes_not_utf8_save_panics :
    savePanics { root := rootWith [entryWith [("BinaryData", .bytes [0xff, 0xfe])]] } = true := by decide

theorem C12_full_false : ¬ C12_full := by
  intro h
  have := (h { root := rootWith [entryWith [("Title", .unprotected "a\x04b")]] }).2
  rw [witness_control_character] at this
  cases this

/-- lossy but readable: these never made `open` fail (blank unprotected values are dropped, `Some("")` reads as
    `None`, blank group names read as ""): outside C03's lossless domain, inside C12's readable domain -/
theorem blank_value_reopens :
    reopens { root := rootWith [entryWith [("Title", .unprotected " ")]] } = true := by decide +kernel
theorem empty_tag_reopens :
    reopens { root := rootWith [entryWith [] {} [] ["", "a;b"]] } = true := by decide +kernel

/-- **C12_partial**: on the whole domain `ContentOk` (everything C03 calls lossless: all of the schema with XML-representable,
    non-blank strings, any tags, colours, icons, attachments, histories, any nesting) `save` does not panic, reports
    success, and what it writes is accepted by `open` — for every key stream, compressor pair and map order.  The classes
    outside the domain are exactly the witnesses above (known findings) and the lossy-but-readable cases below. -/
theorem C12_partial (c : Content) (ks : Nat → Nat → Bytes) (gz : Bytes → Bytes) (gunz : Bytes → Option Bytes)
    (u : Bytes → Option String) (orders : List (List String)) (now : Int) (fresh : Bytes)
    (hc : ContentOk gz c) (hks : ∀ o n, (ks o n).length = n) (hgz : ∀ m, gunz (gz m) = some m) :
    (dumpContent ⟨ks, gz⟩ u orders c).2.1 = true ∧
    ∃ c' used, parseContent ⟨ks, gunz, now, fresh⟩ (view (dumpContent ⟨ks, gz⟩ u orders c).1 []) = .ok (c', used) := by
  obtain ⟨h1, c', h2, _⟩ := C03_xml_roundtrip_partial c ks gz gunz u orders now fresh hc hks hgz
  exact ⟨h1, c', _, h2⟩

end Kp.Xml
