import Lean
/-!
Axiom audit.  `lake env lean --run Audit/Main.lean KpModel.Props.C18` lists every theorem declared in the
given module together with the axioms it (transitively) depends on, one per line:
`THEOREM <name> AXIOMS <a1> <a2> …`.  The orchestrator accepts only `propext`, `Classical.choice`,
`Quot.sound`.
-/
open Lean

partial def collect (env : Environment) (n : Name) (seen : IO.Ref NameSet) (axs : IO.Ref NameSet) : IO Unit := do
  if (← seen.get).contains n then return
  seen.modify (·.insert n)
  let some ci := env.find? n | return
  let visitExpr (e : Expr) : IO Unit := do
    for c in e.getUsedConstants do
      collect env c seen axs
  match ci with
  | .axiomInfo _ => axs.modify (·.insert n)
  | .defnInfo v => visitExpr v.type; visitExpr v.value
  | .thmInfo v => visitExpr v.type; visitExpr v.value
  | .opaqueInfo v => visitExpr v.type; visitExpr v.value
  | .quotInfo _ => pure ()
  | .ctorInfo v => visitExpr v.type
  | .recInfo v => visitExpr v.type
  | .inductInfo v => visitExpr v.type; for c in v.ctors do collect env c seen axs

def autoSuffix (s : String) : Bool :=
  s == "eq_def" || s == "induct" || s == "induct_unfolding" || s == "fun_cases" || s == "fun_cases_unfolding"
    || s == "injEq" || s == "inj" || s == "sizeOf_spec" || s == "congr_simp" || s == "eq_unfold"
    || (s.startsWith "eq_" && (s.drop 3).all Char.isDigit)

def isInternal (n : Name) : Bool :=
  n.isInternal || n.components.any (fun c => match c with
    | .str _ s => s.startsWith "_" || s.startsWith "match_" || s.startsWith "proof_" || autoSuffix s
    | _ => false)

def main (args : List String) : IO UInt32 := do
  let some modStr := args.head? | do IO.eprintln "usage: Audit <module>"; return 2
  let mod := modStr.toName
  initSearchPath (← findSysroot)
  let env ← importModules #[{ module := mod }] {} (trustLevel := 1024)
  let some idx := env.getModuleIdx? mod | do IO.eprintln "module not found"; return 2
  let mut names : Array Name := #[]
  for (n, ci) in env.constants.map₁.toList do
    if env.getModuleIdxFor? n == some idx then
      if let .thmInfo _ := ci then
        if !isInternal n then names := names.push n
  let sorted := names.qsort (fun a b => a.toString < b.toString)
  for n in sorted do
    let seen ← IO.mkRef ({} : NameSet)
    let axs ← IO.mkRef ({} : NameSet)
    collect env n seen axs
    let l := (← axs.get).toList.map (·.toString)
    IO.println s!"THEOREM {n} AXIOMS {" ".intercalate l}"
  return 0
