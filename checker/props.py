"""Per-property configuration: harness ops, judges, evidence texts."""
import json

TRUSTED_BASE = [
    'Lean 4.33.0 kernel (no native_decide, no bv_decide, no sorry; axioms limited to propext, Classical.choice, Quot.sound and audited per theorem)',
    'hand-written Lean model, tied to /repo by the correspondence run of this check (generator coverage bounds what the tie sees)',
    'tools/gen_consts.py (regex translator of constant tables) and the harness canonicalisers',
    'upstream crates are modelled, not verified (hashes, ciphers, KDFs, flate2, xml-rs, base64, chrono, std I/O contracts)',
]


def canon(x):
    return json.dumps(x, sort_keys=True, separators=(',', ':'))


def shorten(case, limit=1500):
    s = canon(case)
    if len(s) <= limit:
        return case
    return {'n': case.get('n'), 'op': case.get('op'), 'truncated': s[:limit] + '…'}


def diff_path(a, b, path=''):
    if type(a) != type(b):
        return '%s: %s != %s' % (path or '.', canon(a)[:200], canon(b)[:200])
    if isinstance(a, dict):
        for k in sorted(set(a) | set(b)):
            if k not in a or k not in b:
                return '%s.%s: present only on one side' % (path, k)
            d = diff_path(a[k], b[k], path + '.' + k)
            if d:
                return d
        return None
    if isinstance(a, list):
        if len(a) != len(b):
            return '%s: length %d != %d (%s vs %s)' % (path or '.', len(a), len(b), canon(a)[:160], canon(b)[:160])
        for i, (x, y) in enumerate(zip(a, b)):
            d = diff_path(x, y, '%s[%d]' % (path, i))
            if d:
                return d
        return None
    if a != b:
        return '%s: %s != %s' % (path or '.', canon(a)[:200], canon(b)[:200])
    return None


def default_judge(case, out):
    """real vs model = correspondence; real vs spec = the property's executable specification."""
    v = []
    real = case.get('real')
    if 'spec' in out and out['spec'] is not None:
        d = diff_path(real, out['spec'], 'real-vs-spec')
        if d:
            top = d.split(':')[0].split('[')[0]
            v.append(('SPECFAIL', '%s:%s' % (case.get('op'), top), d))
    if 'model' in out and out['model'] is not None:
        d = diff_path(real, out['model'], 'real-vs-model')
        if d:
            v.append(('DISAGREE', '%s' % case.get('op'), d))
    for f in out.get('specfail', []) or []:
        v.append(('SPECFAIL', f[0], f[1]))
    if not v:
        v.append(('AGREE', '', ''))
    return v


PROPS = {}
NOT_CLAIMED = {}

PROPS['C18'] = {
    'ops': ['tree', '@plain tree'],     # also against the library built without its `_merge` feature (what a user gets by default)
    'rule': 'random trees (depth<=6, fan-out<=6, titles from a 9-word alphabet incl. empty/repeated, entries with '
            'absent/byte/protected/non-UTF-8 titles) x 20 (quick) / 50 (thorough) paths; distinct by hash of (tree, paths); '
            'non-trivial = some sibling titles repeat or clash and some path has length >= 2',
    'assumptions': ['node identity observed through unique UUIDs assigned by the generator'],
    'level_text': 'Kernel-checked theorems for every tree and every path: queue BFS = level order, permutation of the pre-order '
                  'enumeration, length = size, get/get_mut first-match semantics and agreement, lookup result is among the iterated '
                  'nodes, entries/groups partition the children. The model is tied to Group::{iter,get,get_mut,entries,groups} by a '
                  'differential run on generated trees.',
}

PROPS['C17'] = {
    'ops': ['history', '@plain history'],
    'rule': 'random sequences (1..14 ops) over real entries: field/tag/colour/auto-type/custom-data/icon/url edits, edits of other time stamps, '
            'direct modification-time edits, history initialisation, externally built items carrying their own (nested) history, commits; '
            '"now" observed by bracketing update_history between two clock reads; content compared through an interned canonical dump. '
            'distinct by hash of (initial state, op list); non-trivial = the sequence has a commit after a change and a commit without one',
    'assumptions': ['content token = canonical dump of every field except times and history (injective by construction of the dump)',
                    'Times::now() returns the same second before and after the call (retried otherwise)'],
    'level_text': 'Kernel-checked theorems for every entry and every operation sequence: a commit adds an item iff the entry differs from the '
                  'newest item (ignoring times/history) or has no history; then the head item is the stripped entry stamped now; otherwise '
                  'nothing changes; two commits in a row add at most one item; earlier items survive as a suffix; no nesting. Model tied to '
                  'Entry::update_history / History::add_entry by a differential run over generated operation sequences, and the clauses are '
                  're-evaluated on the real trace.',
}

PROPS['C10'] = {
    'ops': ['ioread'],
    'rule': 'files: 3 freshly saved KDBX4 (cheap AES-KDF), the KDB / KDBX3 / Argon2-KDBX4 / broken resource files, 6 short prefixes; '
            'x entry points {open, get_xml, get_version, with_keyfile} x schedules {whole, constant caps 1..16, random caps with '
            'interruptions, leading interruptions, tiny reads around the 12-byte version header} x failure offsets (quick: 10 fixed + 14 random '
            'per file; thorough: every offset 0..len+1) x kinds {Other, UnexpectedEof, BrokenPipe}. '
            'non-trivial = the schedule splits the first 12 bytes or injects a failure; distinct by hash of (file, entry, script, failure)',
    'partial': ['C10_full is false on the unchanged code (C10_full_false, finding F13: for KeePass 1 files get_version reports the flags word, '
                'open reports the version field); C10_partial proves every other clause for all inputs and the last clause for non-KDB files'],
    'assumptions': ['std::io::Read::read_to_end behaves as documented (loop until Ok(0), retry Interrupted, propagate other errors)'],
    'level_text': 'Kernel-checked: for every source schedule (short reads, interruptions, failure at any offset) and every buffer-size policy '
                  'of std, read_to_end-based entry points return the whole-buffer result or the source error, never a prefix; version sniffing '
                  '(bounded read of 12 bytes) likewise. Tied to the real entry points by scripted Read implementations.',
}
PROPS['C11'] = {
    'ops': ['iowrite'],
    'rule': 'databases saved without compression (deterministic length) through scripted sinks: caps 1..16, 32, 33, 64, 100, random caps with '
            'interruptions and Ok(0), failure at strided (quick) / every (thorough) byte offset incl. every segment boundary +-1, kinds '
            '{Other, UnexpectedEof, BrokenPipe}; non-trivial = the sink accepts fewer bytes than offered on some call, refuses, or fails before the end',
    'assumptions': ['std::io::Write::write_all behaves as documented', 'byteorder write_* helpers use write_all'],
    'level_text': 'Kernel-checked for every sink behaviour and every segment list: save reports success only if the sink received the complete file; '
                  'otherwise the error is the sink\'s (or WriteZero) and the sink holds a prefix. Tied to Database::save by scripted Write '
                  'implementations; success is additionally checked by re-opening the captured bytes.',
}


def judge_c19(case, out):
    if case.get('op') == 'selftest':
        d = diff_path(out.get('model'), out.get('spec'), 'model-vs-vectors')
        return [('DISAGREE', 'selftest', 'executable primitives fail their published vectors: ' + d)] if d else [('AGREE', '', '')]
    real = case.get('real', {})
    if real.get('parse') == 'err:url':
        # outside the modelled otpauth grammar (the url crate rejected it): only "no panic, no value" applies
        return [('SKIP', 'url-crate-rejects', '')]
    v = default_judge(case, out)
    if str(real.get('parse', '')).startswith('panic'):
        v.append(('SPECFAIL', 'totp:from_str-panics', real.get('parse')))
    # the property itself: the model is the RFC 6238 / RFC 4648 reference (its primitives are checked against the published
    # vectors by the selftest case), so on the property's own domain (digits 1..9) a difference is a failing input
    m = out.get('model') or {}
    if m.get('parse') == 'ok' and 1 <= int(m.get('digits', 0)) <= 9 and int(m.get('period', 0)) >= 1:
        if real.get('parse') != 'ok':
            v.append(('SPECFAIL', 'totp:wellformed-uri-rejected', 'parameters within the property\'s domain (digits %s, period %s, %s) but from_str returns %s'
                      % (m.get('digits'), m.get('period'), m.get('algorithm'), real.get('parse'))))
        else:
            for k in ('label', 'issuer', 'period', 'digits', 'algorithm', 'secret_b32'):
                if k in m and real.get(k) != m.get(k):
                    v.append(('SPECFAIL', 'totp:parsed-%s-differs' % k, 'from_str gives %r, the URI says %r' % (real.get(k), m.get(k))))
            rv, mv = real.get('values') or [], m.get('values') or []
            for i, (a, b) in enumerate(zip(rv, mv)):
                if a != b and isinstance(b, list):
                    t = (case.get('times') or [None] * (i + 1))[i]
                    what = 'code' if not isinstance(a, list) or a[0] != b[0] else 'validity'
                    v.append(('SPECFAIL', 'totp:%s-differs-from-rfc6238' % what, 'time %s, %s, period %s, %s digits: value_at gives %s, RFC 6238 gives %s'
                              % (t, m.get('algorithm'), m.get('period'), m.get('digits'), a, b)))
                    break
    elif str(m.get('parse', '')).startswith('err') and real.get('parse') == 'ok':
        v.append(('SPECFAIL', 'totp:malformed-uri-accepted', 'the URI is malformed (%s) but from_str returns a value' % m.get('parse')))
    if any(k == 'SPECFAIL' for (k, _, _) in v):
        v = [x for x in v if x[0] != 'AGREE']
    return v


PROPS['C19'] = {
    'ops': ['selftest', 'totp', '@plain totp'],
    'judge': judge_c19,
    'rule': 'otpauth URIs assembled from components (scheme, raw label, percent-/plus-encoded query pairs in random order with duplicates and '
            'unknown keys; secrets of 0..64 random bytes, also malformed base32; periods/digits/algorithms incl. 0, +5, empty, overflowing, '
            'non-numeric) parsed by TOTP::from_str or Entry::get_otp, then value_at at 10..13 instants incl. 0, window edges, 2^31, 2^32, u64::MAX; '
            'every case counts as non-trivial; distinct by hash of (uri, times)',
    'partial': ['C19_nopanic_full is false on the unchanged code (digits >= 20 parses, value_at overflows 10^digits: F14); C19_nopanic_partial for digits < 20',
                'the SHA-1/256/512 and HMAC functions themselves are parameters of the theorems (conformance of the executable ones with the RFCs is by the appendix-B vectors, a test); the url crate is modelled on the otpauth grammar only'],
    'assumptions': ['url::Url::parse splits scheme / path / decoded query pairs as the harness composed them (checked: real parse result is compared field by field)'],
    'level_text': 'Kernel-checked for every HMAC function, secret, time and parameter set: code has exactly `digits` decimal digits, 31-bit truncation in bounds, '
                  'validity in [1, period], constant within a time window, parsed URIs never carry period 0, scheme/missing-secret/number/algorithm errors, '
                  'later duplicate wins by fold; the code read as a decimal number is Truncate(HMAC(secret, time step)) mod 10^digits (C19_code_value), the truncation is the four hash bytes at the offset named by the last nibble, big endian, top bit masked, on every hash of at least 20 bytes (dynTrunc_spec), both combined end to end in C19_rfc6238, the reported validity is exact (same code at every instant up to time+validity, which is the first instant of the next time step: C19_validity_exact), a URI written from parameters (base32 secret, issuer, decimal period and digits with any leading zeros, algorithm name) parses to exactly those parameters (C19_uri_roundtrip, parseUInt_decimal), the HMAC message is the time step big endian in 8 bytes and differs between windows (counterBytes_value, counterBytes_injective, C19_windows_hash_distinct); base32 (RFC 4648 with padding) decodes every encoded byte string back to itself (b32_roundtrip, C19_secret_roundtrip). The Lean model with its own SHA-1/256/512+HMAC is run against TOTP::from_str/value_at/get_secret on generated URIs.',
}


def judge_c20(case, out):
    v = []
    real, model = case['real'], out.get('model', {})
    for k in ('composite', 'elements'):
        if real.get(k) != model.get(k):
            v.append(('DISAGREE', 'key:' + k, 'model %s = %s, reference/real = %s' % (k, model.get(k), real.get(k))))
    ob = case['observed']
    has_creds = real.get('elements') is not None
    kind = case['tags'][0]
    if has_creds:
        if ob['save'] != 'authenticates':
            v.append(('SPECFAIL', 'key:save-not-under-reference-composite:' + kind, 'save: %s' % ob['save']))
        if ob['open_ref'] != 'ok':
            v.append(('SPECFAIL', 'key:reference-keyed-file-does-not-open:' + kind, 'open: %s' % ob['open_ref']))
        if ob['open_perturbed'] != 'err:key':
            v.append(('SPECFAIL', 'key:perturbed-composite-not-rejected-as-key-error:' + kind, 'open: %s' % ob['open_perturbed']))
    else:
        if ob['save'] != 'err:key' or ob['open_ref'] != 'err:key':
            v.append(('SPECFAIL', 'key:empty-credentials-accepted', str(ob)))
    return v or [('AGREE', '', '')]


PROPS['C20'] = {
    'ops': ['key', '@plain key'],
    'judge': judge_c20,
    'rule': 'credential sets: password in {absent, empty, ASCII, non-ASCII, trailing/leading blank, NUL, newline} x key file in {absent, 32 raw bytes, '
            '0..200 arbitrary bytes, 64 hex characters as text, XML v1 with 32-byte and other-length payloads and varied layout between elements, '
            'XML v2 with upper/lower hex and every kind of white space inside the payload, v2 non-hex, XML without data, non-base64 v1, truncated XML, other XML}; '
            'for each: model composite vs independent reference derivation; real save must authenticate under the reference composite; a file built by the '
            'independent builder under the reference composite must open with the credentials and fail with a key error under a one-bit-perturbed composite. '
            'non-trivial = key file present or password empty/non-ASCII; distinct by hash of the credentials',
    'partial': ['KDB lone-element derivation (compositeKdb) and KDBX3 are exercised once the independent KDB/KDBX3 builders exist (C02); the KDB panic for a lone non-32-byte '
                'element is recorded under C06',
                'layout independence between XML elements is a property of the xml-rs tokenizer (Whitespace/Comment events never reach the cascade): exercised, not proved',
                'pw_vs_pw_keyfile_distinct takes SHA-256 injectivity on the two occurring inputs as a hypothesis'],
    'assumptions': ['HMAC-SHA-256 under the reference-derived key authenticating the real header means the real code derived the same composite'],
    'level_text': 'Kernel-checked for every SHA-256/base64/hex function: element order, composite definition, each documented key-file encoding, white-space '
                  'insensitivity of v2 payloads, password-only vs password+keyfile distinct (under injectivity), KDB lone element; for the executable hex decoder: every byte string written in hex with any mixture of upper and lower case decodes to itself and so every key has version-2 key files that yield exactly it (hexDecode_hexWrite, stripWs_hexWrite, keyfile_v2_every_key), and for the executable base64 decoder every key has version-1 key files that yield exactly it (keyfile_v1_every_key, from b64_roundtrip); UTF-8 is injective on strings of scalar values (utf8_injective, Codec/Utf8Lemmas.lean: the encodings are prefix free and determine the scalar value), so two different passwords give the same composite key only through a SHA-256 collision on the inputs that occur (distinct_passwords_distinct_keys, password_bytes_distinct); the hex decoder accepts only two characters per byte (hexDecode_length), so a version-2 payload with an odd number of non-white-space characters falls back to the UTF-8 bytes of the text (keyfile_v2_odd_falls_back). The model (with Lean\'s own SHA-256, base64, '
                  'hex, UTF-8) is compared with an independent reference derivation and with the real library through save/parse of independently built files.',
}


def make_merge_judge(pid):
    def judge(case, out):
        v = []
        real = case['real']
        for k in real:
            if isinstance(real[k], dict) and str(real[k].get('outcome', '')).startswith('panic'):
                real[k]['outcome'] = 'panic'
        d = diff_path(real, out.get('model'), 'real-vs-model')
        if d:
            v.append(('DISAGREE', 'merge', d))
        for f in out.get('specfail', []) or []:
            if f[0].startswith('merge:%s:' % pid):
                v.append(('SPECFAIL', f[0], '%s | A: %s | B: %s' % (f[1], case['edits_a'], case['edits_b'])))
        return v or [('AGREE', '', '')]
    return judge


MERGE_RULE = ('replica pairs derived from the ancestor root{e10, G1{e11, S1{}}, G2{}} by edit histories over the alphabet {edit entry + commit, '
              'uncommitted edit, add entry, add group, move entry, move group, delete entry + tombstone, delete group recursively with tombstones in '
              'parent-first or child-first order, rename group, touch group, set a field to one of two fixed values (reverts, identical edits)}; logical clock with distinct seconds, plus '
              'deletions in the very second of a change of the same node; all pairs of histories of length <= 1 (exhaustive), deletion-heavy histories of length 3..5 (quick: 1500, thorough: 10000), '
              'random histories up to length 3x4 (quick: 2000, thorough: 20000) and, thorough only, all pairs of length 1x2 and 2x1; '
              'each pair: merge, merge again, self-merge of the result, self-merge of the destination, under a 3 s watchdog; '
              'non-trivial = the merge reported an event, failed, or the source carries tombstones; distinct by hash of the two edit histories')
MERGE_ASSUME = ['history items carry no history of their own (C17) and time stamps are whole seconds',
                'content tokens = interned canonical dumps of every field other than uuid/times/history(/children)']
for pid, txt, part in [
    ('C13', 'Kernel-checked: merge_self — for every well-formed database (root a group, pairwise distinct UUIDs, groups carry a modification time, no tombstone for a live node) '
            'merging it with an identical copy returns Ok, no events, the same tree and the same tombstones; a merge that reports no event changed nothing (C13_no_events_means_unchanged); component idempotence (history union, entry merge, group merge). '
            'Idempotence of a repeated merge of two different replicas is validated by the exhaustive/randomised enumeration on the real code and on the faithful model.',
     ['C13_twice (a second merge of the same source is a no-op: no events, the whole database unchanged) is stated but not proved in full; proved of it: the content of every shared entry and the own data of every shared group stay as the first merge left them (C13_twice_entry_content_partial, C13_twice_group_content_partial); proved in full: the self-merge clause (merge_self) and the third clause (C13_result_self_merge: the merge result merged back into itself), component-level idempotence']),
    ('C14', 'Kernel-checked for the whole merge, for every destination and source that are groups with pairwise distinct UUIDs below them: an entry both replicas hold has, wherever the merge leaves it, the content of the '
            'destination\'s version unless the source\'s modification time is strictly later, then the source\'s (C14_entry_last_writer_wins); the same for a group\'s own name / notes / icon / settings (C14_group_last_writer_wins); where the two versions differ in content, the entry / the group also carries the modification time of the later side (C14_entry_time_of_last_writer, C14_group_time_of_last_writer); '
            'with different modification times the entry\'s history represents every history item of both versions and the loser\'s uncommitted current version (C14_history_union); it lives below the group that holds it in the source when the source moved it strictly later (and the merge reaches it outside every group the destination deleted), below the destination\'s otherwise (C14_entry_last_mover_wins, C14_entry_destination_move_stands); a node only the source holds is created below the group that holds it there (C14_created_under_same_parent); every history stays newest first without a time twice (C14_histories_sorted); every source node without a tombstone in the '
            'destination (for it or a group above it) is in the result or tombstoned there (C14_source_nodes_created), no destination node is lost (C14_destination_nodes_kept); component theorems (history union is sorted, '
            'duplicate-free and contains both sides; last-writer-wins for entries and groups). The flat last-writer-wins reference (MergeSpec) is evaluated on the real result of every enumerated pair.',
     ['the placement theorems speak of the parent group, not of the whole path; '
      'C14_refines (faithful model = flat reference for all replica pairs) is stated but not proved']),
    ('C15', 'Kernel-checked for every destination that is a group with pairwise distinct UUIDs below it and every source: a node the destination has deleted is never re-created '
            '(C15_never_resurrects), no node of the result is both present and tombstoned (C15_no_node_present_and_tombstoned), the tombstone list only grows (prefix); an entry the destination holds and the source '
            'deleted is removed and tombstoned if one of the source\'s tombstones for it is later than its last modification in the destination, and stays untombstoned if none is (C15_entry_deleted_iff_newer, through the '
            'whole merge); a group the source no longer holds stays while no tombstone for it is newer, and an empty one with a newer tombstone is removed and tombstoned (C15_group_kept_unless_newer, C15_empty_group_deleted_if_newer); a node neither replica has a tombstone for stays (C15_untombstoned_node_stays); boundary deletion_time = mtime keeps the node; '
            'the clauses (incl. deleted iff newer and empty, for groups) are evaluated on the real result of every enumerated pair.',
     ['for a group that still has children which the same merge deletes, "deleted once its own deleted children are gone" is validated by enumeration in both tombstone orders, not proved (proved: entries, C15_entry_deleted_iff_newer, and empty groups, C15_group_kept_unless_newer with C15_empty_group_deleted_if_newer); '
      'an entry the source both still holds and has a tombstone for (not producible by the edit operations) is outside that theorem']),
    ('C16', 'Kernel-checked: C16_merge_terminates — the whole merge never exhausts the fuel of its only unbounded loop, for every destination that is a group with pairwise distinct UUIDs below it and every source (the group passes preserve that invariant: updates in place, moves, creations under UUIDs find_node_location did not find), the result is again such a tree and holds no node from nowhere; mergeDeletions_terminates — on a destination tree that is a group with pairwise distinct UUIDs, for every source, the work queue of merge_deletions '
            '(the only unbounded loop of merge; a group is re-queued while a child group is still queued) never exhausts the fuel (queue length + 1)^2 + 1: some queue element is always '
            'resolvable (a re-queued tombstone has a strictly deeper tombstoned node in the queue), rotations only permute the queue, removals keep UUIDs distinct. merge_group is structurally '
            'recursive over the source tree and the pass loop is bounded by the number of groups. C16_merge_never_panics — merge reaches none of its unwrap() sites (kind mismatch in merge_group, a history item without modification time) when the replicas agree on which UUIDs are entries and which are groups and every entry version is timed: every intermediate tree is again such a tree and find_node_location is sound on it. C16_merge_succeeds_unless_time_conflict — under the same premises merge returns Ok or one of the two errors that report conflicting time stamps (group modification time not updated, duplicate history entries), never FindGroupError, FindEntryError, GenericError or EntryModificationTimeNotUpdated: every look-up of the group passes and of the deletion phase succeeds (paths of groups survive the updates of the passes: findGroup_updatePath; a moved node is found where it was put: relocate_ok; merge_deletions returns Ok on every sound tree: C16_deletion_phase_succeeds). Soundness clauses (unique UUIDs, nothing lost) are evaluated on the real result of every enumerated pair under a watchdog.',
     ['that the two time-stamp errors do not occur on replicas of a common ancestor with distinct time stamps (so that merge returns Ok outright) is validated by enumeration, not proved; proved: Ok or a time-stamp error under kind agreement (C16_merge_succeeds_unless_time_conflict), no panic (C16_merge_never_panics), and for every source: termination of the whole merge (C16_merge_terminates), success of the deletion phase (C16_deletion_phase_succeeds), the result keeps pairwise distinct UUIDs (C16_merge_keeps_uuids_distinct) and holds no node from nowhere (C16_no_node_from_nowhere)']),
]:
    PROPS[pid] = {'ops': ['merge'], 'judge': make_merge_judge(pid), 'rule': MERGE_RULE, 'assumptions': MERGE_ASSUME,
                  'level_text': txt, 'partial': part, 'timeout': 3000, 'exhaustive': {'quick': False, 'thorough': False}}


import re as _re


def norm_site(s):
    """'panic:keepass::format::kdbx4::parse::parse_outer_header:index' -> 'panic:parse_outer_header:index';
    '<keepass::db::HeaderAttachment as core::convert::From<&[u8]>>::from:index' -> 'panic:HeaderAttachment::from:index'"""
    if not isinstance(s, str) or not s.startswith('panic:'):
        return s
    body = s[len('panic:'):]
    cls = body.rsplit(':', 1)[1] if ':' in body else ''
    fn = body.rsplit(':', 1)[0]
    m = _re.search(r'<impl .* for ([^<> ]+)>::(\w+)$', fn) or _re.match(r'<?([^<> ]+) as [^>]*(?:<[^>]*>)?>::(\w+)', fn)
    if m:
        name = m.group(1).split('::')[-1] + '::' + m.group(2)
    else:
        fn = _re.sub(r'<[^<>]*>', '', fn).strip('<>')
        parts = fn.split('::')
        if len(parts) >= 2 and parts[-2][:1].isupper():
            name = parts[-2] + '::' + parts[-1]
        else:
            name = parts[-1]
    if 'format::kdbx3::' in body:
        name = 'kdbx3::' + name if name == 'parse_outer_header' else name
    return 'panic:%s:%s' % (name, cls)


def judge_kdbx4(pid):
    def judge(case, out):
        v = []
        real = case['real']
        sub = case.get('sub')
        rdec = norm_site(real.get('decrypt'))
        rparse = norm_site(real.get('parse'))
        model = out.get('model') or {}
        # correspondence: only when the file is dispatched to the KDBX4 reader
        if out.get('sniff') == 'kdbx4':
            if model.get('decrypt') != rdec:
                v.append(('DISAGREE', 'kdbx4read:decrypt', 'model %s, real %s (%s)' % (model.get('decrypt'), rdec, case.get('extra', {}).get('mutation', sub))))
            elif rdec == 'ok':
                if model.get('xml_sha256') != real.get('xml_sha256'):
                    v.append(('DISAGREE', 'kdbx4read:xml', 'decrypted XML differs'))
                if rparse == 'ok':
                    if model.get('config') != real.get('config'):
                        v.append(('DISAGREE', 'kdbx4read:config', '%s vs %s' % (model.get('config'), real.get('config'))))
                    if model.get('attachments') != real.get('attachments'):
                        v.append(('DISAGREE', 'kdbx4read:attachments', ''))
        ex = case.get('extra', {})
        if pid == 'C01' and sub == 'wf':
            it = ex.get('intended')
            if rdec != 'ok' or rparse != 'ok':
                v.append(('SPECFAIL', 'wf:conforming-file-rejected:%s' % (rdec if rdec != 'ok' else rparse), str(ex.get('layout'))))
            elif it:
                for k in ('config', 'attachments', 'xml_sha256'):
                    if real.get(k) != it.get(k):
                        v.append(('SPECFAIL', 'wf:%s-differs-from-stored' % k, '%s vs %s' % (str(real.get(k))[:100], str(it.get(k))[:100])))
        if pid == 'C04' and sub == 'cred':
            if rparse == 'ok':
                v.append(('SPECFAIL', 'cred:wrong-credentials-open:%s' % ex.get('edit'), ''))
            elif rparse != 'err:key':
                v.append(('SPECFAIL', 'cred:wrong-credentials-not-a-key-error:%s' % rparse, 'edit %s' % ex.get('edit')))
        if pid == 'C05' and sub == 'tamper':
            o = ex.get('original', {})
            if rparse == 'ok' and (real.get('db_sha256') != o.get('db_sha256') or real.get('config') != o.get('config')):
                v.append(('SPECFAIL', 'tamper:different-content-accepted:%s' % ex.get('mutation'), ''))
            # … nor may the decrypt stage alone (Database::get_xml) hand out anything but the original inner XML
            if rdec == 'ok' and o.get('xml_sha256') and real.get('xml_sha256') != o.get('xml_sha256'):
                v.append(('SPECFAIL', 'tamper:different-xml-returned-by-get_xml:%s' % ex.get('mutation'), ''))
        if pid == 'C06':
            for stage, r in (('get_xml', rdec), ('parse', rparse)):
                if isinstance(r, str) and r.startswith('panic:'):
                    v.append(('SPECFAIL', 'panic:%s' % r[len('panic:'):], '%s panics (%s)' % (stage, ex.get('mutation', sub))))
        return v or [('AGREE', '', '')]
    return judge


def judge_legacy(pid):
    jx = judge_xml(pid)
    j4 = judge_kdbx4(pid)

    def judge(case, out):
        op = case.get('op')
        if op == 'specOnly':
            # too large for the executable model: the specification alone (the conforming file opens, to the stored XML)
            v = []
            if pid == 'C02':
                real = case['real']
                ex = case.get('extra', {})
                rdec = norm_site(real.get('decrypt'))
                if rdec != 'ok':
                    v.append(('SPECFAIL', 'kdbx3:conforming-file-rejected:large-block:%s' % rdec, 'blocks %s payload %s' % (ex.get('blocks'), ex.get('payload_len'))))
                elif real.get('xml_sha256') != ex.get('intended', {}).get('xml_sha256'):
                    v.append(('SPECFAIL', 'kdbx3:xml-differs-from-stored:large-block', ''))
                elif norm_site(real.get('parse')) != 'ok':
                    v.append(('SPECFAIL', 'kdbx3:conforming-file-rejected:large-block:%s' % norm_site(real.get('parse')), ''))
            return v or [('AGREE', '', '')]
        if op == 'xml':
            return jx(case, out)
        if op == 'kdbx4read':
            return j4(case, out)
        v = []
        real = case['real']
        sub = case.get('sub')
        ex = case.get('extra', {})
        model = out.get('model') or {}
        want = 'kdbx3' if op == 'kdbx3read' else 'kdb'
        sniff = out.get('sniff')
        if sniff != want:
            # `Database::parse` dispatches on the signature: not a file of this format
            exp = {'none': 'err:integrity', 'kdb2': 'err:unsupported'}.get(sniff)
            model = dict(model)
            if exp:
                model['decrypt'] = model['parse'] = exp
            else:
                model['decrypt'] = norm_site(real.get('decrypt'))
                model['parse'] = norm_site(real.get('parse'))
        if op == 'kdbx3read':
            rdec = norm_site(real.get('decrypt'))
            rparse = norm_site(real.get('parse'))
            if model.get('decrypt') != rdec:
                v.append(('DISAGREE', 'kdbx3read:decrypt', 'model %s, real %s (%s)' % (model.get('decrypt'), rdec, ex.get('mutation', sub))))
            elif rdec == 'ok':
                if model.get('xml_sha256') != real.get('xml_sha256'):
                    v.append(('DISAGREE', 'kdbx3read:xml', 'decrypted XML differs'))
                if rparse == 'ok' and model.get('config') != real.get('config'):
                    v.append(('DISAGREE', 'kdbx3read:config', '%s vs %s' % (model.get('config'), real.get('config'))))
            if pid == 'C02' and sub == 'wf':
                it = ex.get('intended', {})
                if rdec != 'ok':
                    v.append(('SPECFAIL', 'kdbx3:conforming-file-rejected:%s' % rdec, 'order %s blocks %s' % (ex.get('order'), ex.get('blocks'))))
                else:
                    if real.get('xml_sha256') != it.get('xml_sha256'):
                        v.append(('SPECFAIL', 'kdbx3:xml-differs-from-stored', ''))
                    if rparse == 'ok' and real.get('config') != it.get('config'):
                        v.append(('SPECFAIL', 'kdbx3:config-differs-from-stored', '%s vs %s' % (real.get('config'), it.get('config'))))
            outcome = rparse
        else:
            rparse = norm_site(real.get('parse'))
            if model.get('parse') != rparse:
                v.append(('DISAGREE', 'kdbread:outcome', 'model %s, real %s (%s)' % (model.get('parse'), rparse, ex.get('mutation', sub))))
            elif rparse == 'ok':
                if model.get('utf8') and model.get('tree') != real.get('tree'):
                    v.append(('DISAGREE', 'kdbread:tree', diff_path(model.get('tree'), real.get('tree'), 'tree') or ''))
                if model.get('config') != real.get('config'):
                    v.append(('DISAGREE', 'kdbread:config', '%s vs %s' % (model.get('config'), real.get('config'))))
            if pid == 'C02' and sub == 'wf':
                names = 'duplicate-sibling-names' if ex.get('dup_names') else 'distinct-names'
                if rparse != 'ok':
                    v.append(('SPECFAIL', 'kdb:conforming-file-rejected:%s:%s' % (names, rparse), str(ex.get('groups'))))
                elif real.get('tree') != ex.get('spec_tree'):
                    v.append(('SPECFAIL', 'kdb:tree-differs-from-stored:%s' % names, diff_path(real.get('tree'), ex.get('spec_tree'), 'tree') or ''))
            outcome = rparse
        if pid == 'C04' and sub == 'cred' and outcome == 'ok':
            v.append(('SPECFAIL', 'cred:wrong-credentials-open:%s' % op, ''))
        if pid == 'C06':
            for r in ({norm_site(real.get('decrypt')), outcome} if op == 'kdbx3read' else {outcome}):
                if isinstance(r, str) and r.startswith('panic:'):
                    v.append(('SPECFAIL', r, '%s (%s)' % (op, ex.get('mutation', sub))))
        return v or [('AGREE', '', '')]
    return judge


FRAME_ASSUME = ['primitives (KDFs, outer ciphers, gzip) enter the model through the per-case oracle table computed with the upstream crates; SHA-256/512 and HMAC run natively in Lean',
                'files are produced by the independent builder (harness/src/kdbx.rs) and by the real save']
PROPS['C04'] = {
    'ops': ['frame-cred'], 'judge': judge_kdbx4('C04'), 'assumptions': FRAME_ASSUME,
    'rule': 'conforming KDBX4 files (all outer ciphers, AES-KDF/Argon2d/Argon2id, gzip on/off, random layouts) x credential edits {trailing blank, appended/deleted character, '
            'case, password removed/added, NUL, key file removed/added/bit-flipped, empty credentials, reversed, empty password only, NFD/zero-width, swapped roles}; '
            'edits that derive the same composite are skipped; every case is non-trivial; distinct by hash of (file, credentials)',
    'partial': ['KDBX 3.1 and KDB ("some error") are covered once their builders exist (C02)',
                'C04_kdbx4 takes as hypothesis that HMAC-SHA-256 under the two derived header keys separates the header (idealisation, stated in the theorem)'],
    'level_text': 'Kernel-checked over the faithful model of decrypt_kdbx4 for every primitive family: a composite that yields a different header MAC gives a key error and never a value; '
                  'empty credentials give a key error. The model is run against Database::get_xml/parse on every generated case with the per-case oracle table.',
}
PROPS['C05'] = {
    'ops': ['frame-tamper'], 'judge': judge_kdbx4('C05'), 'assumptions': FRAME_ASSUME,
    'rule': 'valid KDBX4 files (single- and multi-block, all outer ciphers, gzip on/off) x mutations {byte substitution in header / header hash / header HMAC / blocks, '
            'truncation at every kind of offset, cut at block boundaries incl. dropping the terminator, appended data, swapped / duplicated / dropped blocks, header edit with the '
            'SHA-256 recomputed, multi-byte edits}; opened with the correct credentials; oracle: Database::open gives an error, or the same database and configuration as the original, and Database::get_xml gives an error, or the same inner XML',
    'partial': ['the idealisation of HMAC (Unforgeable: what verifies under the key of index i is the block the writer authenticated at index i, for data blocks and for the empty end-of-stream block) is a hypothesis of C05_blocks_prefix / C05_blocks_whole, not a theorem'],
    'level_text': 'Kernel-checked over the faithful model: every accepted block was authenticated under the key of its own index and the stream ended with an authenticated empty block, so under the HMAC idealisation the accepted data is the whole original data, never a strict prefix (C05_blocks_whole, after the repair of F21), and a byte string with the original outer header whose block stream meets that idealisation decrypts, if at all, to the original result (C05_whole_file); '
                  'header bytes are authenticated by the header MAC. Validated against the real reader (open and get_xml) on attacker mutations.',
}
PROPS['C06'] = {
    'ops': ['frame-fuzz'], 'judge': judge_kdbx4('C06'), 'assumptions': FRAME_ASSUME,
    'rule': 'KDBX4: every kind of prefix, authenticated-but-malformed interiors (bad inner key length, empty attachment field, truncated XML, missing inner fields, garbage XML, '
            'cut/over-long inner header), header bytes and variant-dictionary surgery with the unkeyed hash recomputed, AES-KDF seeds of the wrong length, random bytes, valid signature + random; '
            'KDBX3: prefixes, header bytes, authenticated-but-malformed payloads (cut, no terminator block, bad hash, long stream-start field, stream start only), transform seeds of the wrong length, short typed fields; '
            'KDB: prefixes, header bytes, authenticated-but-malformed records (cut, over-counted groups/entries, substituted bytes, empty payload, appended bytes), payloads ending in a large byte, a lone key element that is not 32 bytes; '
            'KDF cost clamped; non-trivial = input passes the signature check',
    'partial': ['the xml-rs tokenizer is outside the model (its event stream, error events included, is the input of C06_xml_total)',
                'stack exhaustion on ~1000 nested <Group> elements (A49) aborts the process and is outside what the in-process harness can observe; recorded in DESIGN.md',
                'hangs: every model reader is structurally recursive on fuel bounded by the input length; the real reader is run under the harness (KDF cost clamped)'],
    'level_text': 'Kernel-checked over the faithful models of the repaired readers (every slice/unwrap modelled): for every byte string, every credential set and every primitive family, '
                  'decrypt_kdbx4, decrypt_kdbx3, parse_kdb and parse_xml_timestamp return a value or an error (C06_kdbx4_total, C06_kdbx3_total, C06_kdb_total, C06_timestamp_total), and so does the XML object-model reader on every event stream (C06_xml_total). '
                  'The 16 panic sites found on the code as given (F8) were repaired by fix: commits; the real readers are run on malformed input in-process under catch_unwind with outcome and error class compared with the model.',
}
PROPS['C01'] = {
    'ops': ['frame-wf'], 'judge': judge_kdbx4('C01'), 'assumptions': FRAME_ASSUME,
    'rule': 'independent builder: 3 outer ciphers x {AES-KDF, Argon2d, Argon2id; 0x10/0x13} x gzip on/off x 3 inner ciphers x credential compositions x 0..5 blocks of sizes {1,2,16,17,64,300} + remainder x '
            'header-field permutations with 0..2 comment fields x variant-dictionary permutations x inner-header permutations x end-of-header payload; every 6th file comes from the real save; '
            'non-trivial = >= 1 explicit block size or a permuted header',
    'partial': ['XML surface variations and the object-model comparison are exercised by the XML model (pending in this round); framing: configuration, attachments and inner XML bytes'],
    'level_text': 'Kernel-checked framing theorems over the faithful model of decrypt_kdbx4; the model is run against Database::get_xml/parse on files of every conforming layout built by an independent builder.',
}


def judge_xml(pid):
    def judge(case, out):
        v = []
        if case.get('op') == 'specOnly':
            # too large for the executable model: the specification alone (save succeeds, the file opens, to the same database)
            r = case['real']
            shape = case.get('shape')
            if pid in ('C03', 'C12', 'C07'):
                if isinstance(r.get('save'), str) and r['save'].startswith('panic'):
                    v.append(('SPECFAIL', '%s:large-binary:save-panics' % pid.lower(), '%s: %s' % (shape, r['save'])))
                elif r.get('save') == 'ok' and r.get('reopen') != 'ok':
                    v.append(('SPECFAIL', '%s:large-binary:saved-file-does-not-open' % pid.lower(), '%s: %s' % (shape, r.get('reopen'))))
                elif r.get('save') == 'ok' and not r.get('equal') and pid == 'C03':
                    v.append(('SPECFAIL', 'c03:large-binary:content-differs', str(shape)))
                elif r.get('save') != 'ok' and pid == 'C03':
                    v.append(('SPECFAIL', 'c03:large-binary:save-fails', '%s: %s' % (shape, r.get('save'))))
            if pid == 'C08':
                for l in r.get('protected_leaks', []):
                    v.append(('SPECFAIL', 'c08:protected:%s' % l.split(':')[0], '%s: %s' % (shape, l)))
            return v or [('AGREE', '', '')]
        m = out.get('model') or {}
        real = case['real']
        ch = case.get('checks', {})
        sub = case.get('sub')
        feats = case.get('features', [])
        feat = feats[0] if len(feats) == 1 else ('+'.join(feats) if feats else 'none')
        save = norm_site(real.get('save'))
        reopen = norm_site(real.get('reopen'))
        if real.get('sink_failed'):
            # the destination reported an error part-way: save must report it (whatever the property, a success here is a lie)
            if save == 'ok':
                return [('SPECFAIL', '%s:save-reports-success-although-the-sink-failed' % pid.lower(), 'sink failed, save returned Ok')]
            if not (isinstance(save, str) and save.startswith('panic')):
                return [('AGREE', '', '')]
            # a panic is judged like any other panic of save (by feature class) below
        # ---- correspondence (every property that uses this op)
        if save == 'ok':
            if not m.get('dump_ok', True):
                v.append(('DISAGREE', 'xml:dump-panic', 'model predicts a panic in save (byte value not UTF-8), real save returned Ok'))
            elif ch.get('unwrap') == 'ok' and m.get('dump_events') != case.get('events'):
                a, b = m.get('dump_events') or [], case.get('events') or []
                i = next((i for i in range(min(len(a), len(b))) if a[i] != b[i]), min(len(a), len(b)))
                v.append(('DISAGREE', 'xml:dump-events', 'event %d: model %s, real %s' % (i, str(a[i:i+2])[:160], str(b[i:i+2])[:160])))
            if 'parse' in m and reopen is not None:
                mp = m.get('parse')
                if mp != reopen:
                    v.append(('DISAGREE', 'xml:parse-outcome', 'model %s, real %s' % (mp, reopen)))
                elif mp == 'ok':
                    d = diff_path(m.get('content'), real.get('reopen_content'), 'content')
                    if d:
                        v.append(('DISAGREE', 'xml:parse-content', d))
        elif isinstance(save, str) and save.startswith('panic'):
            if m.get('dump_ok', True):
                v.append(('DISAGREE', 'xml:dump-panic', 'real save panicked (%s), model predicts no panic' % save))
        if sub in ('surface', 'kdbx3'):
            mp = m.get('parse')
            if mp != reopen:
                v.append(('DISAGREE', 'xml:parse-outcome', 'model %s, real %s' % (mp, reopen)))
            elif mp == 'ok':
                d = diff_path(m.get('content'), real.get('reopen_content'), 'content')
                if d:
                    v.append(('DISAGREE', 'xml:parse-content', d))
            if pid in ('C01', 'C02'):
                if reopen != 'ok':
                    v.append(('SPECFAIL', '%s:conforming-document-rejected:%s' % (sub, reopen), ''))
                else:
                    d = diff_path(real.get('reopen_content'), case.get('intended'), 'opened-vs-stored')
                    if d:
                        v.append(('SPECFAIL', '%s:content-differs-from-stored' % sub, d))
            if pid == 'C06' and isinstance(reopen, str) and reopen.startswith('panic:'):
                v.append(('SPECFAIL', reopen, 'parse panics on an XML surface case'))
        if sub == 'fuzz':
            mp = m.get('parse')
            if mp != reopen:
                v.append(('DISAGREE', 'xml:parse-outcome', 'model %s, real %s (%s)' % (mp, reopen, case.get('extra', {}).get('mutation'))))
            if pid == 'C06' and isinstance(reopen, str) and reopen.startswith('panic:'):
                v.append(('SPECFAIL', reopen, 'parse panics on authenticated XML (%s)' % case.get('extra', {}).get('mutation')))
        # ---- specifications
        if pid == 'C03' and sub == 'lossless':
            if save != 'ok':
                v.append(('SPECFAIL', 'c03:save-fails:%s' % save[:60], ''))
            elif reopen != 'ok':
                v.append(('SPECFAIL', 'c03:reopen-fails', ch.get('reopen_error', reopen)))
            else:
                if not ch.get('reopen_equal'):
                    d = diff_path(case['db'], real.get('reopen_content'), 'db')
                    v.append(('SPECFAIL', 'c03:content-differs', d or 'configuration / attachments differ (config %s, attachments %s)' % (ch.get('reopen_config_equal'), ch.get('reopen_attachments_equal'))))
            if not ch.get('unchanged', True):
                v.append(('SPECFAIL', 'c03:save-modified-database', ''))
            if m.get('roundtrip') == 'ok' and diff_path(m.get('roundtrip_content'), case['db']):
                v.append(('DISAGREE', 'xml:model-roundtrip', 'the model of writer+reader does not round-trip this database: ' + str(diff_path(m.get('roundtrip_content'), case['db']))[:200]))
        if pid == 'C07' and sub == 'lossless' and save == 'ok':
            if ch.get('unwrap') != 'ok':
                v.append(('SPECFAIL', 'c07:not-wellformed:%s' % ch.get('unwrap'), 'clause %s of the strict KDBX4 reader fails' % ch.get('unwrap')))
            else:
                for k in ('config_labels_match', 'attachments_match', 'xml_wellformed'):
                    if not ch.get(k):
                        v.append(('SPECFAIL', 'c07:%s' % k, ''))
                fr = ch.get('fresh', {})
                for name, f in fr.items():
                    if f['len'] != f['want_len']:
                        v.append(('SPECFAIL', 'c07:size-%s' % name, '%d instead of %d bytes' % (f['len'], f['want_len'])))
                # the independent reader (Lean model of the XML mapping on the independently tokenised, independently decrypted payload)
                if m.get('parse') != 'ok':
                    v.append(('SPECFAIL', 'c07:independent-reader-rejects', str(m.get('parse'))))
                elif diff_path(m.get('content'), case['db']):
                    v.append(('SPECFAIL', 'c07:independent-reader-decodes-differently', diff_path(m.get('content'), case['db'])))
        if pid == 'C08' and sub == 'lossless' and save == 'ok' and ch.get('unwrap') == 'ok':
            for l in ch.get('leaks', []):
                v.append(('SPECFAIL', 'c08:leak:%s' % l.split(':')[0], l))
            for l in ch.get('protected_leaks', []):
                v.append(('SPECFAIL', 'c08:protected:%s' % l.split(':')[0], l))
        if pid == 'C09' and sub == 'lossless' and save == 'ok' and str(ch.get('unwrap')) in ('inner-key-size', 'size-iv', 'size-seed', 'size-kdf-seed'):
            v.append(('SPECFAIL', 'c09:size-%s' % {'inner-key-size': 'inner_key', 'size-iv': 'iv', 'size-seed': 'master_seed', 'size-kdf-seed': 'kdf_seed'}[ch.get('unwrap')], 'the strict KDBX4 reader finds a random value of the wrong size in the saved file (clause %s)' % ch.get('unwrap')))
        if pid == 'C09' and sub == 'lossless' and save == 'ok' and ch.get('unwrap') == 'ok':
            for name, f in ch.get('fresh', {}).items():
                if f['len'] != f['want_len']:
                    v.append(('SPECFAIL', 'c09:size-%s' % name, '%d instead of %d bytes' % (f['len'], f['want_len'])))
                if f['all_zero']:
                    v.append(('SPECFAIL', 'c09:all-zero-%s' % name, ''))
                if f['repeat']:
                    v.append(('SPECFAIL', 'c09:repeated-%s' % name, f['hex']))
                if f.get('constant_positions'):
                    v.append(('SPECFAIL', 'c09:constant-bytes-%s' % name, 'byte positions %s of the %d-byte value never varied over the draws of this run (last %s)' % (f['constant_positions'], f['len'], f['hex'])))
        if pid == 'C12' and sub == 'hostile':
            if isinstance(save, str) and save.startswith('panic'):
                v.append(('SPECFAIL', 'c12:%s:save-panics' % feat, save))
            elif save == 'ok':
                if isinstance(reopen, str) and reopen.startswith('panic'):
                    v.append(('SPECFAIL', 'c12:%s:reopen-panics' % feat, reopen))
                elif reopen != 'ok':
                    v.append(('SPECFAIL', 'c12:%s:saved-file-does-not-open' % feat, ch.get('reopen_error', str(reopen))[:200]))
        return v or [('AGREE', '', '')]
    return judge


XML_ASSUME = ['the xml-rs tokenizer and emitter are modelled by a contract (XmlRsContract.view) established by probing and exercised on every case',
              'HashMap iteration orders are read off the in-memory database and passed to the model; protected plaintexts are compared as bytes']
XML_RULE = ('databases built through the public API with every field of every public struct populated (strings from ASCII / markup / non-ASCII / astral / CR LF TAB / '
            'leading-trailing-blank classes, times over years 1..9999 and both signs, integer extremes, colours incl. components < 16, histories, custom data protected and not, '
            'icons, pool binaries compressed and not, inner-header attachments, deleted objects) x 3 outer ciphers x {AES-KDF, Argon2d, Argon2id} x gzip on/off x 3 inner ciphers x '
            'credential compositions; each: real save, independent strict unwrap, tokenise, Lean writer model vs real events, Lean reader model vs real re-open, real re-open vs original')
for pid, extra_rule, txt, part in [
    ('C03', '', 'Kernel-checked: the XML stage of save followed by the XML stage of open is the identity on every database of the domain ContentOk, for every key stream, '
            'every iteration order of every map and with writer and reader ending at the same inner-stream cursor (C03_xml_roundtrip_partial : C03_xml_full ContentOk, by composition of the '
            'struct-level theorems for values, time-stamp maps, custom data, auto-type, tags, colours, entries with nested histories, the group tree to any depth, Meta with icons / binary pool / memory protection, '
            'deleted objects); the container framing (C03_framing) and the codecs. The faithful Lean models of the XML writer, the xml-rs contract and the XML reader are compared event-by-event and '
            'field-by-field with the real save/open on every generated database, and save∘open = id is checked on the real code with PartialEq.',
     ['outside the proved domain (C12\'s classes, which the writer does not write back readably): byte-string values, blank strings and empty field values, reserved time-stamp names, empty icon or attachment payloads; the xml-rs tokenizer/emitter is the contract `view` (validated, trusted)']),
    ('C07', '; oracle clauses of the strict reader are named individually', 'Kernel-checked: the library layout is one of the conforming layouts and decodes (framing theorem), sizes of IV/keys/seeds are '
            'those the algorithms require (decide over constants regenerated from the source). Every real save output is unwrapped by an independent strict reader and decoded by the Lean reader model.',
     ['the literal-CR question (F12): the emitter writes CR unescaped; xml-rs does not normalise line ends, a conforming XML processor would deliver LF — reported in DESIGN.md, not counted as a violation of C07']),
    ('C08', '; every string of the database (>= 5 bytes) is searched for in the output raw / base64 / hex / UTF-16', 'Kernel-checked: protected values consume pairwise disjoint, consecutive key-stream intervals in document order '
            '(no two-time pad), for every map order. The real output is searched for every string of the database in four encodings and for XML structure; protected ciphertexts are compared with v XOR keystream.',
     ['"ciphertext reveals nothing" is an assumption on the outer cipher, not a theorem']),
    ('C09', '; the four random values of every save are collected across the run', 'Kernel-checked: save consumes the random source as four consecutive non-overlapping slices of the required sizes and each header value is its slice. '
            'Across the run the extracted values have the required lengths, are not all-zero and never repeat.',
     ['that the source is fresh OS randomness is the getrandom crate\'s contract']),
]:
    PROPS[pid] = {'ops': ['save'], 'judge': judge_xml(pid), 'rule': XML_RULE + extra_rule + '; every case is non-trivial (>= 10 field kinds populated); distinct by hash of the database',
                  'assumptions': XML_ASSUME + FRAME_ASSUME, 'level_text': txt, 'partial': part}
PROPS['C12'] = {
    'ops': ['save-hostile'], 'judge': judge_xml('C12'), 'assumptions': XML_ASSUME,
    'rule': 'as C03, but each database carries exactly one hostile feature class out of {empty string, blank string, control character, non-character, extreme date, byte value (UTF-8 / not UTF-8), '
            'reserved time-stamp name, non-name time-stamp key, empty custom-data key, blank field key, tag with separator or blank, empty icon data, empty pool-binary content}; '
            'non-trivial = the feature was actually placed; failures are keyed by (feature class, outcome)',
    'partial': ['C12 (full) is false on the unchanged code: one witness per failing feature class (recorded as known findings); C12_partial is proved for the domain ContentOk; between that domain and the witnesses lie the lossy-but-readable cases (examples proved, not characterised)'],
    'level_text': 'Kernel-checked over the models of writer, xml-rs contract and reader: witnesses for each unreadable class, and C12_partial — on the whole domain ContentOk (all of the schema with XML-representable non-blank strings) save succeeds and its output re-opens, for every key stream, compressor pair and map order; the hostile generator runs the real save/open and the models on every class.',
}

LEGACY_ASSUME = FRAME_ASSUME + XML_ASSUME + ['KDBX 3.1 and KDB files are produced by independent builders (harness/src/legacy.rs); the XML document by an independent renderer with surface variations (harness/src/xmlgen.rs)',
                                           'KDB text fields are compared as bytes when they are valid UTF-8 (lossy decoding of invalid UTF-8 is not modelled)']
PROPS['C02'] = {
    'ops': ['legacy-wf'], 'judge': judge_legacy('C02'), 'assumptions': LEGACY_ASSUME,
    'rule': 'KDBX 3.1: full databases (every public field) rendered with ISO-8601 times and surface variations x {AES, Twofish, ChaCha20} x gzip on/off x {Salsa20, none} x credential compositions x '
            'AES-KDF rounds 0..50 x header field permutations with optional comment field x 0..3 explicit block sizes out of {1,7,64,500} + remainder; '
            'KDB: forests of 1..7 groups by level numbers (depth <= 6), 0..5 entries assigned to arbitrary group ids with random subsets of the seven field kinds, records in shuffled order with optional '
            'comment records, AES / Twofish, credential compositions; every 10th KDB forest draws group names from {A, A, B} (repeated sibling names); '
            'oracles: the intended database (KDBX3) and the textbook denotation of (level, id) records (KDB)',
    'partial': ['C02 for KDB was false on the code as found when sibling groups share a name (F11); repaired in /repo, the model follows the repaired code',
                'the KDB level-driven tree construction is validated against the textbook denotation on generated forests and proved on witnesses; the XML mapping is validated, not proved'],
    'level_text': 'Kernel-checked: C02_iso_day_count — the day number the ISO 8601 time-stamp parser computes is the proleptic Gregorian day count for every year (0 on 1970-01-01, one more on each next day within a month, across a month end with the month lengths and leap rule, across a year end); C02_kdbx3_framing — for every primitive family with the laws, configuration, header field order (with comment fields), end payload and block partition, decrypt_kdbx3 returns the stored configuration, '
                  'inner key and document; evaluation-level theorems for the KDB level-driven tree construction and entry placement incl. the inputs of finding F11. '
                  'Faithful Lean models of decrypt_kdbx3 and parse_kdb are run against Database::get_xml/parse on every generated file.',
}
for _pid, _ops in (('C01', ['frame-wf', 'surface']), ('C04', ['frame-cred', 'legacy-cred']), ('C06', ['frame-fuzz', 'legacy-fuzz', 'xml-fuzz'])):
    PROPS[_pid]['ops'] = _ops
    PROPS[_pid]['judge'] = judge_legacy(_pid)
    PROPS[_pid]['assumptions'] = LEGACY_ASSUME
PROPS['C01']['partial'] = ['the XML mapping of arbitrary conforming documents (any child order, ISO times, surface variations) is validated (Lean reader model vs real reader vs intended database on independently rendered documents); proved about the reader model: unknown elements are skipped whole / rejected (C01_unknown_child_skipped, C01_unknown_child_rejected), no panic (C06_xml_total), documents in the writer\'s layout read back as written (C03_xml_roundtrip_partial)']
PROPS['C04']['partial'] = [p for p in PROPS['C04']['partial'] if not p.startswith('KDBX 3.1 and KDB')] + ['for KDBX 3.1 and KDB the theorems (C04_kdbx3, C04_kdb) state what a successful open implies: the body decrypts, under the key derived from the offered credentials, to a payload that reproduces the stream-start bytes / the contents hash; that a different key does not is the ciphers\' and SHA-256\'s property, not modelled']
