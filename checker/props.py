"""Per-property configuration: harness ops, judges, evidence texts."""
import json

TRUSTED_BASE = [
    'Lean 4.33.0 kernel (no native_decide, no bv_decide, no sorry; axioms limited to propext, Classical.choice, Quot.sound and audited per theorem)',
    'hand-written Lean model, tied to /repo by the correspondence run of this check (generator coverage bounds what the tie sees)',
    'tools/gen_consts.py (regex translator of constant tables) and the harness canonicalisers',
    'upstream crates are modelled, not verified (hashes, ciphers, KDFs, flate2, xml-rs, base64, chrono, std I/O contracts)',
]


def canon(x):
    return json.dumps(x, sort_keys=True, separators=(',', ':'))


def shorten(case, limit=1500):
    s = canon(case)
    if len(s) <= limit:
        return case
    return {'n': case.get('n'), 'op': case.get('op'), 'truncated': s[:limit] + '…'}


def diff_path(a, b, path=''):
    if type(a) != type(b):
        return '%s: %s != %s' % (path or '.', canon(a)[:200], canon(b)[:200])
    if isinstance(a, dict):
        for k in sorted(set(a) | set(b)):
            if k not in a or k not in b:
                return '%s.%s: present only on one side' % (path, k)
            d = diff_path(a[k], b[k], path + '.' + k)
            if d:
                return d
        return None
    if isinstance(a, list):
        if len(a) != len(b):
            return '%s: length %d != %d (%s vs %s)' % (path or '.', len(a), len(b), canon(a)[:160], canon(b)[:160])
        for i, (x, y) in enumerate(zip(a, b)):
            d = diff_path(x, y, '%s[%d]' % (path, i))
            if d:
                return d
        return None
    if a != b:
        return '%s: %s != %s' % (path or '.', canon(a)[:200], canon(b)[:200])
    return None


def default_judge(case, out):
    """real vs model = correspondence; real vs spec = the property's executable specification."""
    v = []
    real = case.get('real')
    if 'spec' in out and out['spec'] is not None:
        d = diff_path(real, out['spec'], 'real-vs-spec')
        if d:
            top = d.split(':')[0].split('[')[0]
            v.append(('SPECFAIL', '%s:%s' % (case.get('op'), top), d))
    if 'model' in out and out['model'] is not None:
        d = diff_path(real, out['model'], 'real-vs-model')
        if d:
            v.append(('DISAGREE', '%s' % case.get('op'), d))
    for f in out.get('specfail', []) or []:
        v.append(('SPECFAIL', f[0], f[1]))
    if not v:
        v.append(('AGREE', '', ''))
    return v


PROPS = {}
NOT_CLAIMED = {}

PROPS['C18'] = {
    'ops': ['tree'],
    'rule': 'random trees (depth<=6, fan-out<=6, titles from a 9-word alphabet incl. empty/repeated, entries with '
            'absent/byte/protected/non-UTF-8 titles) x 20 (quick) / 50 (thorough) paths; distinct by hash of (tree, paths); '
            'non-trivial = some sibling titles repeat or clash and some path has length >= 2',
    'assumptions': ['node identity observed through unique UUIDs assigned by the generator'],
    'level_text': 'Kernel-checked theorems for every tree and every path: queue BFS = level order, permutation of the pre-order '
                  'enumeration, length = size, get/get_mut first-match semantics and agreement, lookup result is among the iterated '
                  'nodes, entries/groups partition the children. The model is tied to Group::{iter,get,get_mut,entries,groups} by a '
                  'differential run on generated trees.',
}

PROPS['C17'] = {
    'ops': ['history'],
    'rule': 'random sequences (1..14 ops) over real entries: field/tag/colour/auto-type/custom-data/icon/url edits, edits of other time stamps, '
            'direct modification-time edits, history initialisation, externally built items carrying their own (nested) history, commits; '
            '"now" observed by bracketing update_history between two clock reads; content compared through an interned canonical dump. '
            'distinct by hash of (initial state, op list); non-trivial = the sequence has a commit after a change and a commit without one',
    'assumptions': ['content token = canonical dump of every field except times and history (injective by construction of the dump)',
                    'Times::now() returns the same second before and after the call (retried otherwise)'],
    'level_text': 'Kernel-checked theorems for every entry and every operation sequence: a commit adds an item iff the entry differs from the '
                  'newest item (ignoring times/history) or has no history; then the head item is the stripped entry stamped now; otherwise '
                  'nothing changes; two commits in a row add at most one item; earlier items survive as a suffix; no nesting. Model tied to '
                  'Entry::update_history / History::add_entry by a differential run over generated operation sequences, and the clauses are '
                  're-evaluated on the real trace.',
}
