import sys, os, json, time, subprocess, hashlib, re, fcntl, shutil
from . import props

VERIF = os.path.abspath(os.path.join(os.path.dirname(__file__), '..'))
REPO = '/repo'
LEAN = os.path.join(VERIF, 'lean')
HARNESS = os.path.join(VERIF, 'harness')
CACHE = os.path.join(VERIF, '.cache')
OUT = os.path.join(VERIF, 'out')
ALLOWED_AXIOMS = {'propext', 'Classical.choice', 'Quot.sound'}
FORBIDDEN = re.compile(r'\b(sorry|admit|native_decide|bv_decide|implemented_by|unsafe)\b|^axiom\s|maxHeartbeats\s+0')
DRIVER_BIN = os.path.join(LEAN, '.lake', 'build', 'bin', 'kpdriver')
HARNESS_BIN = os.path.join(CACHE, 'target', 'debug', 'kpharness')
# the same harness linked against the library without its `_merge` feature (ops written '@plain <op>' in props.py)
HARNESS_BIN_PLAIN = os.path.join(CACHE, 'target-plain', 'debug', 'kpharness')

ENV = dict(os.environ)
ENV.update({'CARGO_NET_OFFLINE': 'true', 'CARGO_TERM_COLOR': 'never'})


def log(*a):
    print(*a, file=sys.stderr, flush=True)


class Lock:
    def __init__(self, name):
        os.makedirs(CACHE, exist_ok=True)
        self.path = os.path.join(CACHE, name + '.lock')

    def __enter__(self):
        self.f = open(self.path, 'w')
        fcntl.flock(self.f, fcntl.LOCK_EX)
        return self

    def __exit__(self, *a):
        fcntl.flock(self.f, fcntl.LOCK_UN)
        self.f.close()


def run(cmd, cwd=None, timeout=None, inp=None, env=None):
    p = subprocess.run(cmd, cwd=cwd, stdout=subprocess.PIPE, stderr=subprocess.STDOUT, timeout=timeout,
                       input=inp, env=env or ENV)
    return p.returncode, p.stdout.decode('utf-8', 'replace')


# ---------------------------------------------------------------- translator (constant tables)
def gen_consts():
    """Regenerate lean/KpModel/Generated/Consts.lean from /repo/src. Returns list of items that could not be
    extracted (empty when all were found)."""
    rc, out = run([sys.executable, os.path.join(VERIF, 'tools', 'gen_consts.py'), REPO,
                   os.path.join(LEAN, 'KpModel', 'Generated', 'Consts.lean')])
    missing = [l.split(' ', 1)[1] for l in out.splitlines() if l.startswith('MISSING ')]
    if rc != 0 and not missing:
        missing = ['translator failed: ' + out[-400:]]
    return missing


# ---------------------------------------------------------------- Lean side
def strip_comments(src):
    src = re.sub(r'/-.*?-/', lambda m: '\n' * m.group(0).count('\n'), src, flags=re.S)
    src = re.sub(r'--.*', '', src)
    return src


def forbidden_tokens():
    hits = []
    for root, _, files in os.walk(os.path.join(LEAN, 'KpModel')):
        for f in files:
            if f.endswith('.lean'):
                p = os.path.join(root, f)
                for i, line in enumerate(strip_comments(open(p).read()).splitlines(), 1):
                    if FORBIDDEN.search(line):
                        hits.append('%s:%d: %s' % (os.path.relpath(p, LEAN), i, line.strip()))
    return hits


def theorem_decls(path):
    """(line, name) of theorem declarations in a Lean file (comments stripped)."""
    res = []
    for i, line in enumerate(strip_comments(open(path).read()).splitlines(), 1):
        m = re.match(r'\s*(?:private\s+|protected\s+)?theorem\s+([^\s:({\[]+)', line)
        if m:
            res.append((i, m.group(1)))
    return res


def lean_build(pid):
    """Build the property's theorem module + driver; audit axioms.
    Returns dict(ok, obligations, discharged, failing[list of names], theorems[list], log, driver_ok)."""
    module = 'KpModel.Props.%s' % pid
    path = os.path.join(LEAN, 'KpModel', 'Props', pid + '.lean')
    res = {'ok': False, 'obligations': 0, 'discharged': 0, 'failing': [], 'theorems': [], 'log': '',
           'driver_ok': False, 'axiom_violations': []}
    decls = [(l, n) for (l, n) in theorem_decls(path)] if os.path.exists(path) else []
    rc, out = run(['lake', 'build', 'kpdriver'], cwd=LEAN, timeout=3600)
    res['driver_ok'] = rc == 0
    res['log'] += out[-3000:] if rc != 0 else ''
    rc, out = run(['lake', 'build', module], cwd=LEAN, timeout=3600)
    if rc != 0:
        res['log'] += out[-6000:]
        failing = set()
        for m in re.finditer(r'error: (\S+?\.lean):(\d+):(\d+):', out):
            f, line = m.group(1), int(m.group(2))
            if os.path.abspath(os.path.join(LEAN, f)) == os.path.abspath(path):
                name = None
                for (l, n) in decls:
                    if l <= line:
                        name = n
                failing.add(name or '%s:%d' % (f, line))
            else:
                failing.add('%s:%d (dependency of %s)' % (f, line, module))
        if not failing:
            failing.add('build of %s failed' % module)
        res['failing'] = sorted(failing)
        res['obligations'] = max(len(decls), 1)
        res['discharged'] = 0
        return res
    rc, out = run(['lake', 'env', 'lean', '--run', 'Audit/Main.lean', module], cwd=LEAN, timeout=1800)
    if rc != 0:
        res['log'] += out[-3000:]
        res['failing'] = ['axiom audit of %s failed to run' % module]
        res['obligations'] = max(len(decls), 1)
        return res
    ths = []
    for line in out.splitlines():
        m = re.match(r'THEOREM (\S+) AXIOMS ?(.*)', line)
        if m:
            ths.append((m.group(1), m.group(2).split()))
    res['theorems'] = ths
    res['obligations'] = len(ths)
    bad = [(n, [a for a in ax if a not in ALLOWED_AXIOMS]) for (n, ax) in ths]
    bad = [(n, a) for (n, a) in bad if a]
    res['axiom_violations'] = bad
    res['discharged'] = len(ths) - len(bad)
    res['failing'] = ['%s (axioms: %s)' % (n, ' '.join(a)) for (n, a) in bad]
    toks = forbidden_tokens()
    if toks:
        res['failing'] += ['forbidden token: ' + t for t in toks]
    res['ok'] = not res['failing'] and len(ths) > 0
    return res


# ---------------------------------------------------------------- Rust side
def harness_build(need_plain=True):
    os.makedirs(CACHE, exist_ok=True)
    lock_src = os.path.join(REPO, 'Cargo.lock')
    lock_dst = os.path.join(HARNESS, 'Cargo.lock')
    if os.path.exists(lock_src):
        if not os.path.exists(lock_dst) or open(lock_src, 'rb').read() != open(lock_dst, 'rb').read():
            shutil.copyfile(lock_src, lock_dst)
    rc, out = run(['cargo', 'build', '--offline'], cwd=HARNESS, timeout=3600)
    if rc != 0:
        return False, out[-6000:]
    if not need_plain:
        return True, out[-6000:]
    rc2, out2 = run(['cargo', 'build', '--offline', '--no-default-features', '--target-dir', os.path.join(CACHE, 'target-plain')],
                    cwd=HARNESS, timeout=3600)
    return rc2 == 0, (out + out2)[-6000:]


# ---------------------------------------------------------------- cases
def canon(x):
    return json.dumps(x, sort_keys=True, separators=(',', ':'))


def diff_path(a, b, path=''):
    """first path at which two JSON values differ, or None"""
    if type(a) != type(b):
        return '%s: %s != %s' % (path or '.', canon(a)[:200], canon(b)[:200])
    if isinstance(a, dict):
        for k in sorted(set(a) | set(b)):
            if k not in a or k not in b:
                return '%s.%s: present only on one side' % (path, k)
            d = diff_path(a[k], b[k], path + '.' + k)
            if d:
                return d
        return None
    if isinstance(a, list):
        if len(a) != len(b):
            return '%s: length %d != %d (%s vs %s)' % (path or '.', len(a), len(b), canon(a)[:160], canon(b)[:160])
        for i, (x, y) in enumerate(zip(a, b)):
            d = diff_path(x, y, '%s[%d]' % (path, i))
            if d:
                return d
        return None
    if a != b:
        return '%s: %s != %s' % (path or '.', canon(a)[:200], canon(b)[:200])
    return None


def load_known():
    known, fixed = [], []
    p = os.path.join(VERIF, 'known_findings.jsonl')
    if os.path.exists(p):
        for line in open(p):
            line = line.strip()
            if not line or line.startswith('#'):
                continue
            e = json.loads(line)
            (known if e.get('status') == 'known' else fixed).append(e)
    return known, fixed


def match_known(known, pid, key):
    for e in known:
        if e['property'] != pid:
            continue
        if 'key' in e and e['key'] == key:
            return e
        if 'key_re' in e and re.fullmatch(e['key_re'], key):
            return e
    return None


class Hang(Exception):
    """a call into the library did not return (the harness watchdog fired)"""
    def __init__(self, op, args, detail):
        Exception.__init__(self, detail)
        self.op, self.args_, self.detail = op, args, detail


def run_ops(pid, spec, tier, seed, workdir, extra_harness_args=None):
    """Run harness ops and the driver. Yields (case, out) pairs."""
    os.makedirs(workdir, exist_ok=True)
    cases_path = os.path.join(workdir, 'cases.jsonl')
    outs_path = os.path.join(workdir, 'model.jsonl')
    with open(cases_path, 'wb') as cf:
        # corpus first
        corpus = os.path.join(VERIF, 'corpus', pid + '.jsonl')
        if os.path.exists(corpus):
            # corpus entries are harness argument lines ("op args…") replayed against the current tree
            for line in open(corpus):
                line = line.strip()
                if not line or line.startswith('#'):
                    continue
                args = line.split()
                p = subprocess.run([HARNESS_BIN] + args + ['--seed', str(seed), '--tier', tier], stdout=cf,
                                   stderr=subprocess.PIPE, env=ENV, timeout=spec.get('timeout', 3000))
                if p.returncode != 0:
                    raise RuntimeError('harness corpus run failed: %s\n%s' % (line, p.stderr.decode()[-2000:]))
        for op in spec['ops']:
            hbin = HARNESS_BIN
            if op.startswith('@plain '):
                hbin, op = HARNESS_BIN_PLAIN, op[len('@plain '):]
            args = op.split() + ['--seed', str(seed), '--tier', tier] + (extra_harness_args or [])
            p = subprocess.run([hbin] + args, stdout=cf, stderr=subprocess.PIPE, env=ENV,
                               timeout=spec.get('timeout', 3000))
            if p.returncode == 3:
                raise Hang(op, args, p.stderr.decode()[-600:].strip())
            if p.returncode != 0:
                raise RuntimeError('harness op failed: %s\n%s' % (op, p.stderr.decode()[-2000:]))
    with open(cases_path, 'rb') as cf, open(outs_path, 'wb') as of:
        p = subprocess.run([DRIVER_BIN], stdin=cf, stdout=of, stderr=subprocess.PIPE, env=ENV,
                           timeout=spec.get('timeout', 3000))
        if p.returncode != 0:
            raise RuntimeError('driver failed: %s' % p.stderr.decode()[-2000:])
    try:
        with open(cases_path) as cf, open(outs_path) as of:
            for cl, ol in zip(cf, of):
                yield json.loads(cl), json.loads(ol)
    finally:
        shutil.rmtree(workdir, ignore_errors=True)


def check(pid, tier, seed):
    t0 = time.time()
    spec = props.PROPS[pid]
    os.makedirs(OUT, exist_ok=True)
    workdir = os.path.join(CACHE, 'run', '%s-%s-%d' % (pid, tier, os.getpid()))   # private: checks may run concurrently
    replay_dir = os.path.join(OUT, 'replay')
    os.makedirs(replay_dir, exist_ok=True)
    for f in os.listdir(replay_dir):
        if f.startswith(pid + '-'):
            os.remove(os.path.join(replay_dir, f))      # replay files of earlier runs of this check
    known, fixed = load_known()

    with Lock('build'):
        missing = gen_consts()
        lb = lean_build(pid)
        if not lb['driver_ok']:
            print('CHECK-BROKEN lean-driver-build')
            log(lb['log'])
            return 2
        hok, hlog = harness_build(any(op.startswith('@plain ') for op in spec['ops']))
        if not hok:
            print('CHECK-BROKEN harness-build')
            log(hlog)
            return 2

    proof_broken = list(lb['failing']) + ['constant not extracted: ' + m for m in missing if spec.get('uses_consts')]
    stats = {'evaluations': 0, 'agree': 0, 'disagree': 0, 'specfail': 0, 'skip': 0, 'known': 0}
    hist = {}
    distinct = set()
    samples = []
    violations = []   # (kind, key, detail, case)
    knownhits = {}
    disagreements = []
    judge = spec.get('judge', props.default_judge)
    try:
        for case, out in run_ops(pid, spec, tier, seed, workdir):
            stats['evaluations'] += 1
            if 'error' in out:
                verdicts = [('DISAGREE', 'driver-error', out['error'])]
            else:
                verdicts = judge(case, out)
            h = hashlib.sha1(canon({k: v for k, v in case.items() if k not in ('n', 'seed', 'real')}).encode()).hexdigest()
            if case.get('nontrivial', True):
                distinct.add(h)
            for k in case.get('tags', []):
                hist[k] = hist.get(k, 0) + 1
            if len(samples) < 3:
                samples.append(props.shorten(case))
            worst = 'AGREE'
            for (kind, key, detail) in verdicts:
                if kind == 'SPECFAIL':
                    e = match_known(known, pid, key)
                    if e is not None:
                        stats['known'] += 1
                        knownhits.setdefault(e.get('key', e.get('key_re')), (e, case, detail))
                        if worst == 'AGREE':
                            worst = 'KNOWN'
                    else:
                        stats['specfail'] += 1
                        violations.append((kind, key, detail, case))
                        worst = 'SPECFAIL'
                elif kind == 'DISAGREE':
                    stats['disagree'] += 1
                    disagreements.append((key, detail, case))
                    if worst != 'SPECFAIL':
                        worst = 'DISAGREE'
                elif kind == 'SKIP':
                    stats['skip'] += 1
            if worst == 'AGREE':
                stats['agree'] += 1
    except Hang as e:
        # the real library does not return on a generated input: a violation of every property that reads (termination)
        key = 'hang:%s' % e.op
        if match_known(known, pid, key) is None:
            os.makedirs(replay_dir, exist_ok=True)
            path = os.path.join(replay_dir, '%s-%s.json' % (pid, hashlib.sha1(key.encode()).hexdigest()[:10]))
            json.dump({'property': pid, 'kind': 'SPECFAIL', 'key': key, 'detail': e.detail,
                       'replay_cmd': '%s %s   # exits with status 3 when the watchdog fires' % (HARNESS_BIN, ' '.join(e.args_))},
                      open(path, 'w'), indent=1)
            print('VIOLATION property=%s replay=%s' % (pid, path))
            print('%s FAIL tier=%s seed=%d a call into the library did not return (op %s)' % (pid, tier, seed, e.op))
            return 1
        print('KNOWN-FINDING: property=%s %s' % (pid, match_known(known, pid, key)['what']))
        return 0
    except (RuntimeError, subprocess.TimeoutExpired) as e:
        print('CHECK-BROKEN run: %s' % str(e)[:300])
        log(str(e))
        return 2

    # ---- report
    exit_code = 0
    lines = []
    for k, (e, case, detail) in sorted(knownhits.items()):
        lines.append('KNOWN-FINDING: property=%s %s' % (pid, e['what']))
    reported = set()
    for (kind, key, detail, case) in violations:
        if key in reported:
            continue
        reported.add(key)
        path = os.path.join(replay_dir, '%s-%s.json' % (pid, hashlib.sha1(key.encode()).hexdigest()[:10]))
        detail, smallest = min(((d2, c) for (_, k2, d2, c) in violations if k2 == key), key=lambda t: len(canon(t[1])))
        json.dump({'property': pid, 'kind': 'SPECFAIL', 'key': key, 'detail': detail, 'case': smallest,
                   'replay_cmd': 'bin/check replay %s' % path}, open(path, 'w'), indent=1)
        lines.append('VIOLATION property=%s replay=%s' % (pid, path))
        exit_code = 1
    if (proof_broken or disagreements) and not violations:
        path = os.path.join(replay_dir, '%s-unproved.json' % pid)
        d = {'property': pid, 'kind': 'no-failing-input-found',
             'theorems_or_obligations_that_no_longer_check': proof_broken,
             'correspondence_disagreements': [{'what': k, 'detail': dd, 'case': props.shorten(c, 4000)}
                                              for (k, dd, c) in distinct_disagreements(disagreements)],
             'searched': 'specification of %s evaluated on %d cases (tier %s, seed %d): no failing input' %
                         (pid, stats['evaluations'], tier, seed),
             'lean_log': lb['log'][-3000:]}
        json.dump(d, open(path, 'w'), indent=1)
        lines.append('VIOLATION property=%s replay=%s no-failing-input-found' % (pid, path))
        exit_code = 1
    elif (proof_broken or disagreements) and violations:
        # the failing input is the replay; record what else broke alongside
        path = os.path.join(replay_dir, '%s-unproved.json' % pid)
        json.dump({'property': pid, 'theorems_or_obligations_that_no_longer_check': proof_broken,
                   'correspondence_disagreements': [{'what': k, 'detail': dd} for (k, dd, c) in disagreements[:5]]},
                  open(path, 'w'), indent=1)

    ev = {
        'property_id': pid, 'tier': tier, 'seed': seed, 'level': 'proof',
        'coverage': {
            'obligations': max(lb['obligations'], 1), 'discharged': lb['discharged'],
            'checker_cmd': 'cd lean && lake build KpModel.Props.%s && lake env lean --run Audit/Main.lean KpModel.Props.%s' % (pid, pid),
            'trusted_base': props.TRUSTED_BASE + spec.get('trusted', []),
            'theorems': [n for (n, _) in lb['theorems']],
            'axioms_used': sorted({a for (_, ax) in lb['theorems'] for a in ax}),
            'partial_statements': spec.get('partial', []),
            'evaluations': stats['evaluations'], 'distinct_nontrivial': len(distinct),
            'rule': spec.get('rule', ''),
            'traces_validated_against_impl': stats['agree'] + stats['known'],
            'disagreements_checked': stats['disagree'],
            'verdicts': stats, 'input_distribution': hist,
            'samples': samples, 'exhaustive': bool(spec.get('exhaustive', {}).get(tier, False)),
            'known_findings_reproduced': sorted(knownhits.keys()),
            'proof_obligations_broken': proof_broken,
        },
        'assumptions': spec.get('assumptions', []),
        'wall_s': round(time.time() - t0, 2),
        'violations': len(reported) + (1 if (exit_code == 1 and not reported) else 0),
    }
    os.makedirs(os.path.join(VERIF, 'evidence'), exist_ok=True)
    json.dump(ev, open(os.path.join(VERIF, 'evidence', pid + '.json'), 'w'), indent=1, sort_keys=True)
    for l in lines:
        print(l)
    print('%s %s tier=%s seed=%d cases=%d agree=%d known=%d disagree=%d specfail=%d obligations=%d/%d wall=%.1fs' % (
        pid, 'OK' if exit_code == 0 else 'FAIL', tier, seed, stats['evaluations'], stats['agree'], stats['known'],
        stats['disagree'], stats['specfail'], lb['discharged'], lb['obligations'], time.time() - t0))
    return exit_code


def distinct_disagreements(ds, limit=12):
    seen, out = set(), []
    for (k, dd, c) in ds:
        sig = (k, str(dd)[:60])
        if sig in seen:
            continue
        seen.add(sig)
        out.append((k, dd, c))
        if len(out) >= limit:
            break
    return out


def setup():
    with Lock('build'):
        gen_consts()
        rc, out = run(['lake', 'build', 'KpModel', 'kpdriver'], cwd=LEAN, timeout=7200)
        print(out[-2000:])
        if rc != 0:
            return 1
        for pid in sorted(props.PROPS):
            rc, out = run(['lake', 'build', 'KpModel.Props.%s' % pid], cwd=LEAN, timeout=7200)
            if rc != 0:
                print(out[-2000:])
        ok, out = harness_build()
        print(out[-1500:])
        return 0 if ok else 1


def replay(path):
    d = json.load(open(path))
    pid = d['property']
    case = d.get('case')
    if case is None:
        print(json.dumps(d, indent=1)[:4000])
        return 0
    with Lock('build'):
        ok, out = harness_build()
    args = case.get('replay_args')
    if args:
        p = subprocess.run([HARNESS_BIN_PLAIN if case.get('library_features') == 'without-_merge' else HARNESS_BIN] + args, stdout=subprocess.PIPE, env=ENV)
        lines = p.stdout.decode().splitlines()
        want = case.get('n')
        for l in lines:
            c = json.loads(l)
            if want is None or c.get('n') == want or len(lines) == 1:
                p2 = subprocess.run([DRIVER_BIN], input=(l + '\n').encode(), stdout=subprocess.PIPE, env=ENV)
                o = json.loads(p2.stdout.decode())
                judge = props.PROPS[pid].get('judge', props.default_judge)
                for v in judge(c, o):
                    print(v)
                return 0
    print('case has no replay_args; stored case follows')
    print(json.dumps(case)[:4000])
    return 0


def main(argv):
    if not argv:
        print(__doc__)
        return 2
    if argv[0] == 'setup':
        return setup()
    if argv[0] == 'replay':
        return replay(argv[1])
    pid = argv[0]
    tier = os.environ.get('VERIF_TIER', 'quick')
    seed = int(os.environ.get('VERIF_SEED', '1'))
    i = 1
    while i < len(argv):
        if argv[i] == '--tier':
            tier = argv[i + 1]; i += 2
        elif argv[i] == '--seed':
            seed = int(argv[i + 1]); i += 2
        else:
            i += 1
    if pid not in props.PROPS:
        print('unknown property', pid)
        return 2
    return check(pid, tier, seed)
