//! Panic capture: a hook that records location, message and (once per location) the innermost
//! `keepass::` function on the backtrace; `catch` runs a closure under `catch_unwind`.
use std::cell::RefCell;
use std::collections::HashMap;
use std::panic::{self, AssertUnwindSafe};
use std::sync::Mutex;

#[derive(Clone, Debug)]
pub struct PanicInfo {
    pub file: String,
    pub line: u32,
    pub message: String,
    pub function: String,
}

thread_local! {
    static LAST: RefCell<Option<PanicInfo>> = RefCell::new(None);
    static IN_CATCH: RefCell<bool> = RefCell::new(false);
}
static FUNCS: Mutex<Option<HashMap<(String, u32), String>>> = Mutex::new(None);

fn innermost_keepass_fn() -> String {
    let bt = std::backtrace::Backtrace::force_capture().to_string();
    for line in bt.lines() {
        let l = line.trim();
        // frames look like "12: keepass::format::kdbx4::parse::parse_outer_header"
        if let Some(idx) = l.find(": ") {
            let name = &l[idx + 2..];
            if (name.starts_with("keepass::") || name.starts_with("<keepass::")) && !name.contains("{{closure}}") {
                return name.to_string();
            }
        }
    }
    for line in bt.lines() {
        let l = line.trim();
        if let Some(idx) = l.find(": ") {
            let name = &l[idx + 2..];
            if name.contains("keepass::") {
                return name.to_string();
            }
        }
    }
    "?".to_string()
}

pub fn install() {
    panic::set_hook(Box::new(|info| {
        let (file, line) = match info.location() {
            Some(l) => (l.file().to_string(), l.line()),
            None => ("?".to_string(), 0),
        };
        let message = if let Some(s) = info.payload().downcast_ref::<&str>() {
            s.to_string()
        } else if let Some(s) = info.payload().downcast_ref::<String>() {
            s.clone()
        } else {
            "?".to_string()
        };
        // locations inside the library identify their function (cache); locations inside dependencies
        // (byteorder, generic-array, chrono …) are shared by many callers: walk the backtrace every time
        let function = if file.starts_with("/repo/") || file.starts_with("src/") {
            let mut g = FUNCS.lock().unwrap();
            let m = g.get_or_insert_with(HashMap::new);
            m.entry((file.clone(), line)).or_insert_with(innermost_keepass_fn).clone()
        } else {
            innermost_keepass_fn()
        };
        if !IN_CATCH.with(|c| *c.borrow()) {
            eprintln!("harness panic (outside catch) at {}:{}: {}", file, line, message);
        }
        LAST.with(|l| *l.borrow_mut() = Some(PanicInfo { file, line, message, function }));
    }));
}

/// message class: index/range, unwrap-on-None, length mismatch, arithmetic, explicit
pub fn class(msg: &str) -> &'static str {
    if msg.contains("out of range") || msg.contains("out of bounds") || msg.contains("slice index") {
        "index"
    } else if msg.contains("unwrap()") || msg.contains("called `Option::unwrap") || msg.contains("called `Result::unwrap") {
        "unwrap"
    } else if msg.contains("copy_from_slice") || msg.contains("length") || msg.contains("assertion") {
        "length"
    } else if msg.contains("overflow") || msg.contains("divide by zero") || msg.contains("remainder") || msg.contains("out-of-range") {
        "arith"
    } else {
        "explicit"
    }
}

impl PanicInfo {
    /// site = innermost keepass function + message class (never a line number)
    pub fn site(&self) -> String {
        let f = self.function.trim_start_matches('<');
        format!("{}:{}", f, class(&self.message))
    }
}

/// watchdog for calls into the library that do not return: deadline in ms since `START` (0 = none)
static DEADLINE_MS: std::sync::atomic::AtomicU64 = std::sync::atomic::AtomicU64::new(0);
static START: std::sync::OnceLock<std::time::Instant> = std::sync::OnceLock::new();
static LABEL: Mutex<String> = Mutex::new(String::new());
pub const HANG_SECS: u64 = 20;

fn now_ms() -> u64 {
    START.get_or_init(std::time::Instant::now).elapsed().as_millis() as u64 + 1
}

/// what the harness is doing (printed when the watchdog fires)
pub fn set_label(l: String) {
    *LABEL.lock().unwrap() = l;
}

pub fn start_watchdog() {
    now_ms();
    std::thread::spawn(|| loop {
        std::thread::sleep(std::time::Duration::from_millis(200));
        let d = DEADLINE_MS.load(std::sync::atomic::Ordering::SeqCst);
        if d != 0 && now_ms() > d {
            eprintln!("HANG: a call into the library did not return within {} s; {}", HANG_SECS, LABEL.lock().map(|l| l.clone()).unwrap_or_default());
            std::process::exit(3);
        }
    });
}

/// `catch` under the watchdog: the process exits with status 3 when the call does not return within `HANG_SECS`
pub fn catch<T>(f: impl FnOnce() -> T) -> Result<T, PanicInfo> {
    DEADLINE_MS.store(now_ms() + HANG_SECS * 1000, std::sync::atomic::Ordering::SeqCst);
    let r = catch_nowd(f);
    DEADLINE_MS.store(0, std::sync::atomic::Ordering::SeqCst);
    r
}

/// `catch` without the watchdog (for callers that run their own time-out)
pub fn catch_nowd<T>(f: impl FnOnce() -> T) -> Result<T, PanicInfo> {
    LAST.with(|l| *l.borrow_mut() = None);
    IN_CATCH.with(|c| *c.borrow_mut() = true);
    let r = panic::catch_unwind(AssertUnwindSafe(f));
    IN_CATCH.with(|c| *c.borrow_mut() = false);
    match r {
        Ok(v) => Ok(v),
        Err(_) => Err(LAST.with(|l| l.borrow_mut().take()).unwrap_or(PanicInfo {
            file: "?".into(),
            line: 0,
            message: "?".into(),
            function: "?".into(),
        })),
    }
}
