//! Independent renderer of the KeePass 2 XML document from an in-memory `Database` with surface variations:
//! child order inside a parent, unknown elements, inter-element white space and comments, `<a/>` vs `<a></a>`,
//! ISO-8601 vs base64 time stamps, letter case of booleans and of the `Protected` / `Compressed` attribute values.
//! Protected values are XOR-ed with the inner key stream in document order.  Shares nothing with the library's writer.
use crate::rng::Rng;
use keepass::db::*;

pub struct Surface<'a> {
    pub rng: &'a mut Rng,
    pub vary: bool,         // false: canonical order, base64 times, no noise
    pub iso_times: bool,    // KDBX 3.1 style
    pub keystream: Vec<u8>, // long enough
    pub ks_off: usize,
    pub out: String,
}

fn esc(s: &str) -> String {
    let mut o = String::new();
    for c in s.chars() {
        match c {
            '&' => o.push_str("&amp;"),
            '<' => o.push_str("&lt;"),
            '>' => o.push_str("&gt;"),
            '"' => o.push_str("&quot;"),
            '\r' => o.push_str("&#13;"),
            _ => o.push(c),
        }
    }
    o
}

fn b64(b: &[u8]) -> String {
    use base64::Engine;
    base64::engine::general_purpose::STANDARD.encode(b)
}

impl<'a> Surface<'a> {
    fn noise(&mut self) {
        if !self.vary {
            return;
        }
        match self.rng.below(6) {
            0 => self.out.push_str("\n  "),
            1 => self.out.push_str("<!-- c -->"),
            2 => self.out.push_str("\r\n\t"),
            _ => {}
        }
    }
    /// an element the schema does not know at this place, with an arbitrary subtree: descendants may carry the same name
    /// as the element itself or the name of a schema element, attributes, text, comments; readers skip it as a whole
    fn unknown(&mut self) {
        if self.vary && self.rng.chance(1, 4) {
            let name = *self.rng.pick(&["Unknown", "X", "Future", "PluginTree", "PreviousParentGroup"]);
            let t = self.unknown_tree(name, 0);
            self.out.push_str(&t);
        }
    }
    fn unknown_tree(&mut self, name: &str, depth: usize) -> String {
        let attrs = match self.rng.below(4) { 0 => " a=\"1\"".to_string(), 1 => " Protected=\"True\" b=\"x &amp; y\"".to_string(), _ => String::new() };
        if depth >= 3 || self.rng.chance(1, 3) {
            return match self.rng.below(3) {
                0 => format!("<{}{}/>", name, attrs),
                1 => format!("<{}{}></{}>", name, attrs, name),
                _ => format!("<{}{}>{}</{}>", name, attrs, self.rng.pick(&["text", "AAAAAAAAAAAAAAAAAAAAAA==", " ", "&lt;x&gt;"]), name),
            };
        }
        let mut inner = String::new();
        for _ in 0..self.rng.range(1, 3) {
            // same name as the element itself, a schema name, or another unknown name
            let child = if self.rng.chance(1, 3) { name.to_string() } else { self.rng.pick(&["Group", "Entry", "String", "Value", "Times", "UUID", "History", "Y", "Z"]).to_string() };
            inner.push_str(&self.unknown_tree(&child, depth + 1));
            if self.rng.chance(1, 4) {
                inner.push_str("<!-- c -->");
            }
        }
        format!("<{}{}>{}</{}>", name, attrs, inner, name)
    }
    fn open(&mut self, name: &str) {
        self.noise();
        self.out.push_str(&format!("<{}>", name));
    }
    fn close(&mut self, name: &str) {
        self.noise();
        self.out.push_str(&format!("</{}>", name));
    }
    fn text_tag(&mut self, name: &str, s: &str) {
        self.noise();
        if s.is_empty() {
            if self.vary && self.rng.chance(1, 2) {
                self.out.push_str(&format!("<{}></{}>", name, name));
            } else {
                self.out.push_str(&format!("<{} />", name));
            }
        } else {
            self.out.push_str(&format!("<{}>{}</{}>", name, esc(s), name));
        }
    }
    fn bool_text(&mut self, b: bool) -> String {
        let base = if b { "True" } else { "False" };
        if self.vary {
            match self.rng.below(3) {
                0 => base.to_lowercase(),
                1 => base.to_uppercase(),
                _ => base.to_string(),
            }
        } else {
            base.to_string()
        }
    }
    fn time_text(&mut self, t: &chrono::NaiveDateTime) -> String {
        let iso_ok = {
            use chrono::Datelike;
            (0..=9999).contains(&t.year())
        };
        let iso = iso_ok && (self.iso_times || (self.vary && self.rng.chance(1, 3)));
        if iso {
            t.format("%Y-%m-%dT%H:%M:%SZ").to_string()
        } else {
            let secs = t.and_utc().timestamp() + 62135596800;
            b64(&secs.to_le_bytes())
        }
    }
    fn value(&mut self, v: &Value) {
        self.noise();
        match v {
            Value::Unprotected(s) => {
                if s.is_empty() {
                    self.out.push_str("<Value/>");
                } else {
                    self.out.push_str(&format!("<Value>{}</Value>", esc(s)));
                }
            }
            Value::Protected(p) => {
                let pt = p.unsecure();
                let ct: Vec<u8> = pt.iter().zip(self.keystream[self.ks_off..self.ks_off + pt.len()].iter()).map(|(a, b)| a ^ b).collect();
                self.ks_off += pt.len();
                let attr = if self.vary { *self.rng.pick(&["True", "true", "TRUE"]) } else { "True" };
                self.out.push_str(&format!("<Value Protected=\"{}\">{}</Value>", attr, b64(&ct)));
            }
            Value::Bytes(b) => {
                self.out.push_str(&format!("<Value>{}</Value>", esc(&String::from_utf8_lossy(b))));
            }
        }
    }
    /// run the parts in a random order when varying
    fn shuffled(&mut self, mut parts: Vec<Box<dyn FnOnce(&mut Surface) + '_>>) {
        if self.vary {
            self.rng.shuffle(&mut parts);
        }
        for p in parts {
            p(self);
            self.unknown_allowed();
        }
    }
    fn unknown_allowed(&mut self) {}

    fn times(&mut self, t: &Times) {
        self.open("Times");
        let mut parts: Vec<Box<dyn FnOnce(&mut Surface)>> = Vec::new();
        let mut names: Vec<(&String, &chrono::NaiveDateTime)> = t.times.iter().collect();
        names.sort();
        for (n, v) in names {
            let (n, v) = (n.clone(), *v);
            parts.push(Box::new(move |s: &mut Surface| {
                let tt = s.time_text(&v);
                s.text_tag(&n, &tt)
            }));
        }
        let (e, u) = (t.expires, t.usage_count);
        parts.push(Box::new(move |s: &mut Surface| {
            let b = s.bool_text(e);
            s.text_tag("Expires", &b)
        }));
        parts.push(Box::new(move |s: &mut Surface| s.text_tag("UsageCount", &u.to_string())));
        self.shuffled(parts);
        self.close("Times");
    }
    fn custom_data(&mut self, c: &CustomData) {
        self.open("CustomData");
        let mut items: Vec<(&String, &CustomDataItem)> = c.items.iter().collect();
        items.sort_by(|a, b| a.0.cmp(b.0));
        if self.vary {
            self.rng.shuffle(&mut items);
        }
        for (k, it) in items {
            self.open("Item");
            let mut parts: Vec<Box<dyn FnOnce(&mut Surface)>> = Vec::new();
            let k = k.clone();
            parts.push(Box::new(move |s: &mut Surface| s.text_tag("Key", &k)));
            if let Some(v) = it.value.clone() {
                parts.push(Box::new(move |s: &mut Surface| s.value(&v)));
            }
            if let Some(t) = it.last_modification_time {
                parts.push(Box::new(move |s: &mut Surface| {
                    let tt = s.time_text(&t);
                    s.text_tag("LastModificationTime", &tt)
                }));
            }
            self.shuffled(parts);
            self.close("Item");
        }
        self.close("CustomData");
    }
    fn entry(&mut self, e: &Entry) {
        self.open("Entry");
        let mut parts: Vec<Box<dyn FnOnce(&mut Surface)>> = Vec::new();
        let uuid = e.uuid;
        parts.push(Box::new(move |s: &mut Surface| s.text_tag("UUID", &b64(uuid.as_bytes()))));
        let tags = e.tags.join(";");
        parts.push(Box::new(move |s: &mut Surface| s.text_tag("Tags", &tags)));
        let mut fields: Vec<(&String, &Value)> = e.fields.iter().collect();
        fields.sort_by(|a, b| a.0.cmp(b.0));
        for (k, v) in fields {
            let (k, v) = (k.clone(), v.clone());
            parts.push(Box::new(move |s: &mut Surface| {
                s.open("String");
                if s.vary && s.rng.chance(1, 2) {
                    // Value before Key
                    s.value(&v);
                    s.text_tag("Key", &k);
                } else {
                    s.text_tag("Key", &k);
                    s.value(&v);
                }
                s.unknown();
                s.close("String");
            }));
        }
        let cd = e.custom_data.clone();
        parts.push(Box::new(move |s: &mut Surface| s.custom_data(&cd)));
        if let Some(a) = e.autotype.clone() {
            parts.push(Box::new(move |s: &mut Surface| {
                s.open("AutoType");
                let b = s.bool_text(a.enabled);
                s.text_tag("Enabled", &b);
                if s.vary && s.rng.chance(1, 2) {
                    s.text_tag("DataTransferObfuscation", "0");
                }
                if let Some(q) = &a.sequence {
                    s.text_tag("DefaultSequence", q);
                }
                s.unknown();
                for as_ in &a.associations {
                    s.open("Association");
                    if let Some(w) = &as_.window {
                        s.text_tag("Window", w);
                    }
                    s.unknown();
                    if let Some(k) = &as_.sequence {
                        s.text_tag("KeystrokeSequence", k);
                    }
                    s.close("Association");
                }
                s.close("AutoType");
            }));
        }
        let t = e.times.clone();
        parts.push(Box::new(move |s: &mut Surface| s.times(&t)));
        if let Some(v) = e.icon_id {
            parts.push(Box::new(move |s: &mut Surface| s.text_tag("IconID", &v.to_string())));
        }
        if let Some(v) = e.custom_icon_uuid {
            parts.push(Box::new(move |s: &mut Surface| s.text_tag("CustomIconUUID", &b64(v.as_bytes()))));
        }
        if let Some(c) = e.foreground_color.clone() {
            parts.push(Box::new(move |s: &mut Surface| s.text_tag("ForegroundColor", &format!("#{:02X}{:02x}{:02X}", c.r, c.g, c.b))));
        }
        if let Some(c) = e.background_color.clone() {
            parts.push(Box::new(move |s: &mut Surface| s.text_tag("BackgroundColor", &format!("#{:02x}{:02x}{:02x}", c.r, c.g, c.b))));
        }
        if let Some(v) = e.override_url.clone() {
            parts.push(Box::new(move |s: &mut Surface| s.text_tag("OverrideURL", &v)));
        }
        if let Some(v) = e.quality_check {
            parts.push(Box::new(move |s: &mut Surface| {
                let b = s.bool_text(v);
                s.text_tag("QualityCheck", &b)
            }));
        }
        if let Some(h) = e.history.clone() {
            parts.push(Box::new(move |s: &mut Surface| {
                s.open("History");
                for he in h.get_entries() {
                    s.entry(he);
                    s.unknown();
                }
                s.close("History");
            }));
        }
        parts.push(Box::new(|s: &mut Surface| s.unknown()));
        self.shuffled(parts);
        self.close("Entry");
    }
    fn group(&mut self, g: &Group) {
        self.open("Group");
        // scalar parts in random order; children keep their relative order but are interleaved with the scalar parts
        let mut parts: Vec<Box<dyn FnOnce(&mut Surface)>> = Vec::new();
        let (uuid, name) = (g.uuid, g.name.clone());
        parts.push(Box::new(move |s: &mut Surface| s.text_tag("UUID", &b64(uuid.as_bytes()))));
        parts.push(Box::new(move |s: &mut Surface| s.text_tag("Name", &name)));
        if let Some(v) = g.notes.clone() {
            parts.push(Box::new(move |s: &mut Surface| s.text_tag("Notes", &v)));
        }
        if let Some(v) = g.icon_id {
            parts.push(Box::new(move |s: &mut Surface| s.text_tag("IconID", &v.to_string())));
        }
        if let Some(v) = g.custom_icon_uuid {
            parts.push(Box::new(move |s: &mut Surface| s.text_tag("CustomIconUUID", &b64(v.as_bytes()))));
        }
        let t = g.times.clone();
        parts.push(Box::new(move |s: &mut Surface| s.times(&t)));
        let cd = g.custom_data.clone();
        parts.push(Box::new(move |s: &mut Surface| s.custom_data(&cd)));
        let ie = g.is_expanded;
        parts.push(Box::new(move |s: &mut Surface| {
            let b = s.bool_text(ie);
            s.text_tag("IsExpanded", &b)
        }));
        if let Some(v) = g.default_autotype_sequence.clone() {
            parts.push(Box::new(move |s: &mut Surface| s.text_tag("DefaultAutoTypeSequence", &v)));
        }
        if let Some(v) = g.enable_autotype.clone() {
            parts.push(Box::new(move |s: &mut Surface| s.text_tag("EnableAutoType", &v)));
        }
        if let Some(v) = g.enable_searching.clone() {
            parts.push(Box::new(move |s: &mut Surface| s.text_tag("EnableSearching", &v)));
        }
        if let Some(v) = g.last_top_visible_entry {
            parts.push(Box::new(move |s: &mut Surface| s.text_tag("LastTopVisibleEntry", &b64(v.as_bytes()))));
        }
        if self.vary {
            self.rng.shuffle(&mut parts);
        }
        // positions at which the children are emitted
        let n = parts.len();
        let mut cuts: Vec<usize> = g.children.iter().map(|_| if self.vary { self.rng.below(n as u64 + 1) as usize } else { n }).collect();
        cuts.sort();
        let mut ci = 0;
        for (i, p) in parts.into_iter().enumerate() {
            while ci < cuts.len() && cuts[ci] == i {
                self.child(&g.children[ci]);
                ci += 1;
            }
            p(self);
            self.unknown();
        }
        while ci < cuts.len() {
            self.child(&g.children[ci]);
            ci += 1;
        }
        self.close("Group");
    }
    fn child(&mut self, n: &Node) {
        match n {
            Node::Group(g) => self.group(g),
            Node::Entry(e) => self.entry(e),
        }
    }
    fn meta(&mut self, m: &Meta) {
        self.open("Meta");
        let mut parts: Vec<Box<dyn FnOnce(&mut Surface)>> = Vec::new();
        macro_rules! opt_text {
            ($name:expr, $v:expr) => {
                if let Some(v) = $v.clone() {
                    parts.push(Box::new(move |s: &mut Surface| s.text_tag($name, &v)));
                }
            };
        }
        macro_rules! opt_time {
            ($name:expr, $v:expr) => {
                if let Some(v) = $v {
                    parts.push(Box::new(move |s: &mut Surface| {
                        let tt = s.time_text(&v);
                        s.text_tag($name, &tt)
                    }));
                }
            };
        }
        macro_rules! opt_disp {
            ($name:expr, $v:expr) => {
                if let Some(v) = $v {
                    parts.push(Box::new(move |s: &mut Surface| s.text_tag($name, &v.to_string())));
                }
            };
        }
        macro_rules! opt_uuid {
            ($name:expr, $v:expr) => {
                if let Some(v) = $v {
                    parts.push(Box::new(move |s: &mut Surface| s.text_tag($name, &b64(v.as_bytes()))));
                }
            };
        }
        opt_text!("Generator", m.generator);
        opt_text!("DatabaseName", m.database_name);
        opt_time!("DatabaseNameChanged", m.database_name_changed);
        opt_text!("DatabaseDescription", m.database_description);
        opt_time!("DatabaseDescriptionChanged", m.database_description_changed);
        opt_text!("DefaultUserName", m.default_username);
        opt_time!("DefaultUserNameChanged", m.default_username_changed);
        opt_disp!("MaintenanceHistoryDays", m.maintenance_history_days);
        if let Some(c) = m.color.clone() {
            parts.push(Box::new(move |s: &mut Surface| s.text_tag("Color", &format!("#{:02x}{:02X}{:02x}", c.r, c.g, c.b))));
        }
        opt_time!("MasterKeyChanged", m.master_key_changed);
        opt_disp!("MasterKeyChangeRec", m.master_key_change_rec);
        opt_disp!("MasterKeyChangeForce", m.master_key_change_force);
        if let Some(p) = m.memory_protection.clone() {
            parts.push(Box::new(move |s: &mut Surface| {
                s.open("MemoryProtection");
                for (n, v) in [("ProtectTitle", p.protect_title), ("ProtectUserName", p.protect_username), ("ProtectPassword", p.protect_password), ("ProtectURL", p.protect_url), ("ProtectNotes", p.protect_notes)] {
                    let b = s.bool_text(v);
                    s.text_tag(n, &b);
                    s.unknown();
                }
                s.close("MemoryProtection");
            }));
        }
        let icons = m.custom_icons.icons.clone();
        parts.push(Box::new(move |s: &mut Surface| {
            s.open("CustomIcons");
            for i in &icons {
                s.open("Icon");
                s.text_tag("UUID", &b64(i.uuid.as_bytes()));
                s.unknown();
                s.text_tag("Data", &b64(&i.data));
                s.close("Icon");
            }
            s.close("CustomIcons");
        }));
        if let Some(v) = m.recyclebin_enabled {
            parts.push(Box::new(move |s: &mut Surface| {
                let b = s.bool_text(v);
                s.text_tag("RecycleBinEnabled", &b)
            }));
        }
        opt_uuid!("RecycleBinUUID", m.recyclebin_uuid);
        opt_time!("RecycleBinChanged", m.recyclebin_changed);
        opt_uuid!("EntryTemplatesGroup", m.entry_templates_group);
        opt_time!("EntryTemplatesGroupChanged", m.entry_templates_group_changed);
        opt_uuid!("LastSelectedGroup", m.last_selected_group);
        opt_uuid!("LastTopVisibleGroup", m.last_top_visible_group);
        opt_disp!("HistoryMaxItems", m.history_max_items);
        opt_disp!("HistoryMaxSize", m.history_max_size);
        opt_time!("SettingsChanged", m.settings_changed);
        let bins = m.binaries.binaries.clone();
        parts.push(Box::new(move |s: &mut Surface| {
            s.open("Binaries");
            for b in &bins {
                s.noise();
                let mut attrs = String::new();
                if let Some(id) = &b.identifier {
                    attrs.push_str(&format!(" ID=\"{}\"", esc(id)));
                }
                let data = if b.compressed {
                    let v = if s.vary { *s.rng.pick(&["True", "true", "TRUE"]) } else { "True" };
                    attrs.push_str(&format!(" Compressed=\"{}\"", v));
                    crate::kdbx::gzip(&b.content)
                } else {
                    b.content.clone()
                };
                s.out.push_str(&format!("<Binary{}>{}</Binary>", attrs, b64(&data)));
            }
            s.close("Binaries");
        }));
        let cd = m.custom_data.clone();
        parts.push(Box::new(move |s: &mut Surface| s.custom_data(&cd)));
        parts.push(Box::new(|s: &mut Surface| s.unknown()));
        self.shuffled(parts);
        self.close("Meta");
    }
    pub fn document(&mut self, db: &keepass::Database) {
        self.out.push_str("<?xml version=\"1.0\" encoding=\"utf-8\" standalone=\"yes\"?>");
        self.open("KeePassFile");
        let meta_first = !self.vary || self.rng.chance(2, 3);
        if meta_first {
            self.meta(&db.meta);
        }
        self.open("Root");
        let del_first = self.vary && self.rng.chance(1, 4);
        let dels = |s: &mut Surface| {
            s.open("DeletedObjects");
            for d in &db.deleted_objects.objects {
                s.open("DeletedObject");
                let t = s.time_text(&d.deletion_time);
                if s.vary && s.rng.chance(1, 2) {
                    s.text_tag("DeletionTime", &t);
                    s.text_tag("UUID", &b64(d.uuid.as_bytes()));
                } else {
                    s.text_tag("UUID", &b64(d.uuid.as_bytes()));
                    s.text_tag("DeletionTime", &t);
                }
                s.close("DeletedObject");
            }
            s.close("DeletedObjects");
        };
        if del_first {
            dels(self);
        }
        self.group(&db.root);
        if !del_first {
            dels(self);
        }
        self.close("Root");
        if !meta_first {
            self.meta(&db.meta);
        }
        self.close("KeePassFile");
    }
}

/// total length of protected plaintexts (upper bound for the key stream needed)
pub fn protected_len(db: &keepass::Database) -> usize {
    fn val(v: &Value) -> usize {
        match v {
            Value::Protected(p) => p.unsecure().len(),
            _ => 0,
        }
    }
    fn cd(c: &CustomData) -> usize {
        c.items.values().map(|i| i.value.as_ref().map(val).unwrap_or(0)).sum()
    }
    fn entry(e: &Entry) -> usize {
        e.fields.values().map(val).sum::<usize>() + cd(&e.custom_data) + e.history.as_ref().map(|h| h.get_entries().iter().map(entry).sum()).unwrap_or(0)
    }
    fn group(g: &Group) -> usize {
        cd(&g.custom_data)
            + g.children.iter().map(|c| match c { Node::Group(x) => group(x), Node::Entry(e) => entry(e) }).sum::<usize>()
    }
    cd(&db.meta.custom_data) + group(&db.root)
}
