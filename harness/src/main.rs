//! kpharness: runs the real keepass-rs library (path dependency on /repo, features save_kdbx4,_merge,totp)
//! on generated inputs and writes one JSON case per line: abstract inputs + canonicalised real results.
mod dump;
mod frame;
mod gendb;
mod history;
mod io;
mod kdbx;
mod keyop;
mod legacy;
#[cfg(feature = "merge")]
mod merge;
mod panicx;
mod probe;
mod totp;
mod rng;
mod saveop;
mod tree;
mod xmlgen;
mod xmlfuzz;

use rng::Rng;
use serde_json::Value as J;
use std::io::Write;

pub struct Ctx {
    pub rng: Rng,
    pub seed: u64,
    pub thorough: bool,
    pub count_override: Option<usize>,
    pub n: u64,
    pub out: Box<dyn Write>,
    pub args: Vec<String>,
    pub op: String,
    pub only: Option<u64>,
}

impl Ctx {
    pub fn count(&self, quick: usize, thorough: usize) -> usize {
        if let Some(c) = self.count_override {
            return c;
        }
        if self.thorough {
            thorough
        } else {
            quick
        }
    }
    pub fn emit(&mut self, mut case: J) {
        self.n += 1;
        panicx::set_label(format!("op={} seed={} args={:?}: {} cases were completed before the call that hangs", self.op, self.seed, self.args, self.n));
        if let Some(o) = self.only {
            if o != self.n {
                return;
            }
        }
        case["n"] = J::from(self.n);
        let mut ra: Vec<String> = vec![self.op.clone()];
        ra.extend(self.args.iter().cloned());
        if self.only.is_none() {
            ra.push("--only".into());
            ra.push(self.n.to_string());
        }
        case["replay_args"] = J::from(ra);
        case["seed"] = J::from(self.seed);
        if !cfg!(feature = "merge") {
            // this build links the library with its default features only (no `_merge`)
            case["library_features"] = J::from("without-_merge");
            if let Some(t) = case.get_mut("tags").and_then(|t| t.as_array_mut()) {
                t.push(J::from("library:without-_merge"));
            }
        }
        let s = serde_json::to_string(&case).unwrap();
        self.out.write_all(s.as_bytes()).unwrap();
        self.out.write_all(b"\n").unwrap();
    }
    /// a real call hung: what has been emitted so far (incl. the hanging case) is the result of this run
    pub fn out_flush_and_exit(&mut self) -> ! {
        self.out.flush().unwrap();
        std::process::exit(0);
    }
    pub fn arg(&self, name: &str) -> Option<String> {
        let mut it = self.args.iter();
        while let Some(a) = it.next() {
            if a == name {
                return it.next().cloned();
            }
        }
        None
    }
}

fn main() {
    panicx::install();
    panicx::start_watchdog();
    let args: Vec<String> = std::env::args().collect();
    if args.len() < 2 {
        eprintln!("usage: kpharness <op> [--seed N] [--tier quick|thorough] [--count N] [--out FILE]");
        std::process::exit(2);
    }
    let op = args[1].clone();
    let rest: Vec<String> = args[2..].to_vec();
    let get = |name: &str| -> Option<String> {
        let mut it = rest.iter();
        while let Some(a) = it.next() {
            if a == name {
                return it.next().cloned();
            }
        }
        None
    };
    let seed: u64 = get("--seed")
        .or_else(|| std::env::var("VERIF_SEED").ok())
        .and_then(|s| s.parse().ok())
        .unwrap_or(1);
    let thorough = get("--tier")
        .or_else(|| std::env::var("VERIF_TIER").ok())
        .map(|t| t == "thorough")
        .unwrap_or(false);
    let out: Box<dyn Write> = match get("--out") {
        Some(p) => Box::new(std::io::BufWriter::new(std::fs::File::create(p).unwrap())),
        None => Box::new(std::io::BufWriter::new(std::io::stdout())),
    };
    let mut ctx = Ctx {
        rng: Rng::new(seed),
        seed,
        thorough,
        count_override: get("--count").and_then(|s| s.parse().ok()),
        n: 0,
        out,
        args: rest.clone(),
        op: op.clone(),
        only: get("--only").and_then(|s| s.parse().ok()),
    };
    match op.as_str() {
        "tree" => tree::run(&mut ctx),
        "history" => history::run(&mut ctx),
        "ioread" => io::run_read(&mut ctx),
        "iowrite" => io::run_write(&mut ctx),
        "totp" => totp::run(&mut ctx),
        "key" => keyop::run(&mut ctx),
        #[cfg(feature = "merge")]
        "merge" => merge::run(&mut ctx),
        "probe" => probe::run(),
        "save" => saveop::run(&mut ctx, false),
        "save-hostile" => saveop::run(&mut ctx, true),
        "frame-wf" => frame::run_wf(&mut ctx),
        "frame-cred" => frame::run_cred(&mut ctx),
        "frame-tamper" => frame::run_tamper(&mut ctx),
        "frame-fuzz" => frame::run_fuzz4(&mut ctx),
        "surface" => legacy::run_surface(&mut ctx),
        "legacy-wf" => legacy::run_wf(&mut ctx),
        "legacy-cred" => legacy::run_cred(&mut ctx),
        "legacy-fuzz" => legacy::run_fuzz(&mut ctx),
        "xml-fuzz" => xmlfuzz::run(&mut ctx),
        "selftest" => ctx.emit(serde_json::json!({"op": "selftest", "real": {"vectors": []}})),
        _ => {
            eprintln!("unknown op {}", op);
            std::process::exit(2);
        }
    }
    ctx.out.flush().unwrap();
}
