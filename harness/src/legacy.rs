//! Independent builders for KDBX 3.1 and KDB (KeePass 1) files, and the ops that run the real reader and the
//! Lean models on them (C02, legacy parts of C04 and C06), plus the XML-surface op for KDBX4 (C01).
use crate::frame::{self, err_class, gen_creds};
use crate::gendb::Gen;
use crate::kdbx::{self, Inner, Kdbx4Spec, Kdf, Layout, Outer};
use crate::keyop::{make_key, ref_composite, ref_elements};
use crate::panicx::catch;
use crate::rng::Rng;
use crate::saveop::tokenize;
use crate::xmlgen::{protected_len, Surface};
use crate::{dump, Ctx};
use keepass::db::*;
use keepass::{Database, DatabaseKey};
use serde_json::{json, Value as J};

// ---------------------------------------------------------------- KDBX 3.1

#[derive(Clone, Debug)]
pub struct Kdbx3Spec {
    pub minor: u16,
    pub outer: Outer,
    pub compress: bool,
    pub master_seed: Vec<u8>,
    pub transform_seed: Vec<u8>,
    pub rounds: u64,
    pub iv: Vec<u8>,
    pub stream_key: Vec<u8>,
    pub stream_start: Vec<u8>,
    pub inner: Inner,
    pub xml: Vec<u8>,
}

fn tlv2(out: &mut Vec<u8>, t: u8, v: &[u8]) {
    out.push(t);
    out.extend_from_slice(&(v.len() as u16).to_le_bytes());
    out.extend_from_slice(v);
}

pub fn kdbx3_header(s: &Kdbx3Spec, order: &[u8], comments: &[Vec<u8>]) -> Vec<u8> {
    let mut h = Vec::new();
    h.extend_from_slice(&kdbx::SIG1);
    h.extend_from_slice(&kdbx::le32(kdbx::SIG2_KDBX));
    h.extend_from_slice(&kdbx::le16(s.minor));
    h.extend_from_slice(&kdbx::le16(3));
    let mut ci = 0;
    for id in order {
        match id {
            1 => {
                tlv2(&mut h, 1, comments.get(ci).map(|c| &c[..]).unwrap_or(&[]));
                ci += 1;
            }
            2 => tlv2(&mut h, 2, &s.outer.uuid()),
            3 => tlv2(&mut h, 3, &kdbx::le32(if s.compress { 1 } else { 0 })),
            4 => tlv2(&mut h, 4, &s.master_seed),
            5 => tlv2(&mut h, 5, &s.transform_seed),
            6 => tlv2(&mut h, 6, &kdbx::le64(s.rounds)),
            7 => tlv2(&mut h, 7, &s.iv),
            8 => tlv2(&mut h, 8, &s.stream_key),
            9 => tlv2(&mut h, 9, &s.stream_start),
            10 => tlv2(&mut h, 10, &kdbx::le32(s.inner.id())),
            _ => panic!("kdbx3 field"),
        }
    }
    tlv2(&mut h, 0, &[0x0d, 0x0a, 0x0d, 0x0a]);
    h
}

pub fn kdbx3_payload(s: &Kdbx3Spec, block_sizes: &[usize]) -> Vec<u8> {
    let data = if s.compress { kdbx::gzip(&s.xml) } else { s.xml.clone() };
    let mut p = s.stream_start.clone();
    let mut pos = 0;
    let mut id = 0u32;
    let mut sizes = block_sizes.to_vec();
    sizes.push(usize::MAX);
    for sz in sizes {
        if pos >= data.len() {
            break;
        }
        let n = sz.max(1).min(data.len() - pos);
        let chunk = &data[pos..pos + n];
        p.extend_from_slice(&id.to_le_bytes());
        p.extend_from_slice(&kdbx::sha256(&[chunk]));
        p.extend_from_slice(&(n as u32).to_le_bytes());
        p.extend_from_slice(chunk);
        pos += n;
        id += 1;
    }
    p.extend_from_slice(&id.to_le_bytes());
    p.extend_from_slice(&[0u8; 32]);
    p.extend_from_slice(&0u32.to_le_bytes());
    p
}

pub fn build_kdbx3(s: &Kdbx3Spec, order: &[u8], comments: &[Vec<u8>], block_sizes: &[usize], composite: &[u8]) -> Vec<u8> {
    let mut out = kdbx3_header(s, order, comments);
    let kdf = Kdf::Aes { rounds: s.rounds, seed: s.transform_seed.clone() };
    let tk = kdbx::transform(&kdf, composite).unwrap();
    let master = kdbx::sha256(&[&s.master_seed, &tk]);
    let payload = kdbx3_payload(s, block_sizes);
    out.extend_from_slice(&kdbx::enc_outer(&s.outer, &master, &s.iv, &payload).unwrap());
    out
}

/// lenient trace of the primitive calls for a KDBX3 file
pub fn oracle3(data: &[u8], composite: Option<&[u8]>) -> Vec<J> {
    let mut out = Vec::new();
    let mut pos = 12usize;
    let (mut cipher, mut compress, mut ms, mut ts, mut rounds, mut iv): (Option<Outer>, Option<bool>, Option<Vec<u8>>, Option<Vec<u8>>, Option<u64>, Option<Vec<u8>>) = (None, None, None, None, None, None);
    loop {
        if pos + 3 > data.len() {
            return out;
        }
        let t = data[pos];
        let l = u16::from_le_bytes([data[pos + 1], data[pos + 2]]) as usize;
        if pos + 3 + l > data.len() {
            return out;
        }
        let v = &data[pos + 3..pos + 3 + l];
        pos += 3 + l;
        match t {
            0 => break,
            2 => cipher = Outer::from_uuid(v),
            3 => {
                if v.len() >= 4 {
                    compress = match u32::from_le_bytes([v[0], v[1], v[2], v[3]]) { 0 => Some(false), 1 => Some(true), _ => None }
                }
            }
            4 => ms = Some(v.to_vec()),
            5 => ts = Some(v.to_vec()),
            6 => {
                if v.len() >= 8 {
                    rounds = Some(u64::from_le_bytes([v[0], v[1], v[2], v[3], v[4], v[5], v[6], v[7]]))
                }
            }
            7 => iv = Some(v.to_vec()),
            _ => {}
        }
    }
    let (cipher, compress, ms, ts, rounds, iv, composite) = match (cipher, compress, ms, ts, rounds, iv, composite) {
        (Some(a), Some(b), Some(c), Some(d), Some(e), Some(f), Some(g)) => (a, b, c, d, e, f, g),
        _ => return out,
    };
    if ts.len() != 32 || rounds > 200_000 {
        return out;
    }
    let tk = kdbx::transform(&Kdf::Aes { rounds, seed: ts.clone() }, composite).unwrap();
    out.push(json!(["aeskdf", hex::encode(&ts), rounds, hex::encode(composite), hex::encode(&tk)]));
    let master = kdbx::sha256(&[&ms, &tk]);
    let ct = &data[pos..];
    let dec = kdbx::dec_outer(&cipher, &master, &iv, ct);
    out.push(json!(["decO", cipher.name(), hex::encode(&master), hex::encode(&iv), hex::encode(ct), dec.as_ref().ok().map(hex::encode)]));
    if let Ok(p) = dec {
        if compress {
            // concatenate the blocks as far as they verify
            let mut q = 32usize;
            let mut buf = Vec::new();
            loop {
                if q + 40 > p.len() {
                    break;
                }
                let n = u32::from_le_bytes([p[q + 36], p[q + 37], p[q + 38], p[q + 39]]) as usize;
                if n == 0 || q + 40 + n > p.len() {
                    break;
                }
                if p[q + 4..q + 36] != kdbx::sha256(&[&p[q + 40..q + 40 + n]])[..] {
                    break;
                }
                buf.extend_from_slice(&p[q + 40..q + 40 + n]);
                q += 40 + n;
            }
            let g = kdbx::gunzip(&buf);
            out.push(json!(["gunzip", hex::encode(&buf), g.ok().map(hex::encode)]));
        }
    }
    out
}

// ---------------------------------------------------------------- KDB

#[derive(Clone, Debug)]
pub struct KGroup {
    pub gid: u32,
    pub name: String,
    pub level: u16,
}
#[derive(Clone, Debug)]
pub struct KEntry {
    pub gid: u32,
    pub fields: Vec<(u16, Vec<u8>)>, // (field type, payload) for 4,5,6,7,8,0xd,0xe
}

fn rec(out: &mut Vec<u8>, t: u16, v: &[u8]) {
    out.extend_from_slice(&t.to_le_bytes());
    out.extend_from_slice(&(v.len() as u32).to_le_bytes());
    out.extend_from_slice(v);
}
fn cstr(s: &str) -> Vec<u8> {
    let mut v = s.as_bytes().to_vec();
    v.push(0);
    v
}

pub fn kdb_payload(rng: &mut Rng, groups: &[KGroup], entries: &[KEntry]) -> Vec<u8> {
    let mut p = Vec::new();
    for g in groups {
        let mut recs: Vec<(u16, Vec<u8>)> = vec![
            (0x0001, g.gid.to_le_bytes().to_vec()),
            (0x0002, cstr(&g.name)),
            (0x0003, vec![0; 5]),
            (0x0004, vec![0; 5]),
            (0x0005, vec![0; 5]),
            (0x0006, vec![0; 5]),
            (0x0007, 1u32.to_le_bytes().to_vec()),
            (0x0008, g.level.to_le_bytes().to_vec()),
            (0x0009, 0u32.to_le_bytes().to_vec()),
        ];
        if rng.chance(1, 3) {
            recs.push((0x0000, rng.bytes_below(6)));
        }
        rng.shuffle(&mut recs);
        for (t, v) in recs {
            rec(&mut p, t, &v);
        }
        rec(&mut p, 0xffff, &[]);
    }
    for e in entries {
        let mut recs: Vec<(u16, Vec<u8>)> = vec![
            (0x0001, rng.bytes(16)),
            (0x0002, e.gid.to_le_bytes().to_vec()),
            (0x0003, 0u32.to_le_bytes().to_vec()),
            (0x0009, vec![0; 5]),
            (0x000a, vec![0; 5]),
            (0x000b, vec![0; 5]),
            (0x000c, vec![0; 5]),
        ];
        recs.extend(e.fields.iter().cloned());
        rng.shuffle(&mut recs);
        for (t, v) in recs {
            rec(&mut p, t, &v);
        }
        rec(&mut p, 0xffff, &[]);
    }
    p
}

pub struct KdbSpec {
    pub twofish: bool,
    pub master_seed: Vec<u8>,
    pub iv: Vec<u8>,
    pub transform_seed: Vec<u8>,
    pub rounds: u32,
    pub version: u32,
}

pub fn build_kdb(s: &KdbSpec, payload: &[u8], ngroups: u32, nentries: u32, composite_kdb: &[u8]) -> Vec<u8> {
    let mut h = Vec::new();
    h.extend_from_slice(&kdbx::SIG1);
    h.extend_from_slice(&0xb54bfb65u32.to_le_bytes());
    h.extend_from_slice(&(1u32 | if s.twofish { 8 } else { 2 }).to_le_bytes());
    h.extend_from_slice(&s.version.to_le_bytes());
    h.extend_from_slice(&s.master_seed);
    h.extend_from_slice(&s.iv);
    h.extend_from_slice(&ngroups.to_le_bytes());
    h.extend_from_slice(&nentries.to_le_bytes());
    h.extend_from_slice(&kdbx::sha256(&[payload]));
    h.extend_from_slice(&s.transform_seed);
    h.extend_from_slice(&s.rounds.to_le_bytes());
    assert_eq!(h.len(), 124);
    let tk = kdbx::transform(&Kdf::Aes { rounds: s.rounds as u64, seed: s.transform_seed.clone() }, composite_kdb).unwrap();
    let master = kdbx::sha256(&[&s.master_seed, &tk]);
    let outer = if s.twofish { Outer::Twofish } else { Outer::Aes256 };
    h.extend_from_slice(&kdbx::enc_outer(&outer, &master, &s.iv, payload).unwrap());
    h
}

pub fn oracle_kdb(data: &[u8], composite_kdb: Option<&[u8]>) -> Vec<J> {
    let mut out = Vec::new();
    let comp = match composite_kdb {
        Some(c) if data.len() >= 124 && c.len() == 32 => c,
        _ => return out,
    };
    let flags = u32::from_le_bytes([data[8], data[9], data[10], data[11]]);
    let rounds = u32::from_le_bytes([data[120], data[121], data[122], data[123]]);
    if rounds > 200_000 {
        return out;
    }
    let ts = data[88..120].to_vec();
    let tk = kdbx::transform(&Kdf::Aes { rounds: rounds as u64, seed: ts.clone() }, comp).unwrap();
    out.push(json!(["aeskdf", hex::encode(&ts), rounds, hex::encode(comp), hex::encode(&tk)]));
    let master = kdbx::sha256(&[&data[16..32], &tk]);
    let outer = if flags & 2 != 0 { Outer::Aes256 } else if flags & 8 != 0 { Outer::Twofish } else { return out };
    let dec = kdbx::dec_outer(&outer, &master, &data[32..48], &data[124..]);
    out.push(json!(["decO", outer.name(), hex::encode(&master), hex::encode(&data[32..48]), hex::encode(&data[124..]), dec.ok().map(hex::encode)]));
    out
}

/// composite for KDB: a lone element is used as it is
pub fn ref_composite_kdb(pw: &Option<String>, kf: &Option<Vec<u8>>) -> Option<Vec<u8>> {
    let e = ref_elements(pw, kf);
    match e.len() {
        0 => None,
        1 => Some(e[0].clone()),
        _ => {
            let parts: Vec<&[u8]> = e.iter().map(|v| &v[..]).collect();
            Some(kdbx::sha256(&parts))
        }
    }
}

/// canonical dump of a KDB tree as the model sees it: groups by name, entries by fields
pub fn kdb_tree(g: &Group) -> J {
    J::Array(
        g.children
            .iter()
            .map(|c| match c {
                Node::Group(x) => json!({"g": [hex::encode(x.name.as_bytes()), kdb_tree(x)]}),
                Node::Entry(e) => {
                    let mut fs: Vec<(String, J)> = e
                        .fields
                        .iter()
                        .map(|(k, v)| {
                            (k.clone(), match v {
                                Value::Unprotected(s) => json!({"text": hex::encode(s.as_bytes())}),
                                Value::Protected(p) => json!({"secret": hex::encode(p.unsecure())}),
                                Value::Bytes(b) => json!({"raw": hex::encode(b)}),
                            })
                        })
                        .collect();
                    fs.sort_by(|a, b| a.0.cmp(&b.0));
                    json!({"e": fs.iter().map(|(k, v)| json!([k, v])).collect::<Vec<_>>()})
                }
            })
            .collect(),
    )
}

/// the textbook denotation: forest from (level, name) in preorder, entries attached to the group whose id they name
fn spec_tree(groups: &[KGroup], entries: &[KEntry]) -> J {
    #[derive(Clone)]
    struct N {
        name: String,
        gid: u32,
        kids: Vec<usize>,
        entries: Vec<usize>,
    }
    let mut nodes: Vec<N> = Vec::new();
    let mut roots: Vec<usize> = Vec::new();
    let mut stack: Vec<usize> = Vec::new();
    for g in groups {
        stack.truncate(g.level as usize);
        let idx = nodes.len();
        nodes.push(N { name: g.name.clone(), gid: g.gid, kids: vec![], entries: vec![] });
        match stack.last() {
            Some(&p) => nodes[p].kids.push(idx),
            None => roots.push(idx),
        }
        stack.push(idx);
    }
    for (i, e) in entries.iter().enumerate() {
        if let Some(n) = nodes.iter_mut().find(|n| n.gid == e.gid) {
            n.entries.push(i);
        }
    }
    fn name_of(t: u16) -> &'static str {
        match t { 4 => "Title", 5 => "URL", 6 => "UserName", 7 => "Password", 8 => "Additional", 0xd => "BinaryDesc", _ => "BinaryData" }
    }
    fn render(nodes: &[N], entries: &[KEntry], idx: usize) -> J {
        let n = &nodes[idx];
        let mut kids: Vec<J> = n.kids.iter().map(|&k| render(nodes, entries, k)).collect();
        for &ei in &n.entries {
            let mut fs: Vec<(String, J)> = Vec::new();
            for (t, v) in &entries[ei].fields {
                let trimmed: Vec<u8> = { let mut x = v.clone(); while x.last() == Some(&0) { x.pop(); } x };
                let val = match t { 7 => json!({"secret": hex::encode(&trimmed)}), 0xe => json!({"raw": hex::encode(v)}), _ => json!({"text": hex::encode(&trimmed)}) };
                fs.retain(|(k, _)| k != name_of(*t));
                fs.push((name_of(*t).to_string(), val));
            }
            fs.sort_by(|a, b| a.0.cmp(&b.0));
            kids.push(json!({"e": fs.iter().map(|(k, v)| json!([k, v])).collect::<Vec<_>>()}));
        }
        json!({"g": [hex::encode(n.name.as_bytes()), kids]})
    }
    J::Array(roots.iter().map(|&r| render(&nodes, entries, r)).collect())
}

fn gen_kdb_forest(rng: &mut Rng, dup_names: bool) -> (Vec<KGroup>, Vec<KEntry>) {
    let ng = rng.range(1, 7) as usize;
    let mut groups = Vec::new();
    let mut level = 0u16;
    let names: &[&str] = if dup_names { &["A", "A", "B"] } else { &["A", "B", "C", "Dä", "E", "F", "G", "H"] };
    for i in 0..ng {
        if i > 0 {
            level = rng.below(level as u64 + 2) as u16;
        }
        let mut name = if dup_names { names[rng.below(3) as usize].to_string() } else { format!("{}{}", names[i % names.len()], i) };
        if !dup_names && rng.chance(1, 4) {
            // trailing white space is content: "Work " and "Work" are different names
            name.push(*rng.pick(&[' ', '\t', '\n']));
        }
        groups.push(KGroup { gid: 100 + i as u32 * 7, name, level });
    }
    if rng.chance(1, 3) {
        // a group id is any 32-bit number: the smallest, the largest (KeePass 1 never hands it out, a file may hold it), the sign bit
        const EDGE: [u32; 8] = [0xffff_ffff, 0, 0x8000_0000, 0xffff_fffe, 1, 0x7fff_ffff, 0xdead_beef, 0x0100_0000];
        let off = rng.below(8) as usize;
        for (i, g) in groups.iter_mut().enumerate() {
            g.gid = EDGE[(off + i) % 8];
        }
    }
    let ne = rng.below(6) as usize;
    let mut entries = Vec::new();
    for _ in 0..ne {
        let gid = groups[rng.below(ng as u64) as usize].gid;
        let mut fields = Vec::new();
        for t in [4u16, 5, 6, 7, 8, 0xd] {
            if rng.chance(3, 4) {
                fields.push((t, cstr(*rng.pick(&["t", "user", "http://x", "sécret", "", "n o t e", "pw ", "line\r\n", " lead", "tab\t", " "]))));
            }
        }
        if rng.chance(1, 3) {
            fields.push((0xe, rng.bytes_below(12)));
        }
        entries.push(KEntry { gid, fields });
    }
    (groups, entries)
}

/// KDF cost budget (the properties exclude the time a file's own parameters demand)
pub fn kdbx3_within_budget(data: &[u8]) -> bool {
    let mut pos = 12usize;
    loop {
        if pos + 3 > data.len() {
            return true;
        }
        let t = data[pos];
        let l = u16::from_le_bytes([data[pos + 1], data[pos + 2]]) as usize;
        if pos + 3 + l > data.len() || t == 0 {
            return true;
        }
        if t == 6 && l >= 8 {
            let v = &data[pos + 3..];
            if u64::from_le_bytes([v[0], v[1], v[2], v[3], v[4], v[5], v[6], v[7]]) > 200_000 {
                return false;
            }
        }
        pos += 3 + l;
    }
}
pub fn kdb_within_budget(data: &[u8]) -> bool {
    data.len() < 124 || u32::from_le_bytes([data[120], data[121], data[122], data[123]]) <= 200_000
}

// ---------------------------------------------------------------- ops

fn observe_kdbx3(data: &[u8], key: &DatabaseKey) -> J {
    frame::observe(data, key)
}

fn content_case(ctx: &mut Ctx, sub: &str, xml: &[u8], inner: &Inner, inner_key: &[u8], db_real: &Result<Result<Database, keepass::error::DatabaseOpenError>, crate::panicx::PanicInfo>, intended: &Database, tags: Vec<String>) {
    // the XML content level: events from the harness's own tokenizer, key stream from the harness's own cipher
    let events = tokenize(xml);
    let ks = kdbx::inner_keystream(inner, inner_key, 0, protected_len(intended) + 64).unwrap_or_default();
    let want = dump::database(intended);
    let (reopen, content) = match db_real {
        Ok(Ok(d)) => {
            let dj = dump::database(d);
            ("ok".to_string(), json!({"root": dj["root"], "deleted_objects": dj["deleted_objects"], "meta": dj["meta"]}))
        }
        Ok(Err(e)) => (format!("err:{}", err_class(e)), J::Null),
        Err(p) => (format!("panic:{}", p.site()), J::Null),
    };
    // gunzip oracle for compressed pool binaries
    let mut oracle = Vec::new();
    for b in &intended.meta.binaries.binaries {
        if b.compressed {
            let z = kdbx::gzip(&b.content);
            oracle.push(json!(["gunzip", hex::encode(&z), hex::encode(&b.content)]));
        }
    }
    ctx.emit(json!({
        "op": "xml", "sub": sub, "events": events, "keystream": hex::encode(&ks), "oracle": oracle,
        "now": 0, "tags": tags, "nontrivial": true,
        "intended": {"root": want["root"], "deleted_objects": want["deleted_objects"], "meta": want["meta"]},
        "checks": {},
        "real": {"save": "n/a", "reopen": reopen, "reopen_content": content},
    }));
}

/// C01 (XML surface): KDBX4 files whose XML is rendered independently with surface variations
pub fn run_surface(ctx: &mut Ctx) {
    let count = ctx.count(200, 3000);
    for i in 0..count {
        let mut rng = ctx.rng.fork();
        let db = {
            let mut g = Gen::new(&mut rng, false);
            g.database()
        };
        let mut spec = frame::gen_spec(&mut rng);
        let creds = gen_creds(&mut rng);
        let comp = ref_composite(&creds.pw, &creds.kf).unwrap();
        let key = make_key(&creds.pw, &creds.kf);
        let ks = kdbx::inner_keystream(&spec.inner, &spec.inner_key, 0, protected_len(&db) + 64).unwrap();
        let xml = {
            let mut s = Surface { rng: &mut rng, vary: i % 5 != 0, iso_times: false, keystream: ks, ks_off: 0, out: String::new() };
            s.document(&db);
            s.out.into_bytes()
        };
        spec.xml = xml.clone();
        spec.attachments = db.header_attachments.iter().map(|a| (a.flags, a.content.clone())).collect();
        let layout = frame::gen_layout(&mut rng, &spec);
        let data = kdbx::build_kdbx4(&spec, &layout, &comp).unwrap();
        let real = catch(|| Database::parse(&data, key.clone()));
        content_case(ctx, "surface", &xml, &spec.inner, &spec.inner_key, &real, &db,
            vec![format!("inner:{}", spec.inner.name()), if i % 5 != 0 { "varied".into() } else { "canonical".into() }]);
    }
}

/// C02: conforming KDBX 3.1 and KDB files
pub fn run_wf(ctx: &mut Ctx) {
    let count = ctx.count(300, 5000);
    for i in 0..count {
        let mut rng = ctx.rng.fork();
        let creds = gen_creds(&mut rng);
        let key = make_key(&creds.pw, &creds.kf);
        if i % 2 == 0 {
            // ---- KDBX 3.1
            let comp = ref_composite(&creds.pw, &creds.kf).unwrap();
            let db = {
                let mut g = Gen::new(&mut rng, false);
                let mut d = g.database();
                d.header_attachments.clear();
                d
            };
            let outer = rng.pick(&[Outer::Aes256, Outer::Twofish, Outer::ChaCha20]).clone();
            let inner = rng.pick(&[Inner::Salsa20, Inner::Salsa20, Inner::Plain]).clone();
            let mut s = Kdbx3Spec {
                minor: 1,
                iv: rng.bytes(outer.iv_len()),
                outer,
                compress: rng.chance(1, 2),
                master_seed: rng.bytes(32),
                transform_seed: rng.bytes(32),
                rounds: rng.range(0, 50),
                stream_key: rng.bytes(32),
                stream_start: rng.bytes(32),
                inner,
                xml: vec![],
            };
            let real_inner_key = s.stream_key.clone(); // the stored stream key: `inner_keystream` applies KeePass's derivation
            let ks = kdbx::inner_keystream(&s.inner, &real_inner_key, 0, protected_len(&db) + 64).unwrap();
            let xml = {
                let mut sf = Surface { rng: &mut rng, vary: true, iso_times: true, keystream: ks, ks_off: 0, out: String::new() };
                sf.document(&db);
                sf.out.into_bytes()
            };
            s.xml = xml.clone();
            let mut order: Vec<u8> = vec![2, 3, 4, 5, 6, 7, 8, 9, 10];
            rng.shuffle(&mut order);
            let mut comments = Vec::new();
            if rng.chance(1, 3) {
                order.insert(rng.below(order.len() as u64) as usize, 1);
                comments.push(rng.bytes_below(9));
            }
            if i % 100 == 14 {
                // a payload of more than 1 MiB that is not compressed, as one hashed block (a writer may cut the stream wherever it
                // likes; KeePass cuts at 1 MiB, others write a single block) and as blocks of 1 MiB + 1: too large for the
                // executable model, judged by the specification alone (the file opens, to the stored XML)
                s.compress = false;
                let at = s.xml.windows(14).rposition(|w| w == b"</KeePassFile>").unwrap_or(s.xml.len());
                let pad = format!("<!-- {} -->\n", hex::encode(rng.bytes(700_000)));
                s.xml.splice(at..at, pad.into_bytes());
                for blocks in [vec![], vec![(1usize << 20) + 1], vec![1 << 20]] {
                    let data = build_kdbx3(&s, &order, &comments, &blocks, &comp);
                    let real = observe_kdbx3(&data, &key);
                    ctx.emit(json!({
                        "op": "specOnly", "sub": "kdbx3-large-block",
                        "extra": {"intended": {"xml_sha256": hex::encode(kdbx::sha256(&[&s.xml]))}, "blocks": blocks, "payload_len": s.xml.len()},
                        "tags": ["format:kdbx3", "blocks:larger-than-1MiB"], "nontrivial": true,
                        "real": real,
                    }));
                }
                continue;
            }
            let nb = rng.below(4) as usize;
            let blocks: Vec<usize> = (0..nb).map(|_| *rng.pick(&[1usize, 7, 64, 500])).collect();
            let data = build_kdbx3(&s, &order, &comments, &blocks, &comp);
            let real = observe_kdbx3(&data, &key);
            let intended = json!({
                "config": {"version": "KDBX3.1", "outer": s.outer.name(), "compression": if s.compress { "GZip" } else { "None" }, "inner": s.inner.name(), "kdf": {"aes": s.rounds}},
                "xml_sha256": hex::encode(kdbx::sha256(&[&xml])),
            });
            ctx.emit(json!({
                "op": "kdbx3read", "sub": "wf", "file": hex::encode(&data), "composite": hex::encode(&comp), "oracle": oracle3(&data, Some(&comp)),
                "extra": {"intended": intended, "blocks": blocks, "order": order},
                "tags": ["format:kdbx3", format!("outer:{}", s.outer.name()), format!("inner:{}", s.inner.name()), format!("blocks:{}", nb)],
                "nontrivial": nb >= 1 || order != vec![2, 3, 4, 5, 6, 7, 8, 9, 10],
                "real": real,
            }));
            let realdb = catch(|| Database::parse(&data, key.clone()));
            content_case(ctx, "kdbx3", &xml, &s.inner, &real_inner_key, &realdb, &db, vec!["format:kdbx3".into()]);
        } else {
            // ---- KDB
            let compk = ref_composite_kdb(&creds.pw, &creds.kf).unwrap();
            if compk.len() != 32 {
                continue; // a lone key-file element that is not 32 bytes: the reader panics (site A36), exercised by the fuzz op
            }
            let dup = i % 10 == 9;
            let (groups, entries) = gen_kdb_forest(&mut rng, dup);
            let payload = kdb_payload(&mut rng, &groups, &entries);
            let s = KdbSpec { twofish: rng.chance(1, 2), master_seed: rng.bytes(16), iv: rng.bytes(16), transform_seed: rng.bytes(32), rounds: rng.range(0, 50) as u32, version: 0x00030004 };
            let data = build_kdb(&s, &payload, groups.len() as u32, entries.len() as u32, &compk);
            emit_kdb(ctx, "wf", &data, Some(&compk), &key, json!({"spec_tree": spec_tree(&groups, &entries), "dup_names": dup,
                "groups": groups.iter().map(|g| json!([g.gid, g.name, g.level])).collect::<Vec<_>>(),
                "entries": entries.iter().map(|e| e.gid).collect::<Vec<_>>()}),
                vec!["format:kdb".into(), if s.twofish { "outer:Twofish".into() } else { "outer:AES256".into() }, if dup { "names:duplicated".into() } else { "names:distinct".into() }],
                groups.len() >= 2 && !entries.is_empty());
        }
    }
}

pub fn emit_kdb(ctx: &mut Ctx, sub: &str, data: &[u8], compk: Option<&[u8]>, key: &DatabaseKey, extra: J, tags: Vec<String>, nontrivial: bool) {
    let r = catch(|| Database::parse(data, key.clone()));
    let real = match &r {
        Ok(Ok(db)) => {
            let mut c = dump::config(&db.config);
            c["version"] = J::String(format!("{:?}", db.config.version));
            json!({"parse": "ok", "tree": kdb_tree(&db.root), "config": c})
        }
        Ok(Err(e)) => json!({"parse": format!("err:{}", err_class(e))}),
        Err(p) => json!({"parse": format!("panic:{}", p.site())}),
    };
    ctx.emit(json!({
        "op": "kdbread", "sub": sub, "file": hex::encode(data),
        // null = no key element; "short" = a lone element that is not 32 bytes
        "composite": match compk { Some(c) if c.len() == 32 => J::String(hex::encode(c)), Some(_) => J::String("short".into()), None => J::Null },
        "oracle": oracle_kdb(data, compk), "extra": extra, "tags": tags, "nontrivial": nontrivial, "real": real,
    }));
}

/// C04 (legacy): wrong credentials on KDBX3 and KDB files
pub fn run_cred(ctx: &mut Ctx) {
    let count = ctx.count(40, 300);
    for i in 0..count {
        let mut rng = ctx.rng.fork();
        let creds = gen_creds(&mut rng);
        let comp = ref_composite(&creds.pw, &creds.kf).unwrap();
        let compk = ref_composite_kdb(&creds.pw, &creds.kf).unwrap();
        let xml = frame::tiny_xml(&mut rng);
        for _ in 0..6 {
            let pw2 = match rng.below(4) { 0 => creds.pw.clone().map(|p| format!("{} ", p)), 1 => Some("other".to_string()), 2 => creds.pw.clone().map(|p| p.to_uppercase() + "x"), _ => None };
            let kf2 = if pw2.is_none() || rng.chance(1, 3) { Some(rng.bytes(32)) } else { creds.kf.clone() };
            if ref_composite(&pw2, &kf2).as_deref() == Some(&comp[..]) {
                continue;
            }
            let key2 = make_key(&pw2, &kf2);
            if i % 2 == 0 {
                let outer = rng.pick(&[Outer::Aes256, Outer::Twofish, Outer::ChaCha20]).clone();
                let s = Kdbx3Spec { minor: 1, iv: rng.bytes(outer.iv_len()), outer, compress: rng.chance(1, 2), master_seed: rng.bytes(32), transform_seed: rng.bytes(32), rounds: 3, stream_key: rng.bytes(32), stream_start: rng.bytes(32), inner: Inner::Salsa20, xml: xml.clone() };
                let data = build_kdbx3(&s, &[2, 3, 4, 5, 6, 7, 8, 9, 10], &[], &[], &comp);
                let c2 = ref_composite(&pw2, &kf2);
                let real = frame::observe(&data, &key2);
                ctx.emit(json!({
                    "op": "kdbx3read", "sub": "cred", "file": hex::encode(&data), "composite": c2.as_ref().map(hex::encode), "oracle": oracle3(&data, c2.as_deref()),
                    "extra": {"outer": s.outer.name()}, "tags": ["format:kdbx3", format!("outer:{}", s.outer.name())], "nontrivial": true, "real": real,
                }));
            } else if compk.len() == 32 {
                let (groups, entries) = gen_kdb_forest(&mut rng, false);
                let payload = kdb_payload(&mut rng, &groups, &entries);
                let s = KdbSpec { twofish: rng.chance(1, 2), master_seed: rng.bytes(16), iv: rng.bytes(16), transform_seed: rng.bytes(32), rounds: 3, version: 0x00030004 };
                let data = build_kdb(&s, &payload, groups.len() as u32, entries.len() as u32, &compk);
                let c2 = ref_composite_kdb(&pw2, &kf2);
                emit_kdb(ctx, "cred", &data, c2.as_deref(), &key2, json!({}), vec!["format:kdb".into()], true);
            }
        }
    }
}

/// C06 (legacy): malformed KDBX3 and KDB input
pub fn run_fuzz(ctx: &mut Ctx) {
    let nfiles = ctx.count(20, 200);
    let per = if ctx.thorough { 600 } else { 250 };
    for fi in 0..nfiles {
        let mut rng = ctx.rng.fork();
        let mut creds = gen_creds(&mut rng);
        if fi % 10 == 3 {
            // a lone key element that is not 32 bytes: version-2 key file with a short hex payload
            creds = frame::Creds { pw: None, kf: Some(format!("<KeyFile><Meta><Version>2.0</Version></Meta><Key><Data>{}</Data></Key></KeyFile>", hex::encode(rng.bytes(10))).into_bytes()) };
        }
        let comp = ref_composite(&creds.pw, &creds.kf).unwrap();
        let compk = ref_composite_kdb(&creds.pw, &creds.kf).unwrap();
        let key = make_key(&creds.pw, &creds.kf);
        if fi % 2 == 0 {
            let outer = rng.pick(&[Outer::Aes256, Outer::Twofish, Outer::ChaCha20]).clone();
            let s = Kdbx3Spec { minor: 1, iv: rng.bytes(outer.iv_len()), outer, compress: rng.chance(1, 2), master_seed: rng.bytes(32), transform_seed: rng.bytes(32), rounds: 2, stream_key: rng.bytes(32), stream_start: rng.bytes(32), inner: Inner::Salsa20, xml: frame::tiny_xml(&mut rng) };
            let order = [2u8, 3, 4, 5, 6, 7, 8, 9, 10];
            let data = build_kdbx3(&s, &order, &[], &[40], &comp);
            let hlen = kdbx3_header(&s, &order, &[]).len();
            for mi in 0..per {
                let (m, what): (Vec<u8>, String) = match mi % 8 {
                    0 | 1 => (data[..rng.below(data.len() as u64 + 1) as usize].to_vec(), "prefix".into()),
                    2 => { let mut d = data.clone(); let o = 12 + rng.below((hlen - 12) as u64) as usize; d[o] = rng.next() as u8; (d, "header-byte".into()) }
                    3 => {
                        // authenticated (correctly encrypted) but malformed payload
                        let mut s2 = s.clone();
                        let k = rng.below(5);
                        let mut payload = kdbx3_payload(&s, &[40]);
                        match k {
                            0 => payload.truncate(rng.below(payload.len() as u64) as usize),
                            1 => { payload.truncate(payload.len() - 40); }                  // no terminator block
                            2 => { let l = payload.len(); payload[l - 50] ^= 1; }
                            3 => { s2.stream_start = rng.bytes(64); }
                            _ => { payload = s.stream_start.clone(); }
                        }
                        let mut d = kdbx3_header(&s2, &order, &[]);
                        let tk = kdbx::transform(&Kdf::Aes { rounds: s.rounds, seed: s.transform_seed.clone() }, &comp).unwrap();
                        let master = kdbx::sha256(&[&s.master_seed, &tk]);
                        d.extend_from_slice(&kdbx::enc_outer(&s.outer, &master, &s.iv, &payload).unwrap());
                        (d, format!("authenticated-malformed:{}", k))
                    }
                    4 if mi % 16 == 4 => {
                        // an IV / nonce of a length the outer cipher does not take (the header is not authenticated in KDBX 3)
                        let mut s2 = s.clone();
                        s2.iv = rng.bytes_pick(&[0usize, 8, 12, 16, 24, 32]);
                        if s2.iv.len() == s2.outer.iv_len() {
                            s2.iv.push(0);
                        }
                        (build_kdbx3_raw(&s2, &order), "iv-length".into())
                    }
                    4 => { let mut s2 = s.clone(); s2.transform_seed = rng.bytes_pick(&[0, 16, 31, 33]); (build_kdbx3_raw(&s2, &order), "transform-seed-length".into()) }
                    5 if mi % 16 == 5 => {
                        // a header field whose length is at the top of the 16-bit range (really that many bytes): the file still opens
                        let len = *rng.pick(&[65_535usize, 65_534, 65_533, 65_532]);
                        let mut d = data[..12].to_vec();
                        tlv2(&mut d, 1, &rng.bytes(len));
                        d.extend_from_slice(&data[12..]);
                        (d, format!("maximal-comment-field:{}", len))
                    }
                    5 => { let mut d = data[..12].to_vec(); d.extend(rng.bytes_below(60)); (d, "signature-then-random".into()) }
                    6 => {
                        // short typed fields
                        let mut d = data[..12].to_vec();
                        let t = *rng.pick(&[3u8, 6, 10]);
                        tlv2(&mut d, t, &rng.bytes_below(4));
                        d.extend_from_slice(&data[12..]);
                        (d, format!("short-field:{}", t))
                    }
                    _ => { let mut d = data.clone(); let o = rng.below(d.len() as u64) as usize; d[o] = rng.next() as u8; (d, "byte-substitution".into()) }
                };
                if !frame::kdf_within_budget(&m) {
                    continue;
                }
                let real = frame::observe(&m, &key);
                ctx.emit(json!({
                    "op": "kdbx3read", "sub": "fuzz", "file": hex::encode(&m), "composite": hex::encode(&comp), "oracle": oracle3(&m, Some(&comp)),
                    "extra": {"mutation": what}, "tags": ["format:kdbx3", format!("mutation:{}", what)], "nontrivial": m.len() >= 12, "real": real,
                }));
            }
        } else {
            let (groups, entries) = gen_kdb_forest(&mut rng, fi % 6 == 1);
            let payload = kdb_payload(&mut rng, &groups, &entries);
            let s = KdbSpec { twofish: rng.chance(1, 2), master_seed: rng.bytes(16), iv: rng.bytes(16), transform_seed: rng.bytes(32), rounds: 2, version: 0x00030004 };
            if compk.len() != 32 {
                // a lone key element that is not 32 bytes
                let data = build_kdb(&s, &payload, groups.len() as u32, entries.len() as u32, &[0u8; 32]);
                emit_kdb(ctx, "fuzz", &data, Some(&compk), &key, json!({"mutation": "lone-key-element-not-32-bytes"}), vec!["format:kdb".into(), "mutation:lone-key-element".into()], true);
                continue;
            }
            let data = build_kdb(&s, &payload, groups.len() as u32, entries.len() as u32, &compk);
            for mi in 0..per {
                let (m, what): (Vec<u8>, String) = match mi % 8 {
                    0 => (data[..rng.below(data.len() as u64 + 1) as usize].to_vec(), "prefix".into()),
                    1 => { let mut d = data.clone(); let o = rng.below(124) as usize; d[o] = rng.next() as u8; (d, "header-byte".into()) }
                    2 | 3 | 4 => {
                        // authenticated but malformed records
                        let k = rng.below(7);
                        let mut p = payload.clone();
                        let (mut ng, mut ne) = (groups.len() as u32, entries.len() as u32);
                        match k {
                            0 => p.truncate(rng.below(p.len() as u64) as usize),
                            1 => ng += 1 + rng.below(3) as u32,
                            2 => ne += 1 + rng.below(3) as u32,
                            3 => { let o = rng.below(p.len() as u64) as usize; p[o] = rng.next() as u8; }
                            4 => p.clear(),
                            5 => { ng = 0; ne = 0; p = vec![rng.next() as u8; rng.below(3) as usize]; }
                            _ => { p.extend(rng.bytes_below(9)); }
                        }
                        (build_kdb(&s, &p, ng, ne, &compk), format!("authenticated-malformed:{}", k))
                    }
                    5 => {
                        // payload whose last byte is large (second un-padding)
                        let mut p = payload.clone();
                        p.push(200 + rng.below(56) as u8);
                        (build_kdb(&s, &p, groups.len() as u32, entries.len() as u32, &compk), "last-byte-large".into())
                    }
                    6 => { let mut d = data[..12].to_vec(); d.extend(rng.bytes_below(200)); (d, "signature-then-random".into()) }
                    _ => { let mut d = data.clone(); let o = rng.below(d.len() as u64) as usize; d[o] = rng.next() as u8; (d, "byte-substitution".into()) }
                };
                if !frame::kdf_within_budget(&m) {
                    continue;
                }
                emit_kdb(ctx, "fuzz", &m, Some(&compk), &key, json!({"mutation": what}), vec!["format:kdb".into(), format!("mutation:{}", what)], m.len() >= 12);
            }
        }
    }
}

fn build_kdbx3_raw(s: &Kdbx3Spec, order: &[u8]) -> Vec<u8> {
    let mut d = kdbx3_header(s, order, &[]);
    d.extend_from_slice(&[0u8; 64]);
    d
}

#[allow(dead_code)]
fn unused(_: &Kdbx4Spec, _: &Layout) {}
