//! C17: Entry::update_history / History::add_entry against `KpModel/Db/History.lean`.
use crate::dump;
use crate::rng::Rng;
use crate::Ctx;
use keepass::db::{AutoType, AutoTypeAssociation, Color, CustomDataItem, Entry, History, Times, Value};
use serde_json::{json, Value as J};
use std::collections::HashMap;

struct Intern {
    content: HashMap<String, u64>,
    otimes: HashMap<String, u64>,
}

impl Intern {
    fn new() -> Self {
        Intern { content: HashMap::new(), otimes: HashMap::new() }
    }
    fn c(&mut self, e: &Entry) -> u64 {
        let s = serde_json::to_string(&dump::entry_content(e)).unwrap();
        let n = self.content.len() as u64;
        *self.content.entry(s).or_insert(n)
    }
    fn o(&mut self, t: &Times) -> u64 {
        let mut t2 = t.clone();
        t2.times.remove("LastModificationTime");
        let s = serde_json::to_string(&dump::times(&t2)).unwrap();
        let n = self.otimes.len() as u64;
        *self.otimes.entry(s).or_insert(n)
    }
    fn entry(&mut self, e: &Entry) -> J {
        let m = e.times.get_last_modification().map(|t| t.and_utc().timestamp());
        let h = match &e.history {
            None => J::Null,
            Some(h) => J::Array(h.get_entries().iter().map(|x| self.entry(x)).collect()),
        };
        json!({"c": self.c(e), "m": m, "o": self.o(&e.times), "h": h})
    }
}

fn ts(secs: i64) -> chrono::NaiveDateTime {
    chrono::DateTime::from_timestamp(secs, 0).unwrap().naive_utc()
}

const KEYS: &[&str] = &["Title", "UserName", "Password", "URL", "Notes", "otp", "X"];
const VALS: &[&str] = &["", "a", "b", "secret", "é", " a "];

fn mutate_content(rng: &mut Rng, e: &mut Entry) -> &'static str {
    match rng.below(13) {
        0 | 1 | 2 => {
            let k = rng.pick(KEYS).to_string();
            let v = rng.pick(VALS).to_string();
            let val = match rng.below(3) {
                0 => Value::Unprotected(v),
                1 => Value::Protected(secstr::SecStr::new(v.into_bytes())),
                _ => Value::Bytes(v.into_bytes()),
            };
            e.fields.insert(k, val);
            "set-field"
        }
        3 => {
            let k = rng.pick(KEYS).to_string();
            e.fields.remove(&k);
            "remove-field"
        }
        4 => {
            e.tags = (0..rng.below(3)).map(|i| format!("t{}", i + rng.below(2))).collect();
            "tags"
        }
        5 => {
            e.foreground_color = if rng.chance(1, 3) { None } else { Some(Color { r: rng.next() as u8, g: 1, b: 2 }) };
            "fg"
        }
        6 => {
            e.background_color = if rng.chance(1, 3) { None } else { Some(Color { r: 0, g: rng.next() as u8, b: 2 }) };
            "bg"
        }
        7 => {
            e.autotype = if rng.chance(1, 3) {
                None
            } else {
                Some(AutoType {
                    enabled: rng.chance(1, 2),
                    sequence: if rng.chance(1, 2) { Some("seq".into()) } else { None },
                    associations: (0..rng.below(3))
                        .map(|i| AutoTypeAssociation { window: Some(format!("w{}", i)), sequence: None })
                        .collect(),
                })
            };
            "autotype"
        }
        8 => {
            let k = format!("k{}", rng.below(3));
            if rng.chance(1, 3) {
                e.custom_data.items.remove(&k);
            } else {
                e.custom_data.items.insert(
                    k,
                    CustomDataItem {
                        value: Some(Value::Unprotected(rng.pick(VALS).to_string())),
                        last_modification_time: if rng.chance(1, 2) { Some(ts(rng.below(1000) as i64)) } else { None },
                    },
                );
            }
            "custom-data"
        }
        9 => {
            e.icon_id = if rng.chance(1, 3) { None } else { Some(rng.below(4) as usize) };
            e.custom_icon_uuid = if rng.chance(1, 2) { None } else { Some(uuid::Uuid::from_u128(rng.below(3) as u128)) };
            "icons"
        }
        10 => {
            e.override_url = if rng.chance(1, 3) { None } else { Some(rng.pick(VALS).to_string()) };
            e.quality_check = match rng.below(3) { 0 => None, 1 => Some(true), _ => Some(false) };
            "url-quality"
        }
        11 => {
            // the same text under another kind of value (plain, protected, bytes): a change of the entry
            let keys: Vec<String> = { let mut k: Vec<String> = e.fields.keys().cloned().collect(); k.sort(); k };
            if keys.is_empty() {
                e.fields.insert("Title".into(), Value::Bytes(b"a".to_vec()));
                return "retype-field";
            }
            let k = rng.pick(&keys).clone();
            let bytes: Vec<u8> = match &e.fields[&k] {
                Value::Unprotected(s) => s.clone().into_bytes(),
                Value::Protected(p) => p.unsecure().to_vec(),
                Value::Bytes(b) => b.clone(),
            };
            let was = match &e.fields[&k] { Value::Unprotected(_) => 0, Value::Protected(_) => 1, Value::Bytes(_) => 2 };
            let to = (was + 1 + rng.below(2)) % 3;
            let v = match (to, String::from_utf8(bytes.clone())) {
                (0, Ok(s)) => Value::Unprotected(s),
                (1, _) => Value::Protected(secstr::SecStr::new(bytes)),
                _ => Value::Bytes(bytes),
            };
            e.fields.insert(k, v);
            "retype-field"
        }
        _ => {
            // an edit that restores a previous value (no net change is likely)
            e.fields.insert("Title".into(), Value::Unprotected("a".into()));
            "set-title-a"
        }
    }
}

fn external(rng: &mut Rng) -> Entry {
    let mut x = Entry::new();
    x.uuid = uuid::Uuid::from_u128(1000 + rng.below(3) as u128);
    mutate_content(rng, &mut x);
    if rng.chance(1, 2) {
        x.times.set_last_modification(ts(rng.below(100) as i64));
    }
    if rng.chance(2, 3) {
        let mut h = History::default();
        let mut y = Entry::new();
        y.uuid = x.uuid;
        if rng.chance(1, 2) {
            let mut hh = History::default();
            hh.add_entry(Entry::new());
            y.history = Some(hh);
        }
        h.add_entry(y);
        x.history = Some(h);
    }
    x
}

/// an entry as an independent writer may store it: the newest history item carries a `<History>` of its own (the
/// public API cannot build this: `History::add_entry` strips nested histories; the XML reader keeps them as found)
fn parsed_entry_with_nested_history(rng: &mut Rng) -> Option<Entry> {
    use crate::kdbx::{self, Inner, Kdf};
    let t = "<Times><CreationTime>2020-01-02T03:04:05Z</CreationTime><LastModificationTime>2020-01-02T03:04:05Z</LastModificationTime><LastAccessTime>2020-01-02T03:04:05Z</LastAccessTime><LocationChanged>2020-01-02T03:04:05Z</LocationChanged><ExpiryTime>2020-01-02T03:04:05Z</ExpiryTime><Expires>False</Expires><UsageCount>0</UsageCount></Times>";
    let u = "<UUID>AAAAAAAAAAAAAAAAAAAABw==</UUID>";
    let item = |title: &str, inner: &str| format!("<Entry>{}<String><Key>Title</Key><Value>{}</Value></String>{}{}</Entry>", u, title, t, inner);
    let cur = if rng.chance(2, 3) { "a" } else { "changed" };
    let nested = format!("<History>{}</History>", item("old", ""));
    let hist = format!("<History>{}{}</History>", item("a", &nested), if rng.chance(1, 2) { item("older", "") } else { String::new() });
    let xml = format!("<?xml version=\"1.0\" encoding=\"utf-8\"?><KeePassFile><Meta><Generator>ref</Generator></Meta><Root><Group><UUID>AAAAAAAAAAAAAAAAAAAAAQ==</UUID><Name>R</Name>{}</Group></Root></KeePassFile>", item(cur, &hist));
    let mut spec = crate::frame::gen_spec(rng);
    spec.kdf = Kdf::Aes { rounds: 1, seed: rng.bytes(32) };
    spec.inner = Inner::Plain;
    spec.inner_key = vec![];
    spec.attachments = vec![];
    spec.compress = false;
    spec.xml = xml.into_bytes();
    let comp = crate::keyop::ref_composite(&Some("pw".to_string()), &None).unwrap();
    let data = kdbx::build_kdbx4(&spec, &kdbx::Layout::library_like(), &comp).ok()?;
    let db = keepass::Database::parse(&data, keepass::DatabaseKey::new().with_password("pw")).ok()?;
    match db.root.children.into_iter().next() {
        Some(keepass::db::Node::Entry(e)) => Some(e),
        _ => None,
    }
}

pub fn run(ctx: &mut Ctx) {
    let count = ctx.count(2000, 50000);
    for i in 0..count {
        let mut rng = ctx.rng.fork();
        let mut it = Intern::new();
        let mut tags0: Vec<String> = Vec::new();
        let mut e = match i % 3 {
            0 if i % 12 == 0 => match crate::panicx::catch(|| parsed_entry_with_nested_history(&mut rng)) {
                Ok(Some(e)) => {
                    tags0.push("start:parsed-with-nested-history".to_string());
                    e
                }
                _ => Entry::new(),
            },
            0 => Entry::new(),
            1 => Entry::default(),
            _ => {
                let mut e = Entry::new();
                e.history = Some(History::default());
                e
            }
        };
        e.uuid = uuid::Uuid::from_u128(7);
        let init = it.entry(&e);
        let nops = rng.range(1, 14) as usize;
        let mut ops = Vec::new();
        let mut trace = Vec::new();
        let mut tags: Vec<String> = tags0.clone();
        let mut changed_since_commit = true;
        let (mut commit_after_change, mut commit_without_change) = (false, false);
        for _ in 0..nops {
            let (opj, ret): (J, J) = match rng.below(10) {
                0 | 1 | 2 => {
                    let what = mutate_content(&mut rng, &mut e);
                    tags.push(what.to_string());
                    changed_since_commit = true;
                    (json!(["setContent", it.c(&e)]), J::Null)
                }
                3 => {
                    match rng.below(4) {
                        0 => e.times.set_last_access(ts(rng.below(50) as i64)),
                        1 => e.times.expires = !e.times.expires,
                        2 => e.times.usage_count += 1,
                        _ => e.times.set_location_changed(ts(rng.below(50) as i64)),
                    }
                    tags.push("set-other-times".into());
                    (json!(["setOtimes", it.o(&e.times)]), J::Null)
                }
                4 => {
                    if rng.chance(1, 4) {
                        e.times.times.remove("LastModificationTime");
                        tags.push("remove-mtime".into());
                        (json!(["setMtime", J::Null]), J::Null)
                    } else {
                        let m = rng.below(2_000_000_000) as i64;
                        e.times.set_last_modification(ts(m));
                        tags.push("set-mtime".into());
                        (json!(["setMtime", m]), J::Null)
                    }
                }
                5 => {
                    if e.history.is_none() {
                        e.history = Some(History::default());
                    }
                    tags.push("init-history".into());
                    (json!(["initHistory"]), J::Null)
                }
                6 => {
                    let x = external(&mut rng);
                    let xj = it.entry(&x);
                    if let Some(h) = e.history.as_mut() {
                        h.add_entry(x);
                    }
                    tags.push("add-external".into());
                    changed_since_commit = true;
                    (json!(["addExternal", xj]), J::Null)
                }
                _ => {
                    // commit; "now" is observed by bracketing the call between two clock reads
                    let (now, r) = loop {
                        let mut c = e.clone();
                        let t0 = Times::now().and_utc().timestamp();
                        let r = c.update_history();
                        let t1 = Times::now().and_utc().timestamp();
                        if t0 == t1 {
                            e = c;
                            break (t0, r);
                        }
                    };
                    if changed_since_commit { commit_after_change = true } else { commit_without_change = true }
                    changed_since_commit = false;
                    tags.push(if r { "commit-added".into() } else { "commit-noop".into() });
                    (json!(["commit", now]), json!(r))
                }
            };
            ops.push(opj);
            trace.push(json!({"ret": ret, "state": it.entry(&e)}));
        }
        tags.sort();
        tags.dedup();
        ctx.emit(json!({
            "op": "history",
            "init": init,
            "ops": ops,
            "tags": tags,
            "nontrivial": commit_after_change && commit_without_change,
            "real": {"trace": trace},
        }));
    }
}
