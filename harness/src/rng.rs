//! splitmix64: every random choice of a run derives from one state seeded by VERIF_SEED.
#[derive(Clone)]
pub struct Rng(pub u64);

impl Rng {
    pub fn new(seed: u64) -> Self {
        Rng(seed.wrapping_mul(0x9E3779B97F4A7C15) ^ 0xD1B54A32D192ED03)
    }
    pub fn next(&mut self) -> u64 {
        self.0 = self.0.wrapping_add(0x9E3779B97F4A7C15);
        let mut z = self.0;
        z = (z ^ (z >> 30)).wrapping_mul(0xBF58476D1CE4E5B9);
        z = (z ^ (z >> 27)).wrapping_mul(0x94D049BB133111EB);
        z ^ (z >> 31)
    }
    /// uniform in 0..n (n > 0)
    pub fn below(&mut self, n: u64) -> u64 {
        self.next() % n
    }
    pub fn range(&mut self, lo: u64, hi_incl: u64) -> u64 {
        lo + self.below(hi_incl - lo + 1)
    }
    pub fn chance(&mut self, num: u64, den: u64) -> bool {
        self.below(den) < num
    }
    pub fn pick<'a, T>(&mut self, xs: &'a [T]) -> &'a T {
        &xs[self.below(xs.len() as u64) as usize]
    }
    pub fn bytes(&mut self, n: usize) -> Vec<u8> {
        (0..n).map(|_| self.next() as u8).collect()
    }
    pub fn bytes_below(&mut self, n: u64) -> Vec<u8> {
        let k = self.below(n) as usize;
        self.bytes(k)
    }
    pub fn bytes_range(&mut self, lo: u64, hi: u64) -> Vec<u8> {
        let k = self.range(lo, hi) as usize;
        self.bytes(k)
    }
    pub fn bytes_pick(&mut self, ns: &[usize]) -> Vec<u8> {
        let k = *self.pick(ns);
        self.bytes(k)
    }
    pub fn fork(&mut self) -> Rng {
        Rng::new(self.next())
    }
    pub fn shuffle<T>(&mut self, xs: &mut [T]) {
        for i in (1..xs.len()).rev() {
            let j = self.below(i as u64 + 1) as usize;
            xs.swap(i, j);
        }
    }
}
