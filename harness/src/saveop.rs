//! C03 / C07 / C08 / C09 / C12: real `save` of generated databases, independent unwrap of the bytes, the XML
//! event stream and map orders for the Lean model of the writer and reader, re-open with the real library.
use crate::gendb::Gen;
use crate::kdbx::{self, Inner};
use crate::keyop::{make_key, ref_composite};
use crate::panicx::catch;
use crate::{dump, frame, Ctx};
use keepass::db::*;
use crate::rng::Rng;
use keepass::config::*;
use keepass::{Database, DatabaseKey};
use serde_json::{json, Value as J};
use std::collections::{HashMap, HashSet};
use xml::reader::{EventReader, XmlEvent};

/// tokenise as `parse_from_bytes` does: start / end / characters / error; everything else dropped
pub fn tokenize(xml: &[u8]) -> Vec<J> {
    let mut out = Vec::new();
    for ev in EventReader::new(xml) {
        match ev {
            Ok(XmlEvent::StartElement { name, attributes, .. }) => {
                let attrs: Vec<J> = attributes.iter().map(|a| json!([a.name.local_name, a.value])).collect();
                out.push(json!(["s", name.local_name, attrs]));
            }
            Ok(XmlEvent::EndElement { name }) => out.push(json!(["e", name.local_name])),
            Ok(XmlEvent::Characters(c)) => out.push(json!(["c", c])),
            Err(_) => {
                out.push(json!("err"));
                break;
            }
            _ => {}
        }
    }
    out
}

/// iteration orders of the maps in document order: one list per `<Entry>` (its String keys), `<CustomData>`
/// (its Item keys) and `<Times>` (its time-stamp names), created when the container's start tag is seen
pub fn map_orders(events: &[J]) -> Vec<Vec<String>> {
    let mut orders: Vec<Vec<String>> = Vec::new();
    // stack of (element name, index into orders or usize::MAX)
    let mut stack: Vec<(String, usize)> = Vec::new();
    let mut i = 0;
    while i < events.len() {
        let e = &events[i];
        if let Some(a) = e.as_array() {
            match a[0].as_str().unwrap() {
                "s" => {
                    let name = a[1].as_str().unwrap().to_string();
                    let parent = stack.last().cloned();
                    let mut idx = usize::MAX;
                    if name == "Entry" || name == "CustomData" || name == "Times" {
                        orders.push(Vec::new());
                        idx = orders.len() - 1;
                    }
                    if let Some((pn, pidx)) = &parent {
                        if pn == "Times" && *pidx != usize::MAX {
                            orders[*pidx].push(name.clone());
                        }
                        // <String><Key>k</Key>… under Entry; <Item><Key>k</Key>… under CustomData
                        if name == "Key" {
                            let key_text = match events.get(i + 1).and_then(|x| x.as_array()) {
                                Some(c) if c[0] == "c" => c[1].as_str().unwrap().to_string(),
                                _ => String::new(),
                            };
                            if stack.len() >= 2 {
                                let (gn, gidx) = &stack[stack.len() - 2];
                                if (pn == "String" && gn == "Entry") || (pn == "Item" && gn == "CustomData") {
                                    if *gidx != usize::MAX {
                                        orders[*gidx].push(key_text);
                                    }
                                }
                            }
                        }
                    }
                    stack.push((name, idx));
                }
                "e" => {
                    if let Some((n, idx)) = stack.pop() {
                        // the writer ends every <Times> with the fixed pair Expires, UsageCount: not map entries
                        if n == "Times" && idx != usize::MAX {
                            let l = orders[idx].len();
                            orders[idx].truncate(l.saturating_sub(2));
                        }
                    }
                }
                _ => {}
            }
        }
        i += 1;
    }
    orders
}

fn b64dec(s: &str) -> Option<Vec<u8>> {
    use base64::Engine;
    base64::engine::general_purpose::STANDARD.decode(s.as_bytes()).ok()
}
fn b64enc(b: &[u8]) -> String {
    use base64::Engine;
    base64::engine::general_purpose::STANDARD.encode(b)
}

/// iteration orders of the maps, read off the in-memory database in the writer's document order (the same map
/// instances iterate in the same order inside `save`): Meta.custom_data; per group: times, custom_data, children;
/// per entry: fields, custom_data, times, history entries
pub fn orders_from_db(db: &Database) -> Vec<Vec<String>> {
    fn entry(e: &Entry, out: &mut Vec<Vec<String>>) {
        out.push(e.fields.keys().cloned().collect());
        out.push(e.custom_data.items.keys().cloned().collect());
        out.push(e.times.times.keys().cloned().collect());
        if let Some(h) = &e.history {
            for he in h.get_entries() {
                entry(he, out);
            }
        }
    }
    fn group(g: &Group, out: &mut Vec<Vec<String>>) {
        out.push(g.times.times.keys().cloned().collect());
        out.push(g.custom_data.items.keys().cloned().collect());
        for c in &g.children {
            match c {
                Node::Group(x) => group(x, out),
                Node::Entry(e) => entry(e, out),
            }
        }
    }
    let mut out = Vec::new();
    out.push(db.meta.custom_data.items.keys().cloned().collect());
    group(&db.root, &mut out);
    out
}

/// protected ciphertexts in document order (text of `<Value Protected="True">`)
fn protected_texts(events: &[J]) -> Vec<String> {
    let mut out = Vec::new();
    for (i, e) in events.iter().enumerate() {
        if let Some(a) = e.as_array() {
            if a[0] == "s" && a[1] == "Value" {
                let prot = a[2].as_array().unwrap().iter().any(|p| p[0] == "Protected" && p[1].as_str().map(|v| v.to_lowercase() == "true").unwrap_or(false));
                if prot {
                    let t = match events.get(i + 1).and_then(|x| x.as_array()) {
                        Some(c) if c[0] == "c" => c[1].as_str().unwrap().to_string(),
                        _ => String::new(),
                    };
                    out.push(t);
                }
            }
        }
    }
    out
}

fn collect_strings(j: &J, out: &mut Vec<String>) {
    match j {
        J::String(s) => out.push(s.clone()),
        J::Array(a) => a.iter().for_each(|x| collect_strings(x, out)),
        J::Object(o) => o.iter().for_each(|(k, v)| {
            if k == "p" || k == "b" {
                // protected / byte values are dumped as hex: decode to the text they stand for
                if let Some(h) = v.as_str() {
                    if let Ok(b) = hex::decode(h) {
                        if let Ok(s) = String::from_utf8(b) {
                            out.push(s);
                        }
                    }
                }
            } else if k != "uuid" && !k.ends_with("_uuid") {
                collect_strings(v, out)
            }
        }),
        _ => {}
    }
}

fn find_sub(hay: &[u8], needle: &[u8]) -> bool {
    needle.len() <= hay.len() && hay.windows(needle.len()).any(|w| w == needle)
}

fn collect_protected(db: &Database, out: &mut Vec<Vec<u8>>) {
    fn val(v: &Value, out: &mut Vec<Vec<u8>>) {
        if let Value::Protected(p) = v {
            out.push(p.unsecure().to_vec());
        }
    }
    fn cd(c: &CustomData, out: &mut Vec<Vec<u8>>) {
        for i in c.items.values() {
            if let Some(v) = &i.value {
                val(v, out);
            }
        }
    }
    fn entry(e: &Entry, out: &mut Vec<Vec<u8>>) {
        for v in e.fields.values() {
            val(v, out);
        }
        cd(&e.custom_data, out);
        if let Some(h) = &e.history {
            for he in h.get_entries() {
                entry(he, out);
            }
        }
    }
    fn group(g: &Group, out: &mut Vec<Vec<u8>>) {
        cd(&g.custom_data, out);
        for c in &g.children {
            match c {
                Node::Group(x) => group(x, out),
                Node::Entry(e) => entry(e, out),
            }
        }
    }
    cd(&db.meta.custom_data, out);
    group(&db.root, out);
}

/// a small database with one attachment sized so that the (uncompressed, stream-enciphered) payload has exactly `target` bytes
pub fn big_db(rng: &mut Rng, target: usize, key: &DatabaseKey, comp: &[u8]) -> Database {
    let mut db = Database::new(DatabaseConfig {
        version: DatabaseVersion::KDB4(0),
        outer_cipher_config: OuterCipherConfig::ChaCha20,
        compression_config: CompressionConfig::None,
        inner_cipher_config: InnerCipherConfig::ChaCha20,
        kdf_config: KdfConfig::Aes { rounds: 1 },
    });
    let mut e = Entry::default();
    e.uuid = uuid::Uuid::from_bytes([7; 16]);
    e.fields.insert("Title".into(), Value::Unprotected("big".into()));
    db.root.children.push(Node::Entry(e));
    db.header_attachments.push(HeaderAttachment { flags: 1, content: rng.bytes(1000) });
    let mut buf = Vec::new();
    db.save(&mut buf, key.clone()).unwrap();
    let un = kdbx::unwrap_kdbx4(&buf, comp).unwrap();
    let p0: usize = un.blocks.iter().sum();
    db.header_attachments[0].content = rng.bytes(1000 + target - p0);
    db
}

struct ChunkSink {
    buf: Vec<u8>,
    cap: usize,
    /// the sink fails once it holds this many bytes (a full disk, a closed pipe)
    limit: Option<usize>,
    failed: bool,
}
impl std::io::Write for ChunkSink {
    fn write(&mut self, b: &[u8]) -> std::io::Result<usize> {
        let mut n = b.len().min(self.cap);
        if let Some(l) = self.limit {
            if self.buf.len() >= l && !b.is_empty() {
                self.failed = true;
                return Err(std::io::Error::new(std::io::ErrorKind::Other, "sink failed"));
            }
            n = n.min(l - self.buf.len());
        }
        self.buf.extend_from_slice(&b[..n]);
        Ok(n)
    }
    fn flush(&mut self) -> std::io::Result<()> {
        Ok(())
    }
}

/// Databases with one attachment of several MiB in the binary pool of <Meta>: too large for the executable model, so only
/// "save succeeds, the saved file opens, and opens to the same database" is observed (op `specOnly`).
fn run_large_binaries(ctx: &mut Ctx) {
    let mut rng = ctx.rng.fork();
    let mib = 1usize << 20;
    let mut shapes: Vec<(&str, bool, Vec<u8>)> = vec![
        ("uncompressed-1MiB", false, rng.bytes(mib)),
        ("uncompressed-1MiB+1", false, rng.bytes(mib + 1)),
        ("uncompressed-3MiB+2", false, rng.bytes(3 * mib + 2)),
        ("compressed-incompressible-1.5MiB", true, rng.bytes(mib + mib / 2)),
        ("compressed-8MiB-of-zeros", true, vec![0u8; 8 * mib]),
        ("compressed-7.5MiB-of-one-byte", true, vec![0x55u8; 7 * mib + mib / 2]),
    ];
    if ctx.thorough {
        shapes.push(("compressed-32MiB-of-zeros", true, vec![0u8; 32 * mib]));
        shapes.push(("uncompressed-16MiB+1", false, rng.bytes(16 * mib + 1)));
    }
    for (name, compressed, content) in shapes {
        for compression in [CompressionConfig::GZip, CompressionConfig::None] {
            let mut db = Database::new(DatabaseConfig {
                version: DatabaseVersion::KDB4(0),
                outer_cipher_config: OuterCipherConfig::ChaCha20,
                compression_config: compression.clone(),
                inner_cipher_config: InnerCipherConfig::ChaCha20,
                kdf_config: KdfConfig::Aes { rounds: 1 },
            });
            db.meta.binaries.binaries.push(BinaryAttachment { identifier: Some("0".into()), compressed, content: content.clone() });
            let key = DatabaseKey::new().with_password("pw");
            let mut buf = Vec::new();
            let saved = catch(|| db.save(&mut buf, key.clone()));
            let save_s = match &saved {
                Ok(Ok(())) => "ok".to_string(),
                Ok(Err(e)) => format!("err:{}", e),
                Err(p) => format!("panic:{}", p.site()),
            };
            let (reopen, equal) = if save_s == "ok" {
                match catch(|| Database::parse(&buf, key.clone())) {
                    Ok(Ok(d2)) => ("ok".to_string(), d2 == db),
                    Ok(Err(e)) => (format!("err:{}", e), false),
                    Err(p) => (format!("panic:{}", p.site()), false),
                }
            } else {
                ("n/a".to_string(), false)
            };
            ctx.emit(json!({
                "op": "specOnly", "sub": "large-binary",
                "shape": name, "content_len": content.len(), "compression": format!("{:?}", compression),
                "tags": [format!("large-binary:{}", name)], "nontrivial": true,
                "real": {"save": save_s, "reopen": reopen, "equal": equal, "file_len": buf.len()},
            }));
        }
    }
}

/// Databases with a protected value of more than 1 MiB: too large for the executable model; observed: save succeeds, the file opens
/// to the same database, and the stored form of the value (read from the payload by the independent reader) does not equal the
/// plaintext over any stretch of 24 bytes, nor is it the bare base64 of the plaintext (op `specOnly`).
fn run_large_protected(ctx: &mut Ctx) {
    let mut rng = ctx.rng.fork();
    let mib = 1usize << 20;
    for (inner, len) in [(InnerCipherConfig::ChaCha20, mib + mib / 4), (InnerCipherConfig::Salsa20, 2 * mib + 5), (InnerCipherConfig::ChaCha20, mib)] {
        let secret: Vec<u8> = (0..len).map(|_| b'!' + (rng.below(90) as u8)).collect();
        let mut db = Database::new(DatabaseConfig {
            version: DatabaseVersion::KDB4(0),
            outer_cipher_config: OuterCipherConfig::ChaCha20,
            compression_config: CompressionConfig::None,
            inner_cipher_config: inner.clone(),
            kdf_config: KdfConfig::Aes { rounds: 1 },
        });
        let mut e = Entry::default();
        e.uuid = uuid::Uuid::from_bytes([9; 16]);
        e.fields.insert("Title".into(), Value::Unprotected("large secret".into()));
        e.fields.insert("Password".into(), Value::Protected(secstr::SecStr::new(secret.clone())));
        db.root.children.push(Node::Entry(e));
        let key = DatabaseKey::new().with_password("pw");
        let comp = ref_composite(&Some("pw".to_string()), &None).unwrap();
        let mut buf = Vec::new();
        let saved = catch(|| db.save(&mut buf, key.clone()));
        let save_s = match &saved {
            Ok(Ok(())) => "ok".to_string(),
            Ok(Err(e)) => format!("err:{}", e),
            Err(p) => format!("panic:{}", p.site()),
        };
        let mut leaks: Vec<String> = Vec::new();
        let (reopen, equal) = if save_s == "ok" {
            match kdbx::unwrap_kdbx4(&buf, &comp) {
                Ok(un) => {
                    let xml = String::from_utf8_lossy(&un.payload).to_string();
                    // the longest text between two tags is the stored form of the value
                    let stored = xml.split(|c| c == '<' || c == '>').max_by_key(|t| t.len()).unwrap_or("").to_string();
                    if stored == b64enc(&secret) {
                        leaks.push(format!("database-protected-value-as-plain-base64:value of {} bytes", len));
                    }
                    match b64dec(&stored) {
                        Some(ct) if ct.len() == secret.len() => {
                            let (mut run, mut best) = (0usize, 0usize);
                            for (a, b) in ct.iter().zip(secret.iter()) {
                                if a == b { run += 1; best = best.max(run); } else { run = 0; }
                            }
                            if best >= 24 {
                                leaks.push(format!("stored-form-equals-plaintext-over-{}-bytes:value of {} bytes", best, len));
                            }
                        }
                        _ => leaks.push(format!("stored-form-not-found:value of {} bytes", len)),
                    }
                    if xml.as_bytes().windows(40).any(|w| w == &secret[len - 40..]) {
                        leaks.push(format!("database-protected-value-in-clear:value of {} bytes", len));
                    }
                }
                Err(e) => leaks.push(format!("independent-reader-rejects-the-file:{:?}", e)),
            }
            match catch(|| Database::parse(&buf, key.clone())) {
                Ok(Ok(d2)) => ("ok".to_string(), d2 == db),
                Ok(Err(e)) => (format!("err:{}", e), false),
                Err(p) => (format!("panic:{}", p.site()), false),
            }
        } else {
            ("n/a".to_string(), false)
        };
        ctx.emit(json!({
            "op": "specOnly", "sub": "large-protected",
            "shape": format!("protected-value-of-{}-bytes-under-{:?}", len, inner),
            "tags": ["large-protected"], "nontrivial": true,
            "real": {"save": save_s, "reopen": reopen, "equal": equal, "file_len": buf.len(), "protected_leaks": leaks},
        }));
    }
}

pub fn run(ctx: &mut Ctx, hostile: bool) {
    // (also in the hostile run: C12 is about every database whose save succeeds)
    run_large_binaries(ctx);
    run_large_protected(ctx);
    let count = if hostile { ctx.count(800, 20000) } else { ctx.count(300, 5000) };
    let mut seen_random: HashSet<Vec<u8>> = HashSet::new();
    let mut samples: HashMap<(String, usize), Vec<Vec<u8>>> = HashMap::new(); // per (value, length): all draws of this run
    // two extra databases whose encrypted payload is exactly 1 MiB and one and a half MiB (block-size boundaries of the
    // HMAC block stream: KeePass splits at 1 MiB, this library writes one block)
    let extra = if hostile { 0 } else { 3 };
    for ci in 0..count + extra {
        let mut rng = ctx.rng.fork();
        let creds = frame::gen_creds(&mut rng);
        let comp = ref_composite(&creds.pw, &creds.kf).unwrap();
        let key = make_key(&creds.pw, &creds.kf);
        let (db, features) = if ci >= count {
            if ci == count + 2 {
                // GZip with a payload deflate cannot shrink: 4 MiB of random bytes next to a small document
                let mut db = big_db(&mut rng, 1usize << 20, &key, &comp);
                db.config.compression_config = CompressionConfig::GZip;
                db.header_attachments[0].content = rng.bytes(4 << 20);
                (db, std::collections::BTreeSet::new())
            } else {
            let target = if ci == count { 1usize << 20 } else { (1usize << 20) + (1 << 19) + 13 };
            (big_db(&mut rng, target, &key, &comp), std::collections::BTreeSet::new())
            }
        } else {
            let mut g = Gen::new(&mut rng, hostile);
            let db = g.database();
            (db, g.features.clone())
        };
        let before = dump::database(&db);
        let now = Times::now().and_utc().timestamp();
        // the sink accepts at most `cap` bytes per call (a pipe, a socket, a compressing adaptor): a conforming `Write`
        let cap = *rng.pick(&[usize::MAX, usize::MAX, 1usize, 7, 100, 4096]);
        // every sixth sink fails part-way (never for the two large databases): save must then report the failure
        let limit = if ci < count && rng.chance(1, 6) { Some(rng.below(700) as usize) } else { None };
        let mut sink = ChunkSink { buf: Vec::new(), cap, limit, failed: false };
        let saved = catch(|| db.save(&mut sink, key.clone()));
        let sink_failed = sink.failed;
        let buf = sink.buf;
        let unchanged = dump::database(&db) == before;
        let save_s = match &saved {
            Ok(Ok(())) => "ok".to_string(),
            Ok(Err(e)) => format!("err:{}", e),
            Err(p) => format!("panic:{}", p.site()),
        };
        let mut case = json!({
            "op": "xml", "sub": if hostile { "hostile" } else { "lossless" },
            "db": {"root": before["root"], "deleted_objects": before["deleted_objects"], "meta": before["meta"]},
            "now": now,
            "features": features.iter().cloned().collect::<Vec<_>>(),
            "tags": features.iter().map(|f| format!("feature:{}", f)).chain(std::iter::once(format!("save:{}", save_s.split(':').next().unwrap()))).collect::<Vec<_>>(),
            "keystream": "",
        });
        let mut checks = json!({"unchanged": unchanged});
        let mut real = json!({"save": save_s, "sink_failed": sink_failed});
        if let Ok(Ok(())) = &saved {
            // (a) independent strict unwrap
            match kdbx::unwrap_kdbx4(&buf, &comp) {
                Err(clause) => {
                    checks["unwrap"] = json!(clause);
                }
                Ok(un) => {
                    checks["unwrap"] = json!("ok");
                    let s = &un.spec;
                    let want_cfg = dump::config(&db.config);
                    let got_cfg = frame::spec_json(s)["config"].clone();
                    checks["config_labels_match"] = json!(want_cfg == got_cfg);
                    checks["attachments_match"] = json!(s.attachments.iter().map(|(f, c)| (*f, c.clone())).collect::<Vec<_>>() == db.header_attachments.iter().map(|a| (a.flags, a.content.clone())).collect::<Vec<_>>());
                    checks["single_data_block"] = json!(un.blocks.len() <= 1);
                    checks["header_field_order"] = json!(un.fields.iter().map(|(t, _)| *t).collect::<Vec<_>>());
                    // C09: the four random values
                    let kdf_seed = match &s.kdf { kdbx::Kdf::Aes { seed, .. } => seed.clone(), kdbx::Kdf::Argon2 { salt, .. } => salt.clone() };
                    let vals = [("master_seed", s.master_seed.clone(), 32usize), ("iv", s.iv.clone(), s.outer.iv_len()), ("inner_key", s.inner_key.clone(), match s.inner { Inner::Plain => 1, _ => 32 }), ("kdf_seed", kdf_seed, 32)];
                    let mut fresh = json!({});
                    for (name, v, want_len) in vals.iter() {
                        let repeat = if *name == "inner_key" && s.inner == Inner::Plain { false } else { !seen_random.insert(v.clone()) };
                        // byte positions that never varied over >= 12 draws of this value at this length (each byte must be random)
                        let mut constant: Vec<usize> = Vec::new();
                        if !(*name == "inner_key" && s.inner == Inner::Plain) {
                            let e = samples.entry((name.to_string(), v.len())).or_default();
                            e.push(v.clone());
                            if e.len() >= 12 {
                                constant = (0..v.len()).filter(|i| e.iter().all(|x| x[*i] == e[0][*i])).collect();
                            }
                        }
                        fresh[*name] = json!({"len": v.len(), "want_len": want_len, "all_zero": v.iter().all(|b| *b == 0) && !v.is_empty() && !(*name == "inner_key" && s.inner == Inner::Plain), "repeat": repeat, "hex": hex::encode(v), "constant_positions": constant});
                    }
                    checks["fresh"] = fresh;
                    // events, orders, key stream
                    let events = tokenize(&s.xml);
                    let prot = protected_texts(&events);
                    let total: usize = prot.iter().map(|t| b64dec(t).map(|b| b.len()).unwrap_or(0)).sum();
                    let ks = kdbx::inner_keystream(&s.inner, &s.inner_key, 0, total).unwrap_or_default();
                    case["keystream"] = json!(hex::encode(&ks));
                    case["orders"] = json!(orders_from_db(&db));
                    checks["orders_consistent"] = json!(events.iter().any(|e| e == "err") || map_orders(&events) == orders_from_db(&db));
                    checks["xml_wellformed"] = json!(!events.iter().any(|e| e == "err") && events.first().map(|e| e[1] == "KeePassFile").unwrap_or(false));
                    // oracle for compressed binaries in <Meta>
                    let mut oracle = Vec::new();
                    for (i, e) in events.iter().enumerate() {
                        if let Some(a) = e.as_array() {
                            if a[0] == "s" && a[1] == "Binary" && a[2].as_array().unwrap().iter().any(|p| p[0] == "Compressed") {
                                if let Some(c) = events.get(i + 1).and_then(|x| x.as_array()) {
                                    if c[0] == "c" {
                                        if let Some(z) = b64dec(c[1].as_str().unwrap()) {
                                            if let Ok(plain) = kdbx::gunzip(&z) {
                                                oracle.push(json!(["gzip", hex::encode(&plain), hex::encode(&z)]));
                                                oracle.push(json!(["gunzip", hex::encode(&z), hex::encode(&plain)]));
                                            }
                                        }
                                    }
                                }
                            }
                        }
                    }
                    case["oracle"] = json!(oracle);
                    case["events"] = json!(events);
                    // C08: leak search
                    let mut strings = Vec::new();
                    collect_strings(&before, &mut strings);
                    strings.retain(|s| s.len() >= 5);
                    strings.sort();
                    strings.dedup();
                    let body = &buf[un.header.len()..];
                    let mut leaks: Vec<String> = Vec::new();
                    for st in &strings {
                        let forms: Vec<(&str, Vec<u8>)> = vec![
                            ("raw", st.as_bytes().to_vec()),
                            ("base64", b64enc(st.as_bytes()).trim_end_matches('=').as_bytes().to_vec()),
                            ("hex", hex::encode(st.as_bytes()).into_bytes()),
                            ("utf16le", st.encode_utf16().flat_map(|u| u.to_le_bytes()).collect()),
                        ];
                        for (form, needle) in forms {
                            if needle.len() >= 5 && find_sub(&buf, &needle) {
                                leaks.push(format!("{}:{:?}", form, st));
                            }
                        }
                    }
                    for marker in [&b"<?xml"[..], b"KeePassFile", b"<Meta>", b"<Root>"] {
                        if find_sub(body, marker) {
                            leaks.push(format!("structure:{}", String::from_utf8_lossy(marker)));
                        }
                    }
                    checks["leaks"] = json!(leaks);
                    // inside the payload: protected values.  The search runs over the character data and attribute values of
                    // the tokenised document (not the raw bytes: markup and escapes such as "&amp;" are not content)
                    let texts: Vec<String> = events.iter().flat_map(|e| match e.get(0).and_then(|t| t.as_str()) {
                        Some("c") => vec![e[1].as_str().unwrap_or("").to_string()],
                        Some("s") => e[2].as_array().map(|a| a.iter().map(|kv| kv[1].as_str().unwrap_or("").to_string()).collect()).unwrap_or_default(),
                        _ => vec![],
                    }).collect();
                    let mut prot_leaks: Vec<String> = Vec::new();
                    let mut by_plain: HashMap<Vec<u8>, HashSet<String>> = HashMap::new();
                    let mut off = 0usize;
                    for t in &prot {
                        if let Some(ct) = b64dec(t) {
                            let pt: Vec<u8> = ct.iter().zip(ks[off..off + ct.len()].iter()).map(|(a, b)| a ^ b).collect();
                            off += ct.len();
                            if pt.len() >= 4 && s.inner != Inner::Plain {
                                if in_text(&texts, &pt) && !strings_unprotected_contains(&before, &pt) {
                                    prot_leaks.push(format!("plaintext-in-xml:{}", String::from_utf8_lossy(&pt)));
                                }
                                if *t == b64enc(&pt) {
                                    prot_leaks.push(format!("base64-of-plaintext:{}", String::from_utf8_lossy(&pt)));
                                }
                                by_plain.entry(pt).or_default().insert(t.clone());
                            }
                        }
                    }
                    let mut repeated = 0;
                    for (pt, cts) in &by_plain {
                        let occurrences = prot.iter().filter(|t| cts.contains(*t)).count();
                        if occurrences >= 2 {
                            repeated += 1;
                            if cts.len() < occurrences {
                                prot_leaks.push(format!("equal-plaintexts-equal-ciphertexts:{}", String::from_utf8_lossy(pt)));
                            }
                        }
                    }
                    // the database's own protected values: each must be written protected (as many protected values in the
                    // output as in the database) and none may appear in clear in the payload
                    let mut db_prot: Vec<Vec<u8>> = Vec::new();
                    collect_protected(&db, &mut db_prot);
                    if db_prot.len() != prot.len() {
                        prot_leaks.push(format!("protected-count:{} protected values in the database, {} written protected", db_prot.len(), prot.len()));
                    }
                    if s.inner != Inner::Plain {
                        for pt in &db_prot {
                            // written as the bare base64 of the plaintext (no stream cipher applied)
                            if pt.len() >= 4 && prot.iter().any(|t| *t == b64enc(pt)) {
                                prot_leaks.push(format!("database-protected-value-as-plain-base64:{}", String::from_utf8_lossy(&pt[..pt.len().min(40)])));
                            }
                            // a stretch of the stored form equals the plaintext at the same place (part of the value was not enciphered)
                            if pt.len() >= 32 {
                                for t in &prot {
                                    if let Some(ct) = b64dec(t) {
                                        if ct.len() == pt.len() {
                                            let mut run = 0usize;
                                            let mut best = 0usize;
                                            for (a, b) in ct.iter().zip(pt.iter()) {
                                                if a == b { run += 1; best = best.max(run); } else { run = 0; }
                                            }
                                            if best >= 24 {
                                                prot_leaks.push(format!("stored-form-equals-plaintext-over-{}-bytes:value of {} bytes", best, pt.len()));
                                            }
                                        }
                                    }
                                }
                            }
                            if pt.len() >= 4 && !strings_unprotected_contains(&before, pt) {
                                if in_text(&texts, pt) {
                                    prot_leaks.push(format!("database-protected-value-in-clear:{}", String::from_utf8_lossy(pt)));
                                }
                            }
                        }
                    }
                    checks["protected_leaks"] = json!(prot_leaks);
                    checks["protected_values"] = json!(prot.len());
                    checks["repeated_protected_plaintexts"] = json!(repeated);
                    checks["inner"] = json!(s.inner.name());
                }
            }
            // (b) re-open with the real library
            let re = catch(|| Database::parse(&buf, key.clone()));
            match &re {
                Ok(Ok(d2)) => {
                    let dj = dump::database(d2);
                    real["reopen"] = json!("ok");
                    real["reopen_content"] = json!({"root": dj["root"], "deleted_objects": dj["deleted_objects"], "meta": dj["meta"]});
                    checks["reopen_equal"] = json!(*d2 == db);
                    checks["reopen_config_equal"] = json!(d2.config == db.config);
                    checks["reopen_attachments_equal"] = json!(d2.header_attachments == db.header_attachments);
                }
                Ok(Err(e)) => {
                    real["reopen"] = json!(format!("err:{}", frame::err_class(e)));
                    checks["reopen_error"] = json!(format!("{}", e));
                }
                Err(p) => {
                    real["reopen"] = json!(format!("panic:{}", p.site()));
                }
            }
        }
        let nontrivial = if hostile { !features.is_empty() } else { true };
        case["checks"] = checks;
        case["real"] = real;
        case["nontrivial"] = json!(nontrivial);
        ctx.emit(case);
    }
}

/// does the plaintext also occur as an *unprotected* string of the database (then finding it in the XML proves nothing)?
fn in_text(texts: &[String], pt: &[u8]) -> bool {
    texts.iter().any(|t| find_sub(t.as_bytes(), pt))
}

fn strings_unprotected_contains(db: &J, pt: &[u8]) -> bool {
    fn walk(j: &J, pt: &[u8], found: &mut bool) {
        match j {
            J::String(s) => {
                if find_sub(s.as_bytes(), pt) {
                    *found = true;
                }
            }
            J::Array(a) => a.iter().for_each(|x| walk(x, pt, found)),
            J::Object(o) => o.iter().for_each(|(k, v)| {
                if k != "p" {
                    walk(v, pt, found)
                }
            }),
            _ => {}
        }
    }
    let mut f = false;
    walk(db, pt, &mut f);
    f
}
