//! C10 / C11: scripted `Read` and `Write` implementations around the real entry points,
//! against `KpModel/Io.lean`.
use crate::dump;
use crate::panicx::catch;
use crate::rng::Rng;
use crate::Ctx;
use keepass::config::*;
use keepass::db::*;
use keepass::{Database, DatabaseKey};
use serde_json::{json, Value as J};
use std::io::{ErrorKind, Read, Write};

#[derive(Clone, Debug)]
pub enum Step {
    Cap(usize), // deliver / accept at most n+1 bytes
    Intr,
    Zero, // writers only: Ok(0)
}

fn kind_name(k: ErrorKind) -> &'static str {
    match k {
        ErrorKind::Other => "other",
        ErrorKind::UnexpectedEof => "unexpectedEof",
        ErrorKind::WriteZero => "writeZero",
        ErrorKind::BrokenPipe => "brokenPipe",
        ErrorKind::Interrupted => "interrupted",
        ErrorKind::InvalidData => "invalidData",
        ErrorKind::InvalidInput => "invalidInput",
        ErrorKind::TimedOut => "timedOut",
        _ => "unknown",
    }
}

pub struct ScriptedReader<'a> {
    data: &'a [u8],
    pos: usize,
    steps: std::collections::VecDeque<Step>,
    fail: Option<(usize, ErrorKind)>,
    pub failed: bool,
    pub calls: usize,
}

impl<'a> ScriptedReader<'a> {
    pub fn new(data: &'a [u8], steps: &[Step], fail: Option<(usize, ErrorKind)>) -> Self {
        ScriptedReader { data, pos: 0, steps: steps.iter().cloned().collect(), fail, failed: false, calls: 0 }
    }
}

impl<'a> Read for ScriptedReader<'a> {
    fn read(&mut self, buf: &mut [u8]) -> std::io::Result<usize> {
        self.calls += 1;
        let step = self.steps.pop_front();
        if let Some(Step::Intr) = step {
            return Err(std::io::Error::new(ErrorKind::Interrupted, "scripted interrupt"));
        }
        let cap = match step {
            Some(Step::Cap(n)) => n + 1,
            _ => usize::MAX,
        };
        if let Some((off, k)) = self.fail {
            if self.pos >= off {
                self.failed = true;
                return Err(std::io::Error::new(k, "scripted failure"));
            }
        }
        let mut n = cap.min(buf.len()).min(self.data.len() - self.pos);
        if let Some((off, _)) = self.fail {
            n = n.min(off - self.pos);
        }
        buf[..n].copy_from_slice(&self.data[self.pos..self.pos + n]);
        self.pos += n;
        Ok(n)
    }
}

pub struct ScriptedWriter {
    pub received: Vec<u8>,
    steps: std::collections::VecDeque<Step>,
    fail: Option<(usize, ErrorKind)>,
    pub failed: bool,
    pub refused: bool,
    pub call_lens: Vec<usize>,
}

impl ScriptedWriter {
    pub fn new(steps: &[Step], fail: Option<(usize, ErrorKind)>) -> Self {
        ScriptedWriter { received: Vec::new(), steps: steps.iter().cloned().collect(), fail, failed: false, refused: false, call_lens: Vec::new() }
    }
}

impl Write for ScriptedWriter {
    fn write(&mut self, buf: &[u8]) -> std::io::Result<usize> {
        self.call_lens.push(buf.len());
        if buf.is_empty() {
            return Ok(0);
        }
        let step = self.steps.pop_front();
        match step {
            Some(Step::Intr) => return Err(std::io::Error::new(ErrorKind::Interrupted, "scripted interrupt")),
            Some(Step::Zero) => {
                self.refused = true;
                return Ok(0);
            }
            _ => {}
        }
        let cap = match step {
            Some(Step::Cap(n)) => n + 1,
            _ => usize::MAX,
        };
        if let Some((off, k)) = self.fail {
            if self.received.len() >= off {
                self.failed = true;
                if k == ErrorKind::WriteZero {
                    self.refused = true;
                    return Ok(0); // the sink is full
                }
                return Err(std::io::Error::new(k, "scripted failure"));
            }
        }
        let mut n = cap.min(buf.len());
        if let Some((off, _)) = self.fail {
            n = n.min(off - self.received.len());
        }
        if n < buf.len() {
            self.refused = true;
        }
        self.received.extend_from_slice(&buf[..n]);
        Ok(n)
    }
    fn flush(&mut self) -> std::io::Result<()> {
        Ok(())
    }
}

/// run-length script: [[n, count], …] with n = -1 for an interruption, -2 for Ok(0)
fn script_json(steps: &[Step]) -> J {
    let mut out: Vec<(i64, u64)> = Vec::new();
    for s in steps {
        let v = match s {
            Step::Cap(n) => *n as i64,
            Step::Intr => -1,
            Step::Zero => -2,
        };
        match out.last_mut() {
            Some((lv, c)) if *lv == v => *c += 1,
            _ => out.push((v, 1)),
        }
    }
    J::Array(out.iter().map(|(v, c)| json!([v, c])).collect())
}

fn gen_steps(rng: &mut Rng, len: usize, style: u64, for_write: bool) -> Vec<Step> {
    let mut steps = Vec::new();
    match style {
        0 => {}
        s @ 1..=16 => {
            let k = s as usize; // constant cap k for the whole file
            for _ in 0..(len / k + 3) {
                steps.push(Step::Cap(k - 1));
            }
        }
        17 => {
            // random caps with interruptions
            let mut covered = 0;
            while covered < len + 8 {
                if rng.chance(1, 5) {
                    steps.push(Step::Intr);
                } else {
                    let c = rng.range(1, 40) as usize;
                    steps.push(Step::Cap(c - 1));
                    covered += c;
                }
            }
        }
        20 => {
            // one byte per call with interruptions sprinkled over the first 14 calls, then unbounded
            let at = rng.below(12) as usize;
            for i in 0..14 {
                if i == at || rng.chance(1, 6) {
                    steps.push(Step::Intr);
                }
                steps.push(Step::Cap(0));
            }
        }
        18 => {
            // interruptions first, then whole
            for _ in 0..rng.range(1, 4) {
                steps.push(Step::Intr);
            }
        }
        _ => {
            // a short prefix of tiny reads around the 12-byte version header, then unbounded
            for _ in 0..rng.range(1, 14) {
                if rng.chance(1, 6) {
                    steps.push(Step::Intr);
                } else {
                    steps.push(Step::Cap(rng.below(3) as usize));
                }
            }
            if for_write && rng.chance(1, 3) {
                steps.push(Step::Zero);
            }
        }
    }
    steps
}

/// `WriteZero` stands for a sink that is full at the offset: it answers `Ok(0)` there (`&mut [u8]`, `Cursor<&mut [u8]>`),
/// which `write_all` turns into an error of that kind
const KINDS: &[ErrorKind] = &[ErrorKind::Other, ErrorKind::UnexpectedEof, ErrorKind::BrokenPipe, ErrorKind::WriteZero];
/// what a source can fail with: also the kinds a decompressing or decrypting reader in front of the file reports
const READ_KINDS: &[ErrorKind] = &[ErrorKind::Other, ErrorKind::UnexpectedEof, ErrorKind::BrokenPipe, ErrorKind::InvalidData, ErrorKind::InvalidInput, ErrorKind::TimedOut];

fn small_db(rng: &mut Rng, compression: CompressionConfig) -> Database {
    let mut db = Database::new(DatabaseConfig {
        version: DatabaseVersion::KDB4(0),
        outer_cipher_config: rng.pick(&[OuterCipherConfig::AES256, OuterCipherConfig::Twofish, OuterCipherConfig::ChaCha20]).clone(),
        compression_config: compression,
        inner_cipher_config: rng.pick(&[InnerCipherConfig::Plain, InnerCipherConfig::Salsa20, InnerCipherConfig::ChaCha20]).clone(),
        kdf_config: KdfConfig::Aes { rounds: 2 },
    });
    db.root.uuid = uuid::Uuid::from_u128(1);
    let mut e = Entry::new();
    e.uuid = uuid::Uuid::from_u128(2);
    e.fields.insert("Title".into(), Value::Unprotected("t".into()));
    e.fields.insert("Password".into(), Value::Protected(secstr::SecStr::new(b"secret".to_vec())));
    db.root.children.push(Node::Entry(e));
    if rng.chance(1, 2) {
        let mut g = Group::new("G");
        g.uuid = uuid::Uuid::from_u128(3);
        db.root.children.push(Node::Group(g));
    }
    db
}

fn open_outcome(r: &Result<Result<Database, keepass::error::DatabaseOpenError>, crate::panicx::PanicInfo>) -> String {
    match r {
        Ok(Ok(db)) => format!("ok:{}", serde_json::to_string(&dump::database(db)).unwrap()),
        Ok(Err(keepass::error::DatabaseOpenError::Io(e))) => format!("io:{}", kind_name(e.kind())),
        Ok(Err(e)) => format!("err:{}", e),
        Err(p) => format!("panic:{}", p.site()),
    }
}

fn xml_outcome(r: Result<Result<Vec<u8>, keepass::error::DatabaseOpenError>, crate::panicx::PanicInfo>) -> String {
    match r {
        Ok(Ok(x)) => format!("ok:{}", hex::encode(x)),
        Ok(Err(keepass::error::DatabaseOpenError::Io(e))) => format!("io:{}", kind_name(e.kind())),
        Ok(Err(e)) => format!("err:{}", e),
        Err(p) => format!("panic:{}", p.site()),
    }
}

struct TestFile {
    name: String,
    data: Vec<u8>,
    key: DatabaseKey,
    cheap: bool,
}

fn res(name: &str) -> Vec<u8> {
    std::fs::read(format!("/repo/tests/resources/{}", name)).expect("resource file")
}

fn files(rng: &mut Rng) -> Vec<TestFile> {
    let mut v = Vec::new();
    for i in 0..3 {
        let mut db = small_db(rng, if i == 0 { CompressionConfig::None } else { CompressionConfig::GZip });
        // the minor version a writer states is what every entry point reports (KDBX 4.0, 4.1, and a later one)
        db.config.version = DatabaseVersion::KDB4([0u16, 1, 3][i]);
        let mut buf = Vec::new();
        db.save(&mut buf, DatabaseKey::new().with_password("pw")).unwrap();
        v.push(TestFile { name: format!("saved{}", i), data: buf, key: DatabaseKey::new().with_password("pw"), cheap: true });
    }
    v.push(TestFile { name: "kdb".into(), data: res("test_db_kdb_with_password.kdb"), key: DatabaseKey::new().with_password("foobar"), cheap: true });
    v.push(TestFile { name: "kdbx3".into(), data: res("test_db_with_password.kdbx"), key: DatabaseKey::new().with_password("demopass"), cheap: true });
    v.push(TestFile { name: "kdbx4-argon2".into(), data: res("test_db_kdbx4_with_password_argon2.kdbx"), key: DatabaseKey::new().with_password("demopass"), cheap: false });
    v.push(TestFile { name: "broken-version".into(), data: res("broken_kdbx_version.kdbx"), key: DatabaseKey::new().with_password(""), cheap: true });
    v.push(TestFile { name: "random".into(), data: res("broken_random_data.kdbx"), key: DatabaseKey::new().with_password(""), cheap: true });
    for n in [0usize, 5, 11, 12, 13, 40] {
        let d = v[0].data[..n.min(v[0].data.len())].to_vec();
        v.push(TestFile { name: format!("prefix{}", n), data: d, key: DatabaseKey::new().with_password("pw"), cheap: true });
    }
    v
}

fn version_str(r: &Result<keepass::config::DatabaseVersion, keepass::error::DatabaseIntegrityError>) -> String {
    match r {
        Ok(v) => format!("ok:{:?}", v),
        Err(keepass::error::DatabaseIntegrityError::Io(e)) => format!("io:{}", kind_name(e.kind())),
        Err(_) => "ok:none".to_string(),
    }
}

pub fn run_read(ctx: &mut Ctx) {
    let mut rng = ctx.rng.fork();
    let fs = files(&mut rng);
    let thorough = ctx.thorough;
    for f in &fs {
        let len = f.data.len();
        let head: Vec<u8> = f.data.iter().take(16).cloned().collect();
        // whole-buffer references
        let whole_open = if f.cheap { Some(open_outcome(&catch(|| Database::parse(&f.data, f.key.clone())))) } else { None };
        let whole_xml = if f.cheap {
            Some(xml_outcome(catch(|| Database::get_xml(&mut &f.data[..], f.key.clone()))))
        } else { None };
        let whole_version = version_str(&Database::get_version(&mut &f.data[..]));
        let open_version = match &whole_open {
            Some(_) => match catch(|| Database::parse(&f.data, f.key.clone())) {
                Ok(Ok(db)) => Some(format!("{:?}", db.config.version)),
                _ => None,
            },
            None => None,
        };
        let whole_key = DatabaseKey::new().with_keyfile(&mut &f.data[..]).unwrap();

        // schedules
        let mut scheds: Vec<(Vec<Step>, Option<(usize, ErrorKind)>)> = Vec::new();
        for style in 0..=20u64 {
            scheds.push((gen_steps(&mut rng, len, style, false), None));
        }
        // failures
        let mut offs: Vec<usize> = vec![0, 1, 4, 11, 12, 13, len / 2, len.saturating_sub(1), len, len + 1];
        if thorough && len <= 4096 {
            offs = (0..=len + 1).collect();
        } else {
            for _ in 0..14 {
                offs.push(rng.below(len as u64 + 1) as usize);
            }
        }
        offs.sort();
        offs.dedup();
        for off in offs {
            let style = *rng.pick(&[0u64, 1, 2, 7, 17, 19]);
            let kind = *rng.pick(READ_KINDS);
            scheds.push((gen_steps(&mut rng, len, style, false), Some((off, kind))));
        }
        for (steps, fail) in scheds {
            let failj = match fail {
                None => J::Null,
                Some((o, k)) => json!([o, kind_name(k)]),
            };
            let splits12 = steps.iter().take(3).any(|s| matches!(s, Step::Cap(n) if *n + 1 < 12) || matches!(s, Step::Intr));
            let nontrivial = splits12 || fail.is_some();
            let mut entries: Vec<&str> = vec!["get_version", "keyfile"];
            if f.cheap {
                entries.push("open");
                entries.push("get_xml");
            }
            for entry in entries {
                let mut rd = ScriptedReader::new(&f.data, &steps, fail);
                let (real, extra): (String, J) = match entry {
                    "open" => {
                        let r = open_outcome(&catch(|| Database::open(&mut rd, f.key.clone())));
                        (if Some(&r) == whole_open.as_ref() { "whole".into() } else if r.starts_with("io:") { r } else { format!("other:{}", &r[..r.len().min(80)]) }, J::Null)
                    }
                    "get_xml" => {
                        let r = xml_outcome(catch(|| Database::get_xml(&mut rd, f.key.clone())));
                        (if Some(&r) == whole_xml.as_ref() { "whole".into() } else if r.starts_with("io:") { r } else { format!("other:{}", &r[..r.len().min(80)]) }, J::Null)
                    }
                    "keyfile" => {
                        let r = DatabaseKey::new().with_keyfile(&mut rd);
                        (match r {
                            Ok(k) => if k == whole_key { "whole".into() } else { "other:different key".into() },
                            Err(e) => format!("io:{}", kind_name(e.kind())),
                        }, J::Null)
                    }
                    _ => {
                        let r = version_str(&Database::get_version(&mut rd));
                        (r, json!({"whole_version": whole_version, "open_version": open_version}))
                    }
                };
                ctx.emit(json!({
                    "op": "ioread", "entry": entry, "file": f.name, "len": len, "head": hex::encode(&head),
                    "script": script_json(&steps), "fail": failj, "nontrivial": nontrivial,
                    "tags": [format!("entry:{}", entry), format!("file:{}", f.name), if fail.is_some() { "failure".to_string() } else { "no-failure".to_string() }],
                    "extra": extra,
                    "real": if entry == "get_version" { json!({"outcome": real, "open_version": open_version}) } else { json!({"outcome": real}) },
                }));
            }
        }
    }
}

pub fn run_write(ctx: &mut Ctx) {
    let mut rng = ctx.rng.fork();
    let ndb = if ctx.thorough { 20 } else { 3 };
    for di in 0..ndb + 3 {
        // the last database has a payload of exactly 5 MiB (a multiple of the 1 MiB block size of the HMAC block stream, and
        // more than any piece size a writer might hand to the sink at once)
        // … and the one after it a payload of 300 KiB, written to pipe-like sinks that take less than 64 KiB, 4 KiB, 1000 bytes a call
        // … and one more of that size that is compressed (the attachment is random: the compressor cannot shrink it and has to
        // take it in more than one piece)
        let gz = di == ndb + 2;
        let mid = di == ndb + 1 || gz;
        let big = di == ndb || mid;
        let key = DatabaseKey::new().with_password("pw");
        let db = if big {
            let comp = crate::keyop::ref_composite(&Some("pw".to_string()), &None).unwrap();
            let mut d = crate::saveop::big_db(&mut rng, if mid { 300 << 10 } else { 5 << 20 }, &key, &comp);
            if gz {
                d.config.compression_config = CompressionConfig::GZip;
            }
            d
        } else {
            small_db(&mut rng, CompressionConfig::None)
        };
        // reference run: a sink that accepts everything; its write calls are the segments
        let mut w0 = ScriptedWriter::new(&[], None);
        db.save(&mut w0, key.clone()).unwrap();
        let segs: Vec<usize> = w0.call_lens.clone();
        let total = w0.received.len();
        let mut w1 = ScriptedWriter::new(&[], None);
        db.save(&mut w1, key.clone()).unwrap();
        assert_eq!(w1.received.len(), total, "save length must be deterministic without compression");

        let mut scheds: Vec<(Vec<Step>, Option<(usize, ErrorKind)>)> = Vec::new();
        if big {
            scheds.push((vec![], None));
            scheds.push(((0..total / 65536 + 3).map(|_| Step::Cap(65535)).collect(), None));
            // pipe-like sinks that take less than any piece a writer might offer: one byte less than 64 KiB, 4 KiB, 1000 bytes
            let caps: &[usize] = if mid { &[65_535, 4096, 1000] } else { &[65_535] };
            for cap in caps {
                scheds.push(((0..2 * (total / cap) + 64).map(|_| Step::Cap(cap - 1)).collect(), None));
            }
            scheds.push((vec![], Some((total - 1, ErrorKind::Other))));
        }
        for style in 0..=19u64 {
            if big {
                break;
            }
            scheds.push((gen_steps(&mut rng, total, style, true), None));
        }
        for k in [32usize, 33, 64, 100] {
            if big {
                break;
            }
            scheds.push((gen_steps(&mut rng, total, 0, true).into_iter().chain((0..total / k + 3).map(|_| Step::Cap(k - 1))).collect(), None));
        }
        let offs: Vec<usize> = if ctx.thorough { (0..=total + 1).collect() } else {
            let mut o: Vec<usize> = (0..=total + 1).step_by(7).collect();
            o.extend([0, 1, 3, 4, 5, total - 1, total, total + 1]);
            for s in &segs { o.push(*s); }
            let mut acc = 0; for s in &segs { acc += s; o.push(acc); o.push(acc.saturating_sub(1)); o.push(acc + 1); }
            o.sort(); o.dedup(); o
        };
        for off in offs {
            if big {
                break;
            }
            let style = *rng.pick(&[0u64, 0, 1, 3, 17, 19]);
            let kind = *rng.pick(KINDS);
            scheds.push((gen_steps(&mut rng, total, style, true), Some((off, kind))));
        }
        for (steps, fail) in scheds {
            let failj = match fail {
                None => J::Null,
                Some((o, k)) => json!([o, kind_name(k)]),
            };
            let before = dump::database(&db);
            let mut w = ScriptedWriter::new(&steps, fail);
            let r = db.save(&mut w, key.clone());
            let unchanged = dump::database(&db) == before;
            let result = match &r {
                Ok(()) => "ok".to_string(),
                Err(keepass::error::DatabaseSaveError::Io(e)) => format!("io:{}", kind_name(e.kind())),
                Err(e) => format!("err:{}", e),
            };
            let opens_equal = if r.is_ok() {
                match catch(|| Database::parse(&w.received, key.clone())) {
                    Ok(Ok(d2)) => d2 == db,
                    _ => false,
                }
            } else {
                false
            };
            let nontrivial = fail.map(|(o, _)| o < total).unwrap_or(false)
                || steps.iter().any(|s| matches!(s, Step::Cap(n) if *n + 1 < 32) || matches!(s, Step::Zero));
            ctx.emit(json!({
                "op": "iowrite", "segs": segs, "script": script_json(&steps), "fail": failj,
                "nontrivial": nontrivial,
                "tags": [if fail.is_some() { "failure" } else { "no-failure" }, if w.refused { "short-or-refused" } else { "all-accepted" }],
                "real": {"result": result, "received_len": w.received.len()},
                "checks": {"opens_equal": opens_equal, "db_unchanged": unchanged, "total": total},
            }));
        }
    }
}
