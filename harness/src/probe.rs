//! ad-hoc probe: print panic sites for truncated / mutated files (development aid)
use crate::panicx::catch;
use keepass::{Database, DatabaseKey};
pub fn run() {
    let data = std::fs::read("/repo/tests/resources/test_db_kdbx4_with_password_aes.kdbx").unwrap();
    let mut seen = std::collections::BTreeMap::new();
    for n in 0..data.len() {
        let r = catch(|| Database::parse(&data[..n], DatabaseKey::new().with_password("demopass")));
        if let Err(p) = r {
            *seen.entry(format!("{} | {} | {}:{}", p.site(), p.message.chars().take(60).collect::<String>(), p.file, p.line)).or_insert(0) += 1;
        }
    }
    for (k, v) in seen {
        println!("{} x{}", k, v);
    }
}
