//! ad-hoc probes (development aid): behaviour of the xml-rs writer -> reader pipeline on single characters
use xml::reader::{EventReader, XmlEvent};
use xml::writer::{EmitterConfig, XmlEvent as W};

pub fn roundtrip_text(s: &str) -> String {
    let mut buf = Vec::new();
    {
        let mut w = EmitterConfig::new().perform_indent(false).create_writer(&mut buf);
        if let Err(e) = w.write(W::start_element("A")) { return format!("werr:{}", e); }
        if let Err(e) = w.write(W::characters(s)) { return format!("werr:{}", e); }
        if let Err(e) = w.write(W::end_element()) { return format!("werr:{}", e); }
    }
    let mut out = Vec::new();
    for ev in EventReader::new(&buf[..]) {
        match ev {
            Ok(XmlEvent::Characters(c)) => out.push(format!("C{:?}", c)),
            Ok(XmlEvent::Whitespace(c)) => out.push(format!("W{:?}", c)),
            Ok(XmlEvent::CData(c)) => out.push(format!("D{:?}", c)),
            Ok(XmlEvent::StartElement { .. }) | Ok(XmlEvent::EndElement { .. }) | Ok(XmlEvent::StartDocument { .. }) | Ok(XmlEvent::EndDocument) => {}
            Ok(e) => out.push(format!("?{:?}", e)),
            Err(_) => { out.push("ERR".into()); break; }
        }
    }
    out.join("|")
}

pub fn run() {
    let mut classes: std::collections::BTreeMap<String, Vec<u32>> = std::collections::BTreeMap::new();
    let mut cps: Vec<u32> = (0..0x300).collect();
    cps.extend([0x2028, 0x2029, 0xD7FF, 0xE000, 0xFFFD, 0xFFFE, 0xFFFF, 0x10000, 0x10FFFF, 0x1FFFE]);
    for cp in cps {
        if let Some(c) = char::from_u32(cp) {
            let s = format!("a{}b", c);
            let r = roundtrip_text(&s);
            let cls = if r == format!("C{:?}", s) { "same".to_string() } else if r.contains("ERR") { "ERR".to_string() } else { format!("other:{}", r) };
            classes.entry(cls).or_default().push(cp);
        }
    }
    for (k, v) in &classes {
        let show: Vec<String> = v.iter().take(40).map(|x| format!("{:x}", x)).collect();
        println!("{} ({}): {}", k, v.len(), show.join(","));
    }
    for s in ["", " ", "\t\n", " a ", "a\r\nb", "\r", "]]>", "a&b<c>d\"e'f", "\u{feff}x", "x\u{feff}"] {
        println!("{:?} -> {}", s, roundtrip_text(s));
    }
}
