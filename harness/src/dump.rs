//! Canonical JSON dump of the public object model (maps sorted, values tagged, times as seconds).
//! The crate's own `serialization` feature is not used: it renders protected and unprotected values alike.
use keepass::config::*;
use keepass::db::*;
use serde_json::{json, Value as J};

pub fn time(t: &chrono::NaiveDateTime) -> J {
    let s = t.and_utc().timestamp();
    let ns = t.and_utc().timestamp_subsec_nanos();
    if ns == 0 {
        json!(s)
    } else {
        json!([s, ns])
    }
}
pub fn otime(t: &Option<chrono::NaiveDateTime>) -> J {
    match t {
        None => J::Null,
        Some(t) => time(t),
    }
}
pub fn uuid(u: &uuid::Uuid) -> J {
    json!(hex::encode(u.as_bytes()))
}
pub fn ouuid(u: &Option<uuid::Uuid>) -> J {
    match u {
        None => J::Null,
        Some(u) => uuid(u),
    }
}
pub fn value(v: &Value) -> J {
    match v {
        Value::Bytes(b) => json!({"b": hex::encode(b)}),
        Value::Unprotected(s) => json!({"u": s}),
        Value::Protected(p) => json!({"p": hex::encode(p.unsecure())}),
    }
}
pub fn color(c: &Option<Color>) -> J {
    match c {
        None => J::Null,
        Some(c) => json!([c.r, c.g, c.b]),
    }
}
pub fn times(t: &Times) -> J {
    let mut ks: Vec<_> = t.times.iter().collect();
    ks.sort_by(|a, b| a.0.cmp(b.0));
    json!({
        "expires": t.expires,
        "usage": t.usage_count,
        "times": ks.iter().map(|(k, v)| json!([k, time(v)])).collect::<Vec<_>>(),
    })
}
pub fn custom_data(c: &CustomData) -> J {
    let mut ks: Vec<_> = c.items.iter().collect();
    ks.sort_by(|a, b| a.0.cmp(b.0));
    J::Array(
        ks.iter()
            .map(|(k, v)| {
                json!([k, match &v.value { None => J::Null, Some(v) => value(v) }, otime(&v.last_modification_time)])
            })
            .collect(),
    )
}
pub fn autotype(a: &Option<AutoType>) -> J {
    match a {
        None => J::Null,
        Some(a) => json!({
            "enabled": a.enabled,
            "sequence": a.sequence,
            "assoc": a.associations.iter().map(|x| json!([x.window, x.sequence])).collect::<Vec<_>>(),
        }),
    }
}
/// everything of an entry except `times` and `history`
pub fn entry_content(e: &Entry) -> J {
    let mut fs: Vec<_> = e.fields.iter().collect();
    fs.sort_by(|a, b| a.0.cmp(b.0));
    json!({
        "uuid": uuid(&e.uuid),
        "fields": fs.iter().map(|(k, v)| json!([k, value(v)])).collect::<Vec<_>>(),
        "autotype": autotype(&e.autotype),
        "tags": e.tags,
        "custom_data": custom_data(&e.custom_data),
        "icon_id": e.icon_id,
        "custom_icon_uuid": ouuid(&e.custom_icon_uuid),
        "fg": color(&e.foreground_color),
        "bg": color(&e.background_color),
        "override_url": e.override_url,
        "quality_check": e.quality_check,
    })
}
pub fn entry(e: &Entry) -> J {
    let mut j = entry_content(e);
    j["times"] = times(&e.times);
    j["history"] = match &e.history {
        None => J::Null,
        Some(h) => J::Array(h.get_entries().iter().map(entry).collect()),
    };
    j
}
/// everything of a group except `times` and `children`
pub fn group_content(g: &Group) -> J {
    json!({
        "uuid": uuid(&g.uuid),
        "name": g.name,
        "notes": g.notes,
        "icon_id": g.icon_id,
        "custom_icon_uuid": ouuid(&g.custom_icon_uuid),
        "custom_data": custom_data(&g.custom_data),
        "is_expanded": g.is_expanded,
        "default_autotype_sequence": g.default_autotype_sequence,
        "enable_autotype": g.enable_autotype,
        "enable_searching": g.enable_searching,
        "last_top_visible_entry": ouuid(&g.last_top_visible_entry),
    })
}
pub fn group(g: &Group) -> J {
    let mut j = group_content(g);
    j["times"] = times(&g.times);
    j["children"] = J::Array(
        g.children
            .iter()
            .map(|c| match c {
                Node::Group(g) => json!({"group": group(g)}),
                Node::Entry(e) => json!({"entry": entry(e)}),
            })
            .collect(),
    );
    j
}
pub fn meta(m: &Meta) -> J {
    json!({
        "generator": m.generator,
        "database_name": m.database_name,
        "database_name_changed": otime(&m.database_name_changed),
        "database_description": m.database_description,
        "database_description_changed": otime(&m.database_description_changed),
        "default_username": m.default_username,
        "default_username_changed": otime(&m.default_username_changed),
        "maintenance_history_days": m.maintenance_history_days,
        "color": color(&m.color),
        "master_key_changed": otime(&m.master_key_changed),
        "master_key_change_rec": m.master_key_change_rec,
        "master_key_change_force": m.master_key_change_force,
        "memory_protection": m.memory_protection.as_ref().map(|p| json!([p.protect_title, p.protect_username, p.protect_password, p.protect_url, p.protect_notes])),
        "custom_icons": m.custom_icons.icons.iter().map(|i| json!([uuid(&i.uuid), hex::encode(&i.data)])).collect::<Vec<_>>(),
        "recyclebin_enabled": m.recyclebin_enabled,
        "recyclebin_uuid": ouuid(&m.recyclebin_uuid),
        "recyclebin_changed": otime(&m.recyclebin_changed),
        "entry_templates_group": ouuid(&m.entry_templates_group),
        "entry_templates_group_changed": otime(&m.entry_templates_group_changed),
        "last_selected_group": ouuid(&m.last_selected_group),
        "last_top_visible_group": ouuid(&m.last_top_visible_group),
        "history_max_items": m.history_max_items,
        "history_max_size": m.history_max_size,
        "settings_changed": otime(&m.settings_changed),
        "binaries": m.binaries.binaries.iter().map(|b| json!([b.identifier, b.compressed, hex::encode(&b.content)])).collect::<Vec<_>>(),
        "custom_data": custom_data(&m.custom_data),
    })
}
pub fn kdf(k: &KdfConfig) -> J {
    let ver = |v: &argon2::Version| match v {
        argon2::Version::Version10 => 0x10,
        argon2::Version::Version13 => 0x13,
    };
    match k {
        KdfConfig::Aes { rounds } => json!({"aes": rounds}),
        KdfConfig::Argon2 { iterations, memory, parallelism, version } => {
            json!({"argon2d": [iterations, memory, parallelism, ver(version)]})
        }
        KdfConfig::Argon2id { iterations, memory, parallelism, version } => {
            json!({"argon2id": [iterations, memory, parallelism, ver(version)]})
        }
    }
}
pub fn config(c: &DatabaseConfig) -> J {
    json!({
        "version": c.version.to_string(),
        "outer": format!("{:?}", c.outer_cipher_config),
        "compression": format!("{:?}", c.compression_config),
        "inner": format!("{:?}", c.inner_cipher_config),
        "kdf": kdf(&c.kdf_config),
    })
}
pub fn database(d: &Database) -> J {
    json!({
        "config": config(&d.config),
        "header_attachments": d.header_attachments.iter().map(|a| json!([a.flags, hex::encode(&a.content)])).collect::<Vec<_>>(),
        "root": group(&d.root),
        "deleted_objects": d.deleted_objects.objects.iter().map(|o| json!([uuid(&o.uuid), time(&o.deletion_time)])).collect::<Vec<_>>(),
        "meta": meta(&d.meta),
    })
}
