//! Generator of `Database` values through the public API: the lossless domain of C03 (every field of every
//! public struct populated) and a hostile variant for C12 (blank/empty strings and keys, control characters,
//! empty binaries, byte values, arbitrary time-stamp names, extreme numbers).
use crate::rng::Rng;
use keepass::config::*;
use keepass::db::*;
use keepass::Database;
use std::collections::BTreeSet;

pub const HOSTILE_MODES: &[&str] = &[
    "empty-string", "blank-string", "control-character", "noncharacter", "extreme-date", "bytes-value-utf8", "bytes-value-not-utf8",
    "reserved-time-name", "non-name-time-key", "empty-custom-data-key", "blank-field-key", "tag-with-separator-or-blank",
    "empty-icon-data", "empty-binary-content", "empty-compressed-binary-content",
];

pub struct Gen<'a> {
    pub rng: &'a mut Rng,
    pub hostile: bool,
    /// exactly one hostile feature class is enabled per database, so that a failure is keyed by its class
    pub mode: &'static str,
    pub features: BTreeSet<String>,
    next_uuid: u128,
}

const WORDS: &[&str] = &["alpha", "Beta", "gamma delta", "x", "pass word", "naïve", "日本語", "🔑key", "a&b", "<tag>", "q\"uo'te", "line1\nline2", "tab\there", "cr\rlf", " lead", "trail ", "]]>", "&amp;", "#1", "a;b", "del\u{7f}x", "nel\u{85}y", "c1\u{9f}\u{80}z", "\u{d7ff}\u{e000}\u{fffd}", "top\u{10ffff}"];

fn ts(secs: i64) -> chrono::NaiveDateTime {
    chrono::DateTime::from_timestamp(secs, 0).unwrap().naive_utc()
}

impl<'a> Gen<'a> {
    pub fn new(rng: &'a mut Rng, hostile: bool) -> Self {
        let mode = if hostile { *rng.pick(HOSTILE_MODES) } else { "" };
        Gen { rng, hostile, mode, features: BTreeSet::new(), next_uuid: 1 }
    }
    fn on(&mut self, class: &str, num: u64, den: u64) -> bool {
        self.hostile && self.mode == class && self.rng.chance(num, den)
    }
    fn feat(&mut self, f: &str) {
        self.features.insert(f.to_string());
    }
    /// an optional UUID: absent, random, all zero or all ones (the all-zero UUID is a value like any other)
    pub fn opt_uuid_edge(&mut self) -> Option<uuid::Uuid> {
        match self.rng.below(6) {
            0 | 1 => None,
            2 => Some(uuid::Uuid::nil()),
            3 => Some(uuid::Uuid::from_bytes([0xff; 16])),
            _ => Some(self.uuid()),
        }
    }
    pub fn uuid(&mut self) -> uuid::Uuid {
        self.next_uuid += 1;
        if self.rng.chance(1, 4) {
            uuid::Uuid::from_bytes(self.rng.bytes(16).try_into().unwrap())
        } else {
            uuid::Uuid::from_u128(self.next_uuid)
        }
    }
    /// a non-blank, XML-representable string
    pub fn text(&mut self) -> String {
        let n = self.rng.range(1, 3);
        let mut s = String::new();
        for i in 0..n {
            if i > 0 {
                s.push_str(*self.rng.pick(&[" ", "", "-", "\n"]));
            }
            s.push_str(*self.rng.pick(WORDS));
        }
        if self.hostile && ["empty-string", "blank-string", "control-character", "noncharacter"].contains(&self.mode) && self.rng.chance(1, 5) {
            return self.hostile_text();
        }
        s
    }
    fn hostile_text(&mut self) -> String {
        let (s, f): (String, &str) = match self.mode {
            "empty-string" => ("".into(), "empty-string"),
            "blank-string" => (self.rng.pick(&[" ", " \n\t", "\r\n"]).to_string(), "blank-string"),
            "control-character" => {
                if self.rng.chance(1, 2) { (format!("a{}b", char::from_u32(self.rng.range(0, 8) as u32).unwrap()), "control-character") } else { ("x\u{b}y".into(), "control-character") }
            }
            _ => (self.rng.pick(&["bad\u{ffff}", "\u{fffe}"]).to_string(), "noncharacter"),
        };
        self.feat(f);
        s
    }
    /// a key / name that is safe as a simple token
    pub fn token(&mut self) -> String {
        let base = *self.rng.pick(&["Title", "UserName", "Password", "URL", "Notes", "otp", "Custom Field", "k-ü", "X"]);
        if self.rng.chance(1, 3) {
            format!("{}{}", base, self.rng.below(4))
        } else {
            base.to_string()
        }
    }
    pub fn opt_text(&mut self) -> Option<String> {
        if self.rng.chance(1, 3) {
            None
        } else {
            Some(self.text())
        }
    }
    pub fn time(&mut self) -> chrono::NaiveDateTime {
        let k = self.rng.below(8);
        let secs: i64 = match k {
            0 => 0,
            1 => -62135596800,                  // 0001-01-01
            2 => 253402300799,                  // 9999-12-31T23:59:59
            3 => self.rng.below(4_000_000_000) as i64,
            4 => -(self.rng.below(60_000_000_000) as i64),
            _ => 1_500_000_000 + self.rng.below(200_000_000) as i64,
        };
        if self.on("extreme-date", 1, 4) {
            self.feat("extreme-date");
            return if self.rng.chance(1, 2) { chrono::NaiveDateTime::MAX } else { chrono::NaiveDateTime::MIN };
        }
        ts(secs)
    }
    pub fn opt_time(&mut self) -> Option<chrono::NaiveDateTime> {
        if self.rng.chance(1, 3) {
            None
        } else {
            Some(self.time())
        }
    }
    pub fn color(&mut self) -> Color {
        let mut c = Color { r: self.rng.next() as u8, g: self.rng.next() as u8, b: self.rng.next() as u8 };
        if self.rng.chance(1, 3) {
            c.r = self.rng.below(16) as u8;
        }
        if self.rng.chance(1, 4) {
            c.g = 0;
            c.b = self.rng.below(16) as u8;
        }
        c
    }
    pub fn usize_(&mut self) -> usize {
        *self.rng.pick(&[0usize, 1, 42, 365, 65535, usize::MAX, 10485760])
    }
    pub fn isize_(&mut self) -> isize {
        *self.rng.pick(&[0isize, -1, 1, 42, isize::MAX, isize::MIN, -365])
    }
    pub fn value(&mut self) -> Value {
        if self.on("bytes-value-utf8", 1, 3) {
            self.feat("bytes-value-utf8");
            return Value::Bytes(self.text().into_bytes());
        }
        if self.on("bytes-value-not-utf8", 1, 3) {
            self.feat("bytes-value-not-utf8");
            return Value::Bytes(vec![0xff, 0xfe, 0x00]);
        }
        if !self.hostile && self.rng.chance(1, 25) {
            // a long protected value (a private key, a long note): longer than any small buffer a writer might use
            let n = *self.rng.pick(&[769usize, 1000, 3000, 3000, 65_537, 70_000]);
            let s: String = (0..n).map(|i| (b'a' + ((i * 7 + n) % 26) as u8) as char).collect();
            return Value::Protected(secstr::SecStr::new(s.into_bytes()));
        }
        if !self.hostile && self.rng.chance(1, 14) {
            // a protected value that is blank but not empty (a PIN of one space, a tab): stored as ciphertext, it reads back
            return Value::Protected(secstr::SecStr::new(self.rng.pick(&[" ", "\t", "  ", "\n", " \t "]).as_bytes().to_vec()));
        }
        match self.rng.below(8) {
            0 | 1 | 2 => Value::Protected(secstr::SecStr::new(self.text().into_bytes())),
            _ => Value::Unprotected(self.text()),
        }
    }
    pub fn times(&mut self) -> Times {
        let mut t = Times::default();
        t.expires = self.rng.chance(1, 2);
        t.usage_count = self.usize_();
        for name in ["CreationTime", "LastModificationTime", "LastAccessTime", "LocationChanged", "ExpiryTime"] {
            if !self.rng.chance(1, 8) {
                let v = self.time();
                t.times.insert(name.to_string(), v);
            }
        }
        if self.rng.chance(1, 6) {
            let v = self.time();
            t.times.insert("SomethingElse".to_string(), v);
        }
        if self.on("reserved-time-name", 1, 3) {
            let n = *self.rng.pick(&["Expires", "UsageCount"]);
            self.feat("reserved-time-name");
            let v = self.time();
            t.times.insert(n.to_string(), v);
        }
        if self.on("non-name-time-key", 1, 3) {
            let n = *self.rng.pick(&["1abc", "a b", "", "x<y"]);
            self.feat("non-name-time-key");
            let v = self.time();
            t.times.insert(n.to_string(), v);
        }
        t
    }
    pub fn custom_data(&mut self) -> CustomData {
        let mut c = CustomData::default();
        for _ in 0..self.rng.below(3) {
            let mut k = self.token();
            if self.on("empty-custom-data-key", 1, 2) {
                k = self.rng.pick(&["", " "]).to_string();
                self.feat("empty-custom-data-key");
            }
            let value = match self.rng.below(4) {
                0 => None,
                1 => Some(Value::Protected(secstr::SecStr::new(self.text().into_bytes()))),
                2 if !self.hostile => Some(Value::Unprotected(String::new())),
                _ => Some(Value::Unprotected(self.text())),
            };
            let item = CustomDataItem { value, last_modification_time: self.opt_time() };
            c.items.insert(k, item);
        }
        c
    }
    pub fn entry(&mut self, with_history: bool) -> Entry {
        let mut e = Entry::default();
        e.uuid = self.uuid();
        for _ in 0..self.rng.below(5) {
            let mut k = self.token();
            if self.on("blank-field-key", 1, 2) {
                k = self.rng.pick(&["", " ", "\t\n"]).to_string();
                self.feat("blank-field-key");
            }
            let v = self.value();
            e.fields.insert(k, v);
        }
        if self.rng.chance(1, 2) {
            e.autotype = Some(AutoType {
                enabled: self.rng.chance(1, 2),
                sequence: self.opt_text(),
                associations: (0..self.rng.below(3)).map(|_| AutoTypeAssociation { window: self.opt_text(), sequence: self.opt_text() }).collect(),
            });
        }
        e.tags = (0..self.rng.below(3)).map(|i| format!("tag{}{}", i, *self.rng.pick(&["", " x", "é"]))).collect();
        if self.on("tag-with-separator-or-blank", 1, 2) {
            let t = *self.rng.pick(&["a;b", "a,b", "", " "]);
            self.feat("tag-with-separator-or-blank");
            e.tags.push(t.to_string());
        }
        e.times = self.times();
        e.custom_data = self.custom_data();
        e.icon_id = if self.rng.chance(1, 2) { Some(self.usize_()) } else { None };
        e.custom_icon_uuid = if self.rng.chance(1, 3) { Some(self.uuid()) } else { None };
        e.foreground_color = if self.rng.chance(1, 2) { Some(self.color()) } else { None };
        e.background_color = if self.rng.chance(1, 3) { Some(self.color()) } else { None };
        e.override_url = self.opt_text();
        e.quality_check = match self.rng.below(3) { 0 => None, 1 => Some(true), _ => Some(false) };
        if with_history && self.rng.chance(1, 2) {
            let mut h = History::default();
            for _ in 0..self.rng.below(3) {
                let mut he = self.entry(false);
                he.uuid = e.uuid;
                h.add_entry(he);
            }
            e.history = Some(h);
        }
        e
    }
    pub fn group(&mut self, depth: usize, budget: &mut usize) -> Group {
        let mut g = Group::default();
        g.uuid = self.uuid();
        g.name = if self.rng.chance(1, 8) { String::new() } else { self.text() };
        g.notes = self.opt_text();
        g.icon_id = if self.rng.chance(1, 2) { Some(self.usize_()) } else { None };
        g.custom_icon_uuid = if self.rng.chance(1, 3) { Some(self.uuid()) } else { None };
        g.times = self.times();
        g.custom_data = self.custom_data();
        g.is_expanded = self.rng.chance(1, 2);
        g.default_autotype_sequence = self.opt_text();
        g.enable_autotype = if self.rng.chance(1, 2) { Some(self.rng.pick(&["null", "true", "false"]).to_string()) } else { None };
        g.enable_searching = if self.rng.chance(1, 2) { Some(self.rng.pick(&["null", "true", "false"]).to_string()) } else { None };
        g.last_top_visible_entry = if self.rng.chance(1, 3) { Some(self.uuid()) } else { None };
        let n = if depth >= 3 { self.rng.below(2) } else { self.rng.below(4) };
        for _ in 0..n {
            if *budget == 0 {
                break;
            }
            *budget -= 1;
            if self.rng.chance(1, 3) {
                g.children.push(Node::Group(self.group(depth + 1, budget)));
            } else {
                g.children.push(Node::Entry(self.entry(true)));
            }
        }
        g
    }
    pub fn meta(&mut self) -> Meta {
        let mut m = Meta::default();
        m.generator = self.opt_text();
        m.database_name = self.opt_text();
        m.database_name_changed = self.opt_time();
        m.database_description = self.opt_text();
        m.database_description_changed = self.opt_time();
        m.default_username = self.opt_text();
        m.default_username_changed = self.opt_time();
        m.maintenance_history_days = if self.rng.chance(1, 2) { Some(self.usize_()) } else { None };
        m.color = if self.rng.chance(1, 2) { Some(self.color()) } else { None };
        m.master_key_changed = self.opt_time();
        m.master_key_change_rec = if self.rng.chance(1, 2) { Some(self.isize_()) } else { None };
        m.master_key_change_force = if self.rng.chance(1, 2) { Some(self.isize_()) } else { None };
        m.memory_protection = if self.rng.chance(1, 2) {
            Some(MemoryProtection { protect_title: self.rng.chance(1, 2), protect_username: self.rng.chance(1, 2), protect_password: self.rng.chance(1, 2), protect_url: self.rng.chance(1, 2), protect_notes: self.rng.chance(1, 2) })
        } else {
            None
        };
        for _ in 0..self.rng.below(3) {
            let mut data = self.rng.bytes_range(1, 40);
            if self.on("empty-icon-data", 1, 2) {
                data.clear();
                self.feat("empty-icon-data");
            }
            let u = self.uuid();
            m.custom_icons.icons.push(Icon { uuid: u, data });
        }
        m.recyclebin_enabled = match self.rng.below(3) { 0 => None, 1 => Some(true), _ => Some(false) };
        m.recyclebin_uuid = self.opt_uuid_edge();
        m.recyclebin_changed = self.opt_time();
        m.entry_templates_group = self.opt_uuid_edge();
        m.entry_templates_group_changed = self.opt_time();
        m.last_selected_group = self.opt_uuid_edge();
        m.last_top_visible_group = self.opt_uuid_edge();
        m.history_max_items = if self.rng.chance(1, 2) { Some(self.usize_()) } else { None };
        m.history_max_size = if self.rng.chance(1, 2) { Some(self.usize_()) } else { None };
        m.settings_changed = self.opt_time();
        for i in 0..self.rng.below(3) {
            let mut content = self.rng.bytes_range(1, 60);
            if !self.hostile && self.rng.chance(1, 8) {
                // content that is itself a gzip stream (someone attached a .gz file); whether it is stored compressed is a separate flag
                content = crate::kdbx::gzip(&self.rng.bytes_range(1, 40));
            }
            if !self.hostile && self.rng.chance(1, 40) {
                // very compressible and large: expands far more than 100:1 when read back
                content = vec![self.rng.next() as u8; 200_000 + self.rng.below(1000) as usize];
            }
            let mut compressed = self.rng.chance(1, 2);
            if self.on("empty-binary-content", 1, 2) {
                // an empty attachment stored uncompressed is written as an empty element (a known finding); stored compressed it
                // is a 20-byte gzip stream and reads back
                content.clear();
                compressed = false;
                self.feat("empty-binary-content");
            } else if self.on("empty-compressed-binary-content", 1, 2) {
                // … which must keep working: the library's own reader wants text in a <Binary> element
                content.clear();
                compressed = true;
                self.feat("empty-compressed-binary-content");
            } else if !self.hostile && self.rng.chance(1, 8) {
                content.clear();
                compressed = true;
            }
            m.binaries.binaries.push(BinaryAttachment {
                identifier: match self.rng.below(3) { 0 => None, 1 => Some(format!("{}", i)), _ => Some(String::new()) },
                compressed,
                content,
            });
        }
        m.custom_data = self.custom_data();
        m
    }
    pub fn config(&mut self) -> DatabaseConfig {
        DatabaseConfig {
            version: DatabaseVersion::KDB4(*self.rng.pick(&[0u16, 0, 1, 1, 2, 300, 65535])),
            outer_cipher_config: self.rng.pick(&[OuterCipherConfig::AES256, OuterCipherConfig::Twofish, OuterCipherConfig::ChaCha20]).clone(),
            compression_config: self.rng.pick(&[CompressionConfig::None, CompressionConfig::GZip]).clone(),
            inner_cipher_config: self.rng.pick(&[InnerCipherConfig::Plain, InnerCipherConfig::Salsa20, InnerCipherConfig::ChaCha20]).clone(),
            kdf_config: match self.rng.below(3) {
                0 => KdfConfig::Aes { rounds: self.rng.range(0, 10) },
                1 => KdfConfig::Argon2 { iterations: self.rng.range(1, 2), memory: 1024 * self.rng.range(16, 64) + if self.rng.chance(1, 2) { self.rng.below(1024) } else { 0 }, parallelism: self.rng.range(1, 2) as u32, version: *self.rng.pick(&[argon2::Version::Version10, argon2::Version::Version13]) },
                _ => KdfConfig::Argon2id { iterations: self.rng.range(1, 2), memory: 1024 * self.rng.range(16, 64) + if self.rng.chance(1, 2) { self.rng.below(1024) } else { 0 }, parallelism: self.rng.range(1, 2) as u32, version: *self.rng.pick(&[argon2::Version::Version10, argon2::Version::Version13]) },
            },
        }
    }
    pub fn database(&mut self) -> Database {
        let cfg = self.config();
        let mut db = Database::new(cfg);
        let mut budget = 8usize;
        db.root = self.group(0, &mut budget);
        db.meta = self.meta();
        for _ in 0..self.rng.below(3) {
            let content = self.rng.bytes_below(30);
            db.header_attachments.push(HeaderAttachment { flags: self.rng.next() as u8, content });
        }
        if !self.hostile && self.rng.chance(1, 40) {
            // a large, very compressible attachment (the whole payload expands far more than 100:1 under gzip)
            db.header_attachments.push(HeaderAttachment { flags: 1, content: vec![0u8; 300_000 + self.rng.below(1000) as usize] });
        }
        for _ in 0..self.rng.below(3) {
            let u = self.uuid();
            let t = self.time();
            db.deleted_objects.objects.push(DeletedObject { uuid: u, deletion_time: t });
            if self.rng.chance(1, 4) {
                // the same object recorded as deleted a second time, at another moment
                let t2 = self.time();
                db.deleted_objects.objects.push(DeletedObject { uuid: u, deletion_time: t2 });
            }
        }
        db
    }
}
