//! Independent KDBX4 builder and unwrapper.  Shares no framing code with the library: TLVs, variant
//! dictionary, key schedule, HMAC block stream, inner header are all written here from the format
//! description; primitives come straight from the RustCrypto / flate2 / rust-argon2 crates.
use aes::cipher::{block_padding::Pkcs7, BlockDecryptMut, BlockEncrypt, BlockEncryptMut, KeyInit, KeyIvInit, StreamCipher};
use hmac::{Hmac, Mac};
use sha2::{Digest, Sha256, Sha512};
use std::io::{Read, Write};

pub const SIG1: [u8; 4] = [0x03, 0xd9, 0xa2, 0x9a];
pub const SIG2_KDBX: u32 = 0xb54bfb67;
pub const CIPHER_AES256: [u8; 16] = [0x31, 0xc1, 0xf2, 0xe6, 0xbf, 0x71, 0x43, 0x50, 0xbe, 0x58, 0x05, 0x21, 0x6a, 0xfc, 0x5a, 0xff];
pub const CIPHER_TWOFISH: [u8; 16] = [0xad, 0x68, 0xf2, 0x9f, 0x57, 0x6f, 0x4b, 0xb9, 0xa3, 0x6a, 0xd4, 0x7a, 0xf9, 0x65, 0x34, 0x6c];
pub const CIPHER_CHACHA20: [u8; 16] = [0xd6, 0x03, 0x8a, 0x2b, 0x8b, 0x6f, 0x4c, 0xb5, 0xa5, 0x24, 0x33, 0x9a, 0x31, 0xdb, 0xb5, 0x9a];
pub const KDF_AES_KDBX3: [u8; 16] = [0xc9, 0xd9, 0xf3, 0x9a, 0x62, 0x8a, 0x44, 0x60, 0xbf, 0x74, 0x0d, 0x08, 0xc1, 0x8a, 0x4f, 0xea];
pub const KDF_AES_KDBX4: [u8; 16] = [0x7c, 0x02, 0xbb, 0x82, 0x79, 0xa7, 0x4a, 0xc0, 0x92, 0x7d, 0x11, 0x4a, 0x00, 0x64, 0x82, 0x38];
pub const KDF_ARGON2D: [u8; 16] = [0xef, 0x63, 0x6d, 0xdf, 0x8c, 0x29, 0x44, 0x4b, 0x91, 0xf7, 0xa9, 0xa4, 0x03, 0xe3, 0x0a, 0x0c];
pub const KDF_ARGON2ID: [u8; 16] = [0x9e, 0x29, 0x8b, 0x19, 0x56, 0xdb, 0x47, 0x73, 0xb2, 0x3d, 0xfc, 0x3e, 0xc6, 0xf0, 0xa1, 0xe6];

#[derive(Clone, Debug, PartialEq)]
pub enum Outer {
    Aes256,
    Twofish,
    ChaCha20,
}
impl Outer {
    pub fn uuid(&self) -> [u8; 16] {
        match self {
            Outer::Aes256 => CIPHER_AES256,
            Outer::Twofish => CIPHER_TWOFISH,
            Outer::ChaCha20 => CIPHER_CHACHA20,
        }
    }
    pub fn from_uuid(u: &[u8]) -> Option<Outer> {
        if u == CIPHER_AES256 {
            Some(Outer::Aes256)
        } else if u == CIPHER_TWOFISH {
            Some(Outer::Twofish)
        } else if u == CIPHER_CHACHA20 {
            Some(Outer::ChaCha20)
        } else {
            None
        }
    }
    pub fn iv_len(&self) -> usize {
        match self {
            Outer::ChaCha20 => 12,
            _ => 16,
        }
    }
    pub fn name(&self) -> &'static str {
        match self {
            Outer::Aes256 => "AES256",
            Outer::Twofish => "Twofish",
            Outer::ChaCha20 => "ChaCha20",
        }
    }
}

#[derive(Clone, Debug, PartialEq)]
pub enum Kdf {
    Aes { rounds: u64, seed: Vec<u8> },
    Argon2 { id: bool, version: u32, memory: u64, iterations: u64, parallelism: u32, salt: Vec<u8> },
}

#[derive(Clone, Debug, PartialEq)]
pub enum Inner {
    Plain,
    Salsa20,
    ChaCha20,
}
impl Inner {
    pub fn id(&self) -> u32 {
        match self {
            Inner::Plain => 0,
            Inner::Salsa20 => 2,
            Inner::ChaCha20 => 3,
        }
    }
    pub fn from_id(i: u32) -> Option<Inner> {
        match i {
            0 => Some(Inner::Plain),
            2 => Some(Inner::Salsa20),
            3 => Some(Inner::ChaCha20),
            _ => None,
        }
    }
    pub fn name(&self) -> &'static str {
        match self {
            Inner::Plain => "Plain",
            Inner::Salsa20 => "Salsa20",
            Inner::ChaCha20 => "ChaCha20",
        }
    }
}

pub fn sha256(parts: &[&[u8]]) -> Vec<u8> {
    let mut d = Sha256::new();
    for p in parts {
        d.update(p);
    }
    d.finalize().to_vec()
}
pub fn sha512(parts: &[&[u8]]) -> Vec<u8> {
    let mut d = Sha512::new();
    for p in parts {
        d.update(p);
    }
    d.finalize().to_vec()
}
pub fn hmac256(key: &[u8], parts: &[&[u8]]) -> Vec<u8> {
    let mut m = <Hmac<Sha256> as Mac>::new_from_slice(key).unwrap();
    for p in parts {
        m.update(p);
    }
    m.finalize().into_bytes().to_vec()
}

pub fn transform(kdf: &Kdf, composite: &[u8]) -> Result<Vec<u8>, String> {
    match kdf {
        Kdf::Aes { rounds, seed } => {
            if seed.len() != 32 || composite.len() != 32 {
                return Err("aes-kdf seed/composite length".into());
            }
            let c = aes::Aes256::new_from_slice(seed).unwrap();
            let mut b1 = aes::Block::clone_from_slice(&composite[..16]);
            let mut b2 = aes::Block::clone_from_slice(&composite[16..]);
            for _ in 0..*rounds {
                c.encrypt_block(&mut b1);
                c.encrypt_block(&mut b2);
            }
            Ok(sha256(&[&b1, &b2]))
        }
        Kdf::Argon2 { id, version, memory, iterations, parallelism, salt } => {
            let cfg = argon2::Config {
                ad: &[],
                hash_length: 32,
                lanes: *parallelism,
                mem_cost: (*memory / 1024) as u32,
                secret: &[],
                time_cost: *iterations as u32,
                variant: if *id { argon2::Variant::Argon2id } else { argon2::Variant::Argon2d },
                version: if *version == 0x10 { argon2::Version::Version10 } else { argon2::Version::Version13 },
            };
            argon2::hash_raw(composite, salt, &cfg).map_err(|e| format!("argon2: {}", e))
        }
    }
}

pub fn enc_outer(c: &Outer, key: &[u8], iv: &[u8], data: &[u8]) -> Result<Vec<u8>, String> {
    match c {
        Outer::Aes256 => Ok(cbc::Encryptor::<aes::Aes256>::new_from_slices(key, iv).map_err(|e| e.to_string())?.encrypt_padded_vec_mut::<Pkcs7>(data)),
        Outer::Twofish => Ok(cbc::Encryptor::<twofish::Twofish>::new_from_slices(key, iv).map_err(|e| e.to_string())?.encrypt_padded_vec_mut::<Pkcs7>(data)),
        Outer::ChaCha20 => {
            let mut c = chacha20::ChaCha20::new_from_slices(key, iv).map_err(|e| e.to_string())?;
            let mut b = data.to_vec();
            c.apply_keystream(&mut b);
            Ok(b)
        }
    }
}
pub fn dec_outer(c: &Outer, key: &[u8], iv: &[u8], data: &[u8]) -> Result<Vec<u8>, String> {
    match c {
        Outer::Aes256 => cbc::Decryptor::<aes::Aes256>::new_from_slices(key, iv).map_err(|e| e.to_string())?.decrypt_padded_vec_mut::<Pkcs7>(data).map_err(|e| e.to_string()),
        Outer::Twofish => cbc::Decryptor::<twofish::Twofish>::new_from_slices(key, iv).map_err(|e| e.to_string())?.decrypt_padded_vec_mut::<Pkcs7>(data).map_err(|e| e.to_string()),
        Outer::ChaCha20 => enc_outer(c, key, iv, data),
    }
}
pub fn gzip(data: &[u8]) -> Vec<u8> {
    let mut e = flate2::write::GzEncoder::new(Vec::new(), flate2::Compression::default());
    e.write_all(data).unwrap();
    e.finish().unwrap()
}
pub fn gunzip(data: &[u8]) -> Result<Vec<u8>, String> {
    let mut out = Vec::new();
    flate2::read::GzDecoder::new(data).read_to_end(&mut out).map_err(|e| e.to_string())?;
    Ok(out)
}

/// keystream of the inner cipher for the stream key stored in the file: `len` bytes starting at byte offset `off`
pub fn inner_keystream(c: &Inner, key: &[u8], off: usize, len: usize) -> Result<Vec<u8>, String> {
    let mut buf = vec![0u8; off + len];
    match c {
        Inner::Plain => {}
        Inner::Salsa20 => {
            // KeePass (CryptoRandomStream) and KeePassXC (KeePass2RandomStream) key Salsa20 with SHA-256 of the stream key,
            // in KDBX 3.1 (header field 8) and in KDBX 4 (inner header field 2) alike; any key length is legal
            let k = sha256(&[key]);
            let iv = [0xE8, 0x30, 0x09, 0x4B, 0x97, 0x20, 0x5D, 0x2A];
            let mut s = salsa20::Salsa20::new_from_slices(&k, &iv).map_err(|e| e.to_string())?;
            s.apply_keystream(&mut buf);
        }
        Inner::ChaCha20 => {
            let h = sha512(&[key]);
            let mut s = chacha20::ChaCha20::new_from_slices(&h[0..32], &h[32..44]).map_err(|e| e.to_string())?;
            s.apply_keystream(&mut buf);
        }
    }
    Ok(buf[off..].to_vec())
}

pub fn le16(v: u16) -> [u8; 2] {
    v.to_le_bytes()
}
pub fn le32(v: u32) -> [u8; 4] {
    v.to_le_bytes()
}
pub fn le64(v: u64) -> [u8; 8] {
    v.to_le_bytes()
}

/// variant dictionary entries in the given order
pub fn vd_bytes(entries: &[(u8, &str, Vec<u8>)]) -> Vec<u8> {
    let mut out = vec![0x00, 0x01];
    for (t, k, v) in entries {
        out.push(*t);
        out.extend_from_slice(&le32(k.len() as u32));
        out.extend_from_slice(k.as_bytes());
        out.extend_from_slice(&le32(v.len() as u32));
        out.extend_from_slice(v);
    }
    out.push(0);
    out
}

pub fn kdf_vd_entries(kdf: &Kdf) -> Vec<(u8, &'static str, Vec<u8>)> {
    match kdf {
        Kdf::Aes { rounds, seed } => vec![
            (0x42, "$UUID", KDF_AES_KDBX4.to_vec()),
            (0x05, "R", le64(*rounds).to_vec()),
            (0x42, "S", seed.clone()),
        ],
        Kdf::Argon2 { id, version, memory, iterations, parallelism, salt } => vec![
            (0x42, "$UUID", if *id { KDF_ARGON2ID.to_vec() } else { KDF_ARGON2D.to_vec() }),
            (0x05, "M", le64(*memory).to_vec()),
            (0x42, "S", salt.clone()),
            (0x05, "I", le64(*iterations).to_vec()),
            (0x04, "P", le32(*parallelism).to_vec()),
            (0x04, "V", le32(*version).to_vec()),
        ],
    }
}

#[derive(Clone, Debug)]
pub struct Kdbx4Spec {
    pub minor: u16,
    pub outer: Outer,
    pub compress: bool,
    pub master_seed: Vec<u8>,
    pub iv: Vec<u8>,
    pub kdf: Kdf,
    pub inner: Inner,
    pub inner_key: Vec<u8>,
    pub attachments: Vec<(u8, Vec<u8>)>,
    pub xml: Vec<u8>,
}

#[derive(Clone, Debug)]
pub struct Layout {
    /// order of the outer header fields by id (2,3,4,7,11 and any number of 1 = comment), end (0) is appended
    pub outer_order: Vec<u8>,
    pub comments: Vec<Vec<u8>>,
    /// permutation of the variant dictionary entries
    pub vd_perm: Vec<usize>,
    /// sizes of the HMAC blocks (each >= 1); the remainder goes into a last block
    pub block_sizes: Vec<usize>,
    /// inner header: position of stream id (1), key (2) relative to attachments: order of ids, 3 = all attachments in order
    pub inner_order: Vec<u8>,
    /// payload of the end-of-header fields (KeePass writes 0d0a0d0a)
    pub end_payload: Vec<u8>,
}

impl Layout {
    pub fn library_like() -> Layout {
        Layout { outer_order: vec![2, 3, 7, 4, 11], comments: vec![], vd_perm: vec![], block_sizes: vec![], inner_order: vec![1, 2, 3], end_payload: vec![] }
    }
}

pub struct Keys {
    pub transformed: Vec<u8>,
    pub master: Vec<u8>,
    pub hmac_base: Vec<u8>,
}

pub fn derive(kdf: &Kdf, master_seed: &[u8], composite: &[u8]) -> Result<Keys, String> {
    let tk = transform(kdf, composite)?;
    Ok(Keys { master: sha256(&[master_seed, &tk]), hmac_base: sha512(&[master_seed, &tk, &[1u8]]), transformed: tk })
}
pub fn block_key(base: &[u8], index: u64) -> Vec<u8> {
    sha512(&[&le64(index), base])
}

pub fn tlv4(out: &mut Vec<u8>, t: u8, v: &[u8]) {
    out.push(t);
    out.extend_from_slice(&le32(v.len() as u32));
    out.extend_from_slice(v);
}

pub fn outer_header(s: &Kdbx4Spec, l: &Layout) -> Vec<u8> {
    let mut h = Vec::new();
    h.extend_from_slice(&SIG1);
    h.extend_from_slice(&le32(SIG2_KDBX));
    h.extend_from_slice(&le16(s.minor));
    h.extend_from_slice(&le16(4));
    let mut ents = kdf_vd_entries(&s.kdf);
    if l.vd_perm.len() == ents.len() {
        ents = l.vd_perm.iter().map(|&i| ents[i].clone()).collect();
    }
    let vd = vd_bytes(&ents);
    let mut ci = 0;
    for id in &l.outer_order {
        match id {
            1 => {
                let c = l.comments.get(ci).cloned().unwrap_or_default();
                ci += 1;
                tlv4(&mut h, 1, &c)
            }
            2 => tlv4(&mut h, 2, &s.outer.uuid()),
            3 => tlv4(&mut h, 3, &le32(if s.compress { 1 } else { 0 })),
            4 => tlv4(&mut h, 4, &s.master_seed),
            7 => tlv4(&mut h, 7, &s.iv),
            11 => tlv4(&mut h, 11, &vd),
            _ => panic!("layout field"),
        }
    }
    tlv4(&mut h, 0, &l.end_payload);
    h
}

pub fn inner_header(s: &Kdbx4Spec, l: &Layout) -> Vec<u8> {
    let mut p = Vec::new();
    for id in &l.inner_order {
        match id {
            1 => tlv4(&mut p, 1, &le32(s.inner.id())),
            2 => tlv4(&mut p, 2, &s.inner_key),
            3 => {
                for (flags, content) in &s.attachments {
                    let mut v = vec![*flags];
                    v.extend_from_slice(content);
                    tlv4(&mut p, 3, &v);
                }
            }
            _ => panic!("layout inner field"),
        }
    }
    tlv4(&mut p, 0, &[]);
    p
}

pub fn hmac_blocks(base: &[u8], data: &[u8], sizes: &[usize]) -> Vec<u8> {
    let mut out = Vec::new();
    let mut pos = 0;
    let mut idx: u64 = 0;
    let mut sizes: Vec<usize> = sizes.to_vec();
    let mut emit = |out: &mut Vec<u8>, idx: u64, chunk: &[u8]| {
        let k = block_key(base, idx);
        let mac = hmac256(&k, &[&le64(idx), &le32(chunk.len() as u32), chunk]);
        out.extend_from_slice(&mac);
        out.extend_from_slice(&le32(chunk.len() as u32));
        out.extend_from_slice(chunk);
    };
    sizes.push(usize::MAX);
    for sz in sizes {
        if pos >= data.len() {
            break;
        }
        let n = sz.max(1).min(data.len() - pos);
        emit(&mut out, idx, &data[pos..pos + n]);
        pos += n;
        idx += 1;
    }
    emit(&mut out, idx, &[]);
    out
}

pub fn build_kdbx4(s: &Kdbx4Spec, l: &Layout, composite: &[u8]) -> Result<Vec<u8>, String> {
    let header = outer_header(s, l);
    let keys = derive(&s.kdf, &s.master_seed, composite)?;
    let mut out = header.clone();
    out.extend_from_slice(&sha256(&[&header]));
    out.extend_from_slice(&hmac256(&block_key(&keys.hmac_base, u64::MAX), &[&header]));
    let mut payload = inner_header(s, l);
    payload.extend_from_slice(&s.xml);
    let compressed = if s.compress { gzip(&payload) } else { payload };
    let ct = enc_outer(&s.outer, &keys.master, &s.iv, &compressed)?;
    out.extend_from_slice(&hmac_blocks(&keys.hmac_base, &ct, &l.block_sizes));
    Ok(out)
}

#[derive(Debug, Clone)]
pub struct Unwrapped {
    pub spec: Kdbx4Spec,
    pub header: Vec<u8>,
    pub fields: Vec<(u8, Vec<u8>)>,
    pub vd: Vec<(u8, String, Vec<u8>)>,
    pub blocks: Vec<usize>,
    pub ciphertext: Vec<u8>,
    pub compressed: Vec<u8>,
    pub payload: Vec<u8>,
    pub inner_fields: Vec<(u8, Vec<u8>)>,
    pub transformed: Vec<u8>,
    pub master: Vec<u8>,
}

fn rd32(b: &[u8]) -> u32 {
    u32::from_le_bytes([b[0], b[1], b[2], b[3]])
}
fn rd64(b: &[u8]) -> u64 {
    u64::from_le_bytes([b[0], b[1], b[2], b[3], b[4], b[5], b[6], b[7]])
}

pub fn parse_vd(b: &[u8]) -> Result<Vec<(u8, String, Vec<u8>)>, String> {
    if b.len() < 3 || b[0] != 0 || b[1] != 1 {
        return Err("vd-wellformed".into());
    }
    let mut pos = 2;
    let mut out = Vec::new();
    loop {
        if pos >= b.len() {
            return Err("vd-wellformed".into());
        }
        let t = b[pos];
        pos += 1;
        if t == 0 {
            if pos != b.len() {
                return Err("vd-wellformed".into());
            }
            return Ok(out);
        }
        if pos + 4 > b.len() {
            return Err("vd-wellformed".into());
        }
        let kl = rd32(&b[pos..]) as usize;
        pos += 4;
        if pos + kl + 4 > b.len() {
            return Err("vd-wellformed".into());
        }
        let k = String::from_utf8(b[pos..pos + kl].to_vec()).map_err(|_| "vd-wellformed".to_string())?;
        pos += kl;
        let vl = rd32(&b[pos..]) as usize;
        pos += 4;
        if pos + vl > b.len() {
            return Err("vd-wellformed".into());
        }
        let v = b[pos..pos + vl].to_vec();
        pos += vl;
        let ok = match t {
            0x04 | 0x0c => vl == 4,
            0x05 | 0x0d => vl == 8,
            0x08 => vl == 1,
            0x18 | 0x42 => true,
            _ => false,
        };
        if !ok {
            return Err("vd-wellformed".into());
        }
        out.push((t, k, v));
    }
}

pub fn kdf_from_vd(vd: &[(u8, String, Vec<u8>)]) -> Result<Kdf, String> {
    let get = |k: &str, t: u8| -> Result<Vec<u8>, String> {
        let mut found = None;
        for (tt, kk, v) in vd {
            if kk == k {
                if *tt != t {
                    return Err("kdf-params".into());
                }
                found = Some(v.clone());
            }
        }
        found.ok_or_else(|| "kdf-params".to_string())
    };
    let uuid = get("$UUID", 0x42)?;
    if uuid == KDF_AES_KDBX4 || uuid == KDF_AES_KDBX3 {
        let seed = get("S", 0x42)?;
        if seed.len() != 32 {
            return Err("size-kdf-seed".into());
        }
        Ok(Kdf::Aes { rounds: rd64(&get("R", 0x05)?), seed })
    } else if uuid == KDF_ARGON2D || uuid == KDF_ARGON2ID {
        let version = rd32(&get("V", 0x04)?);
        if version != 0x10 && version != 0x13 {
            return Err("kdf-params".into());
        }
        let salt = get("S", 0x42)?;
        if salt.len() != 32 {
            return Err("size-kdf-seed".into());
        }
        Ok(Kdf::Argon2 { id: uuid == KDF_ARGON2ID, version, memory: rd64(&get("M", 0x05)?), iterations: rd64(&get("I", 0x05)?), parallelism: rd32(&get("P", 0x04)?), salt })
    } else {
        Err("kdf-known".into())
    }
}

/// Strict unwrap of a KDBX4 file; the error string is the name of the first violated clause (DESIGN.md, Appendix D)
pub fn unwrap_kdbx4(data: &[u8], composite: &[u8]) -> Result<Unwrapped, String> {
    if data.len() < 12 || data[0..4] != SIG1 || rd32(&data[4..]) != SIG2_KDBX {
        return Err("sig".into());
    }
    let minor = u16::from_le_bytes([data[8], data[9]]);
    if u16::from_le_bytes([data[10], data[11]]) != 4 {
        return Err("version".into());
    }
    let mut pos = 12;
    let mut fields: Vec<(u8, Vec<u8>)> = Vec::new();
    loop {
        if pos + 5 > data.len() {
            return Err("end-last".into());
        }
        let t = data[pos];
        let l = rd32(&data[pos + 1..]) as usize;
        if pos + 5 + l > data.len() {
            return Err("end-last".into());
        }
        let v = data[pos + 5..pos + 5 + l].to_vec();
        pos += 5 + l;
        if ![0u8, 1, 2, 3, 4, 7, 11].contains(&t) {
            return Err("field-known".into());
        }
        fields.push((t, v));
        if t == 0 {
            break;
        }
    }
    let header = data[..pos].to_vec();
    let one = |id: u8| -> Result<Vec<u8>, String> {
        let f: Vec<_> = fields.iter().filter(|(t, _)| *t == id).collect();
        if f.len() != 1 {
            return Err("field-once".into());
        }
        Ok(f[0].1.clone())
    };
    let cu = one(2)?;
    let outer = Outer::from_uuid(&cu).ok_or("size-cipher")?;
    let comp = one(3)?;
    if comp.len() != 4 || rd32(&comp) > 1 {
        return Err("size-compression".into());
    }
    let compress = rd32(&comp) == 1;
    let master_seed = one(4)?;
    if master_seed.len() != 32 {
        return Err("size-seed".into());
    }
    let iv = one(7)?;
    if iv.len() != outer.iv_len() {
        return Err("size-iv".into());
    }
    let vd = parse_vd(&one(11)?)?;
    let kdf = kdf_from_vd(&vd)?;
    if data.len() < pos + 64 {
        return Err("hash".into());
    }
    if data[pos..pos + 32] != sha256(&[&header])[..] {
        return Err("hash".into());
    }
    let keys = derive(&kdf, &master_seed, composite)?;
    if data[pos + 32..pos + 64] != hmac256(&block_key(&keys.hmac_base, u64::MAX), &[&header])[..] {
        return Err("hmac".into());
    }
    pos += 64;
    let mut ct = Vec::new();
    let mut blocks = Vec::new();
    let mut idx: u64 = 0;
    loop {
        if pos + 36 > data.len() {
            return Err("terminator".into());
        }
        let mac = &data[pos..pos + 32];
        let n = rd32(&data[pos + 32..]) as usize;
        if pos + 36 + n > data.len() {
            return Err("terminator".into());
        }
        let chunk = &data[pos + 36..pos + 36 + n];
        if mac != &hmac256(&block_key(&keys.hmac_base, idx), &[&le64(idx), &le32(n as u32), chunk])[..] {
            return Err("blocks-consecutive".into());
        }
        pos += 36 + n;
        idx += 1;
        if n == 0 {
            break;
        }
        blocks.push(n);
        ct.extend_from_slice(chunk);
    }
    if pos != data.len() {
        return Err("no-trailing".into());
    }
    let compressed = dec_outer(&outer, &keys.master, &iv, &ct).map_err(|_| "decrypt-ok".to_string())?;
    let payload = if compress { gunzip(&compressed).map_err(|_| "decompress-iff-flag".to_string())? } else { compressed.clone() };
    let mut ip = 0;
    let mut inner_fields = Vec::new();
    loop {
        if ip + 5 > payload.len() {
            return Err("inner-end".into());
        }
        let t = payload[ip];
        let l = rd32(&payload[ip + 1..]) as usize;
        if ip + 5 + l > payload.len() {
            return Err("inner-end".into());
        }
        let v = payload[ip + 5..ip + 5 + l].to_vec();
        ip += 5 + l;
        if t > 3 {
            return Err("inner-known".into());
        }
        inner_fields.push((t, v));
        if t == 0 {
            break;
        }
    }
    let ids: Vec<_> = inner_fields.iter().filter(|(t, _)| *t == 1).collect();
    if ids.len() != 1 || ids[0].1.len() != 4 {
        return Err("inner-stream-id".into());
    }
    let inner = Inner::from_id(rd32(&ids[0].1)).ok_or("inner-stream-id")?;
    let ks: Vec<_> = inner_fields.iter().filter(|(t, _)| *t == 2).collect();
    if ks.len() != 1 {
        return Err("inner-key-size".into());
    }
    let inner_key = ks[0].1.clone();
    let key_ok = match inner {
        Inner::Salsa20 => inner_key.len() == 32,
        Inner::ChaCha20 => inner_key.len() >= 32,
        Inner::Plain => true,
    };
    if !key_ok {
        return Err("inner-key-size".into());
    }
    let mut attachments = Vec::new();
    for (t, v) in &inner_fields {
        if *t == 3 {
            if v.is_empty() {
                return Err("attachment-nonempty".into());
            }
            attachments.push((v[0], v[1..].to_vec()));
        }
    }
    let xml = payload[ip..].to_vec();
    Ok(Unwrapped {
        spec: Kdbx4Spec { minor, outer, compress, master_seed, iv, kdf, inner, inner_key, attachments, xml },
        header,
        fields,
        vd,
        blocks,
        ciphertext: ct,
        compressed,
        payload,
        inner_fields,
        transformed: keys.transformed,
        master: keys.master,
    })
}
