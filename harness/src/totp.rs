//! C19: TOTP::from_str / value_at / get_secret / Entry::get_otp against `KpModel/Totp.lean`.
use crate::panicx::catch;
use crate::rng::Rng;
use crate::Ctx;
use keepass::db::{Entry, TOTPAlgorithm, Value, TOTP};
use serde_json::{json, Value as J};

fn pct(v: &str, plus_space: bool) -> String {
    let mut out = String::new();
    for b in v.bytes() {
        if b.is_ascii_alphanumeric() || b == b'-' || b == b'.' || b == b'_' {
            out.push(b as char);
        } else if b == b' ' && plus_space {
            out.push('+');
        } else {
            out.push_str(&format!("%{:02X}", b));
        }
    }
    out
}

fn gen_secret(rng: &mut Rng) -> String {
    let n = match rng.below(8) {
        0 => 0,
        1 => 1,
        2 => 10,
        3 => 20,
        4 => 32,
        5 => 64,
        _ => rng.below(65) as usize,
    };
    let bytes = rng.bytes(n);
    let good = base32_encode(&bytes);
    match rng.below(12) {
        0 => good.to_lowercase(),
        1 => format!("{}1", good),
        2 => good.trim_end_matches('=').to_string(),
        3 => format!("={}", good),
        4 => format!("{}é", good),
        5 => format!("{}=", good),
        6 => good.replace('A', "="),
        _ => good,
    }
}

// independent RFC 4648 encoder (not the crate the library uses)
fn base32_encode(data: &[u8]) -> String {
    const A: &[u8] = b"ABCDEFGHIJKLMNOPQRSTUVWXYZ234567";
    let mut out = String::new();
    let mut bits: u32 = 0;
    let mut nbits = 0;
    for &b in data {
        bits = (bits << 8) | b as u32;
        nbits += 8;
        while nbits >= 5 {
            out.push(A[((bits >> (nbits - 5)) & 31) as usize] as char);
            nbits -= 5;
        }
    }
    if nbits > 0 {
        out.push(A[((bits << (5 - nbits)) & 31) as usize] as char);
    }
    while out.len() % 8 != 0 {
        out.push('=');
    }
    out
}

const PERIODS: &[&str] = &["30", "1", "60", "86400", "0", "+5", "", "abc", "18446744073709551615", "18446744073709551616", "-1", "030", "3 0"];
const DIGITS: &[&str] = &["6", "8", "1", "9", "10", "19", "20", "25", "0", "4294967295", "4294967296", "x", "7"];
const ALGS: &[&str] = &["SHA1", "SHA256", "SHA512", "sha1", "MD5", ""];
const LABELS: &[&str] = &["KeePassXC:none", "ACME%20Co:john.doe@email.com", "", "a/b", "/x", "L"];

pub fn run(ctx: &mut Ctx) {
    let count = ctx.count(5000, 200000);
    // RFC 6238 appendix B seeds first (the model's own vectors are checked by `selftest`)
    for i in 0..count {
        let mut rng = ctx.rng.fork();
        let scheme = if rng.chance(1, 12) { *rng.pick(&["http", "otpauthx", "OTPAUTH"]) } else { "otpauth" };
        let label = rng.pick(LABELS).to_string();
        let mut pairs: Vec<(String, String)> = Vec::new();
        let mostly_valid = rng.chance(3, 4);
        if i % 50 == 0 {
            pairs.push(("secret".into(), base32_encode(b"12345678901234567890")));
        } else if !rng.chance(1, 15) {
            let s = if mostly_valid { base32_encode(&{ let n = rng.below(65) as usize; rng.bytes(n) }) } else { gen_secret(&mut rng) };
            pairs.push(("secret".into(), s));
        }
        if rng.chance(1, 2) {
            pairs.push(("issuer".into(), rng.pick(&["KeePassXC", "ACME Co", "é&=+", ""]).to_string()));
        }
        if rng.chance(2, 3) {
            let v = if mostly_valid { rng.pick(&PERIODS[..4]) } else { rng.pick(PERIODS) };
            pairs.push(("period".into(), v.to_string()));
        }
        if rng.chance(2, 3) {
            let v = if mostly_valid { rng.pick(&DIGITS[..5]) } else { rng.pick(DIGITS) };
            pairs.push(("digits".into(), v.to_string()));
        }
        if rng.chance(1, 2) {
            let v = if mostly_valid { rng.pick(&ALGS[..3]) } else { rng.pick(ALGS) };
            pairs.push(("algorithm".into(), v.to_string()));
        }
        if rng.chance(1, 4) {
            pairs.push((rng.pick(&["foo", "Secret", "PERIOD", "image"]).to_string(), "x".into()));
        }
        if rng.chance(1, 5) && !pairs.is_empty() {
            // duplicate a key: the later one wins
            let k = pairs[rng.below(pairs.len() as u64) as usize].0.clone();
            let v = match k.as_str() {
                "period" => rng.pick(PERIODS).to_string(),
                "digits" => rng.pick(DIGITS).to_string(),
                "algorithm" => rng.pick(ALGS).to_string(),
                "secret" => gen_secret(&mut rng),
                _ => "dup".to_string(),
            };
            pairs.push((k, v));
        }
        rng.shuffle(&mut pairs);
        let plus = rng.chance(1, 2);
        let query: Vec<String> = pairs.iter().map(|(k, v)| format!("{}={}", k, pct(v, plus))).collect();
        let path = format!("/{}", label);
        let uri = if pairs.is_empty() && rng.chance(1, 2) {
            format!("{}://totp{}", scheme, path)
        } else {
            format!("{}://totp{}?{}", scheme, path, query.join("&"))
        };
        // uppercase schemes are lower-cased by the url crate: keep the model's input = what the crate reports
        let scheme_seen = scheme.to_lowercase();

        let via_entry = rng.chance(1, 5);
        let parsed: Result<Result<TOTP, String>, _> = catch(|| {
            if via_entry {
                let mut e = Entry::new();
                e.fields.insert("otp".into(), Value::Unprotected(uri.clone()));
                e.get_otp().map_err(|e| format!("{:?}", e))
            } else {
                uri.parse::<TOTP>().map_err(|e| format!("{:?}", e))
            }
        });
        let mut times: Vec<u64> = vec![0, 1, 29, 30, 59, 1111111109, 1u64 << 31, 1u64 << 32, u64::MAX, rng.next() >> rng.below(60)];
        let real = match &parsed {
            Err(p) => json!({"parse": format!("panic:{}", p.site())}),
            Ok(Err(e)) => {
                let cls = if e.starts_with("UrlFormat") { "url" } else if e.starts_with("BadScheme") { "scheme" }
                    else if e.starts_with("IntFormat") { "int" } else if e.starts_with("BadAlgorithm") { "algorithm" }
                    else if e.starts_with("MissingField") { "missing-secret" } else if e.starts_with("Base32") { "base32" }
                    else if e.starts_with("NoRecord") { "no-record" } else { "other" };
                json!({"parse": format!("err:{}", cls)})
            }
            Ok(Ok(t)) => {
                if t.period > 0 {
                    times.push(t.period - 1);
                    times.push(t.period);
                    times.push(u64::MAX - t.period);
                }
                let vals: Vec<J> = times.iter().map(|&tm| match catch(|| t.value_at(tm)) {
                    Ok(c) => json!([c.code, c.valid_for.as_secs()]),
                    Err(p) => json!(format!("panic:{}", if p.message.contains("divide by zero") || p.message.contains("remainder with a divisor of zero") { "divide-by-zero" } else if p.message.contains("overflow") { "pow-overflow" } else { "other" })),
                }).collect();
                json!({
                    "parse": "ok", "label": t.label, "issuer": t.issuer, "period": t.period, "digits": t.digits,
                    "algorithm": match t.algorithm { TOTPAlgorithm::Sha1 => "SHA1", TOTPAlgorithm::Sha256 => "SHA256", TOTPAlgorithm::Sha512 => "SHA512" },
                    "secret_b32": t.get_secret(), "values": vals,
                })
            }
        };
        let tag = real["parse"].as_str().unwrap().to_string();
        ctx.emit(json!({
            "op": "totp", "uri": uri, "scheme": scheme_seen, "path": path,
            "pairs": pairs.iter().map(|(k, v)| json!([k, v])).collect::<Vec<_>>(),
            "times": times, "via_entry": via_entry,
            "tags": [format!("parse:{}", tag)],
            "real": real,
        }));
    }
}
