//! KDBX4 container ops (C01 framing, C04, C05, C06, C07, C09): files from the independent builder and from the
//! real `save`, credential edits, attacker mutations, malformed inputs; each case carries the oracle table of the
//! primitives (KDF, outer cipher, gzip) so that the Lean model of `decrypt_kdbx4` can be run on the same bytes.
use crate::kdbx::{self, Inner, Kdbx4Spec, Kdf, Layout, Outer};
use crate::keyop::{make_key, ref_composite};
use crate::panicx::catch;
use crate::rng::Rng;
use crate::{dump, Ctx};
use keepass::config::*;
use keepass::db::*;
use keepass::error::DatabaseOpenError;
use keepass::{Database, DatabaseKey};
use serde_json::{json, Value as J};

pub fn tiny_xml(rng: &mut Rng) -> Vec<u8> {
    let name = rng.pick(&["R", "Root", "Ünï", "a&amp;b"]);
    let n = rng.below(3);
    let mut entries = String::new();
    for i in 0..n {
        entries.push_str(&format!(
            "<Entry><UUID>AAAAAAAAAAAAAAAAAAAAA{}==</UUID><String><Key>Title</Key><Value>t{}</Value></String><Times><CreationTime>2020-01-02T03:04:05Z</CreationTime><LastModificationTime>2020-01-02T03:04:05Z</LastModificationTime><LastAccessTime>2020-01-02T03:04:05Z</LastAccessTime><LocationChanged>2020-01-02T03:04:05Z</LocationChanged><ExpiryTime>2020-01-02T03:04:05Z</ExpiryTime><Expires>False</Expires><UsageCount>0</UsageCount></Times></Entry>",
            ["g", "w", "A"][i as usize], i
        ));
    }
    format!("<?xml version=\"1.0\" encoding=\"utf-8\"?><KeePassFile><Meta><Generator>ref</Generator></Meta><Root><Group><UUID>AAAAAAAAAAAAAAAAAAAAAQ==</UUID><Name>{}</Name><IsExpanded>True</IsExpanded>{}</Group></Root></KeePassFile>", name, entries).into_bytes()
}

pub fn gen_kdf(rng: &mut Rng) -> Kdf {
    match rng.below(3) {
        0 => Kdf::Aes { rounds: rng.range(0, 20), seed: rng.bytes(32) },
        k => Kdf::Argon2 {
            id: k == 2,
            version: *rng.pick(&[0x10u32, 0x13]),
            // the header stores bytes; KeePass divides by 1024 and drops the remainder
            memory: 1024 * rng.range(16, 64) + if rng.chance(1, 2) { rng.below(1024) } else { 0 },
            iterations: rng.range(1, 3),
            parallelism: rng.range(1, 2) as u32,
            salt: rng.bytes(32),
        },
    }
}

pub fn gen_spec(rng: &mut Rng) -> Kdbx4Spec {
    let outer = rng.pick(&[Outer::Aes256, Outer::Twofish, Outer::ChaCha20]).clone();
    let inner = rng.pick(&[Inner::Plain, Inner::Salsa20, Inner::ChaCha20]).clone();
    let inner_key = match inner {
        Inner::Salsa20 => rng.bytes(32),
        Inner::ChaCha20 => rng.bytes_pick(&[32usize, 64]),
        Inner::Plain => rng.bytes_pick(&[0usize, 1, 32]),
    };
    let natt = rng.below(3);
    Kdbx4Spec {
        minor: *rng.pick(&[0u16, 0, 1]),
        iv: rng.bytes(outer.iv_len()),
        outer,
        compress: rng.chance(1, 2),
        master_seed: rng.bytes(32),
        kdf: gen_kdf(rng),
        inner,
        inner_key,
        attachments: (0..natt).map(|_| (rng.next() as u8, rng.bytes_below(20))).collect(),
        xml: tiny_xml(rng),
    }
}

pub fn gen_layout(rng: &mut Rng, spec: &Kdbx4Spec) -> Layout {
    if rng.chance(1, 5) {
        return Layout::library_like();
    }
    let mut order: Vec<u8> = vec![2, 3, 4, 7, 11];
    rng.shuffle(&mut order);
    let ncomments = rng.below(3) as usize;
    let mut comments = Vec::new();
    for _ in 0..ncomments {
        let pos = rng.below(order.len() as u64 + 1) as usize;
        order.insert(pos, 1);
        comments.push(rng.bytes_below(12));
    }
    let n_vd = kdbx::kdf_vd_entries(&spec.kdf).len();
    let mut vd_perm: Vec<usize> = (0..n_vd).collect();
    rng.shuffle(&mut vd_perm);
    let nblocks = rng.below(5) as usize;
    let block_sizes: Vec<usize> = (0..nblocks).map(|_| *rng.pick(&[1usize, 1, 2, 16, 17, 64, 300])).collect();
    let mut inner_order = vec![1u8, 2, 3];
    rng.shuffle(&mut inner_order);
    Layout {
        outer_order: order,
        comments,
        vd_perm,
        block_sizes,
        inner_order,
        end_payload: if rng.chance(1, 2) { vec![0x0d, 0x0a, 0x0d, 0x0a] } else { vec![] },
    }
}

fn rd32(b: &[u8]) -> u32 {
    u32::from_le_bytes([b[0], b[1], b[2], b[3]])
}

/// Lenient trace of the primitive calls a reader of `data` under `composite` makes (bounds-checked everywhere,
/// stops where it cannot go on).  Produces the oracle table for the Lean model.
pub fn oracle_for(data: &[u8], composite: Option<&[u8]>) -> Vec<J> {
    let mut out = Vec::new();
    let mut pos = 12usize;
    let (mut cipher, mut compress, mut seed, mut iv, mut kdf): (Option<Outer>, Option<bool>, Option<Vec<u8>>, Option<Vec<u8>>, Option<Kdf>) = (None, None, None, None, None);
    loop {
        if pos + 5 > data.len() {
            return out;
        }
        let t = data[pos];
        let l = rd32(&data[pos + 1..]) as usize;
        if pos + 5 + l > data.len() {
            return out;
        }
        let v = &data[pos + 5..pos + 5 + l];
        pos += 5 + l;
        match t {
            0 => break,
            2 => cipher = Outer::from_uuid(v),
            3 => {
                if v.len() >= 4 {
                    compress = match rd32(v) { 0 => Some(false), 1 => Some(true), _ => None }
                }
            }
            4 => seed = Some(v.to_vec()),
            7 => iv = Some(v.to_vec()),
            11 => kdf = lenient_kdf(v),
            _ => {}
        }
    }
    let (cipher, compress, seed, iv, kdf, composite) = match (cipher, compress, seed, iv, kdf, composite) {
        (Some(a), Some(b), Some(c), Some(d), Some(e), Some(f)) => (a, b, c, d, e, f),
        _ => return out,
    };
    if pos + 64 > data.len() {
        return out;
    }
    let tk = match &kdf {
        Kdf::Aes { rounds, seed: ks } => {
            if ks.len() != 32 {
                return out;
            }
            let tk = kdbx::transform(&kdf, composite).unwrap();
            out.push(json!(["aeskdf", hex::encode(ks), rounds, hex::encode(composite), hex::encode(&tk)]));
            tk
        }
        Kdf::Argon2 { id, version, memory, iterations, parallelism, salt } => {
            let r = kdbx::transform(&kdf, composite);
            out.push(json!(["argon2", id, version, memory, iterations, parallelism, hex::encode(salt), hex::encode(composite), r.as_ref().ok().map(hex::encode)]));
            match r {
                Ok(t) => t,
                Err(_) => return out,
            }
        }
    };
    let master = kdbx::sha256(&[&seed, &tk]);
    let base = kdbx::sha512(&[&seed, &tk, &[1u8]]);
    // blocks, as far as they verify
    let mut p = pos + 64;
    let mut ct = Vec::new();
    let mut idx = 0u64;
    while p < data.len() {
        if p + 36 > data.len() {
            return out;
        }
        let n = rd32(&data[p + 32..]) as usize;
        if p + 36 + n > data.len() {
            return out;
        }
        let chunk = &data[p + 36..p + 36 + n];
        if data[p..p + 32] != kdbx::hmac256(&kdbx::block_key(&base, idx), &[&kdbx::le64(idx), &kdbx::le32(n as u32), chunk])[..] {
            return out;
        }
        p += 36 + n;
        idx += 1;
        if n == 0 {
            break;
        }
        ct.extend_from_slice(chunk);
    }
    let dec = kdbx::dec_outer(&cipher, &master, &iv, &ct);
    out.push(json!(["decO", cipher.name(), hex::encode(&master), hex::encode(&iv), hex::encode(&ct), dec.as_ref().ok().map(hex::encode)]));
    if let Ok(pt) = dec {
        if compress {
            let g = kdbx::gunzip(&pt);
            out.push(json!(["gunzip", hex::encode(&pt), g.ok().map(hex::encode)]));
        }
    }
    out
}

fn lenient_kdf(b: &[u8]) -> Option<Kdf> {
    // later duplicates win, as in a map
    if b.len() < 2 {
        return None;
    }
    let mut pos = 2;
    let mut m: std::collections::HashMap<Vec<u8>, (u8, Vec<u8>)> = std::collections::HashMap::new();
    while pos + 9 < b.len() {
        let t = b[pos];
        pos += 1;
        let kl = rd32(&b[pos..]) as usize;
        pos += 4;
        if pos + kl + 4 > b.len() {
            return None;
        }
        let k = b[pos..pos + kl].to_vec();
        pos += kl;
        let vl = rd32(&b[pos..]) as usize;
        pos += 4;
        if pos + vl > b.len() {
            return None;
        }
        m.insert(k, (t, b[pos..pos + vl].to_vec()));
        pos += vl;
    }
    let get = |k: &str, t: u8, min: usize| -> Option<Vec<u8>> {
        m.get(k.as_bytes()).filter(|(tt, v)| *tt == t && v.len() >= min).map(|(_, v)| v.clone())
    };
    let uuid = get("$UUID", 0x42, 0)?;
    let u64of = |v: Vec<u8>| u64::from_le_bytes([v[0], v[1], v[2], v[3], v[4], v[5], v[6], v[7]]);
    if uuid == kdbx::KDF_AES_KDBX4 || uuid == kdbx::KDF_AES_KDBX3 {
        Some(Kdf::Aes { rounds: u64of(get("R", 0x05, 8)?), seed: get("S", 0x42, 0)? })
    } else if uuid == kdbx::KDF_ARGON2D || uuid == kdbx::KDF_ARGON2ID {
        let version = rd32(&get("V", 0x04, 4)?);
        if version != 0x10 && version != 0x13 {
            return None;
        }
        Some(Kdf::Argon2 {
            id: uuid == kdbx::KDF_ARGON2ID,
            version,
            memory: u64of(get("M", 0x05, 8)?),
            iterations: u64of(get("I", 0x05, 8)?),
            parallelism: rd32(&get("P", 0x04, 4)?),
            salt: get("S", 0x42, 0)?,
        })
    } else {
        None
    }
}

pub fn err_class(e: &DatabaseOpenError) -> &'static str {
    match e {
        DatabaseOpenError::Io(_) => "io",
        DatabaseOpenError::Key(_) => "key",
        DatabaseOpenError::DatabaseIntegrity(_) => "integrity",
        DatabaseOpenError::UnsupportedVersion => "unsupported",
    }
}

pub fn kdf_json(k: &Kdf) -> J {
    match k {
        Kdf::Aes { rounds, .. } => json!({"aes": rounds}),
        Kdf::Argon2 { id, version, memory, iterations, parallelism, .. } => {
            json!({ if *id { "argon2id" } else { "argon2d" }: [iterations, memory, parallelism, version] })
        }
    }
}

/// KDF cost budget: the property excludes the time and memory a file's own parameters demand
/// the work factor of whatever format the bytes are dispatched to (a mutation can turn the KDBX signature into the
/// KeePass 1 one, or the major version 4 into 3, and the bytes that follow then name a different number of rounds)
pub fn kdf_within_budget(data: &[u8]) -> bool {
    if data.len() >= 12 && data[4..8] == [0x65, 0xfb, 0x4b, 0xb5] {
        return crate::legacy::kdb_within_budget(data);
    }
    if data.len() >= 12 && data[4..8] == [0x67, 0xfb, 0x4b, 0xb5] && u16::from_le_bytes([data[10], data[11]]) == 3 {
        return crate::legacy::kdbx3_within_budget(data);
    }
    kdbx4_within_budget(data)
}

pub fn kdbx4_within_budget(data: &[u8]) -> bool {
    // find field 11 leniently
    let mut pos = 12usize;
    loop {
        if pos + 5 > data.len() {
            return true;
        }
        let t = data[pos];
        let l = rd32(&data[pos + 1..]) as usize;
        if pos + 5 + l > data.len() {
            return true;
        }
        if t == 0 {
            return true;
        }
        if t == 11 {
            return match lenient_kdf(&data[pos + 5..pos + 5 + l]) {
                Some(Kdf::Aes { rounds, .. }) => rounds <= 200_000,
                // the library narrows memory/1024 and the iteration count to 32 bits: the cost is that of the narrowed values
                Some(Kdf::Argon2 { memory, iterations, parallelism, .. }) => { let (m, i) = (((memory / 1024) as u32) as u64 * 1024, (iterations as u32) as u64); m <= 64 * 1024 * 1024 && i <= 8 && parallelism <= 8 && (m / 1024 >= 8 * parallelism as u64 || m / 1024 < 8) }
                None => true,
            };
        }
        pos += 5 + l;
    }
}

/// what the real library does with `data` under `key`: the decrypt stage (through `get_xml`) and the full parse
pub fn observe(data: &[u8], key: &DatabaseKey) -> J {
    // debugging aid for the watchdog: keep the input of the call in flight where a hang can be replayed from
    if let Ok(p) = std::env::var("KP_INFLIGHT") {
        let _ = std::fs::write(p, data);
    }
    let dx = catch(|| Database::get_xml(&mut &data[..], key.clone()));
    let (decrypt, xml_sha) = match &dx {
        Ok(Ok(x)) => ("ok".to_string(), Some(hex::encode(kdbx::sha256(&[x])))),
        Ok(Err(e)) => (format!("err:{}", err_class(e)), None),
        Err(p) => (format!("panic:{}", p.site()), None),
    };
    let pr = catch(|| Database::parse(data, key.clone()));
    let (parse, config, atts, db) = match &pr {
        Ok(Ok(db)) => (
            "ok".to_string(),
            Some(dump::config(&db.config)),
            Some(J::Array(db.header_attachments.iter().map(|a| json!([a.flags, hex::encode(&a.content)])).collect())),
            Some(hex::encode(kdbx::sha256(&[serde_json::to_string(&dump::database(db)).unwrap().as_bytes()]))),
        ),
        Ok(Err(e)) => (format!("err:{}", err_class(e)), None, None, None),
        Err(p) => (format!("panic:{}", p.site()), None, None, None),
    };
    // the same bytes through `Database::open` from a reader that hands them over in pieces (a pipe, a socket, a chained reader):
    // the entry points must agree
    let parse = if data.len() < (2 << 20) && data.len() % 3 != 2 {
        let cap = [1usize, 5, 11, 13, 4096][data.len() % 5];
        let mut rd = Pieces { data, pos: 0, cap };
        let op = catch(|| Database::open(&mut rd, key.clone()));
        let (o, odb) = match &op {
            Ok(Ok(d)) => ("ok".to_string(), Some(hex::encode(kdbx::sha256(&[serde_json::to_string(&dump::database(d)).unwrap().as_bytes()])))),
            Ok(Err(e)) => (format!("err:{}", err_class(e)), None),
            Err(p) => (format!("panic:{}", p.site()), None),
        };
        if o != parse || odb != db { format!("open-from-a-reader-in-pieces-of-{}-differs-from-parse:{}:{}", cap, o, parse) } else { parse }
    } else {
        parse
    };
    json!({"decrypt": decrypt, "xml_sha256": xml_sha, "parse": parse, "config": config, "attachments": atts, "db_sha256": db})
}

struct Pieces<'a> {
    data: &'a [u8],
    pos: usize,
    cap: usize,
}
impl<'a> std::io::Read for Pieces<'a> {
    fn read(&mut self, buf: &mut [u8]) -> std::io::Result<usize> {
        let n = buf.len().min(self.cap).min(self.data.len() - self.pos);
        buf[..n].copy_from_slice(&self.data[self.pos..self.pos + n]);
        self.pos += n;
        Ok(n)
    }
}

pub fn spec_json(s: &Kdbx4Spec) -> J {
    json!({
        "config": {"version": format!("KDBX4.{}", s.minor), "outer": s.outer.name(), "compression": if s.compress { "GZip" } else { "None" }, "inner": s.inner.name(), "kdf": kdf_json(&s.kdf)},
        "attachments": s.attachments.iter().map(|(f, c)| json!([f, hex::encode(c)])).collect::<Vec<_>>(),
        "inner_key": hex::encode(&s.inner_key),
        "xml_sha256": hex::encode(kdbx::sha256(&[&s.xml])),
    })
}

pub struct Creds {
    pub pw: Option<String>,
    pub kf: Option<Vec<u8>>,
}

pub fn gen_creds(rng: &mut Rng) -> Creds {
    let pw = if rng.chance(4, 5) { Some(rng.pick(&["demopass", "", "pässwörd", "a b ", "x"]).to_string()) } else { None };
    let kf = if pw.is_none() || rng.chance(1, 3) {
        Some(match rng.below(5) {
            0 => rng.bytes(32),
            4 => format!("<?xml version=\"1.0\"?><Workbook><Cell><Data Type=\"String\">{}</Data></Cell><Version>2.0</Version></Workbook>", hex::encode(rng.bytes(16))).into_bytes(), // XML, but not a KeePass key file
            3 => rng.bytes_pick(&[65_536usize, 70_000, 131_073]),   // larger than any buffer a reader might cap at
            1 => rng.bytes(20),
            1 if false => vec![],
            _ if rng.chance(1, 2) => {
                use base64::Engine;
                format!("<KeyFile><Meta><Version>1.00</Version></Meta><Key><Data>{}</Data></Key></KeyFile>", base64::engine::general_purpose::STANDARD.encode(rng.bytes(32))).into_bytes()
            }
            _ => format!("<KeyFile><Meta><Version>2.0</Version></Meta><Key><Data>{}</Data></Key></KeyFile>", hex::encode(rng.bytes(32))).into_bytes(),
        })
    } else {
        None
    };
    // an XML key file as editors and other tools leave it: with a byte order mark, a blank line or an XML declaration in front
    let kf = kf.map(|k| {
        if k.first() == Some(&b'<') && !k.starts_with(b"<?xml") && rng.chance(1, 2) {
            let mut out = rng.pick(&["\u{feff}", "\n", "  \r\n", "<?xml version=\"1.0\" encoding=\"utf-8\"?>\n", "\u{feff}<?xml version=\"1.0\"?>"]).as_bytes().to_vec();
            out.extend(k);
            out
        } else {
            k
        }
    });
    Creds { pw, kf }
}

fn emit_read(ctx: &mut Ctx, sub: &str, data: &[u8], composite: Option<&[u8]>, key: &DatabaseKey, extra: J, tags: Vec<String>, nontrivial: bool) {
    let real = observe(data, key);
    ctx.emit(json!({
        "op": "kdbx4read", "sub": sub,
        "file": hex::encode(data), "composite": composite.map(hex::encode),
        "oracle": oracle_for(data, composite),
        "extra": extra, "tags": tags, "nontrivial": nontrivial,
        "real": real,
    }));
}

/// C01 (framing): every conforming layout decodes to the stored configuration, attachments and XML
pub fn run_wf(ctx: &mut Ctx) {
    let count = ctx.count(400, 5000);
    for i in 0..count {
        let mut rng = ctx.rng.fork();
        let spec = gen_spec(&mut rng);
        let creds = gen_creds(&mut rng);
        let comp = ref_composite(&creds.pw, &creds.kf).unwrap();
        let key = make_key(&creds.pw, &creds.kf);
        let (layout, data, origin) = if i % 6 == 5 {
            // a file written by the real `save` (library layout), read back through the same op
            let mut db = Database::new(DatabaseConfig {
                version: DatabaseVersion::KDB4(0),
                outer_cipher_config: match spec.outer { Outer::Aes256 => OuterCipherConfig::AES256, Outer::Twofish => OuterCipherConfig::Twofish, Outer::ChaCha20 => OuterCipherConfig::ChaCha20 },
                compression_config: if spec.compress { CompressionConfig::GZip } else { CompressionConfig::None },
                inner_cipher_config: match spec.inner { Inner::Plain => InnerCipherConfig::Plain, Inner::Salsa20 => InnerCipherConfig::Salsa20, Inner::ChaCha20 => InnerCipherConfig::ChaCha20 },
                kdf_config: KdfConfig::Aes { rounds: 3 },
            });
            db.header_attachments = spec.attachments.iter().map(|(f, c)| HeaderAttachment { flags: *f, content: c.clone() }).collect();
            let mut buf = Vec::new();
            db.save(&mut buf, key.clone()).unwrap();
            (Layout::library_like(), buf, "real-save")
        } else {
            let l = gen_layout(&mut rng, &spec);
            let d = kdbx::build_kdbx4(&spec, &l, &comp).unwrap();
            (l, d, "builder")
        };
        let intended = if origin == "builder" { spec_json(&spec) } else { J::Null };
        let permuted = layout.outer_order != vec![2, 3, 7, 4, 11] || layout.inner_order != vec![1, 2, 3];
        let nontrivial = layout.block_sizes.len() >= 1 || permuted;
        emit_read(ctx, "wf", &data, Some(&comp), &key,
            json!({"intended": intended, "origin": origin, "layout": {"outer": layout.outer_order, "blocks": layout.block_sizes, "inner": layout.inner_order, "vd": layout.vd_perm}}),
            vec![format!("origin:{}", origin), format!("outer:{}", spec.outer.name()), format!("kdf:{}", match spec.kdf { Kdf::Aes { .. } => "aes", Kdf::Argon2 { id: true, .. } => "argon2id", _ => "argon2d" }),
                 format!("inner:{}", spec.inner.name()), format!("gzip:{}", spec.compress), format!("blocks:{}", layout.block_sizes.len().min(3))],
            nontrivial);
    }
}

/// C04: only the exact credentials open a database
pub fn run_cred(ctx: &mut Ctx) {
    // every class of key file x every edit that touches the key file, with and without a password (both tiers)
    {
        use base64::Engine;
        let mut rng = ctx.rng.fork();
        let classes: Vec<Vec<u8>> = vec![
            rng.bytes(32),
            hex::encode(rng.bytes(32)).into_bytes(),
            rng.bytes(20),
            format!("<KeyFile><Meta><Version>1.00</Version></Meta><Key><Data>{}</Data></Key></KeyFile>", base64::engine::general_purpose::STANDARD.encode(rng.bytes(32))).into_bytes(),
            format!("<KeyFile><Meta><Version>1.00</Version></Meta><Key><Data>{}</Data></Key></KeyFile>", base64::engine::general_purpose::STANDARD.encode(rng.bytes(31))).into_bytes(),
            // (one byte of the key has a zero high nibble: the edit `keyfile-hex-plus-sign` has a '0' to replace)
            format!("<KeyFile><Meta><Version>2.0</Version></Meta><Key><Data>{}</Data></Key></KeyFile>", hex::encode({ let mut k = rng.bytes(32); k[5] &= 0x0f; k })).into_bytes(),
            format!("<?xml version=\"1.0\"?><Workbook><Cell><Data Type=\"String\">{}</Data></Cell><Version>2.0</Version></Workbook>", hex::encode(rng.bytes(16))).into_bytes(),
            { let mut b = rng.bytes(70_003); b[0] = 0; b },     // delivered in pieces of 512 bytes by `make_key`
            { let mut b = rng.bytes(70_002); b[0] = 2; b },     // … of 4096 bytes
            { let mut b = rng.bytes(1_048_576 + 9); b[0] = 4; b }, // larger than 1 MiB (a photo as key file), in pieces of 4096 bytes
            crate::keyop::large_keyfile(&mut rng, (1 << 24) + 5),   // larger than 16 MiB
        ];
        for (ci, kf) in classes.iter().enumerate() {
            for pw in [None, Some("demopass".to_string())] {
                let creds = Creds { pw: pw.clone(), kf: Some(kf.clone()) };
                let comp = match ref_composite(&creds.pw, &creds.kf) { Some(c) => c, None => continue };
                let mut spec = gen_spec(&mut rng);
                spec.kdf = Kdf::Aes { rounds: 2, seed: rng.bytes(32) };
                let layout = gen_layout(&mut rng, &spec);
                let built = kdbx::build_kdbx4(&spec, &layout, &comp).unwrap();
                // the same edits against a file the library wrote itself under these credentials (whatever key it derives from them)
                let saved = {
                    let db = Database::new(DatabaseConfig { kdf_config: KdfConfig::Aes { rounds: 3 }, ..Default::default() });
                    let mut buf = Vec::new();
                    match catch(|| db.save(&mut buf, make_key(&creds.pw, &creds.kf))) {
                        Ok(Ok(())) => Some(buf),
                        _ => None,
                    }
                };
                for (data, origin) in [(Some(built), "builder"), (saved, "library-save")] {
                    let data = match data { Some(d) => d, None => continue };
                    for n in [6u64, 12, 13, 14, 15, 16, 17, 5, 11, 18, 19] {
                        let (pw2, kf2, what) = edit_creds_n(&mut rng, &creds, n);
                        let comp2 = ref_composite(&pw2, &kf2);
                        if comp2.as_deref() == Some(&comp[..]) {
                            continue;
                        }
                        let key2 = match catch(|| make_key(&pw2, &kf2)) { Ok(k) => k, Err(_) => continue };
                        emit_read(ctx, "cred", &data, comp2.as_deref(), &key2, json!({"edit": what, "keyfile_class": ci, "origin": origin}),
                            vec![format!("edit:{}", what), format!("keyfile-class:{}", ci), format!("origin:{}", origin)], true);
                    }
                }
            }
        }
    }
    let count = ctx.count(60, 400);
    let edits_per = if ctx.thorough { 40 } else { 8 };
    for fi in 0..count {
        let mut rng = ctx.rng.fork();
        let spec = gen_spec(&mut rng);
        let mut creds = gen_creds(&mut rng);
        if fi % 8 == 7 {
            creds.kf = Some(rng.bytes_pick(&[65_537usize, 70_000, 131_073]));   // larger than any buffer a reader might cap at
        }
        if fi % 8 == 5 {
            // one key file that begins with the bytes of `make_key`'s wrong pick
            let mut rest = rng.bytes(40);
            rest[1] = 0;
            while !crate::keyop::uses_decoy(&rest) {
                rest[1] += 1;
            }
            let mut k = crate::keyop::DECOY.to_vec();
            k.extend_from_slice(&rest);
            creds.kf = Some(k);
        }
        let comp = ref_composite(&creds.pw, &creds.kf).unwrap();
        let layout = gen_layout(&mut rng, &spec);
        let data = if fi % 4 == 3 {
            // written by the library itself under these credentials (whatever key it derives from them)
            let db = Database::new(DatabaseConfig { kdf_config: KdfConfig::Aes { rounds: 3 }, ..Default::default() });
            let mut buf = Vec::new();
            match catch(|| db.save(&mut buf, make_key(&creds.pw, &creds.kf))) {
                Ok(Ok(())) => buf,
                _ => kdbx::build_kdbx4(&spec, &layout, &comp).unwrap(), // save refused these credentials (C20's concern): use the builder
            }
        } else {
            kdbx::build_kdbx4(&spec, &layout, &comp).unwrap()
        };
        for ei in 0..edits_per {
            let (pw2, kf2, what) = if ei == 0 && fi % 8 == 5 { edit_creds_n(&mut rng, &creds, 19) } else if ei == 0 && creds.kf.is_none() { edit_creds_n(&mut rng, &creds, 18) } else { edit_creds(&mut rng, &creds) };
            let comp2 = ref_composite(&pw2, &kf2);
            if comp2.as_deref() == Some(&comp[..]) {
                continue; // the edit did not change the derived key (e.g. same key file content re-encoded)
            }
            // the offered key file arrives in pieces, like the right one (`make_key`)
            let key2 = match catch(|| make_key(&pw2, &kf2)) { Ok(k) => k, Err(_) => continue };
            emit_read(ctx, "cred", &data, comp2.as_deref(), &key2, json!({"edit": what}), vec![format!("edit:{}", what)], true);
        }
    }
}

fn edit_creds(rng: &mut Rng, c: &Creds) -> (Option<String>, Option<Vec<u8>>, &'static str) {
    let n = rng.below(20);
    edit_creds_n(rng, c, n)
}

fn edit_creds_n(rng: &mut Rng, c: &Creds, n: u64) -> (Option<String>, Option<Vec<u8>>, &'static str) {
    let pw = c.pw.clone();
    let kf = c.kf.clone();
    match n {
        15 => (pw, kf.map(|k| { let t = String::from_utf8_lossy(&k).to_string(); if t.contains("<Version>2.0</Version>") { t.replacen("<Version>2.0</Version>", *rng.pick(&["<Version>2.1</Version>", "<Version>2.00</Version>", "<Version>2.</Version>", "<Version>2.0 </Version>"]), 1).into_bytes() } else if t.contains("<Version>1.00</Version>") { t.replacen("<Version>1.00</Version>", "<Version>1.0</Version>", 1).into_bytes() } else { let mut k = k; k.insert(0, b' '); k } }).or(Some(vec![4u8; 32])), "keyfile-version-text-changed"),
        14 => (pw, kf.map(|k| { let t = String::from_utf8_lossy(&k).to_string(); if t.contains("=</Data>") { t.replacen("=</Data>", "</Data>", 1).into_bytes() } else if t.contains("</Data>") { t.replacen("</Data>", "=</Data>", 1).into_bytes() } else { let mut k = k; k.push(b'='); k } }).or(Some(vec![3u8; 32])), "keyfile-payload-padding-changed"),
        16 => (pw, kf.map(|k| {
            // a version-2 key file whose hex payload has a '+' where a '0' high nibble was ("+5" is what some integer parsers read as 5)
            let t = String::from_utf8_lossy(&k).to_string();
            match (t.contains("<Version>2.0</Version>"), t.find("<Data>"), t.find("</Data>")) {
                (true, Some(a), Some(b)) if a + 6 < b => {
                    let (start, hexs) = (a + 6, &t[a + 6..b]);
                    match (0..hexs.len() / 2).find(|i| hexs.as_bytes()[2 * i] == b'0') {
                        Some(i) => { let mut o = t.clone().into_bytes(); o[start + 2 * i] = b'+'; o }
                        None => { let mut o = t.clone().into_bytes(); o[start] = b'+'; o }
                    }
                }
                _ => { let mut k = k; k.push(b'+'); k }
            }
        }).or(Some(vec![5u8; 32])), "keyfile-hex-plus-sign"),
        17 => (pw, kf.map(|k| {
            // a version-1 key file whose last base64 symbol differs only in the bits that do not belong to the key
            let t = String::from_utf8_lossy(&k).to_string();
            const ALPHA: &[u8] = b"ABCDEFGHIJKLMNOPQRSTUVWXYZabcdefghijklmnopqrstuvwxyz0123456789+/";
            match t.find("=</Data>") {
                Some(p) if p > 0 => {
                    let mut o = t.clone().into_bytes();
                    let q = if o[p - 1] == b'=' { p - 2 } else { p - 1 };
                    let pad2 = o[p - 1] == b'=';
                    if let Some(idx) = ALPHA.iter().position(|c| *c == o[q]) {
                        let mask = if pad2 { 15 } else { 3 };
                        let n = (idx & !mask) | ((idx + 1 + rng.below(mask as u64) as usize) & mask);
                        o[q] = ALPHA[n];
                    }
                    o
                }
                _ => { let mut k = k; k.push(b'A'); k }
            }
        }).or(Some(vec![6u8; 32])), "keyfile-base64-unused-bits"),
        12 => (pw, kf.map(|mut k| { if let Some(l) = k.last_mut() { *l ^= 1 << rng.below(8); } else { k.push(1); } k }).or(Some(vec![1u8; 33])), "keyfile-last-byte-flip"),
        13 => (pw, kf.map(|mut k| { if k.len() > 1 { k.pop(); } else { k.push(7); } k }).or(Some(vec![2u8; 31])), "keyfile-one-byte-shorter-or-longer"),
        0 => (pw.map(|p| format!("{} ", p)), kf, "trailing-blank"),
        1 => (pw.map(|p| format!("{}x", p)), kf, "append-char"),
        2 => (pw.map(|p| { let mut cs: Vec<char> = p.chars().collect(); if !cs.is_empty() { cs.remove(0); } else { cs.push('y'); } cs.into_iter().collect() }), kf, "delete-or-add-first-char"),
        3 => (pw.map(|p| if p.chars().any(|c| c.is_ascii_lowercase()) { p.to_uppercase() } else { format!("{}Z", p.to_lowercase()) }), kf, "case"),
        4 => (if pw.is_some() && kf.is_some() { None } else if pw.is_some() { Some(format!("{}\0", pw.unwrap())) } else { Some(String::new()) }, kf, "password-removed-nul-or-added-empty"),
        5 => (pw, if kf.is_some() { None } else { Some(rng.bytes(32)) }, "keyfile-removed-or-added"),
        6 => (pw, kf.map(|mut k| { if k.is_empty() { k.push(1) } else { let i = rng.below(k.len() as u64) as usize; k[i] ^= 1 << rng.below(8); } k }).or(Some(vec![0u8; 32])), "keyfile-bit-flip"),
        7 => (None, None, "empty-credentials"),
        // an empty key file is a key file: its presence changes the key
        18 => (pw, Some(vec![]), if c.kf.is_some() { "keyfile-emptied" } else { "empty-keyfile-added" }),
        // the database is keyed by one key file that begins with the bytes `make_key` hands over first as a wrong pick; the rest of
        // it is offered (as the corrected pick): a key holds the key file given last, not what was given so far
        19 if kf.as_ref().map(|k| k.starts_with(crate::keyop::DECOY) && crate::keyop::uses_decoy(&k[crate::keyop::DECOY.len()..])).unwrap_or(false) =>
            (pw, kf.map(|k| k[crate::keyop::DECOY.len()..].to_vec()), "keyfile-is-the-rest-after-the-wrong-pick"),
        19 => (pw, kf.map(|mut k| { k.insert(0, 0); k }).or(Some(vec![9u8; 32])), "keyfile-one-byte-in-front"),
        8 => (pw.clone().map(|p| p.chars().rev().collect::<String>() + "r"), kf, "reversed"),
        9 => (Some(String::new()), None, "empty-password-only"),
        10 => (pw.map(|p| p.replace('ä', "a\u{308}") + "\u{200b}"), kf, "nfd-or-zero-width"),
        _ => (kf.as_ref().map(|k| hex::encode(k)), pw.map(|p| p.into_bytes()), "swapped-roles"),
    }
}

/// C05: attacker mutations of a valid file, opened with the correct credentials
pub fn run_tamper(ctx: &mut Ctx) {
    let nfiles = ctx.count(12, 60);
    let per_file = if ctx.thorough { 1500 } else { 400 };
    for fi in 0..nfiles {
        let mut rng = ctx.rng.fork();
        let mut spec = gen_spec(&mut rng);
        if fi % 2 == 0 {
            spec.kdf = Kdf::Aes { rounds: 2, seed: rng.bytes(32) };
        }
        if fi % 4 == 1 {
            // a malleable configuration: stream cipher, no compression (an edit that is accepted shows as different content)
            spec.outer = Outer::ChaCha20;
            spec.iv = rng.bytes(12);
            spec.compress = false;
        }
        let creds = gen_creds(&mut rng);
        let comp = ref_composite(&creds.pw, &creds.kf).unwrap();
        let key = make_key(&creds.pw, &creds.kf);
        let mut layout = gen_layout(&mut rng, &spec);
        if fi % 3 == 0 {
            layout.block_sizes = vec![16, 16, 32];
        }
        let data = kdbx::build_kdbx4(&spec, &layout, &comp).unwrap();
        let orig = observe(&data, &key);
        let un = kdbx::unwrap_kdbx4(&data, &comp).unwrap();
        let hlen = un.header.len();
        // block boundaries
        let mut bounds = vec![hlen + 64];
        for b in &un.blocks {
            bounds.push(bounds.last().unwrap() + 36 + b);
        }
        let end = bounds.last().unwrap() + 36;
        assert_eq!(end, data.len());
        // keyless edits whose (unchanged) MAC agrees with the right one in its first or in its last byte only: a comparison
        // that does not look at all 32 bytes accepts them. The harness knows the key and searches the variants an attacker
        // would have to try blindly (about 256 each).
        if let Ok(keys) = kdbx::derive(&spec.kdf, &spec.master_seed, &comp) {
            let hk = kdbx::block_key(&keys.hmac_base, u64::MAX);
            let stored = data[hlen + 32..hlen + 64].to_vec();
            for (which, name) in [(31usize, "last"), (0usize, "first")] {
                for v in 0..=u16::MAX {
                    let mut h = data[..hlen].to_vec();
                    if h[8..10] == v.to_le_bytes() {
                        continue;
                    }
                    h[8..10].copy_from_slice(&v.to_le_bytes());
                    let mac = kdbx::hmac256(&hk, &[&h]);
                    if mac[which] == stored[which] && mac != stored {
                        let mut d = h.clone();
                        d.extend_from_slice(&kdbx::sha256(&[&h]));
                        d.extend_from_slice(&data[hlen + 32..]);
                        let what = format!("header-edit-mac-agrees-in-{}-byte", name);
                        emit_read(ctx, "tamper", &d, Some(&comp), &key, json!({"mutation": what, "original": orig}), vec![format!("mutation:{}", what)], true);
                        break;
                    }
                }
            }
            // the same for the first data block: flip one bit of its content
            if bounds.len() >= 2 && bounds[1] - bounds[0] > 36 {
                let (a, b) = (bounds[0], bounds[1]);
                let k0 = kdbx::block_key(&keys.hmac_base, 0);
                let stored = data[a..a + 32].to_vec();
                let chunk = data[a + 36..b].to_vec();
                for (which, name) in [(31usize, "last"), (0usize, "first")] {
                    'search: for i in 0..chunk.len().min(400) {
                        for bit in 0..8 {
                            let mut c = chunk.clone();
                            c[i] ^= 1 << bit;
                            let mac = kdbx::hmac256(&k0, &[&kdbx::le64(0), &kdbx::le32(c.len() as u32), &c]);
                            if mac[which] == stored[which] && mac != stored {
                                let mut d = data.clone();
                                d[a + 36 + i] ^= 1 << bit;
                                let what = format!("block-edit-mac-agrees-in-{}-byte", name);
                                emit_read(ctx, "tamper", &d, Some(&comp), &key, json!({"mutation": what, "original": orig}), vec![format!("mutation:{}", what)], true);
                                break 'search;
                            }
                        }
                    }
                }
            }
        }
        // compound edits: a data block is changed AND the terminator block is cut off (each alone is rejected)
        if bounds.len() >= 2 {
            for k in 0..4 {
                let (a, b) = (bounds[bounds.len() - 2], bounds[bounds.len() - 1]);
                let mut d = data[..b].to_vec();
                let off = if k % 2 == 0 { a + 36 + rng.below((b - a - 36).max(1) as u64) as usize } else { a + rng.below(32) as usize };
                if off < d.len() {
                    d[off] ^= 1 << rng.below(8);
                    let what = if k % 2 == 0 { "block-content-edited-and-terminator-dropped" } else { "block-mac-edited-and-terminator-dropped" };
                    emit_read(ctx, "tamper", &d, Some(&comp), &key, json!({"mutation": what, "original": orig}), vec![format!("mutation:{}", what)], true);
                }
            }
        }
        // a block's tag replaced by a constant (a "not yet computed" tag: all zero, all ones) together with an edit of its content
        for w in bounds.windows(2) {
            let (a, b) = (w[0], w[1]);
            if b <= a + 36 {
                continue;
            }
            for fill in [0x00u8, 0xff, 0x01] {
                let mut d = data.clone();
                for x in &mut d[a..a + 32] {
                    *x = fill;
                }
                let off = a + 36 + rng.below((b - a - 36) as u64) as usize;
                d[off] ^= 1 << rng.below(8);
                let what = format!("block-tag-filled-{:02x}-and-content-edited", fill);
                emit_read(ctx, "tamper", &d, Some(&comp), &key, json!({"mutation": what, "original": orig}), vec![format!("mutation:{}", what)], true);
            }
        }
        for mi in 0..per_file {
            let (m, what): (Vec<u8>, String) = match mi % 12 {
                0 | 1 | 2 | 3 => {
                    let mut d = data.clone();
                    let off = match mi % 4 { 0 => rng.below(hlen as u64) as usize, 1 => hlen + rng.below(64) as usize, _ => hlen + 64 + rng.below((data.len() - hlen - 64) as u64) as usize };
                    let x = (rng.range(1, 255)) as u8;
                    d[off] ^= x;
                    (d, format!("byte-substitution:{}", if off < hlen { "header" } else if off < hlen + 32 { "header-hash" } else if off < hlen + 64 { "header-hmac" } else { "blocks" }))
                }
                4 => (data[..rng.below(data.len() as u64) as usize].to_vec(), "truncate".into()),
                5 => {
                    // drop the terminator block / cut at a block boundary
                    let b = *rng.pick(&bounds);
                    (data[..b].to_vec(), "cut-at-block-boundary".into())
                }
                6 => {
                    let mut d = data.clone();
                    d.extend(rng.bytes_range(1, 40));
                    (d, "append".into())
                }
                7 if bounds.len() >= 3 => {
                    // swap two data blocks
                    let i = rng.below((bounds.len() - 2) as u64) as usize;
                    let (a, b, c) = (bounds[i], bounds[i + 1], bounds[i + 2]);
                    let mut d = data[..a].to_vec();
                    d.extend_from_slice(&data[b..c]);
                    d.extend_from_slice(&data[a..b]);
                    d.extend_from_slice(&data[c..]);
                    (d, "swap-blocks".into())
                }
                8 if bounds.len() >= 2 => {
                    let i = rng.below((bounds.len() - 1) as u64) as usize;
                    let (a, b) = (bounds[i], bounds[i + 1]);
                    let mut d = data[..b].to_vec();
                    d.extend_from_slice(&data[a..b]);
                    d.extend_from_slice(&data[b..]);
                    (d, "duplicate-block".into())
                }
                9 if bounds.len() >= 2 => {
                    let i = rng.below((bounds.len() - 1) as u64) as usize;
                    let (a, b) = (bounds[i], bounds[i + 1]);
                    let mut d = data[..a].to_vec();
                    d.extend_from_slice(&data[b..]);
                    (d, "drop-block".into())
                }
                10 => {
                    // edit a header field and recompute the (unkeyed) SHA-256
                    let mut h = data[..hlen].to_vec();
                    let off = 12 + rng.below((hlen - 12) as u64) as usize;
                    h[off] ^= (rng.range(1, 255)) as u8;
                    let mut d = h.clone();
                    d.extend_from_slice(&kdbx::sha256(&[&h]));
                    d.extend_from_slice(&data[hlen + 32..]);
                    (d, "header-edit-with-recomputed-sha256".into())
                }
                _ => {
                    let mut d = data.clone();
                    for _ in 0..rng.range(2, 6) {
                        let off = rng.below(d.len() as u64) as usize;
                        d[off] = rng.next() as u8;
                    }
                    (d, "multi-byte".into())
                }
            };
            if m == data || !kdf_within_budget(&m) {
                continue;
            }
            emit_read(ctx, "tamper", &m, Some(&comp), &key, json!({"mutation": what, "original": orig}), vec![format!("mutation:{}", what)], true);
        }
    }
    // sweep: every single-byte substitution at a few offsets inside an attachment of an uncompressed, stream-enciphered
    // payload (any accepted substitution would change the attachment): exercises the whole block MAC, not one byte of it
    {
        let mut rng = ctx.rng.fork();
        let mut spec = gen_spec(&mut rng);
        spec.kdf = Kdf::Aes { rounds: 1, seed: rng.bytes(32) };
        spec.outer = Outer::ChaCha20;
        spec.iv = rng.bytes(12);
        spec.compress = false;
        let content: Vec<u8> = (0..48u8).map(|i| 0xA0 ^ i).collect();
        spec.attachments = vec![(1, content.clone())];
        let creds = gen_creds(&mut rng);
        let comp = ref_composite(&creds.pw, &creds.kf).unwrap();
        let key = make_key(&creds.pw, &creds.kf);
        let mut layout = gen_layout(&mut rng, &spec);
        layout.block_sizes = vec![];
        let data = kdbx::build_kdbx4(&spec, &layout, &comp).unwrap();
        let orig = observe(&data, &key);
        let un = kdbx::unwrap_kdbx4(&data, &comp).unwrap();
        let ih = kdbx::inner_header(&spec, &layout);
        if let Some(p) = ih.windows(content.len()).position(|w| w == &content[..]) {
            let base = un.header.len() + 64 + 36 + p;
            let noffs = if ctx.thorough { 12 } else { 3 };
            for oi in 0..noffs {
                let off = base + (oi * 4) % content.len();
                for mask in 1..=255u8 {
                    let mut d = data.clone();
                    d[off] ^= mask;
                    emit_read(ctx, "tamper", &d, Some(&comp), &key, json!({"mutation": "attachment-byte-sweep", "original": orig}), vec!["mutation:attachment-byte-sweep".into()], true);
                }
            }
        }
    }
}

/// C06: arbitrary, truncated, structurally mutated and authenticated-but-malformed KDBX4 input
pub fn run_fuzz4(ctx: &mut Ctx) {
    let nfiles = ctx.count(20, 200);
    let per_file = if ctx.thorough { 1500 } else { 500 };
    for fi in 0..nfiles {
        let mut rng = ctx.rng.fork();
        let mut spec = gen_spec(&mut rng);
        if fi % 2 == 0 {
            spec.kdf = Kdf::Aes { rounds: 1, seed: rng.bytes(32) };
        }
        let creds = gen_creds(&mut rng);
        let comp = ref_composite(&creds.pw, &creds.kf).unwrap();
        let key = make_key(&creds.pw, &creds.kf);
        let layout = gen_layout(&mut rng, &spec);
        let data = kdbx::build_kdbx4(&spec, &layout, &comp).unwrap();
        for mi in 0..per_file {
            let (m, what): (Vec<u8>, String) = match mi % 10 {
                0 | 1 => (data[..rng.below(data.len() as u64 + 1) as usize].to_vec(), "prefix".into()),
                2 => {
                    // authenticated but malformed interior: rebuild with a broken payload
                    let mut s2 = spec.clone();
                    let how = rng.below(8);
                    let mut l2 = layout.clone();
                    if how == 7 {
                        // Argon2 parameters beyond 32 bits (KeePass stores 64-bit values; the library narrows them)
                        s2.kdf = Kdf::Argon2 { id: rng.chance(1, 2), version: 0x13, memory: (1u64 << 42) + 1024 * rng.range(16, 64), iterations: (1u64 << 32) + rng.range(1, 3), parallelism: 1, salt: rng.bytes(32) };
                        if rng.chance(1, 2) {
                            if let Kdf::Argon2 { ref mut memory, .. } = s2.kdf { *memory = 1024 * 64; }
                        }
                        match kdbx::build_kdbx4(&s2, &l2, &comp) {
                            Ok(d) => (d, "argon2-parameters-beyond-32-bits".to_string()),
                            Err(_) => (data.clone(), "unchanged".to_string()),
                        }
                    } else if how == 6 {
                        // an IV / nonce of a length the outer cipher does not take, in a header that authenticates under the key
                        s2.iv = rng.bytes_pick(&[0usize, 8, 12, 16, 24, 32]);
                        if s2.iv.len() == s2.outer.iv_len() {
                            s2.iv.push(0);
                        }
                        let header = kdbx::outer_header(&s2, &l2);
                        let keys = kdbx::derive(&s2.kdf, &s2.master_seed, &comp).unwrap();
                        let mut d = header.clone();
                        d.extend_from_slice(&kdbx::sha256(&[&header]));
                        d.extend_from_slice(&kdbx::hmac256(&kdbx::block_key(&keys.hmac_base, u64::MAX), &[&header]));
                        d.extend_from_slice(&kdbx::hmac_blocks(&keys.hmac_base, &rng.bytes(48), &[]));
                        (d, "authenticated-malformed:iv-length".to_string())
                    } else {
                    match how {
                        0 => s2.inner_key = rng.bytes_pick(&[0usize, 1, 31, 33]),
                        1 => s2.attachments.push((0, vec![])),
                        2 => s2.xml = s2.xml[..rng.below(s2.xml.len() as u64) as usize].to_vec(),
                        3 => l2.inner_order = vec![1, 3],
                        4 => l2.inner_order = vec![2, 3],
                        _ => s2.xml = rng.bytes(30),
                    }
                    let mut d = kdbx::build_kdbx4(&s2, &l2, &comp).unwrap();
                    if how == 1 {
                        // an attachment field of length zero (no flags byte): rebuild by hand
                        d = build_with_payload(&spec, &layout, &comp, |p| {
                            let mut q = vec![3u8, 0, 0, 0, 0];
                            q.extend_from_slice(p);
                            q
                        });
                    }
                    (d, format!("authenticated-malformed:{}", how))
                    }
                }
                3 => {
                    // inner header cut short / over-long inner field / no end marker, authenticated
                    let k = rng.below(4);
                    let d = build_with_payload(&spec, &layout, &comp, |p| match k {
                        0 => p[..rng.below(12).min(p.len() as u64) as usize].to_vec(),
                        1 => { let mut q = p.to_vec(); if q.len() > 4 { q[1] = 0xff; q[2] = 0xff; } q }
                        2 => vec![1, 2, 0, 0, 0, 3, 0],
                        _ => vec![],
                    });
                    (d, format!("authenticated-inner-header:{}", k))
                }
                4 => {
                    // header field length edits with recomputed SHA-256 (unauthenticated: stops at the HMAC or earlier)
                    let un_h = kdbx::outer_header(&spec, &layout);
                    let mut h = un_h.clone();
                    let off = 12 + rng.below((h.len() - 12) as u64) as usize;
                    h[off] = rng.next() as u8;
                    let mut d = h.clone();
                    d.extend_from_slice(&kdbx::sha256(&[&h]));
                    d.extend_from_slice(&data[un_h.len() + 32..]);
                    (d, "header-byte-with-recomputed-sha256".into())
                }
                5 => {
                    // variant dictionary surgery with recomputed SHA-256
                    let un_h = kdbx::outer_header(&spec, &layout);
                    let mut h = un_h.clone();
                    // find field 11
                    let mut pos = 12;
                    while pos + 5 <= h.len() {
                        let t = h[pos];
                        let l = rd32(&h[pos + 1..]) as usize;
                        if t == 11 {
                            let k = rng.below(5);
                            let vstart = pos + 5;
                            match k {
                                0 => { h[vstart] = 0x01; }                                  // version
                                1 => { let o = vstart + 2 + rng.below((l - 2) as u64) as usize; h[o] = rng.next() as u8; }
                                2 => { h[pos + 1] = 1; h[pos + 2] = 0; h[pos + 3] = 0; h[pos + 4] = 0; } // dictionary of 1 byte
                                3 => { h[pos + 1] = 0; h[pos + 2] = 0; h[pos + 3] = 0; h[pos + 4] = 0; } // empty dictionary
                                _ => { let o = vstart + l - 1; h[o] = 7; }                 // terminator
                            }
                            break;
                        }
                        pos += 5 + l;
                    }
                    let mut d = h.clone();
                    d.extend_from_slice(&kdbx::sha256(&[&h]));
                    d.extend_from_slice(&data[un_h.len() + 32..]);
                    (d, "variant-dictionary".into())
                }
                6 => {
                    // AES-KDF seed of the wrong length (well-formed otherwise)
                    let mut s2 = spec.clone();
                    s2.kdf = Kdf::Aes { rounds: 1, seed: rng.bytes_pick(&[0usize, 16, 31, 33]) };
                    let h = kdbx::outer_header(&s2, &layout);
                    let mut d = h.clone();
                    d.extend_from_slice(&kdbx::sha256(&[&h]));
                    d.extend_from_slice(&rng.bytes(64));
                    (d, "aes-kdf-seed-length".into())
                }
                7 => (rng.bytes_below(64), "random-bytes".into()),
                8 => {
                    let mut d = data[..12].to_vec();
                    d.extend(rng.bytes_below(80));
                    (d, "valid-signature-then-random".into())
                }
                _ => {
                    let mut d = data.clone();
                    let off = rng.below(d.len() as u64) as usize;
                    d[off] = rng.next() as u8;
                    (d, "byte-substitution".into())
                }
            };
            if !kdf_within_budget(&m) {
                continue;
            }
            let reaches_header = m.len() >= 12 && m[..4] == kdbx::SIG1;
            emit_read(ctx, "fuzz", &m, Some(&comp), &key, json!({"mutation": what}), vec![format!("mutation:{}", what)], reaches_header);
        }
    }
}

/// a file whose payload (inner header ‖ XML) is replaced by `f(payload)`, correctly encrypted and authenticated
fn build_with_payload(spec: &Kdbx4Spec, l: &Layout, composite: &[u8], mut f: impl FnMut(&[u8]) -> Vec<u8>) -> Vec<u8> {
    let header = kdbx::outer_header(spec, l);
    let keys = kdbx::derive(&spec.kdf, &spec.master_seed, composite).unwrap();
    let mut out = header.clone();
    out.extend_from_slice(&kdbx::sha256(&[&header]));
    out.extend_from_slice(&kdbx::hmac256(&kdbx::block_key(&keys.hmac_base, u64::MAX), &[&header]));
    let mut payload = kdbx::inner_header(spec, l);
    payload.extend_from_slice(&spec.xml);
    let payload = f(&payload);
    let compressed = if spec.compress { kdbx::gzip(&payload) } else { payload };
    let ct = kdbx::enc_outer(&spec.outer, &keys.master, &spec.iv, &compressed).unwrap();
    out.extend_from_slice(&kdbx::hmac_blocks(&keys.hmac_base, &ct, &l.block_sizes));
    out
}
