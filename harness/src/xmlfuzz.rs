//! C06 (XML level): files that authenticate under the key but whose inner XML is malformed: ill-typed element text,
//! short / over-range base64 time stamps, truncated documents, missing or duplicated elements, deep nesting.
use crate::frame::{self, err_class, gen_creds};
use crate::gendb::Gen;
use crate::kdbx::{self, Inner, Kdf};
use crate::keyop::{make_key, ref_composite};
use crate::panicx::catch;
use crate::rng::Rng;
use crate::saveop::tokenize;
use crate::xmlgen::{protected_len, Surface};
use crate::Ctx;
use keepass::Database;
use serde_json::json;

fn b64(b: &[u8]) -> String {
    use base64::Engine;
    base64::engine::general_purpose::STANDARD.encode(b)
}

/// leaves `<Name>text</Name>` of a document: (start of text, end of text, name)
fn leaves(xml: &str) -> Vec<(usize, usize, String)> {
    let b = xml.as_bytes();
    let mut out = Vec::new();
    let mut i = 0;
    while i < b.len() {
        if b[i] == b'<' && i + 1 < b.len() && b[i + 1].is_ascii_alphabetic() {
            if let Some(gt) = xml[i..].find('>') {
                let tag = &xml[i + 1..i + gt];
                let name = tag.split_whitespace().next().unwrap_or("").to_string();
                let ts = i + gt + 1;
                if !tag.ends_with('/') {
                    if let Some(lt) = xml[ts..].find('<') {
                        let close = format!("</{}>", name);
                        if xml[ts + lt..].starts_with(&close) && lt > 0 {
                            out.push((ts, ts + lt, name));
                        }
                    }
                }
                i = ts;
                continue;
            }
        }
        i += 1;
    }
    out
}

fn time_values(rng: &mut Rng) -> String {
    let secs: [i64; 19] = [
        // the ends of chrono::NaiveDateTime (year -262143 .. 262142) relative to 0001-01-01, one second inside and outside,
        // and a value inside the day below the minimum (the model's bound was one day early there: DESIGN 11.5)
        -8_272_465_632_000, -8_272_465_632_001, -8_272_465_700_000, 8_272_402_473_599, 8_272_402_473_600,
        0, 1, -1, i64::MAX, i64::MIN, i64::MAX / 1000, i64::MAX / 1000 + 1, -(i64::MAX / 1000), -(i64::MAX / 1000) - 1,
        8_210_298_412_799 + 62_135_596_800, // just inside chrono's maximum when added to 0001-01-01
        8_300_000_000_000, -8_400_000_000_000, 63_000_000_000, 1 << 40,
    ];
    match rng.below(10) {
        0 => b64(&rng.bytes_below(8)),                       // fewer than 8 bytes
        1 => b64(&rng.bytes_range(9, 16)),                   // more than 8 bytes
        2 | 3 | 4 | 5 => b64(&rng.pick(&secs).to_le_bytes()),
        6 => b64(&(rng.next() as i64).to_le_bytes()),
        7 => rng.pick(&["2020-13-01T00:00:00Z", "2021-02-30T10:00:00Z", "2020-01-01T24:00:00Z", "2020-01-01 00:00:00", "0001-01-01T00:00:00Z", "9999-12-31T23:59:59Z"]).to_string(),
        8 => rng.pick(&["", " ", "%%%%", "AAAA", "A", "===="]).to_string(),
        _ => b64(&(rng.range(0, 8_300_000_000_000) as i64).to_le_bytes()),
    }
}

fn generic_values(rng: &mut Rng) -> String {
    rng.pick(&[
        " ", "abc", "-1", "+7", "99999999999999999999999", "18446744073709551615", "18446744073709551616", "9223372036854775808", "-9223372036854775809",
        "True", "FALSE", "null", "yes", "AA==", "AAAAAAAAAAAAAAAAAAAAAA==", "AAAAAAAAAAAAAAAAAAAAAAA=", "%%%%", "#12", "#GGGGGG", "#1234567", "#12345",
        "#1\u{e9}234", "#12\u{e9}45", "#123\u{e9}5", "#\u{e9}2345", "#\u{20ac}345", "#12345\u{e9}", "\u{e9}123456", "#ＡＢ12", "é", "0x10", "1e3", "１２", "\u{feff}1",
    ])
    .to_string()
}

const TIME_TAGS: &[&str] = &[
    "LastModificationTime", "CreationTime", "LastAccessTime", "ExpiryTime", "LocationChanged", "DeletionTime", "DatabaseNameChanged", "DatabaseDescriptionChanged",
    "DefaultUserNameChanged", "MasterKeyChanged", "RecycleBinChanged", "EntryTemplatesGroupChanged", "SettingsChanged", "LastModified",
];

pub fn run(ctx: &mut Ctx) {
    let ndb = ctx.count(25, 200);
    let per = if ctx.thorough { 120 } else { 40 };
    for _ in 0..ndb {
        let mut rng = ctx.rng.fork();
        let db = {
            let mut g = Gen::new(&mut rng, false);
            g.database()
        };
        let mut spec = frame::gen_spec(&mut rng);
        spec.kdf = Kdf::Aes { rounds: 1, seed: rng.bytes(32) };
        spec.inner = Inner::Plain;
        spec.inner_key = vec![];
        spec.attachments = vec![];
        let creds = gen_creds(&mut rng);
        let comp = ref_composite(&creds.pw, &creds.kf).unwrap();
        let key = make_key(&creds.pw, &creds.kf);
        let ks = vec![0u8; protected_len(&db) + 64];
        let base = {
            let mut s = Surface { rng: &mut rng, vary: false, iso_times: false, keystream: ks.clone(), ks_off: 0, out: String::new() };
            s.document(&db);
            s.out
        };
        let mut oracle = Vec::new();
        for b in &db.meta.binaries.binaries {
            if b.compressed {
                let z = kdbx::gzip(&b.content);
                oracle.push(json!(["gunzip", hex::encode(&z), hex::encode(&b.content)]));
            }
        }
        let lv = leaves(&base);
        let tl: Vec<&(usize, usize, String)> = lv.iter().filter(|l| TIME_TAGS.contains(&l.2.as_str())).collect();
        for mi in 0..per {
            let (xml, what): (String, String) = match mi % 8 {
                0 | 1 | 2 if !tl.is_empty() => {
                    let l = *rng.pick(&tl);
                    let v = time_values(&mut rng);
                    (format!("{}{}{}", &base[..l.0], v, &base[l.1..]), format!("time-text:{}", l.2))
                }
                3 | 4 if !lv.is_empty() => {
                    // every third time a colour leaf when there is one (7-byte strings whose bytes are not all ASCII matter there)
                    let colours: Vec<&(usize, usize, String)> = lv.iter().filter(|l| l.2.ends_with("Color")).collect();
                    let l = if !colours.is_empty() && rng.chance(1, 3) { *rng.pick(&colours) } else { rng.pick(&lv) };
                    let v = if l.2.ends_with("Color") && rng.chance(2, 3) {
                        rng.pick(&["#1\u{e9}234", "#12\u{e9}45", "#123\u{e9}5", "#\u{e9}2345", "#\u{20ac}345", "#12345\u{e9}", "\u{e9}123456", "#12345", "#1234567", "#GGGGGG", "#+12345", "# 12345", "123456#"]).to_string()
                    } else if rng.chance(1, 3) { time_values(&mut rng) } else { generic_values(&mut rng) };
                    (format!("{}{}{}", &base[..l.0], v, &base[l.1..]), format!("leaf-text:{}", l.2))
                }
                5 => {
                    let mut cut = rng.below(base.len() as u64) as usize;
                    while !base.is_char_boundary(cut) {
                        cut -= 1;
                    }
                    (base[..cut].to_string(), "truncated-document".into())
                }
                6 if !lv.is_empty() => {
                    // drop the text of a leaf altogether, or drop the whole element
                    let l = rng.pick(&lv);
                    if rng.chance(1, 2) {
                        (format!("{}{}", &base[..l.0], &base[l.1..]), format!("empty-leaf:{}", l.2))
                    } else {
                        let start = l.0 - l.2.len() - 2;
                        let end = l.1 + l.2.len() + 3;
                        (format!("{}{}", &base[..start], &base[end..]), format!("dropped-leaf:{}", l.2))
                    }
                }
                _ => {
                    // an element where text is expected / a group nested moderately deep / a stray close tag
                    match rng.below(3) {
                        0 if !lv.is_empty() => {
                            let l = rng.pick(&lv);
                            (format!("{}<X>1</X>{}", &base[..l.0], &base[l.1..]), format!("element-in-leaf:{}", l.2))
                        }
                        1 => {
                            let depth = 40;
                            let open: String = (0..depth).map(|_| "<Group><UUID>AAAAAAAAAAAAAAAAAAAAAA==</UUID><Name>d</Name>").collect();
                            let close: String = (0..depth).map(|_| "</Group>").collect();
                            (base.replacen("</Group></Root>", &format!("{}{}</Group></Root>", open, close), 1), "nested-groups:40".into())
                        }
                        _ => (base.replacen("</Meta>", "</Meta></Stray>", 1), "stray-close-tag".into()),
                    }
                }
            };
            spec.xml = xml.clone().into_bytes();
            let layout = frame::gen_layout(&mut rng, &spec);
            let data = kdbx::build_kdbx4(&spec, &layout, &comp).unwrap();
            let real = catch(|| Database::parse(&data, key.clone()));
            let reopen = match &real {
                Ok(Ok(_)) => "ok".to_string(),
                Ok(Err(e)) => format!("err:{}", err_class(e)),
                Err(p) => format!("panic:{}", p.site()),
            };
            ctx.emit(json!({
                "op": "xml", "sub": "fuzz", "events": tokenize(xml.as_bytes()), "keystream": hex::encode(&ks), "oracle": oracle,
                "now": 0, "tags": [format!("mutation:{}", what.split(':').next().unwrap())], "nontrivial": true,
                "extra": {"mutation": what},
                "checks": {},
                "real": {"save": "n/a", "reopen": reopen},
            }));
        }
    }
}
