//! C18: Group::iter / get / get_mut / entries / groups against `KpModel/Db/Tree.lean`.
use crate::rng::Rng;
use crate::Ctx;
use keepass::db::{Entry, Group, Node, NodeRef, NodeRefMut, Value};
use serde_json::{json, Value as J};
use uuid::Uuid;

const TITLES: &[&str] = &["A", "B", "C", "", "a", "Root", "General", "é", "A "];

fn id_of(u: &Uuid) -> u64 {
    u.as_u128() as u64
}

struct Gen<'a> {
    rng: &'a mut Rng,
    next_id: u64,
    budget: usize,
    /// some trees carry copied nodes (a UUID twice) and nodes without a UUID of their own (nil): traversal and lookup do not
    /// look at UUIDs
    repeat_ids: bool,
}

impl<'a> Gen<'a> {
    fn fresh(&mut self) -> Uuid {
        if self.repeat_ids && self.next_id > 1 && self.rng.chance(1, 4) {
            // the first node (the root) has id 0 = nil; later ones may repeat any earlier id, nil included
            return Uuid::from_u128(self.rng.below(self.next_id) as u128);
        }
        let id = self.next_id;
        self.next_id += 1;
        Uuid::from_u128(id as u128)
    }

    fn entry(&mut self) -> (Entry, J) {
        let mut e = Entry::default();
        e.uuid = self.fresh();
        let id = id_of(&e.uuid);
        let title: Option<String> = match self.rng.below(8) {
            0 => None,
            1 => {
                // byte-valued title: get_title() is None
                e.fields
                    .insert("Title".into(), Value::Bytes(b"A".to_vec()));
                None
            }
            2 => {
                // protected, not UTF-8: get_title() is None
                e.fields.insert(
                    "Title".into(),
                    Value::Protected(secstr::SecStr::new(vec![0xff, 0xfe, 0x41])),
                );
                None
            }
            3 => {
                let t = self.rng.pick(TITLES).to_string();
                e.fields.insert(
                    "Title".into(),
                    Value::Protected(secstr::SecStr::new(t.as_bytes().to_vec())),
                );
                Some(t)
            }
            _ => {
                let t = self.rng.pick(TITLES).to_string();
                e.fields.insert("Title".into(), Value::Unprotected(t.clone()));
                Some(t)
            }
        };
        // a decoy field that must not be mistaken for the title
        if self.rng.chance(1, 4) {
            e.fields
                .insert("title".into(), Value::Unprotected("A".into()));
        }
        (e, json!({"e": [id, title]}))
    }

    fn group(&mut self, depth: usize, max_depth: usize, max_fan: usize) -> (Group, J) {
        let mut g = Group::default();
        g.uuid = self.fresh();
        g.name = self.rng.pick(TITLES).to_string();
        let id = id_of(&g.uuid);
        let mut cs = Vec::new();
        let fan = if depth >= max_depth {
            0
        } else {
            self.rng.below(max_fan as u64 + 1) as usize
        };
        for _ in 0..fan {
            if self.budget == 0 {
                break;
            }
            self.budget -= 1;
            if self.rng.chance(1, 2) && depth + 1 <= max_depth {
                let (c, j) = self.group(depth + 1, max_depth, max_fan);
                g.children.push(Node::Group(c));
                cs.push(j);
            } else {
                let (c, j) = self.entry();
                g.children.push(Node::Entry(c));
                cs.push(j);
            }
        }
        let j = json!({"g": [id, g.name.clone(), cs]});
        (g, j)
    }
}

fn gen_path(rng: &mut Rng, root: &Group) -> Vec<String> {
    // walk existing titles most of the time, sometimes derail
    let mut path = Vec::new();
    let mut cur: Option<&Group> = Some(root);
    let len = rng.below(5) as usize;
    for _ in 0..len {
        let derail = rng.chance(1, 6);
        match cur {
            Some(g) if !g.children.is_empty() && !derail => {
                let c = &g.children[rng.below(g.children.len() as u64) as usize];
                match c {
                    Node::Group(cg) => {
                        path.push(cg.name.clone());
                        cur = Some(cg);
                    }
                    Node::Entry(e) => {
                        path.push(e.get_title().unwrap_or("zz").to_string());
                        // keep walking from the same group sometimes: entry in the middle of a path
                        if rng.chance(1, 2) {
                            cur = None;
                        }
                    }
                }
            }
            _ => {
                path.push(rng.pick(TITLES).to_string());
            }
        }
    }
    path
}

fn noderef_id(n: Option<NodeRef>) -> J {
    match n {
        None => J::Null,
        Some(NodeRef::Group(g)) => json!(id_of(&g.uuid)),
        Some(NodeRef::Entry(e)) => json!(id_of(&e.uuid)),
    }
}

fn listing(g: &Group, out: &mut Vec<J>) {
    let es: Vec<u64> = g.entries().iter().map(|e| id_of(&e.uuid)).collect();
    let gs: Vec<u64> = g.groups().iter().map(|e| id_of(&e.uuid)).collect();
    out.push(json!([id_of(&g.uuid), es, gs]));
    for c in &g.children {
        if let Node::Group(cg) = c {
            listing(cg, out);
        }
    }
}

pub fn run(ctx: &mut Ctx) {
    let count = ctx.count(2000, 50000);
    let npaths = if ctx.thorough { 50 } else { 20 };
    for i in 0..count {
        let mut rng = ctx.rng.fork();
        let (max_depth, max_fan, budget) = match i % 4 {
            0 => (2, 3, 8),
            1 => (4, 4, 30),
            2 => (6, 6, 120),
            _ => (6, 2, 40),
        };
        let (mut root, tree_j) = {
            let repeat_ids = rng.chance(1, 3);
            let mut g = Gen {
                rng: &mut rng,
                next_id: 0,
                budget,
                repeat_ids,
            };
            g.group(0, max_depth, max_fan)
        };
        let paths: Vec<Vec<String>> = (0..npaths).map(|_| gen_path(&mut rng, &root)).collect();

        let iter_ids: Vec<u64> = root
            .iter()
            .map(|n| match n {
                NodeRef::Group(g) => id_of(&g.uuid),
                NodeRef::Entry(e) => id_of(&e.uuid),
            })
            .collect();
        let gets: Vec<J> = paths
            .iter()
            .map(|p| {
                let pr: Vec<&str> = p.iter().map(|s| s.as_str()).collect();
                noderef_id(root.get(&pr))
            })
            .collect();
        let getmuts: Vec<J> = paths
            .iter()
            .map(|p| {
                let pr: Vec<&str> = p.iter().map(|s| s.as_str()).collect();
                match root.get_mut(&pr) {
                    None => J::Null,
                    Some(NodeRefMut::Group(g)) => json!(id_of(&g.uuid)),
                    Some(NodeRefMut::Entry(e)) => json!(id_of(&e.uuid)),
                }
            })
            .collect();
        let mut lst = Vec::new();
        listing(&root, &mut lst);
        let nontrivial = {
            // repeated title among siblings or entry/group title clash, and some path of length >= 2
            let mut rep = false;
            for n in root.iter() {
                if let NodeRef::Group(g) = n {
                    let mut seen = std::collections::HashSet::new();
                    for c in &g.children {
                        let t = match c {
                            Node::Group(cg) => Some(cg.name.clone()),
                            Node::Entry(e) => e.get_title().map(|s| s.to_string()),
                        };
                        if let Some(t) = t {
                            if !seen.insert(t) {
                                rep = true;
                            }
                        }
                    }
                }
            }
            rep && paths.iter().any(|p| p.len() >= 2)
        };
        ctx.emit(json!({
            "op": "tree",
            "tree": tree_j,
            "paths": paths,
            "nontrivial": nontrivial,
            "real": {"iter": iter_ids, "get": gets, "getmut": getmuts, "listing": lst},
        }));
    }
}
